"""Extractor + weaver: builds one Verus file per unit from /repo's working tree.

A unit is described by a python module in /verif/contracts/<unit>.py (see
contracts/budget.py for the reference example).  Nothing here invents code:
function/type texts are copied byte-for-byte from the source file and then only
the listed rewrite rules touch them; every applied rule instance is logged.
"""
import glob
import hashlib
import importlib.util
import os
import re

from . import rustlex as R

VERIF = os.path.dirname(os.path.dirname(os.path.abspath(__file__)))
CONTRACTS = os.path.join(VERIF, 'contracts')


class Undecided(Exception):
    """Raised when the extraction cannot be carried out faithfully (exit 2)."""


def resolve_src(repo, src):
    if src.startswith('dep:'):
        pat = os.path.expanduser('~/.cargo/registry/src/*/' + src[4:])
        hits = sorted(glob.glob(pat))
        if len(hits) != 1:
            raise Undecided('dependency source %s: %d matches' % (src, len(hits)))
        return hits[0]
    return os.path.join(repo, src)


_src_cache = {}


def load_src(path):
    if path not in _src_cache:
        try:
            s = open(path, encoding='utf-8').read()
        except OSError as e:
            raise Undecided('cannot read %s: %s' % (path, e))
        try:
            _src_cache[path] = (s, R.lex(s))
        except R.LexError as e:
            raise Undecided('cannot tokenise %s: %s' % (path, e))
    return _src_cache[path]


def clear_cache():
    _src_cache.clear()


# ----------------------------------------------------------------------------
# rewrite rules on an extracted text (token based where structure matters)
# ----------------------------------------------------------------------------

def cfg_eval(expr_toks, features):
    """Evaluate a cfg predicate given as token texts. Supports any/all/not/feature/test/
    debug_assertions/target_arch. Returns bool."""
    pos = [0]

    def peek():
        return expr_toks[pos[0]] if pos[0] < len(expr_toks) else None

    def eat(x=None):
        t = peek()
        if x is not None and t != x:
            raise Undecided('cfg parse: expected %r got %r in %r' % (x, t, expr_toks))
        pos[0] += 1
        return t

    def pred():
        t = eat()
        if t in ('any', 'all', 'not'):
            eat('(')
            vals = []
            while peek() != ')':
                vals.append(pred())
                if peek() == ',':
                    eat(',')
            eat(')')
            if t == 'any':
                return any(vals)
            if t == 'all':
                return all(vals)
            if len(vals) != 1:
                raise Undecided('cfg not() arity')
            return not vals[0]
        if t == 'feature':
            eat('=')
            s = eat()
            return s.strip('"') in features
        if t == 'test':
            return False
        if t == 'kani':
            return False
        if t == 'debug_assertions':
            return True
        if t in ('target_arch', 'target_os', 'target_family', 'target_pointer_width'):
            eat('=')
            s = eat().strip('"')
            return (t, s) in (('target_arch', 'x86_64'), ('target_os', 'linux'),
                              ('target_family', 'unix'), ('target_pointer_width', '64'))
        if t == 'doc' or t == 'docsrs':
            return False
        raise Undecided('cfg predicate not understood: %r' % (expr_toks,))

    v = pred()
    if pos[0] != len(expr_toks):
        raise Undecided('cfg trailing tokens: %r' % (expr_toks,))
    return v


def _attr_groups(text, toks):
    """Yield (start_tok_idx, end_tok_idx, name, inner_tok_texts) for each #[...] / #![...]"""
    i = 0
    out = []
    while i < len(toks):
        t = toks[i]
        if t.kind == 'punct' and t.text == '#':
            j = i + 1
            if j < len(toks) and toks[j].text == '!':
                j += 1
            if j < len(toks) and toks[j].text == '[':
                k = R.match_close(toks, j)
                inner = toks[j + 1:k]
                name = inner[0].text if inner else ''
                out.append((i, k, name, [x.text for x in inner]))
                i = k + 1
                continue
        i += 1
    return out


def _attributed_extent(toks, k):
    """toks[k] is the first token after an attribute. Return index of the last token
    of the thing the attribute applies to (item, statement, field, arm, expression)."""
    # skip further attributes
    j = k
    n = len(toks)
    while j < n:
        t = toks[j]
        if t.kind == 'punct' and t.text in ('(', '['):
            j = R.match_close(toks, j) + 1
            continue
        if t.kind == 'punct' and t.text == '{':
            c = R.match_close(toks, j)
            # block-like: ends here, unless followed by else / method chain / , / ;
            nx = toks[c + 1] if c + 1 < n else None
            if nx is not None and nx.kind == 'id' and nx.text == 'else':
                j = c + 1
                continue
            if nx is not None and nx.kind == 'punct' and nx.text in (',', ';'):
                return c + 1
            if nx is not None and nx.kind == 'punct' and nx.text in ('.', '?', '=>', '|'):
                j = c + 1
                continue
            if nx is not None and nx.kind == 'id' and nx.text == 'if':
                j = c + 1   # match-arm guard after a struct pattern
                continue
            return c
        if t.kind == 'punct' and t.text in (';', ','):
            return j
        if t.kind == 'punct' and t.text in (')', ']', '}'):
            return j - 1
        j += 1
    return n - 1


def strip_comments(text):
    toks = R.lex(text, keep_comments=True)
    out, last = [], 0
    for t in toks:
        if t.kind == 'comment':
            out.append(text[last:t.start])
            last = t.end
    out.append(text[last:])
    return ''.join(out)


def rule_R0_attrs(text, features, log):
    """Strip comments (doc comments are attributes) and attributes; drop cfg-disabled nodes for
    the unit's feature set."""
    text = strip_comments(text)
    changed = True
    guard = 0
    while changed:
        guard += 1
        if guard > 500:
            raise Undecided('R0 does not converge')
        changed = False
        toks = R.lex(text)
        for (a, b, name, inner) in _attr_groups(text, toks):
            if name == 'cfg':
                # inner: cfg ( pred )
                predtoks = inner[2:-1]
                val = cfg_eval(predtoks, features)
                if val:
                    text = text[:toks[a].start] + text[toks[b].end:]
                    log.append(('R0', 'cfg true stripped: %s' % ' '.join(inner)))
                else:
                    if b + 1 >= len(toks):
                        raise Undecided('R0: dangling cfg attribute')
                    e = _attributed_extent(toks, b + 1)
                    text = text[:toks[a].start] + text[toks[e].end:]
                    log.append(('R0', 'cfg false node dropped: %s' % ' '.join(inner)))
                changed = True
                break
            elif name == 'cfg_attr':
                text = text[:toks[a].start] + text[toks[b].end:]
                log.append(('R0', 'attr stripped: %s' % inner[0]))
                changed = True
                break
            else:
                text = text[:toks[a].start] + text[toks[b].end:]
                log.append(('R0', 'attr stripped: %s' % name))
                changed = True
                break
    return text


def rule_R17_visibility(text, log, label):
    """drop `pub`, `pub(crate)`, `pub(super)`, `pub(in path)`: the unit is a single module, and
    visibility has no run-time meaning (Verus otherwise refuses contracts over private fields)."""
    toks = R.lex(text)
    cuts = []
    i = 0
    while i < len(toks):
        t = toks[i]
        if t.kind == 'id' and t.text == 'pub':
            end = t.end
            if i + 1 < len(toks) and toks[i + 1].text == '(' and i + 2 < len(toks) and toks[i + 2].text in ('crate', 'super', 'in', 'self'):
                c = R.match_close(toks, i + 1)
                end = toks[c].end
                i = c
            cuts.append((t.start, end))
        i += 1
    if not cuts:
        return text
    out, last = [], 0
    for a, b in cuts:
        out.append(text[last:a])
        last = b
        # swallow one following space
        if last < len(text) and text[last] == ' ':
            last += 1
    out.append(text[last:])
    log.append(('R17', '%s: visibility qualifiers dropped x%d' % (label, len(cuts))))
    return ''.join(out)


def _if_extent(toks, i):
    """toks[i] is `if`. Returns (body_open, body_close, else_kw or None, end_idx) where end_idx is
    the index of the last token of the whole if/else expression."""
    j = i + 1
    while j < len(toks):
        x = toks[j]
        if x.kind == 'punct' and x.text in ('(', '['):
            j = R.match_close(toks, j) + 1
            continue
        if x.kind == 'punct' and x.text == '{':
            break
        if x.kind == 'punct' and x.text in ('=>', ')', ']', '}', ';', ','):
            return None   # `if` of a match-arm / matches! guard, not an if expression
        j += 1
    if j >= len(toks):
        return None
    bo = j
    bc = R.match_close(toks, bo)
    if bc + 1 < len(toks) and toks[bc + 1].kind == 'id' and toks[bc + 1].text == 'else':
        e = bc + 1
        if toks[e + 1].kind == 'id' and toks[e + 1].text == 'if':
            _bo, _bc, _e, end = _if_extent(toks, e + 1)
            return bo, bc, e, end
        if toks[e + 1].kind == 'punct' and toks[e + 1].text == '{':
            return bo, bc, e, R.match_close(toks, e + 1)
        raise Undecided('unexpected token after else')
    return bo, bc, None, bc


def rule_R39_single_slice_pattern(text, log, label):
    """`let [P] = E else { B };`  (slice patterns, unsupported by Verus) ->
    `let __sl = E; if __sl.len() != 1 { B } let P = &__sl[0] else { B };`
    A one-element slice pattern matches exactly the slices of length one and binds P to that element; B diverges
    (it is the else block of a let-else), so running it at either place is the same.  Only this single-element form
    is rewritten; any other slice pattern is left alone (and rejected by the verifier => UNDECIDED)."""
    n = 0
    while True:
        toks = R.lex(text)
        hit = None
        for i, t in enumerate(toks[:-1]):
            if t.kind == 'id' and t.text == 'let' and toks[i + 1].kind == 'punct' and toks[i + 1].text == '[':
                close = R.match_close(toks, i + 1)
                # exactly one top-level element (a trailing comma is allowed)
                depth, commas, last_sig = 0, [], None
                for j in range(i + 2, close):
                    tj = toks[j]
                    if tj.kind == 'punct' and tj.text in ('(', '[', '{'):
                        depth += 1
                    elif tj.kind == 'punct' and tj.text in (')', ']', '}'):
                        depth -= 1
                    elif tj.kind == 'punct' and tj.text == ',' and depth == 0:
                        commas.append(j)
                if len(commas) > 1 or (len(commas) == 1 and commas[0] != close - 1):
                    continue
                pat_end = commas[0] if commas else close
                if not (toks[close + 1].kind == 'punct' and toks[close + 1].text == '='):
                    continue
                # expression up to `else {` at depth 0
                j = close + 2
                d = 0
                els = None
                while j < len(toks):
                    tj = toks[j]
                    if tj.kind == 'punct' and tj.text in ('(', '[', '{'):
                        j = R.match_close(toks, j)
                    elif tj.kind == 'id' and tj.text == 'else':
                        els = j
                        break
                    elif tj.kind == 'punct' and tj.text == ';':
                        break
                    j += 1
                if els is None or not (toks[els + 1].kind == 'punct' and toks[els + 1].text == '{'):
                    continue
                bclose = R.match_close(toks, els + 1)
                if not (toks[bclose + 1].kind == 'punct' and toks[bclose + 1].text == ';'):
                    continue
                hit = (i, close, pat_end, els, bclose)
                break
        if hit is None:
            break
        i, close, pat_end, els, bclose = hit
        pat = text[toks[i + 2].start:toks[pat_end - 1].end]
        expr = text[toks[close + 2].start:toks[els - 1].end]
        blk = text[toks[els + 1].start:toks[bclose].end]
        n += 1
        var = '__sl%d' % n
        repl = 'let %s = %s; if %s.len() != 1 %s let %s = &%s[0] else %s;' % (var, expr, var, blk, pat, var, blk)
        text = text[:toks[i].start] + repl + text[toks[bclose + 1].end:]
        log.append(('R39', '%s: one-element slice pattern desugared' % label))
        if n > 20:
            raise Undecided('%s: R39 does not converge' % label)
    return text


def rule_R22_let_chains(text, log, label):
    """`if A && let P = E && B { T } else { F }`  (let chains, unsupported by Verus) ->
    nested `if A { match E { P => { if B { T } else { F } } _ => { F } } } else { F }`.
    Each condition is still evaluated once, left to right, and exactly one of T / F runs."""
    guard = 0
    while True:
        guard += 1
        if guard > 200:
            raise Undecided('%s: R22 does not converge' % label)
        toks = R.lex(text)
        target = None
        for i in range(len(toks) - 1, -1, -1):
            t = toks[i]
            if t.kind == 'id' and t.text == 'if':
                ext = _if_extent(toks, i)
                if ext is None:
                    continue
                bo, bc, e, end = ext
                # split condition at top-level &&
                parts, cur, j = [], [], i + 1
                while j < bo:
                    x = toks[j]
                    if x.kind == 'punct' and x.text in ('(', '['):
                        c = R.match_close(toks, j)
                        cur.extend(range(j, c + 1))
                        j = c + 1
                        continue
                    if x.kind == 'punct' and x.text == '&&':
                        parts.append(cur)
                        cur = []
                        j += 1
                        continue
                    cur.append(j)
                    j += 1
                parts.append(cur)
                has_let = [bool(pp) and toks[pp[0]].kind == 'id' and toks[pp[0]].text == 'let' for pp in parts]
                if any(has_let) and len(parts) > 1:
                    target = (i, bo, bc, e, end, parts, has_let)
                    break
        if target is None:
            return text
        i, bo, bc, e, end, parts, has_let = target
        body = text[toks[bo].start:toks[bc].end]
        if e is not None:
            else_txt = text[toks[e + 1].start:toks[end].end]
            if not else_txt.lstrip().startswith('{'):
                else_txt = '{ ' + else_txt + ' }'
        else:
            else_txt = '{}'

        def part_text(pp):
            return text[toks[pp[0]].start:toks[pp[-1]].end]

        def build(k):
            if k == len(parts):
                return body
            pt = part_text(parts[k])
            if has_let[k]:
                m = re.match(r'let\s+(.*?)\s*=\s*(?!=)(.*)$', pt, re.S)
                if not m:
                    raise Undecided('%s: R22 cannot split let part %r' % (label, pt))
                pat, ex = m.group(1), m.group(2)
                return '{ match %s { %s => %s, _ => %s } }' % (ex, pat, build(k + 1), else_txt)
            return '{ if %s %s else %s }' % (pt, build(k + 1), else_txt)

        new = build(0)
        text = text[:toks[i].start] + new + text[toks[end].end:]
        log.append(('R22', '%s: let chain with %d parts desugared' % (label, len(parts))))


def rule_R5_closure_underscore(text, log):
    n = len(re.findall(r'\|\s*_\s*\|', text))
    if n:
        text = re.sub(r'\|\s*_\s*\|', '|_e|', text)
        log.append(('R5', 'closure param _ -> _e x%d' % n))
    return text


def rule_R33_lift_nested_fns(text, log, label):
    """Remove `fn` items nested inside a function body (they are extracted as items of their own, by path
    `fn outer/fn inner`, and placed at module level: a nested fn cannot capture, so this is scope-only)."""
    toks = R.lex(text)
    kw, bo, arrow, where = fn_signature_parts(text, toks)
    out, last, n = [], 0, 0
    j = bo + 1
    end = R.match_close(toks, bo)
    while j < end:
        t = toks[j]
        if t.kind == 'id' and t.text == 'fn' and toks[j - 1].kind == 'punct' and toks[j - 1].text in ('{', '}', ';'):
            k2, b2, _a, _w = fn_signature_parts(text[t.start:], R.lex(text[t.start:]))
            sub = R.lex(text[t.start:])
            close = R.match_close(sub, b2)
            out.append(text[last:t.start])
            last = t.start + sub[close].end
            n += 1
            # skip tokens inside the removed item
            while j < end and toks[j].start < last:
                j += 1
            continue
        if t.kind == 'id' and t.text in ('struct', 'impl', 'enum') and toks[j - 1].kind == 'punct' and toks[j - 1].text in ('{', '}', ';'):
            # nested type definition / impl block: find its body brace (or the `;` of a unit struct)
            k = j + 1
            while k < end and not (toks[k].kind == 'punct' and toks[k].text in ('{', ';')):
                if toks[k].kind == 'punct' and toks[k].text in ('(', '['):
                    k = R.match_close(toks, k)
                k += 1
            stop = R.match_close(toks, k) if toks[k].text == '{' else k
            out.append(text[last:t.start])
            last = toks[stop].end
            n += 1
            j = stop + 1
            continue
        j += 1
    out.append(text[last:])
    if n:
        log.append(('R33', '%s: %d nested item(s) (fn / struct / impl) lifted out of the body' % (label, n)))
    return ''.join(out)


def rule_R16_mut_self(text, log, label):
    """`fn f(mut self, ..) { B }` -> `fn f(self, ..) { let mut this = self; B[self := this] }`
    (Verus does not support `mut self`; this is an alpha-renaming of the by-value receiver)."""
    m = re.search(r'(fn\s+\w+\s*\(\s*)mut\s+self(\s*[,)])', text)
    if not m:
        return text
    toks = R.lex(text)
    kw, bo, arrow, where = fn_signature_parts(text, toks)
    body_start = toks[bo].end
    head = text[:body_start]
    body = text[body_start:]
    head = head[:m.start()] + m.group(1) + 'self' + m.group(2) + head[m.end():]
    # rename self -> this in the body (token based: identifiers only)
    btoks = R.lex(body)
    out, last = [], 0
    n = 0
    for t in btoks:
        if t.kind == 'id' and t.text == 'self':
            out.append(body[last:t.start])
            out.append('this')
            last = t.end
            n += 1
    out.append(body[last:])
    log.append(('R16', '%s: `mut self` -> `let mut this = self` (%d uses renamed)' % (label, n)))
    return head + ' let mut this = self;' + ''.join(out)


def _find_loops(text, toks):
    """Return list of (kw_idx, body_open_idx) for while/loop/for loops in order."""
    res = []
    for i, t in enumerate(toks):
        if t.kind != 'id' or t.text not in ('while', 'loop', 'for'):
            continue
        if t.text == 'for':
            # exclude `for<'a>` and `impl X for Y`
            nx = toks[i + 1] if i + 1 < len(toks) else None
            if nx is not None and nx.text == '<':
                continue
            # need an `in` before the body
            j = i + 1
            ok = False
            while j < len(toks):
                x = toks[j]
                if x.kind == 'punct' and x.text in ('(', '['):
                    j = R.match_close(toks, j) + 1
                    continue
                if x.kind == 'id' and x.text == 'in':
                    ok = True
                    break
                if x.kind == 'punct' and x.text in ('{', ';'):
                    break
                j += 1
            if not ok:
                continue
        # header ends at first '{' at depth 0 (parens/brackets), skipping closures' blocks is not handled
        j = i + 1
        while j < len(toks):
            x = toks[j]
            if x.kind == 'punct' and x.text in ('(', '['):
                j = R.match_close(toks, j) + 1
                continue
            if x.kind == 'punct' and x.text == '{':
                break
            j += 1
        if j >= len(toks):
            raise Undecided('loop header without body')
        res.append((i, j))
    return res


def rule_for_to_while(text, ordinal, kind, log, label):
    """R1/R2/R3/R11: rewrite the loop number `ordinal` (1-based, in source order, counting all
    loops) which must be a `for`, into an indexed while. kind:
      'iter_mut'      for P in &mut E            (R1)
      'enumerate_mut' for (I,P) in E.iter_mut().enumerate()   (R2)
      'slice'         for P in E  /  for P in &E / E.iter()   (R3)  -> let P = &E[__i] (or copy with kind 'slice_copy')
      'chars'         for C in S.chars()         (R11)
      'range'         for I in A..B              (R14)
    """
    toks = R.lex(text)
    loops = _find_loops(text, toks)
    if ordinal > len(loops):
        # the loop is gone (a change removed it): nothing to rewrite; its invariants are dropped below and the
        # function's ensures clauses decide on the new body
        log.append(('R1', '%s: loop %d no longer exists; loop rewrite skipped' % (label, ordinal)))
        return text
    kw, bo = loops[ordinal - 1]
    if toks[kw].text != 'for':
        log.append(('R1', '%s: loop %d is no longer a `for` loop; loop rewrite skipped' % (label, ordinal)))
        return text
    # find `in`
    j = kw + 1
    while not (toks[j].kind == 'id' and toks[j].text == 'in'):
        if toks[j].kind == 'punct' and toks[j].text in ('(', '['):
            j = R.match_close(toks, j)
        j += 1
    pat = text[toks[kw + 1].start:toks[j - 1].end]
    expr = text[toks[j + 1].start:toks[bo - 1].end].strip()
    iv = '__i%d' % ordinal
    nv = '__n%d' % ordinal
    if kind == 'iter_mut':
        m = re.match(r'^&mut\s+(.*)$', expr, re.S)
        if not m:
            m2 = re.match(r'^(.*)\.iter_mut\(\)$', expr, re.S)
            if not m2:
                raise Undecided('%s: R1 pattern mismatch: %r' % (label, expr))
            e = m2.group(1)
        else:
            e = m.group(1)
        head = 'let mut %s: usize = 0; while %s < %s.len()' % (iv, iv, e)
        first = 'let %s = &mut %s[%s]; %s += 1;' % (pat, e, iv, iv)
        rule = 'R1'
    elif kind == 'enumerate_mut':
        m = re.match(r'^(.*)\.iter_mut\(\)\.enumerate\(\)$', expr, re.S)
        pm = re.match(r'^\(\s*([A-Za-z_0-9]+)\s*,\s*(.*)\)$', pat, re.S)
        if not m or not pm:
            raise Undecided('%s: R2 pattern mismatch: %r / %r' % (label, pat, expr))
        e = m.group(1)
        head = 'let mut %s: usize = 0; while %s < %s.len()' % (iv, iv, e)
        first = 'let %s = %s; let %s = &mut %s[%s]; %s += 1;' % (pm.group(1), iv, pm.group(2), e, iv, iv)
        rule = 'R2'
    elif kind in ('slice', 'slice_copy', 'enumerate', 'enumerate_copy'):
        e = expr
        m = re.match(r'^&\s*(.*)$', e, re.S)
        if m:
            e = m.group(1)
        m = re.match(r'^(.*)\.iter\(\)(\.enumerate\(\))?$', e, re.S)
        if m:
            e = m.group(1)
            if bool(m.group(2)) != kind.startswith('enumerate'):
                raise Undecided('%s: R3 enumerate mismatch' % label)
        elif kind.startswith('enumerate'):
            raise Undecided('%s: R3 enumerate mismatch' % label)
        head = 'let mut %s: usize = 0; while %s < %s.len()' % (iv, iv, e)
        amp = '' if kind.endswith('copy') else '&'
        if kind.startswith('enumerate'):
            pm = re.match(r'^\(\s*([A-Za-z_0-9]+)\s*,\s*(.*)\)$', pat, re.S)
            if not pm:
                raise Undecided('%s: R3 enumerate pattern mismatch' % label)
            first = 'let %s = %s; let %s = %s%s[%s]; %s += 1;' % (pm.group(1), iv, pm.group(2), amp, e, iv, iv)
        else:
            if pat.strip().startswith('&') and amp == '&':
                # `for &x in slice`: the element is copied out
                first = 'let %s = %s[%s]; %s += 1;' % (pat.strip()[1:], e, iv, iv)
            else:
                first = 'let %s = %s%s[%s]; %s += 1;' % (pat, amp, e, iv, iv)
        rule = 'R3'
    elif kind == 'chars':
        m = re.match(r'^(.*)\.chars\(\)$', expr, re.S)
        if not m:
            raise Undecided('%s: R11 pattern mismatch: %r' % (label, expr))
        e = m.group(1)
        head = 'let %s = %s.unicode_len(); let mut %s: usize = 0; while %s < %s' % (nv, e, iv, iv, nv)
        first = 'let %s = %s.get_char(%s); %s += 1;' % (pat, e, iv, iv)
        rule = 'R11'
    elif kind == 'char_indices':
        # R30: for (I, C) in S.char_indices()  ->  indexed while over the collected (offset, char) pairs
        m = re.match(r'^(.*)\.char_indices\(\)$', expr, re.S)
        if not m:
            raise Undecided('%s: R30 pattern mismatch: %r' % (label, expr))
        e = m.group(1)
        vv = '__v%d' % ordinal
        head = 'let %s = str_char_indices(%s); let mut %s: usize = 0; while %s < %s.len()' % (vv, e, iv, iv, vv)
        first = 'let %s = %s[%s]; %s += 1;' % (pat, vv, iv, iv)
        rule = 'R30'
    elif kind == 'split_lf':
        m = re.match(r"^(.*)\.split\('\\n'\)$", expr, re.S)
        if not m:
            raise Undecided('%s: R27 pattern mismatch: %r' % (label, expr))
        e = m.group(1)
        vv = '__v%d' % ordinal
        head = 'let %s = str_split_lf(%s); let mut %s: usize = 0; while %s < %s.len()' % (vv, e, iv, iv, vv)
        first = 'let %s = %s[%s]; %s += 1;' % (pat, vv, iv, iv)
        rule = 'R27'
    elif kind == 'chunks_exact_enumerate':
        # R29: for (I, C) in E.chunks_exact(N).enumerate()  ->  indexed while over the E.len()/N full chunks,
        # C = slice_subrange(E, i*N, i*N+N)   (chunks_exact ignores a trailing remainder, so does this)
        m = re.match(r'^(.*)\.chunks_exact\((\d+)\)\.enumerate\(\)$', expr, re.S)
        pm = re.match(r'^\(\s*([A-Za-z_0-9]+)\s*,\s*([A-Za-z_0-9]+)\s*\)$', pat, re.S)
        if not m or not pm:
            raise Undecided('%s: R29 pattern mismatch: %r / %r' % (label, pat, expr))
        e, n = m.group(1), m.group(2)
        head = 'let %s: usize = %s.len() / %s; let mut %s: usize = 0; while %s < %s' % (nv, e, n, iv, iv, nv)
        first = 'let %s = %s; let %s: &[u8] = slice_subrange(%s.as_slice(), %s * %s, %s * %s + %s); %s += 1;' % (
            pm.group(1), iv, pm.group(2), e, iv, n, iv, n, n, iv)
        rule = 'R29'
    elif kind == 'range':
        m = re.match(r'^(.*?)\.\.(.*)$', expr, re.S)
        if not m or m.group(2).startswith('='):
            raise Undecided('%s: R14 pattern mismatch: %r' % (label, expr))
        head = 'let %s = %s; let mut %s = %s; while %s < %s' % (nv, m.group(2).strip(), iv, m.group(1).strip(), iv, nv)
        first = 'let %s = %s; %s += 1;' % (pat, iv, iv)
        rule = 'R14'
    else:
        raise Undecided('unknown loop rewrite kind %r' % kind)
    new = (text[:toks[kw].start] + head + ' ' + text[toks[bo].start:toks[bo].end] + ' ' + first +
           text[toks[bo].end:])
    log.append((rule, '%s: loop %d `for %s in %s` -> indexed while' % (label, ordinal, pat, expr)))
    return new


def apply_regex_rewrites(text, rewrites, log, label, rule='R8'):
    for rw in rewrites:
        pat, repl, count = rw[0], rw[1], rw[2] if len(rw) > 2 else None
        rname = rw[3] if len(rw) > 3 else rule
        new, n = re.subn(pat, repl, text)
        if count is not None and n != count:
            if n == 0:
                # the construct this rewrite translates is absent from this tree (a change removed or re-spelled it):
                # nothing to translate; if an unsupported spelling is left behind the verifier rejects the function
                # and the item is isolated (UNDECIDED), otherwise the obligations decide on the new text
                log.append((rname, '%s: rewrite %r has nothing to rewrite in this tree' % (label, pat)))
                continue
            raise Undecided('%s: rewrite %r expected %s matches, found %d' % (label, pat, count, n))
        if n:
            log.append((rname, '%s: %r -> %r x%d' % (label, pat, repl, n)))
        text = new
    return text


# ----------------------------------------------------------------------------
# weaving contracts into a function text
# ----------------------------------------------------------------------------

class Clause:
    def __init__(self, label, text, props=None, kind='ensures'):
        self.label, self.text, self.props, self.kind = label, text.strip().rstrip(','), props, kind


def norm_clauses(lst, kind, default_props):
    out = []
    for c in lst or []:
        if isinstance(c, str):
            raise Undecided('clause without label: %r' % c)
        label, text = c[0], c[1]
        props = list(c[2]) if len(c) > 2 else list(default_props)
        out.append(Clause(label, text, props, kind))
    return out


MARK = '/*@%d@*/'


class Weaver:
    def __init__(self):
        self.marks = []   # list of dict(id, item, label, kind, props)

    def mark(self, item, clause):
        mid = len(self.marks)
        self.marks.append(dict(id=mid, item=item, label=clause.label, kind=clause.kind,
                               props=clause.props, text=clause.text))
        return MARK % mid

    def clause_block(self, item, kw, clauses, indent='    '):
        if not clauses:
            return ''
        s = indent + kw + '\n'
        for c in clauses:
            s += indent + '    ' + self.mark(item, c) + ' (' + c.text + '),\n'
        return s


def fn_signature_parts(text, toks):
    """text is one fn item. returns (kw_idx, body_open_idx, arrow_idx or None, where_idx or None)"""
    kw = None
    for i, t in enumerate(toks):
        if t.kind == 'id' and t.text == 'fn':
            kw = i
            break
    if kw is None:
        raise Undecided('not a fn item')
    j = kw + 1
    arrow = None
    where = None
    angle = 0
    while j < len(toks):
        x = toks[j]
        if x.kind == 'punct' and x.text in ('(', '['):
            j = R.match_close(toks, j) + 1
            continue
        if x.kind == 'punct' and x.text == '->' and arrow is None:
            arrow = j
        if x.kind == 'id' and x.text == 'where':
            where = j
        if x.kind == 'punct' and x.text == '{':
            return kw, j, arrow, where
        if x.kind == 'punct' and x.text == ';':
            return kw, j, arrow, where
        j += 1
    raise Undecided('fn without body')


def weave_fn(w, item_id, text, spec, log):
    """spec: dict with requires/ensures/loops/proofs/ret/decreases/trusted"""
    props = spec.get('props', [])
    # proofs first (anchors are literal texts in the original body)
    plist = list(spec.get('proofs', []) or [])
    starts = [p for p in plist if p.get('at') == 'start']
    others = [p for p in plist if p.get('at') != 'start']
    # several insertions at the same anchor must come out in listing order: "after" entries are
    # therefore woven last-to-first
    afters = [p for p in others if 'after' in p or 'after_loop' in p or 'after_re' in p]
    rest = [p for p in others if not ('after' in p or 'after_loop' in p or 'after_re' in p)]
    plist = rest + list(reversed(afters)) + list(reversed(starts))
    for p in plist:
        if p.get('at') == 'start':
            toks0 = R.lex(text)
            _kw, _bo, _a, _w = fn_signature_parts(text, toks0)
            at = toks0[_bo].end
            c = Clause(p.get('label', 'proof'), '', props, 'proof')
            if p.get('ghost'):
                text = text[:at] + ' ' + w.mark(item_id, c) + ' ' + p['text'].strip() + ' ' + text[at:]
            else:
                text = text[:at] + ' ' + w.mark(item_id, c) + ' proof { ' + p['text'].strip() + ' } ' + text[at:]
            continue
        if 'after_loop' in p:
            toksl = R.lex(text)
            lps = _find_loops(text, toksl)
            k = p['after_loop']
            if k < 1 or k > len(lps):
                raise Undecided('%s: proof after_loop %d: function has %d loops' % (item_id, k, len(lps)))
            close = R.match_close(toksl, lps[k - 1][1])
            at = toksl[close].end
            c = Clause(p.get('label', 'proof'), '', props, 'proof')
            if p.get('ghost'):
                # a ghost `let` that has to stay in scope for the whole body (erased by Verus)
                text = text[:at] + ' ' + w.mark(item_id, c) + ' ' + p['text'].strip() + ' ' + text[at:]
            else:
                text = text[:at] + ' ' + w.mark(item_id, c) + ' proof { ' + p['text'].strip() + ' } ' + text[at:]
            continue
        anchor = p.get('after') or p.get('before')
        nth = p.get('nth', 1)
        if p.get('after_re') or p.get('before_re'):
            # anchor given as a regular expression (tolerates edits inside the anchored statement)
            anchor = p.get('after_re') or p.get('before_re')
            ms = list(re.finditer(anchor, text))
            if len(ms) < nth and p.get('optional') and not p.get('label'):
                # an unlabelled proof HINT whose statement is absent from this tree: skipped (the obligations decide)
                log.append(('R10', '%s: optional proof hint /%s/ has no anchor in this tree; skipped' % (item_id, anchor)))
                continue
            if len(ms) < nth:
                raise Undecided('%s: proof anchor /%s/ (occurrence %d) not found' % (item_id, anchor, nth))
            at = ms[nth - 1].end() if p.get('after_re') else ms[nth - 1].start()
            c = Clause(p.get('label', 'proof'), p['text'] if p.get('label') else '', p.get('props', props), 'proof')
            if p.get('ghost'):
                block = ' ' + w.mark(item_id, c) + ' ' + p['text'].strip() + ' '
            else:
                block = ' ' + w.mark(item_id, c) + ' proof { ' + p['text'].strip() + ' } '
            text = text[:at] + block + text[at:]
            continue
        idxs = [m.start() for m in re.finditer(re.escape(anchor), text)]
        for alt in p.get('alt', []):
            # alternative spelling of the same anchor statement (e.g. with / without `mut` on a binding)
            if not idxs:
                anchor = alt
                idxs = [m.start() for m in re.finditer(re.escape(anchor), text)]
        if len(idxs) < nth:
            raise Undecided('%s: proof anchor %r (occurrence %d) not found' % (item_id, anchor, nth))
        if p.get('unique', True) and 'nth' not in p and len(idxs) != 1:
            raise Undecided('%s: proof anchor %r is ambiguous (%d matches)' % (item_id, anchor, len(idxs)))
        at = idxs[nth - 1] + (len(anchor) if 'after' in p else 0)
        c = Clause(p.get('label', 'proof'), p['text'] if p.get('label') else '', p.get('props', props), 'proof')
        if p.get('ghost'):
            block = ' ' + w.mark(item_id, c) + ' ' + p['text'].strip() + ' '
        else:
            block = ' ' + w.mark(item_id, c) + ' proof { ' + p['text'].strip() + ' } '
        text = text[:at] + block + text[at:]
    toks = R.lex(text)
    # loops (from last to first so offsets stay valid)
    loops = _find_loops(text, toks)
    lspecs = spec.get('loops', {}) or {}
    # resolve each specified loop to an actual loop: by header pattern when given (robust against
    # loops being added / removed), else by ordinal
    resolved = {}
    for k in lspecs:
        hdr = lspecs[k].get('header')
        if hdr:
            cands = [i for i, (kw, bo) in enumerate(loops)
                     if re.search(hdr, re.sub(r'\s+', ' ', text[toks[kw].start:toks[bo].start]).strip())]
            if len(cands) == 1:
                resolved[k] = cands[0]
            elif len(cands) == 0:
                log.append(('R10', '%s: loop %d (header /%s/) no longer exists: its invariants are dropped' % (item_id, k, hdr)))
            else:
                if k - 1 in cands:
                    resolved[k] = k - 1
                else:
                    raise Undecided('%s: loop %d header /%s/ is ambiguous' % (item_id, k, hdr))
        else:
            if k < 1 or k > len(loops):
                log.append(('R10', '%s: loop %d no longer exists (function has %d loops); its invariants are dropped' % (item_id, k, len(loops))))
                continue
            resolved[k] = k - 1
    if len(set(resolved.values())) != len(resolved):
        raise Undecided('%s: two loop specifications resolve to the same loop' % item_id)
    for k in sorted(resolved, key=lambda kk: resolved[kk], reverse=True):
        kw, bo = loops[resolved[k]]
        ls = lspecs[k]
        s = '\n'
        inv = norm_clauses(ls.get('invariant'), 'invariant', props)
        for c in inv:
            c.label = 'loop%d/%s' % (k, c.label)
        if ls.get('invariant_except_break'):
            ieb = norm_clauses(ls['invariant_except_break'], 'invariant', props)
            for c in ieb:
                c.label = 'loop%d/%s' % (k, c.label)
            s += w.clause_block(item_id, 'invariant_except_break', ieb, '        ')
        s += w.clause_block(item_id, ls.get('invariant_kw', 'invariant'), inv, '        ')
        if ls.get('ensures'):
            le = norm_clauses(ls['ensures'], 'invariant', props)
            for c in le:
                c.label = 'loop%d/%s' % (k, c.label)
            s += w.clause_block(item_id, 'ensures', le, '        ')
        if ls.get('decreases'):
            c = Clause('loop%d/decreases' % k, ls['decreases'], props, 'decreases')
            s += '        decreases ' + w.mark(item_id, c) + ' ' + ls['decreases'].strip() + ',\n'
        text = text[:toks[bo].start] + s + '    ' + text[toks[bo].start:]
    toks = R.lex(text)
    kw, bo, arrow, where = fn_signature_parts(text, toks)
    req = norm_clauses(spec.get('requires'), 'requires', props)
    ens = norm_clauses(spec.get('ensures'), 'ensures', props)
    contract = '\n'
    contract += w.clause_block(item_id, 'requires', req)
    contract += w.clause_block(item_id, 'ensures', ens)
    if spec.get('decreases'):
        c = Clause('decreases', spec['decreases'], props, 'decreases')
        contract += '    decreases ' + w.mark(item_id, c) + ' ' + spec['decreases'].strip() + ',\n'
    if spec.get('no_unwind', False):
        contract += '    no_unwind\n'
    # R4: name the result
    sig_end = toks[bo].start
    if arrow is not None:
        ret_start = toks[arrow].end
        ret_end = toks[where].start if where is not None else sig_end
        rty = text[ret_start:ret_end].strip()
        rname = spec.get('ret', 'r')
        newsig = text[:ret_start] + ' (' + rname + ': ' + rty + ') ' + text[ret_end:sig_end]
        log.append(('R4', '%s: result named %s' % (item_id, rname)))
    else:
        newsig = text[:sig_end]
    attrs = ''
    body = text[sig_end:]
    if spec.get('trusted'):
        # assumed contract: only the signature is kept (it must still match the repository's),
        # the body is not examined by the verifier at all
        attrs = '#[verifier::external_body] '
        body = '{ unimplemented!() }'
        log.append(('R21', '%s: trusted - body dropped, contract assumed' % item_id))
    if spec.get('attrs'):
        attrs += spec['attrs'] + ' '
    head = newsig[:toks[0].start] + attrs + newsig[toks[0].start:]
    return head.rstrip() + contract + body


def weave_impl(w, item_id, text, spec, log, metas, base_meta):
    """Weave contracts into the methods of a whole `impl` item (needed for trait impls, which must
    stay one block).  spec['impl_methods'] = {name: fn-spec}.  Every method becomes an item of its own
    for obligation accounting (id `<item_id>::<method>`)."""
    toks = R.lex(text)
    bo = None
    for i, t in enumerate(toks):
        if t.kind == 'punct' and t.text == '{':
            bo = i
            break
    bc = R.match_close(toks, bo)
    methods = [x for x in R.items_in(text, toks, bo + 1, bc) if x.kind == 'fn']
    im = dict(spec.get('impl_methods', {}))
    pieces = []
    last = toks[bo].end
    head = text[:last] + '\n' + (spec.get('trait_extra', '') or '') + '\n'
    canaries = []
    for m in methods:
        a, b = toks[m.first].start, toks[m.last].end
        pieces.append(text[last:a])
        mt = text[a:b]
        ms = im.pop(m.name, None)
        mid = item_id + '::' + m.name
        if ms is not None:
            ms = dict(ms)
            ms.setdefault('props', spec.get('props', []))
            for lr in ms.get('loop_rewrites', []) or []:
                mt = rule_for_to_while(mt, lr[0], lr[1], log, mid)
            mt = apply_regex_rewrites(mt, ms.get('rewrites', []), log, mid, 'R8')
            raw_m = mt
            woven = weave_fn(w, mid, mt, ms, log)
            pieces.append('/*@ITEM_BEGIN %s@*/\n%s\n/*@ITEM_END %s@*/' % (mid, woven, mid))
            mm = dict(base_meta)
            mm.update(id=mid, kind='fn', props=ms.get('props', []), trusted=bool(ms.get('trusted')),
                      verified=not ms.get('trusted'), method_of=item_id)
            metas.append(mm)
            canaries.append((mid, raw_m, ms))
        else:
            pieces.append(mt)
        last = b
    if im:
        raise Undecided('%s: impl methods not found: %s' % (item_id, sorted(im)))
    pieces.append(text[last:])
    return head + ''.join(pieces), canaries


def weave_trait(w, item_id, text, spec, log):
    """Weave contracts into the method declarations of a trait item.
    spec['trait_methods'] = {name: fn-spec}; spec['trait_extra'] = ghost members added at the top."""
    toks = R.lex(text)
    # body of the trait
    bo = None
    for i, t in enumerate(toks):
        if t.kind == 'punct' and t.text == '{':
            bo = i
            break
    bc = R.match_close(toks, bo)
    methods = [x for x in R.items_in(text, toks, bo + 1, bc) if x.kind == 'fn']
    tm = dict(spec.get('trait_methods', {}))
    pieces = []
    last = toks[bo].end
    out_head = text[:last] + '\n' + (spec.get('trait_extra', '') or '') + '\n'
    for m in methods:
        a, b = toks[m.first].start, toks[m.last].end
        pieces.append(text[last:a])
        mt = text[a:b]
        ms = tm.pop(m.name, None)
        if ms is not None:
            ms = dict(ms)
            ms.setdefault('props', spec.get('props', []))
            mt = weave_fn(w, item_id + '::' + m.name, mt, ms, log)
        pieces.append(mt)
        last = b
    if tm:
        raise Undecided('%s: trait methods not found: %s' % (item_id, sorted(tm)))
    pieces.append(text[last:])
    return out_head + ''.join(pieces)


# ----------------------------------------------------------------------------
# unit assembly
# ----------------------------------------------------------------------------

def load_unit(name):
    import sys
    if 'contracts_types' not in sys.modules:
        sp = importlib.util.spec_from_file_location('contracts_types', os.path.join(CONTRACTS, '_types.py'))
        md = importlib.util.module_from_spec(sp)
        sp.loader.exec_module(md)
        sys.modules['contracts_types'] = md
    path = os.path.join(CONTRACTS, name + '.py')
    spec = importlib.util.spec_from_file_location('contracts_' + name, path)
    mod = importlib.util.module_from_spec(spec)
    spec.loader.exec_module(mod)
    return mod


def impl_header_for(src, toks, path):
    """Return the source header text (e.g. `impl<'a> Foo<'a>`) of the innermost impl segment."""
    segs = [s.strip() for s in path.split('/')]
    last_impl = None
    for i, s in enumerate(segs):
        if s.startswith('impl '):
            last_impl = i
    if last_impl is None or last_impl != len(segs) - 2:
        return None
    inner = R.locate(src, toks, path)
    # the enclosing impl is the impl item whose token range contains the located item
    best = None
    for it in R.items_in(src, toks, 0, len(toks), any_depth=True):
        if it.kind == 'impl' and it.body_open is not None and it.body_open < inner.first and inner.last < it.last:
            if best is None or it.body_open > best.body_open:
                best = it
    if best is None:
        return None
    return src[toks[best.kw].start:toks[best.body_open].start].strip()


class Generated:
    pass


def _isolated_spec(spec):
    """The same item kept only as a signature + (assumed) contract: used when its body cannot be brought into the
    verifier after a change (unsupported construct, lost anchor, rewrite pattern no longer matching)."""
    s2 = dict(spec)
    s2['trusted'] = True
    for k in ('proofs', 'loops', 'loop_rewrites', 'lift_nested_fns', 'canaries', 'decreases', 'attrs'):
        s2.pop(k, None)
    for k in ('rewrites', 'pre_rewrites'):
        if s2.get(k):
            s2[k] = [tuple([rw[0], rw[1], None] + list(rw[3:])) for rw in s2[k]]
    return s2


def build_unit(unit, repo, variant=None, isolate=()):
    """Returns Generated with .text, .items (metadata), .marks, .log, .line_of_mark.
    variant: None | ('vacuity',) -> adds __vac copies and canary copies."""
    clear_cache()
    w = Weaver()
    log = []
    features = set(getattr(unit, 'FEATURES', []))
    parts = []
    parts.append('// GENERATED by /verif/vc/weave.py from %s -- do not edit\n' % repo)
    parts.append('#![allow(unused_imports, unused_variables, unused_mut, dead_code, unused_assignments, unreachable_code, unreachable_patterns, non_snake_case, unused_parens, unused_braces)]\n')
    parts.append('use vstd::prelude::*;\n')
    for u in getattr(unit, 'USES', []):
        parts.append(u + '\n')
    parts.append('verus! {\n')
    for f in getattr(unit, 'PRELUDE', []):
        p = os.path.join(CONTRACTS, f)
        parts.append('// ---- prelude: %s ----\n' % f)
        parts.append(open(p).read().rstrip() + '\n')
    items_meta = []
    canary_parts = []
    isolated_ids = []
    for spec in unit.ITEMS:
      if spec is None:
          continue
      if spec.get('harness_only'):
          # a function whose very signature is outside the verifier's subset (generic over std / num-traits traits): nothing is woven,
          # the bounded harness of vc/bounded.py is its only check (vc/run.py runs it on every check)
          continue
      _iid = spec.get('id') or _default_id(spec['path'])
      if _iid in isolate:
          spec = _isolated_spec(spec)
          isolated_ids.append(_iid)
      try:
        srcpath = resolve_src(repo, spec['src'])
        src, toks = load_src(srcpath)
        path = spec['path']
        item_id = spec.get('id') or path.split('/')[-1].split(' ', 1)[1].strip() if False else None
        try:
            it = R.locate(src, toks, path)
        except KeyError as e:
            if spec.get('optional'):
                # a helper that the tree under check may not have (yet / any more): nothing is woven for it and the
                # obligations of its callers decide on their own
                log.append(('R0', '%s: optional item absent from this tree; skipped' % path))
                continue
            raise Undecided(str(e))
        except ValueError as e:
            raise Undecided(str(e))
        except R.LexError as e:
            raise Undecided('lex: %s' % e)
        raw = R.item_text(src, toks, it)
        a, b = R.item_lines(src, toks, it)
        item_id = spec.get('id') or _default_id(path)
        ilog = []
        text = raw
        text = rule_R0_attrs(text, set(spec.get('features', features)), ilog)
        kind = it.kind
        if spec.get('fragment'):
            # a statement fragment of a function that cannot be lifted as a whole (generic over serde
            # traits): the matched source text is placed verbatim inside the given wrapper function
            ms = list(re.finditer(spec['fragment'], text, re.S if 'S' in spec.get('fragment_flags', '') else 0))
            nth = spec.get('fragment_nth')
            if nth and len(ms) == spec.get('fragment_count', len(ms)) and len(ms) >= nth:
                ms = [ms[nth - 1]]      # the n-th of several identical statements (e.g. a block that the source repeats)
            if len(ms) != 1:
                if _iid in isolate:
                    # the statement fragment cannot even be located in this tree: nothing can be woven for the item
                    # (its obligations stay UNDECIDED; the rest of the unit is still decided)
                    log.append(('R26', '%s: fragment not found (%d matches); item left out' % (item_id, len(ms))))
                    continue
                raise Undecided('%s: fragment pattern matches %d times' % (item_id, len(ms)))
            frag = ms[0].group(0)
            text = spec['wrapper'].replace('{FRAG}', frag)
            ilog.append(('R26', '%s: statement fragment lifted into wrapper fn (%d chars)' % (item_id, len(frag))))
            kind = 'fn'
        if spec.get('pre_rewrites'):
            text = apply_regex_rewrites(text, spec['pre_rewrites'], ilog, item_id, 'R8')
        for lr in spec.get('loop_rewrites', []) or []:
            text = rule_for_to_while(text, lr[0], lr[1], ilog, item_id)
        text = rule_R5_closure_underscore(text, ilog)
        text = rule_R17_visibility(text, ilog, item_id)
        if kind == 'fn' and spec.get('lift_nested_fns'):
            text = rule_R33_lift_nested_fns(text, ilog, item_id)
        if kind in ('fn', 'impl'):
            text = rule_R39_single_slice_pattern(text, ilog, item_id)
            text = rule_R22_let_chains(text, ilog, item_id)
        if kind == 'fn':
            text = rule_R16_mut_self(text, ilog, item_id)
        text = apply_regex_rewrites(text, getattr(unit, 'SUBST', []), ilog, item_id, 'R6')
        text = apply_regex_rewrites(text, spec.get('rewrites', []), ilog, item_id, 'R8')
        meta = dict(id=item_id, path=path, src=spec['src'], lines=[a, b], kind=kind,
                    sha256=hashlib.sha256(raw.encode()).hexdigest(), props=spec.get('props', []),
                    trusted=bool(spec.get('trusted')), rewrites=['%s %s' % x for x in ilog],
                    verified=(kind == 'fn' and not spec.get('trusted') and not spec.get('spec_only')))
        if kind == 'fn':
            woven = weave_fn(w, item_id, text, spec, ilog)
            hdr = spec.get('impl_header')
            if spec.get('fragment') and hdr is None:
                hdr = ''
            if hdr is None:
                hdr = impl_header_for(src, toks, path)
                if hdr is not None:
                    hdr = apply_regex_rewrites(hdr, getattr(unit, 'SUBST', []), [], item_id, 'R6')
                    hdr = apply_regex_rewrites(hdr, spec.get('impl_rewrites', []), ilog, item_id, 'R8')
            body = woven
            if spec.get('rename'):
                body = _rename_fn(body, spec['rename'])
                ilog.append(('R9', '%s: renamed to %s' % (item_id, spec['rename'])))
            if hdr:
                chunk = '%s {\n%s\n}\n' % (hdr, body)
            else:
                chunk = body + '\n'
            parts.append('// ---- item %s  (%s:%d-%d) ----\n' % (item_id, spec['src'], a, b))
            parts.append('/*@ITEM_BEGIN %s@*/\n' % item_id)
            parts.append(chunk)
            parts.append('/*@ITEM_END %s@*/\n' % item_id)
            if variant == 'vacuity' and meta['verified']:
                for cn in _canary_variants(w, item_id, text, spec, ilog):
                    cname, ctext = cn
                    if hdr:
                        canary_parts.append('/*@ITEM_BEGIN %s@*/\n%s {\n%s\n}\n/*@ITEM_END %s@*/\n' % (cname, hdr, ctext, cname))
                    else:
                        canary_parts.append('/*@ITEM_BEGIN %s@*/\n%s\n/*@ITEM_END %s@*/\n' % (cname, ctext, cname))
        elif kind == 'impl':
            base = dict(meta)
            hdr_end = text.index('{')
            hdr = text[:hdr_end]
            if spec.get('impl_header'):
                text = spec['impl_header'] + ' ' + text[hdr_end:]
            woven, cans = weave_impl(w, item_id, text, spec, ilog, items_meta, base)
            parts.append('// ---- item %s  (%s:%d-%d) ----\n' % (item_id, spec['src'], a, b))
            parts.append(woven + '\n')
            meta['verified'] = False
            if variant == 'vacuity':
                hdr2 = woven[:woven.index('{')]
                if ' for ' in hdr2:
                    # trait impls cannot take extra methods: canary copies go to an inherent impl
                    hdr2 = re.sub(r'impl(<[^>]*>)?\s+.*?\s+for\s+', lambda mm: 'impl%s ' % (mm.group(1) or ''), hdr2, count=1)
                for (mid, raw_m, ms) in cans:
                    if ms.get('trusted'):
                        continue
                    for cn in _canary_variants(w, mid, raw_m, ms, ilog):
                        cname, ctext = cn
                        canary_parts.append('/*@ITEM_BEGIN %s@*/\n%s {\n%s\n}\n/*@ITEM_END %s@*/\n' % (cname, hdr2.strip(), ctext, cname))
        else:
            if kind == 'trait' and (spec.get('trait_methods') or spec.get('trait_extra')):
                text = weave_trait(w, item_id, text, spec, ilog)
            if spec.get('derive'):
                text = spec['derive'] + '\n' + text
            hdr = impl_header_for(src, toks, path)
            if hdr is not None:
                hdr = rule_R17_visibility(hdr, [], item_id)
                hdr = apply_regex_rewrites(hdr, getattr(unit, 'SUBST', []), [], item_id, 'R6')
                text = '%s {\n%s\n}' % (hdr, text)
            parts.append('// ---- item %s  (%s:%d-%d) ----\n' % (item_id, spec['src'], a, b))
            parts.append(text + '\n')
        meta['rewrites'] = ['%s %s' % x for x in ilog]
        meta['isolated'] = _iid in isolate
        items_meta.append(meta)
        log.extend(ilog)
      except Undecided as e:
        # remember which item could not be processed: the caller may retry with that item isolated
        if not hasattr(e, 'item'):
            e.item = _iid
            e.isolatable = bool(not spec.get('trusted') and ('ensures' in spec or 'requires' in spec or 'proofs' in spec or 'loops' in spec))
        raise
    for f in getattr(unit, 'POSTLUDE', []):
        p = os.path.join(CONTRACTS, f)
        parts.append('// ---- postlude: %s ----\n' % f)
        parts.append(open(p).read().rstrip() + '\n')
    parts.extend(canary_parts)
    parts.append('} // verus!\nfn main() {}\n')
    text = ''.join(parts)
    g = Generated()
    g.text = text
    g.items = items_meta
    g.marks = w.marks
    g.log = log
    g.unit = unit
    g.isolated = list(isolated_ids)
    # line maps
    g.mark_lines = {}
    g.mark_offsets = {}
    btext = text.encode('utf-8')
    for m in re.finditer(rb'/\*@(\d+)@\*/', btext):
        g.mark_lines[int(m.group(1))] = btext.count(b'\n', 0, m.start()) + 1
        g.mark_offsets[int(m.group(1))] = m.start()
    g.item_ranges = {}
    for m in re.finditer(r'/\*@ITEM_BEGIN (.*?)@\*/', text):
        name = m.group(1)
        e = text.find('/*@ITEM_END %s@*/' % name, m.end())
        g.item_ranges[name] = (text.count('\n', 0, m.start()) + 1, text.count('\n', 0, e) + 1)
    return g


def _default_id(path):
    segs = [s.strip() for s in path.split('/')]
    out = []
    for s in segs:
        kind, _, name = s.partition(' ')
        name = re.sub(r'#\d+$', '', name).strip()
        if kind == 'impl':
            name = name.split(' for ')[-1]
        out.append(name)
    return '::'.join(out)


def _rename_fn(text, new):
    return re.sub(r'\bfn\s+[A-Za-z_0-9]+', 'fn ' + new, text, count=1)


def _canary_variants(w, item_id, text, spec, log):
    """Copies of the function that MUST fail verification:
       <fn>__vac      : extra `ensures false`  (precondition / path vacuity)
       <fn>__can_<l>  : clause l negated (for clauses listed in spec['canaries'])"""
    out = []
    m = re.search(r'\bfn\s+([A-Za-z_0-9]+)', text)
    fname = spec.get('rename') or m.group(1)
    if spec.get('vacuity', True):
        s2 = dict(spec)
        s2['ensures'] = [('__vacuity', 'false')]
        s2['props'] = []
        cid = item_id + '__cvac'
        t2 = weave_fn(w, cid, text, s2, [])
        out.append((cid, _rename_fn(t2, fname + '__cvac')))
    for lab in spec.get('canaries', []) or []:
        s2 = dict(spec)
        ens = []
        found = False
        for c in spec.get('ensures', []):
            if c[0] == lab:
                ens.append(('__canary', '!(%s)' % c[1].strip().rstrip(',')))
                found = True
        if not found:
            raise Undecided('%s: canary clause %s not found' % (item_id, lab))
        s2['ensures'] = ens
        s2['props'] = []
        cid = item_id + '__ccan_' + lab
        t2 = weave_fn(w, cid, text, s2, [])
        out.append((cid, _rename_fn(t2, fname + '__ccan_' + re.sub(r'\W', '_', lab))))
    return out
