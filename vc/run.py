"""Runs Verus on generated units, maps results back to named obligations and classifies them."""
import json
import os
import re
import shutil
import subprocess
import tempfile
import time
from concurrent.futures import ThreadPoolExecutor

from . import weave

VERIF = weave.VERIF
MULTI_ERR = 40
DEFAULT_RLIMIT = 30

# messages that mean "the solver refuted / could not establish a proof obligation"
PROOF_FAIL = (
    'postcondition not satisfied', 'precondition not satisfied', 'assertion failed',
    'invariant not satisfied', 'decreases not satisfied', 'possible arithmetic underflow/overflow',
    'possible division by zero', 'possible bit shift underflow/overflow', 'recommendation not met',
    'loop invariant not satisfied', 'unreachable', 'cannot show',
    'might not be allowed at this exit', 'could not prove termination',
)
RESOURCE = ('rlimit', 'Resource limit', 'resource limit', 'timed out', 'timeout')


def verus_cmd(path, rlimit, seed, extra=(), multi=MULTI_ERR):
    cmd = ['verus', path, '--output-json', '--time', '--error-format=json',
           '--multiple-errors', str(multi), '--rlimit', str(rlimit)]
    if seed:
        cmd += ['--smt-option', 'smt.random_seed=%d' % (seed % 100000)]
    cmd += list(extra)
    return cmd


def run_verus(path, rlimit=DEFAULT_RLIMIT, seed=0, timeout=900, extra=(), multi=MULTI_ERR):
    cmd = verus_cmd(path, rlimit, seed, extra, multi)
    t0 = time.time()
    try:
        p = subprocess.run(cmd, cwd=os.path.dirname(path), capture_output=True, text=True, timeout=timeout)
        out, err, rc = p.stdout, p.stderr, p.returncode
    except subprocess.TimeoutExpired as e:
        out, err, rc = (e.stdout or ''), (e.stderr or '') + '\nTIMEOUT', 124
        if isinstance(out, bytes):
            out = out.decode('utf-8', 'replace')
        if isinstance(err, bytes):
            err = err.decode('utf-8', 'replace')
    wall = time.time() - t0
    diags = []
    for line in err.splitlines():
        line = line.strip()
        if line.startswith('{') and '"$message_type"' in line:
            try:
                diags.append(json.loads(line))
            except ValueError:
                pass
    js = None
    try:
        k = out.index('{')
        js = json.loads(out[k:])
    except (ValueError, IndexError):
        js = None
    return dict(cmd=' '.join(cmd), rc=rc, diags=diags, json=js, wall=wall, stderr=err, stdout=out)


def _primary(d):
    for s in d.get('spans', []):
        if s.get('is_primary'):
            return s
    return d['spans'][0] if d.get('spans') else None


class UnitResult:
    pass


def analyse(g, res, crate):
    """Map a verus run onto the obligations of generated unit g."""
    r = UnitResult()
    r.cmd, r.wall, r.rc = res['cmd'], res['wall'], res['rc']
    r.hard_errors = []      # type errors, unsupported features, ICEs ... (tool limits)
    r.hard_items = []       # per hard error: the item it was reported in (or None)
    r.resource = []         # rlimit / timeout
    r.fail = {}             # obligation id -> list of rendered messages
    r.prelude_fail = []
    r.fn_stats = {}
    js = res['json']
    # clause ranges
    clause_ranges = []      # (start byte, end byte, mark): the woven clause text follows its marker
    for m in g.marks:
        off = g.mark_offsets.get(m['id'])
        if off is None:
            continue
        clause_ranges.append((off, off + len(m['text'].encode('utf-8')) + 40, m))
    if res['rc'] == 124:
        r.resource.append('verus timed out')
    for d in res['diags']:
        if d.get('level') != 'error':
            continue
        msg = d.get('message', '')
        if msg.startswith('aborting due to'):
            continue
        sp = _primary(d)
        rendered = d.get('rendered') or msg
        if any(x in msg for x in RESOURCE):
            r.resource.append(msg)
            continue
        if not any(msg.startswith(x) or x in msg for x in PROOF_FAIL):
            r.hard_errors.append(rendered)
            # which item does the tool error sit in?  (None: prelude / unattributable)
            hl = sp['line_start'] if sp else -1
            hit = None
            for name, (a, b) in g.item_ranges.items():
                if a <= hl <= b:
                    hit = name
                    break
            r.hard_items.append(hit)
            continue
        line = sp['line_start'] if sp else -1
        bstart = sp['byte_start'] if sp else -1
        item = None
        for name, (a, b) in g.item_ranges.items():
            if a <= line <= b:
                item = name
                break
        if item is None:
            r.prelude_fail.append(rendered)
            continue
        label = None
        # For precondition failures the primary span is the call site; for post/invariant the clause.
        # The clause is the one whose marker most closely precedes the span.
        best = None
        for (a, b, m) in clause_ranges:
            if a <= bstart <= b and m['item'] == item:
                if best is None or a > best[0]:
                    best = (a, m)
        if best is not None:
            label = best[1]['label']
        if label is None or label == 'proof':
            label = 'implicit'
        oid = '%s/%s/%s' % (crate, item, label)
        r.fail.setdefault(oid, []).append(rendered)
    if js is None and not r.hard_errors and not r.resource:
        r.hard_errors.append('verus produced no JSON result (rc=%s)\n%s' % (res['rc'], res['stderr'][-2000:]))
    if js is not None:
        vr = js.get('verification-results', {})
        r.verified = vr.get('verified', 0)
        r.errors = vr.get('errors', 0)
        if vr.get('encountered-vir-error'):
            if not r.hard_errors:
                r.hard_errors.append('verus reported a VIR error\n' + res['stderr'][-2000:])
        try:
            for mod in js['times-ms']['smt']['smt-run-module-times']:
                for f in mod.get('function-breakdown', []):
                    r.fn_stats[f['function']] = dict(success=f.get('success'), time_ms=f.get('time'),
                                                     rlimit=f.get('rlimit'), mode=f.get('mode:'))
        except (KeyError, TypeError):
            pass
        r.total_ms = js.get('times-ms', {}).get('total')
        r.smt_ms = js.get('times-ms', {}).get('smt', {}).get('total')
    else:
        r.verified = 0
        r.errors = 0
        r.total_ms = None
        r.smt_ms = None
    return r


def obligations_of(g, crate):
    """All named obligations of the verified functions of a generated unit (main variant)."""
    obs = []
    verified_items = {m['id']: m for m in g.items if m.get('verified')}
    seen_implicit = set()
    for m in g.marks:
        if m['item'] not in verified_items:
            continue
        if m['kind'] in ('ensures', 'invariant', 'decreases') or (m['kind'] == 'proof' and m['label'] != 'proof'):
            obs.append(dict(id='%s/%s/%s' % (crate, m['item'], m['label']), item=m['item'], label=m['label'],
                            kind=m['kind'], props=m['props'], text=m['text']))
    for iid, meta in verified_items.items():
        obs.append(dict(id='%s/%s/implicit' % (crate, iid), item=iid, label='implicit', kind='implicit',
                        props=meta['props'],
                        text='no overflow / out-of-range index / unwrap-None / unreachable reached; callee '
                             'preconditions hold; every loop and recursion terminates'))
    return obs


def scan_trusted(text):
    """Mechanical scan of a generated file for everything that is assumed rather than proved."""
    out = []
    forbidden = []
    lines = text.splitlines()
    for i, l in enumerate(lines):
        code = l.split('//')[0]
        if 'external_body' in code or 'assume_specification' in code or 'verifier::external' in code \
                or re.search(r'\baxiom fn\b', code) or re.search(r'\buninterp spec fn\b', code):
            # find the next fn/struct name
            name = None
            for k in range(i, min(i + 8, len(lines))):
                mm = re.search(r'\b(fn|struct|enum)\s+([A-Za-z_0-9]+)', lines[k])
                if mm:
                    name = mm.group(2)
                    break
                mm = re.search(r'assume_specification.*?\[\s*(.*?)\s*\]', lines[k])
                if mm:
                    name = mm.group(1)
                    break
            kind = ('external_body' if 'external_body' in code else
                    'assume_specification' if 'assume_specification' in code else
                    'axiom' if 'axiom fn' in code else
                    'uninterpreted spec fn' if 'uninterp' in code else 'external')
            out.append('%s %s' % (kind, name or '?'))
        if re.search(r'\bassume\s*\(', code) or re.search(r'\badmit\s*\(', code):
            forbidden.append('line %d: %s' % (i + 1, l.strip()))
    # dedupe preserving order
    seen, res = set(), []
    for x in out:
        if x not in seen:
            seen.add(x)
            res.append(x)
    return res, forbidden


def run_unit(name, repo, workdir, rlimit=DEFAULT_RLIMIT, seed=0, vacuity=True):
    """Generate + verify one unit. Returns dict with everything the classifier needs."""
    unit = weave.load_unit(name)
    out = dict(unit=name)
    # a unit may ask for a larger per-function resource limit (contracts/<unit>.py RLIMIT): the limit is a guard against
    # divergence, not a verdict; the unit `quoting` has one function whose cost varies 54-126 M units with the solver seed
    rlimit = max(rlimit, getattr(unit, 'RLIMIT', 0))
    isolate = {}
    # Item isolation: when ONE function can no longer be brought into the verifier (a rewrite pattern or proof anchor
    # no longer matches, or Verus rejects a construct in it), that function is kept as a bare signature with its
    # contract assumed, its obligations are reported UNDECIDED, and the rest of the unit is still decided.
    for _round in range(6):
        try:
            g = weave.build_unit(unit, repo, isolate=frozenset(isolate))
            gv = weave.build_unit(unit, repo, variant='vacuity', isolate=frozenset(isolate)) if vacuity else None
            break
        except weave.Undecided as e:
            it = getattr(e, 'item', None)
            if it is not None and getattr(e, 'isolatable', False) and it not in isolate:
                isolate[it] = 'extraction: %s' % e
                continue
            out['undecided'] = 'extraction: %s' % e
            return out
    else:
        out['undecided'] = 'extraction: too many items had to be isolated: %s' % sorted(isolate)
        return out
    res = _run_generated(name, g, gv, workdir, rlimit, seed)
    # tool errors that sit inside verified functions: isolate those functions and run again (at most twice)
    for _round in range(2):
        m = res['main_an']
        bad = [it for it in m.hard_items if it is not None]
        verifiable = {i['id'] for i in g.items if i.get('verified')}
        new = [it for it in bad if it in verifiable and it not in isolate]
        if not m.hard_errors or not new or any(it is None for it in m.hard_items):
            break
        for it, msg in zip(m.hard_items, m.hard_errors):
            if it in new and it not in isolate:
                isolate[it] = 'verifier rejects the function text: %s' % msg.strip().splitlines()[0][:300]
        try:
            g = weave.build_unit(unit, repo, isolate=frozenset(isolate))
            gv = weave.build_unit(unit, repo, variant='vacuity', isolate=frozenset(isolate)) if vacuity else None
        except weave.Undecided as e:
            out['undecided'] = 'extraction: %s' % e
            return out
        res = _run_generated(name, g, gv, workdir, rlimit, seed)
    out.update(res['out'])
    out['isolated'] = dict(isolate)
    # bounded stand-ins (never counted as proof) for isolated functions that have a harness
    out['bounded'] = {}
    if isolate:
        from . import bounded
        for spec in unit.ITEMS:
            if not spec or not spec.get('bounded'):
                continue
            iid = spec.get('id') or weave._default_id(spec['path'])
            if iid in isolate:
                out['bounded'][iid] = bounded.run(iid, spec, repo, os.path.join(workdir, name))
    # functions outside the verifier's subset from the start (iterator pipelines over std): their contract is ASSUMED in the
    # deductive part (`trusted`), and the harness is the only check of the real text; it runs on every check, in every tier
    out['bounded_only'] = {}
    for spec in unit.ITEMS:
        if not spec or not spec.get('bounded_only'):
            continue
        from . import bounded
        iid = spec.get('id') or weave._default_id(spec['path'])
        present = any(x['id'] == iid for x in g.items) or spec.get('harness_only')
        if not present:
            continue      # an optional helper this tree does not have: the obligations of its callers decide
        bd = bounded.run(iid, spec, repo, os.path.join(workdir, name))
        bd['labels'] = [e[0] for e in spec.get('ensures', [])]
        bd['props'] = list(spec.get('bounded_props', spec.get('props', [])))
        out['bounded_only'][iid] = bd
    return out


def _run_generated(name, g, gv, workdir, rlimit, seed):
    out = {}
    crate = name
    d = os.path.join(workdir, name)
    os.makedirs(d, exist_ok=True)
    main_path = os.path.join(d, crate + '.rs')
    open(main_path, 'w').write(g.text)
    jobs = {}
    with ThreadPoolExecutor(max_workers=2) as ex:
        jobs['main'] = ex.submit(run_verus, main_path, rlimit, seed)
        if gv is not None and not any(m['label'] in ('__vacuity', '__canary') for m in gv.marks):
            gv = None      # nothing under contract is left to guard (all functions isolated)
        if gv is not None:
            dv = os.path.join(d, 'vac')
            os.makedirs(dv, exist_ok=True)
            vac_path = os.path.join(dv, crate + '.rs')
            open(vac_path, 'w').write(gv.text)
            jobs['vac'] = ex.submit(run_verus, vac_path, rlimit, seed, 900,
                                    ('--verify-root', '--verify-function', '*__c*'), 0)
        res = {k: v.result() for k, v in jobs.items()}
    out['g'] = g
    out['main'] = analyse(g, res['main'], crate)
    if out['main'].resource and not out['main'].hard_errors:
        # a solver resource limit is not a verdict: retry once with a much larger limit
        # (a failing obligation in a large function often needs more search than the proof itself)
        res['main'] = run_verus(main_path, rlimit * 8, seed, 1500)
        retry = analyse(g, res['main'], crate)
        retry.retried_with_rlimit = rlimit * 8
        out['main'] = retry
    out['obligations'] = obligations_of(g, crate)
    out['trusted'], out['forbidden'] = scan_trusted(g.text)
    if gv is not None:
        va = analyse(gv, res['vac'], crate)
        out['vac'] = va
        # every canary copy must FAIL on its marked clause
        expected = []
        for m in gv.marks:
            if m['label'] in ('__vacuity', '__canary'):
                expected.append('%s/%s/%s' % (crate, m['item'], m['label']))
        def _failed(e):
            pre = e.rsplit('/', 1)[0] + '/'
            return any(k.startswith(pre) for k in va.fail)
        missing = [e for e in expected if not _failed(e)]
        out['canaries_expected'] = expected
        out['canaries_not_failing'] = missing
    return dict(out=out, main_an=out['main'])
