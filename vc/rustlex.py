"""Minimal Rust tokenizer and item locator used by the extractor.

Only what is needed to find items by path and to match braces safely in the
presence of strings, chars, lifetimes, raw strings and nested comments.
"""
import re

IDENT_RE = re.compile(r'[A-Za-z_][A-Za-z0-9_]*')
NUM_RE = re.compile(r'[0-9][A-Za-z0-9_]*(\.[0-9][A-Za-z0-9_]*)?')
RAW_RE = re.compile(r'(?:b|c)?r(#*)"')

OPEN = {'(': ')', '[': ']', '{': '}'}
CLOSE = {')': '(', ']': '[', '}': '{'}


class Tok:
    __slots__ = ('kind', 'text', 'start', 'end')

    def __init__(self, kind, text, start, end):
        self.kind, self.text, self.start, self.end = kind, text, start, end

    def __repr__(self):
        return '%s(%r@%d)' % (self.kind, self.text, self.start)


class LexError(Exception):
    pass


def lex(src, keep_comments=False):
    """Return list of Tok. kinds: id, num, str, char, life, punct, comment."""
    toks = []
    i, n = 0, len(src)
    while i < n:
        c = src[i]
        if c in ' \t\r\n':
            i += 1
            continue
        if src.startswith('//', i):
            j = src.find('\n', i)
            j = n if j < 0 else j
            if keep_comments:
                toks.append(Tok('comment', src[i:j], i, j))
            i = j
            continue
        if src.startswith('/*', i):
            depth, j = 1, i + 2
            while j < n and depth:
                if src.startswith('/*', j):
                    depth += 1
                    j += 2
                elif src.startswith('*/', j):
                    depth -= 1
                    j += 2
                else:
                    j += 1
            if depth:
                raise LexError('unterminated block comment at %d' % i)
            if keep_comments:
                toks.append(Tok('comment', src[i:j], i, j))
            i = j
            continue
        m = RAW_RE.match(src, i)
        if m:
            hashes = m.group(1)
            close = '"' + hashes
            j = src.find(close, m.end())
            if j < 0:
                raise LexError('unterminated raw string at %d' % i)
            j += len(close)
            toks.append(Tok('str', src[i:j], i, j))
            i = j
            continue
        if c == '"' or (c in 'bc' and i + 1 < n and src[i + 1] == '"'):
            j = i + (1 if c == '"' else 2)
            while j < n and src[j] != '"':
                j += 2 if src[j] == '\\' else 1
            if j >= n:
                raise LexError('unterminated string at %d' % i)
            j += 1
            toks.append(Tok('str', src[i:j], i, j))
            i = j
            continue
        if c == "'" or (c == 'b' and i + 1 < n and src[i + 1] == "'"):
            k = i + (1 if c == "'" else 2)
            # char literal or lifetime
            if k < n and src[k] == '\\':
                j = src.find("'", k + 2)
                if j < 0:
                    raise LexError('bad char literal at %d' % i)
                toks.append(Tok('char', src[i:j + 1], i, j + 1))
                i = j + 1
                continue
            # one (possibly multi-byte) char followed by '
            if k + 1 < n and src[k + 1] == "'":
                toks.append(Tok('char', src[i:k + 2], i, k + 2))
                i = k + 2
                continue
            m = IDENT_RE.match(src, k)
            if m and c == "'":
                toks.append(Tok('life', src[i:m.end()], i, m.end()))
                i = m.end()
                continue
            raise LexError('bad quote at %d' % i)
        m = IDENT_RE.match(src, i)
        if m:
            # r#ident
            toks.append(Tok('id', m.group(0), i, m.end()))
            i = m.end()
            continue
        m = NUM_RE.match(src, i)
        if m:
            toks.append(Tok('num', m.group(0), i, m.end()))
            i = m.end()
            continue
        # multi-char punct we care about
        for p in ('->', '=>', '::', '..=', '...', '..', '&&', '||', '==', '!=', '<=', '>=',
                  '+=', '-=', '*=', '/=', '%=', '^=', '&=', '|=', '<<=', '>>='):
            if src.startswith(p, i):
                toks.append(Tok('punct', p, i, i + len(p)))
                i += len(p)
                break
        else:
            toks.append(Tok('punct', c, i, i + 1))
            i += 1
    return toks


def match_close(toks, k):
    """toks[k] is an opening bracket; return index of the matching close."""
    stack = []
    for j in range(k, len(toks)):
        t = toks[j]
        if t.kind != 'punct':
            continue
        if t.text in OPEN:
            stack.append(t.text)
        elif t.text in CLOSE:
            if not stack or stack[-1] != CLOSE[t.text]:
                raise LexError('unbalanced %r at %d' % (t.text, t.start))
            stack.pop()
            if not stack:
                return j
    raise LexError('no close for %r at %d' % (toks[k].text, toks[k].start))


def skip_attr_back(toks, k):
    """Given index k of the first token of an item (after attributes),
    return index of first token including preceding #[...] attributes."""
    # walk backwards over `# [ ... ]` groups
    j = k
    while True:
        if j - 1 >= 0 and toks[j - 1].kind == 'punct' and toks[j - 1].text == ']':
            # find matching [
            depth = 0
            m = j - 1
            while m >= 0:
                t = toks[m]
                if t.kind == 'punct' and t.text == ']':
                    depth += 1
                elif t.kind == 'punct' and t.text == '[':
                    depth -= 1
                    if depth == 0:
                        break
                m -= 1
            if m >= 1 and toks[m - 1].kind == 'punct' and toks[m - 1].text == '#':
                j = m - 1
                continue
            if m >= 2 and toks[m - 1].text == '!' and toks[m - 2].text == '#':
                break
        break
    return j


ITEM_KW = ('fn', 'struct', 'enum', 'impl', 'mod', 'const', 'type', 'trait', 'static')
MODIFIERS = ('pub', 'async', 'unsafe', 'extern', 'default')


class Item:
    def __init__(self, kind, name, toks, first, kw, body_open, last, header_text):
        self.kind = kind          # fn/struct/enum/impl/...
        self.name = name          # for impl: normalised header 'Trait for Type' or 'Type'
        self.first = first        # token index of first token (after attributes)
        self.kw = kw              # token index of the keyword
        self.body_open = body_open  # token index of '{' or None
        self.last = last          # token index of last token ('}' or ';')
        self.header_text = header_text

    def __repr__(self):
        return 'Item(%s %s)' % (self.kind, self.name)


def _norm_ws(s):
    return re.sub(r'\s+', ' ', s).strip()


def _strip_generics(s):
    """remove <...> groups (balanced) from a type-ish string"""
    out, depth = [], 0
    i = 0
    while i < len(s):
        c = s[i]
        if c == '<':
            depth += 1
        elif c == '>' and depth and not (i > 0 and s[i - 1] == '-'):
            depth -= 1
        elif depth == 0:
            out.append(c)
        i += 1
    return _norm_ws(''.join(out))


def items_in(src, toks, lo, hi, any_depth=False):
    """Yield Items whose keyword token lies in toks[lo:hi] at bracket depth 0
    (relative to lo), or at any depth if any_depth."""
    res = []
    j = lo
    depth = 0
    while j < hi:
        t = toks[j]
        if t.kind == 'punct' and t.text in OPEN:
            if not any_depth:
                j = match_close(toks, j) + 1
                continue
        if t.kind == 'id' and t.text in ITEM_KW:
            prev = toks[j - 1] if j > lo else None
            # exclude: `impl Trait` in type position, `for` etc. Require that
            # previous token is an item boundary or a modifier.
            ok_prev = (prev is None or (prev.kind == 'punct' and prev.text in ('}', ';', ']', '{', ')'))
                       or (prev.kind == 'id' and prev.text in MODIFIERS + ('const',)))
            if t.text == 'fn' and prev is not None and prev.kind == 'str':
                ok_prev = True  # extern "C" fn
            if prev is not None and prev.kind == 'punct' and prev.text == ')':
                # pub(crate) fn ...  -> check that before '(' is pub
                m = j - 1
                d = 0
                while m >= lo:
                    if toks[m].text == ')':
                        d += 1
                    elif toks[m].text == '(':
                        d -= 1
                        if d == 0:
                            break
                    m -= 1
                ok_prev = m - 1 >= lo and toks[m - 1].kind == 'id' and toks[m - 1].text == 'pub'
            if t.text in ('const', 'type', 'static', 'impl') and not ok_prev:
                j += 1
                continue
            if not ok_prev:
                j += 1
                continue
            # `const fn`: skip const keyword as modifier
            if t.text == 'const' and j + 1 < hi and toks[j + 1].text in ('fn', 'unsafe'):
                j += 1
                continue
            if t.text == 'fn' and j + 1 < hi and toks[j + 1].kind != 'id':
                j += 1  # fn(...) pointer type
                continue
            it = _parse_item(src, toks, lo, j, hi)
            if it is None:
                j += 1
                continue
            res.append(it)
            if any_depth and it.body_open is not None:
                # descend into body too
                res.extend(items_in(src, toks, it.body_open + 1, it.last, any_depth=True))
            j = it.last + 1
            continue
        j += 1
    return res


def _parse_item(src, toks, lo, kw, hi):
    t = toks[kw]
    # first token: walk back over modifiers / pub(...)
    first = kw
    while first - 1 >= lo:
        p = toks[first - 1]
        if p.kind == 'id' and p.text in MODIFIERS + ('const',):
            first -= 1
            continue
        if p.kind == 'str' and first - 2 >= lo and toks[first - 2].text == 'extern':
            first -= 1
            continue
        if p.kind == 'punct' and p.text == ')':
            m = first - 1
            d = 0
            while m >= lo:
                if toks[m].text == ')':
                    d += 1
                elif toks[m].text == '(':
                    d -= 1
                    if d == 0:
                        break
                m -= 1
            if m - 1 >= lo and toks[m - 1].kind == 'id' and toks[m - 1].text == 'pub':
                first = m - 1
                continue
        break
    # find body '{' or ';' at depth 0 (parens/brackets), angle brackets ignored
    j = kw + 1
    body_open = None
    last = None
    while j < hi:
        x = toks[j]
        if x.kind == 'punct' and x.text in ('(', '['):
            j = match_close(toks, j) + 1
            continue
        if x.kind == 'punct' and x.text == '{':
            if t.text in ('const', 'static', 'type'):
                j = match_close(toks, j) + 1
                continue
            body_open = j
            last = match_close(toks, j)
            break
        if x.kind == 'punct' and x.text == ';':
            last = j
            break
        j += 1
    if last is None:
        return None
    if t.text in ('struct',) and body_open is None:
        pass
    # tuple struct `struct X(..);` handled by ';'
    header_end = toks[body_open].start if body_open is not None else toks[last].start
    header = src[toks[kw].start:header_end]
    if t.text == 'impl':
        h = header[len('impl'):]
        # drop leading generics
        h = h.strip()
        if h.startswith('<'):
            d = 0
            for idx, ch in enumerate(h):
                if ch == '<':
                    d += 1
                elif ch == '>' and not (idx > 0 and h[idx - 1] == '-'):
                    d -= 1
                    if d == 0:
                        h = h[idx + 1:]
                        break
        h = h.split(' where ')[0]
        h = re.split(r'\bwhere\b', h)[0]
        name = _strip_generics(h)
        name = re.sub(r"'[a-z_]+\s*", '', name)
        name = _norm_ws(name)
    else:
        nt = toks[kw + 1]
        name = nt.text
    return Item(t.text, name, toks, first, kw, body_open, last, _norm_ws(header))


def locate(src, toks, path):
    """path: 'impl BudgetEnforcer/fn observe' (segments separated by '/'; `name#k` picks the k-th
    of several equally named items).  When an inner segment matches several items (several
    `impl X` blocks), the one that contains the rest of the path is taken.
    Raises KeyError if missing, ValueError if ambiguous."""
    segs = [s.strip() for s in path.split('/')]

    def search(lo, hi, k, parent):
        seg = segs[k]
        kind, _, name = seg.partition(' ')
        name = _norm_ws(name)
        nth = None
        m = re.match(r'(.*)#(\d+)$', name)
        if m:
            name, nth = m.group(1).strip(), int(m.group(2))
        cands = [x for x in items_in(src, toks, lo, hi) if x.kind == kind and x.name == name]
        if not cands and parent is not None and parent.kind == 'fn':
            cands = [x for x in items_in(src, toks, lo, hi, any_depth=True)
                     if x.kind == kind and x.name == name]
        if nth is not None:
            cands = cands[nth - 1:nth]
        if k == len(segs) - 1:
            return cands
        out = []
        for c in cands:
            if c.body_open is not None:
                out.extend(search(c.body_open + 1, c.last, k + 1, c))
        return out

    found = search(0, len(toks), 0, None)
    if not found:
        raise KeyError('item not found: %s' % path)
    if len(found) > 1:
        raise ValueError('ambiguous item: %s (%d matches)' % (path, len(found)))
    return found[0]


def item_text(src, toks, it):
    return src[toks[it.first].start:toks[it.last].end]


def item_lines(src, toks, it):
    a = src.count('\n', 0, toks[it.first].start) + 1
    b = src.count('\n', 0, toks[it.last].end) + 1
    return a, b
