"""Entry point: ./check <Cxx> [--tier quick|thorough] [--replay FILE] [--record-baseline] [--repo DIR]

Exit codes: 0 property held on everything explored (KNOWN-FINDING lines possible),
            1 VIOLATION line(s) printed, 2 UNDECIDED (tool limit / lost anchor / vacuity) - never an alarm.
"""
import argparse
import json
import os
import re
import shutil
import sys
import tempfile
import time
from concurrent.futures import ThreadPoolExecutor

from . import run as R
from . import weave

VERIF = weave.VERIF
BASELINE = os.path.join(VERIF, 'baseline_obligations.json')
FINDINGS = os.path.join(VERIF, 'known_findings.txt')
EVIDENCE_REPO = ['/repo']
def load_registry():
    """contracts/registry.py lists the units and the per-property notes; which unit serves which
    property is computed from the property tags on the contracts themselves."""
    import importlib.util
    spec = importlib.util.spec_from_file_location('contracts_registry', os.path.join(VERIF, 'contracts', 'registry.py'))
    mod = importlib.util.module_from_spec(spec)
    spec.loader.exec_module(mod)
    units = {}
    for u in mod.UNITS:
        um = weave.load_unit(u)
        props = set()
        for it in um.ITEMS:
            props.update(it.get('props', []))
            for key in ('ensures',):
                for c in it.get(key, []) or []:
                    if len(c) > 2:
                        props.update(c[2])
        units[u] = dict(properties=sorted(props))
    return dict(units=units, properties=mod.PROPS, global_assumptions=mod.GLOBAL_ASSUMPTIONS)


def load_baseline():
    if os.path.exists(BASELINE):
        return json.load(open(BASELINE))
    return {}


def load_findings():
    out = []
    if os.path.exists(FINDINGS):
        for l in open(FINDINGS):
            l = l.strip()
            if l.startswith('finding:'):
                kv = dict(re.findall(r'(\w+)=("[^"]*"|\S+)', l))
                kv = {k: v.strip('"') for k, v in kv.items()}
                kv['line'] = l
                out.append(kv)
    return out


def units_for(prop, reg):
    return [u for u, meta in reg['units'].items() if prop in meta['properties']]


def main(argv=None):
    ap = argparse.ArgumentParser()
    ap.add_argument('prop')
    ap.add_argument('--tier', default=os.environ.get('VERIF_TIER', 'quick'))
    ap.add_argument('--replay')
    ap.add_argument('--record-baseline', action='store_true')
    ap.add_argument('--repo', default=os.environ.get('VERIF_REPO', '/repo'))
    ap.add_argument('--units')
    ap.add_argument('--keep', action='store_true')
    a = ap.parse_args(argv)
    seed = int(os.environ.get('VERIF_SEED', '0') or 0)
    EVIDENCE_REPO[0] = a.repo
    reg = load_registry()
    t0 = time.time()
    if a.prop == 'ALL':
        props = sorted(reg['properties'])
    else:
        props = [a.prop]
    for p in props:
        if p not in reg['properties']:
            print('property %s is not claimed (see MANIFEST.json not_applicable)' % p)
            return 2
    units = sorted(set(u for p in props for u in units_for(p, reg)))
    if a.units:
        units = a.units.split(',')
    work = tempfile.mkdtemp(prefix='verif-vc-')
    try:
        results = {}
        rlimit = R.DEFAULT_RLIMIT if a.tier == 'quick' else R.DEFAULT_RLIMIT * 3
        nworkers = max(1, min(len(units), 8))
        with ThreadPoolExecutor(max_workers=nworkers) as ex:
            futs = {u: ex.submit(R.run_unit, u, a.repo, work, rlimit, seed, True) for u in units}
            for u, f in futs.items():
                results[u] = f.result()
        extra = {}
        if a.tier == 'thorough':
            extra = thorough_extras(units, a.repo, work, seed, results)
        if a.record_baseline:
            return record_baseline(results)
        rc = 0
        for p in props:
            r1 = report_property(p, a, reg, results, extra, seed, t0)
            if r1 == 1 or (r1 == 2 and rc == 0):
                rc = r1
        return rc
    finally:
        if not a.keep:
            shutil.rmtree(work, ignore_errors=True)
        else:
            print('work dir kept: %s' % work)


def thorough_extras(units, repo, work, seed, results):
    """Proof-stability re-runs under other solver seeds and a tighter resource limit."""
    extra = {'stability': {}}
    seeds = [seed + 11, seed + 23]
    jobs = {}
    with ThreadPoolExecutor(max_workers=8) as ex:
        for u in units:
            res = results[u]
            if 'undecided' in res:
                continue
            for s in seeds:
                d = os.path.join(work, u, 'seed%d' % s)
                os.makedirs(d, exist_ok=True)
                path = os.path.join(d, u + '.rs')
                open(path, 'w').write(res['g'].text)
                jobs[(u, s)] = ex.submit(R.run_verus, path, max(R.DEFAULT_RLIMIT, getattr(weave.load_unit(u), 'RLIMIT', 0)), s)
        for (u, s), f in jobs.items():
            an = R.analyse(results[u]['g'], f.result(), u)
            extra['stability'].setdefault(u, []).append(
                dict(seed=s, failed=sorted(an.fail), resource=an.resource, hard=len(an.hard_errors), wall_s=round(an.wall, 2)))
    # cross-check (NOT proof): every bounded stand-in harness is also run on the functions as they are, although
    # Verus decides them.  A counterexample for a clause that Verus proves can only mean that an assumed shim
    # (std string semantics) or the executable copy of the contract is wrong, so it is reported as UNDECIDED.
    from . import bounded
    from . import weave as W
    extra['bounded_crosscheck'] = {}
    for u in units:
        try:
            unit = W.load_unit(u)
        except Exception:
            continue
        for spec in unit.ITEMS:
            if not spec or not spec.get('bounded'):
                continue
            iid = spec.get('id') or W._default_id(spec['path'])
            if iid in (results[u].get('isolated') or {}):
                continue
            extra['bounded_crosscheck'].setdefault(u, []).append(bounded.run(iid, spec, repo, os.path.join(work, u, 'xcheck')))
    return extra


def record_baseline(results):
    base = load_baseline()
    ok = True
    for u, res in results.items():
        if 'undecided' in res:
            print('UNDECIDED unit=%s %s' % (u, res['undecided']))
            ok = False
            continue
        m = res['main']
        if m.hard_errors or m.resource or m.prelude_fail:
            print('unit %s has tool errors; baseline not recorded' % u)
            for e in (m.hard_errors + m.resource + m.prelude_fail)[:5]:
                print(e)
            ok = False
            continue
        if res.get('canaries_not_failing'):
            print('unit %s: canaries verified (vacuous?): %s' % (u, res['canaries_not_failing']))
            ok = False
            continue
        if res.get('isolated'):
            print('unit %s: functions could not be brought into the verifier; baseline not recorded: %s' % (u, res['isolated']))
            ok = False
            continue
        good = [o['id'] for o in res['obligations'] if o['id'] not in m.fail]
        bad = [o['id'] for o in res['obligations'] if o['id'] in m.fail]
        # clauses of functions whose only check is the bounded harness: recorded (as bounded, never as proved) when the
        # harness ran clean on the pinned tree, so that a later counterexample is a regression and not a harness mistake
        for iid, bd in sorted((res.get('bounded_only') or {}).items()):
            for lbl in bd['labels']:
                oid = '%s/%s/%s' % (u, iid, lbl)
                (good if bd['status'] == 'clean' or (bd['status'] == 'witness' and lbl not in bd['witnesses']) else bad).append(oid)
        base[u] = sorted(good)
        print('unit %s: %d obligations recorded in baseline, %d failing (not recorded): %s' % (u, len(good), len(bad), bad))
    json.dump(base, open(BASELINE, 'w'), indent=1, sort_keys=True)
    return 0 if ok else 2


def report_property(prop, a, reg, results, extra, seed, t0):
    base = load_baseline()
    findings = [f for f in load_findings() if f.get('property') == prop]
    violations, undecided, known = [], [], []
    bounded_rows = []
    obligations, discharged = [], []
    fn_rows, trusted, rewrites, samples = [], [], [], []
    vac_total, vac_ok = 0, 0
    cmds = []
    solver_ms = 0
    for u in units_for(prop, reg):
        res = results.get(u)
        if res is None:
            continue
        if 'undecided' in res:
            undecided.append('unit %s: %s' % (u, res['undecided']))
            continue
        m = res['main']
        g = res['g']
        cmds.append(m.cmd)
        if res['forbidden']:
            undecided.append('unit %s: forbidden assume/admit in generated file: %s' % (u, res['forbidden'][:3]))
        if m.hard_errors:
            undecided.append('unit %s: verifier could not process the generated file (tool limit / type error):\n%s'
                             % (u, '\n'.join(x[:1500] for x in m.hard_errors[:3])))
        if m.resource:
            undecided.append('unit %s: resource limit: %s' % (u, m.resource[:3]))
        if m.prelude_fail:
            undecided.append('unit %s: a lemma of the spec library no longer verifies:\n%s' % (u, m.prelude_fail[0][:1500]))
        unit_broken = bool(m.hard_errors or m.resource)
        isolated = res.get('isolated') or {}
        iso_reported = set()
        for o in res['obligations']:
            if prop not in o['props']:
                continue
            obligations.append(o)
            if unit_broken:
                continue
            if o['item'] in isolated:
                bd = (res.get('bounded') or {}).get(o['item'])
                lbl = o['id'].split('/', 2)[2] if o['id'].count('/') >= 2 else ''
                if bd and bd['status'] == 'witness' and lbl in bd['witnesses']:
                    # the bounded stand-in ran the REAL function text and found an input that breaks this clause
                    bounded_rows.append(dict(bd, unit=u))
                    violations.append((u, o, 'bounded stand-in counterexample', dict(bd, witness=bd['witnesses'][lbl])))
                    continue
                if o['item'] not in iso_reported:
                    iso_reported.add(o['item'])
                    extra_note = ''
                    if bd:
                        bounded_rows.append(dict(bd, unit=u))
                        if bd['status'] == 'clean':
                            extra_note = '; bounded stand-in (NOT a proof): no counterexample in %d cases, %s' % (bd['checked'], bd['bound'])
                        elif bd['status'] == 'error':
                            extra_note = '; bounded stand-in unavailable: %s' % bd['detail'][:200]
                        elif bd['status'] == 'witness':
                            extra_note = '; bounded stand-in found counterexamples for %s' % sorted(bd['witnesses'])
                    undecided.append('unit %s: function %s can no longer be brought into the verifier, its obligations are NOT decided (%s)%s'
                                     % (u, o['item'], isolated[o['item']][:400], extra_note))
                continue
            if o['id'] in m.fail:
                msg = m.fail[o['id']]
                kf = match_finding(findings, o['id'])
                if kf is not None:
                    known.append((o, kf))
                elif o['id'] in base.get(u, []):
                    violations.append((u, o, msg, None))
                else:
                    undecided.append('obligation %s fails but is not in the committed baseline (never proved on the pinned tree)' % o['id'])
            else:
                # a function that hit the error cap may hide further failures
                nerr = sum(len(v) for k, v in m.fail.items() if k.startswith('%s/%s/' % (u, o['item'])))
                if nerr >= R.MULTI_ERR:
                    undecided.append('obligation %s: error cap reached in this function' % o['id'])
                else:
                    discharged.append(o)
        for it_id, why in isolated.items():
            meta = [x for x in g.items if x['id'] == it_id]
            props_of = set(meta[0].get('props', [])) if meta else set()
            if (prop in props_of or not props_of) and it_id not in iso_reported:
                iso_reported.add(it_id)
                bd = (res.get('bounded') or {}).get(it_id)
                extra_note = ''
                if bd:
                    bounded_rows.append(dict(bd, unit=u))
                    if bd['status'] == 'clean':
                        extra_note = '; bounded stand-in (NOT a proof): no counterexample in %d cases, %s' % (bd['checked'], bd['bound'])
                    elif bd['status'] == 'error':
                        extra_note = '; bounded stand-in unavailable: %s' % bd['detail'][:200]
                    elif bd['status'] == 'witness':
                        # the stand-in ran the REAL function text and found inputs that break clauses of its contract:
                        # those clauses (proved on the pinned tree) are violated, with a failing input
                        for lbl, wit in sorted(bd['witnesses'].items()):
                            oid = '%s/%s/%s' % (u, it_id, lbl)
                            if oid in base.get(u, []):
                                po = dict(id=oid, item=it_id, kind='ensures (decided by the bounded stand-in)', props=sorted(props_of),
                                          text='clause %s of the contract of %s (contracts/%s.py)' % (lbl, it_id, u))
                                obligations.append(po)
                                violations.append((u, po, 'bounded stand-in counterexample', dict(bd, witness=wit)))
                        extra_note = '; bounded stand-in found failing inputs for %s' % sorted(bd['witnesses'])
                undecided.append('unit %s: function %s can no longer be brought into the verifier, its obligations are NOT decided deductively (%s)%s'
                                 % (u, it_id, why[:400], extra_note))
        for it in g.items:
            if prop in it.get('props', []) or any(prop in o['props'] and o['item'] == it['id'] for o in res['obligations']):
                st = None
                for fname, s in m.fn_stats.items():
                    if fname.endswith('::' + it['id']) or fname.endswith('::' + it['id'].split('::')[-1]) and it['id'].split('::')[0] in fname:
                        st = s
                if it['kind'] == 'fn':
                    fn_rows.append(dict(unit=u, function=it['id'], source='%s:%d-%d' % (it['src'], it['lines'][0], it['lines'][1]),
                                        sha256=it['sha256'][:16], verified=it['verified'], trusted=it['trusted'],
                                        solver_time_ms=(st or {}).get('time_ms'), rlimit=(st or {}).get('rlimit'),
                                        backend='verus/z3'))
                    rewrites.extend(it['rewrites'])
        solver_ms += m.smt_ms or 0
        trusted.extend('%s: %s' % (u, t) for t in res['trusted'])
        if 'vac' in res:
            vac_total += len(res['canaries_expected'])
            vac_ok += len(res['canaries_expected']) - len(res['canaries_not_failing'])
            if res['canaries_not_failing']:
                undecided.append('unit %s: vacuity guard: these copies with a false/negated postcondition VERIFIED: %s'
                                 % (u, res['canaries_not_failing']))
            if res['vac'].hard_errors:
                undecided.append('unit %s: vacuity variant did not compile: %s' % (u, res['vac'].hard_errors[0][:800]))
    for u in units_for(prop, reg):
        res = results.get(u) or {}
        for iid, bd in sorted((res.get('bounded_only') or {}).items()):
            if bd['props'] and prop not in bd['props']:
                continue
            role = 'the only check of a function outside the verifier\'s subset (its contract is assumed in the deductive part)'
            bounded_rows.append(dict(bd, unit=u, role=role))
            if bd['status'] == 'error':
                undecided.append('unit %s: bounded check of %s could not run: %s' % (u, iid, bd['detail'][:300]))
            elif bd['status'] == 'witness':
                for lbl, wit in sorted(bd['witnesses'].items()):
                    oid = '%s/%s/%s' % (u, iid, lbl)
                    po = dict(id=oid, item=iid, kind='ensures (assumed in the deductive part, checked by the bounded harness on the real text)',
                              props=sorted(bd['props']), text='clause %s of the contract of %s (contracts/%s.py)' % (lbl, iid, u))
                    obligations.append(po)
                    kf = match_finding(findings, oid)
                    if kf is not None:
                        known.append((po, kf))
                    elif oid in base.get(u, []) or lbl == 'implicit':
                        violations.append((u, po, 'bounded counterexample', dict(bd, witness=wit)))
                    else:
                        undecided.append('bounded check of %s reports a counterexample for %s, a clause that never held on the pinned tree '
                                         '(harness or contract copy wrong?): %s' % (iid, lbl, wit[:200]))
    if extra.get('stability'):
        for u in units_for(prop, reg):
            for row in extra['stability'].get(u, []):
                newfail = [f for f in row['failed'] if f in base.get(u, []) and not any(f == v[1]['id'] for v in violations)]
                if newfail or row['resource'] or row['hard']:
                    undecided.append('unit %s: proof unstable under seed %s: %s %s' % (u, row['seed'], newfail, row['resource']))
    for u in units_for(prop, reg):
        for bd in (extra.get('bounded_crosscheck') or {}).get(u, []):
            meta = [x for x in results[u]['g'].items if x['id'] == bd['item']] if 'g' in results[u] else []
            if meta and prop not in meta[0].get('props', []):
                continue
            bounded_rows.append(dict(bd, unit=u, role='thorough-tier cross-check of the executable contract copy against a function Verus decides'))
            if bd['status'] == 'witness':
                undecided.append('unit %s: the bounded cross-check of %s contradicts a clause the verifier proves (%s): an assumed shim or the '
                                 'executable copy of the contract is wrong' % (u, bd['item'], sorted(bd['witnesses'].items())[:2]))
            elif bd['status'] == 'error':
                undecided.append('unit %s: bounded cross-check of %s could not run: %s' % (u, bd['item'], bd['detail'][:200]))
    if not obligations:
        undecided.append('no obligations selected for %s (vacuous check)' % prop)
    for o in discharged[:4]:
        samples.append(dict(obligation=o['id'], kind=o['kind'], contract=re.sub(r'\s+', ' ', o['text'])[:400]))
    # ---- output
    rc = 0
    os.makedirs(os.path.join(VERIF, 'replay'), exist_ok=True)
    seen_kf = set()
    for o, kf in known:
        if kf['line'] in seen_kf:
            continue   # one line per listed finding, however many sites of the contract carry the clause
        seen_kf.add(kf['line'])
        print('KNOWN-FINDING: %s' % kf['line'][len('finding:'):].strip())
    nviol = 0
    for (u, o, msg, bd) in violations:
        nviol += 1
        path = os.path.join(VERIF, 'replay', '%s-%s-%d.txt' % (prop, u, nviol))
        if bd is not None:
            write_bounded_replay(path, prop, u, o, bd)
            print('VIOLATION property=%s replay=%s obligation=%s failing-input=%s (bounded stand-in on the real function text)'
                  % (prop, path, o['id'], bd['witness'][:200]))
        else:
            write_replay(path, prop, u, o, msg, results[u], a)
            print('VIOLATION property=%s replay=%s obligation=%s no-failing-input-found' % (prop, path, o['id']))
        rc = 1
    if rc == 0 and undecided:
        rc = 2
    for x in undecided:
        print('UNDECIDED property=%s %s' % (prop, x))
    extra = dict(extra, bounded_rows=[dict(function=b['item'], unit=b['unit'], harness=b['harness'], status=b['status'], cases=b['checked'],
                                           bound=b['bound'], witnesses=b['witnesses'], note=b.get('role', 'bounded stand-in for a function the verifier '
                                           'could not take') + '; never counted as discharged') for b in bounded_rows])
    write_evidence(prop, a.tier, seed, obligations, discharged, violations, known, undecided, fn_rows, trusted,
                   rewrites, samples, vac_total, vac_ok, cmds, solver_ms, time.time() - t0, reg, extra)
    print('%s: %d/%d obligations discharged, %d violation(s), %d known finding(s), %d undecided note(s); exit %d'
          % (prop, len(discharged), len(obligations), nviol, len(known), len(undecided), rc))
    return rc


def match_finding(findings, oid):
    for f in findings:
        if f.get('obligation') == oid:
            return f
    return None


def write_bounded_replay(path, prop, unit, o, bd):
    src_copy = path[:-4] + '.rs'
    try:
        import shutil
        shutil.copy(bd['source'], src_copy)
    except (OSError, KeyError):
        src_copy = bd.get('source', '?')
    with open(path, 'w') as f:
        f.write('property: %s\nobligation: %s\nkind: %s\n' % (prop, o['id'], o['kind']))
        f.write('contract clause:\n    %s\n' % o['text'].replace('\n', '\n    '))
        if 'assumed in the deductive part' in o.get('kind', ''):
            f.write('status: the function is outside the verifier\'s subset (iterator pipeline over std); its contract is assumed in the\n'
                    '        deductive part and the bounded harness is the check of the real text; the clause held on the pinned tree\n')
        else:
            f.write('status: the function can no longer be brought into the verifier (its new text uses a construct Verus rejects or a\n'
                    '        rewrite / proof anchor is lost), so the clause was checked by the bounded stand-in instead of deductively\n')
        f.write('bounded stand-in: %s; %d cases; bound: %s\n' % (bd['harness'], bd['checked'], bd['bound']))
        f.write('witness (an input of the REAL function text, extracted from the tree under check, that breaks the clause):\n    %s\n' % bd['witness'])
        f.write('replay: %s  (the harness with the real function text pasted in; %s)\n' % (src_copy, bd.get('cmd', '')))


def write_replay(path, prop, unit, o, msgs, res, a):
    it = [x for x in res['g'].items if x['id'] == o['item']][0]
    with open(path, 'w') as f:
        f.write('property: %s\nobligation: %s\nkind: %s\n' % (prop, o['id'], o['kind']))
        f.write('function under contract: %s (%s lines %d-%d, sha256 %s)\n' % (it['id'], it['src'], it['lines'][0], it['lines'][1], it['sha256']))
        f.write('contract clause:\n    %s\n' % o['text'].replace('\n', '\n    '))
        f.write('status: verified on the pinned tree (committed baseline), fails on the current tree\n')
        f.write('witness: no-failing-input-found (Verus gives no counterexample)\n')
        f.write('re-run: cd /verif && ./check %s --tier %s\n' % (prop, a.tier))
        f.write('verifier command: %s\n' % res['main'].cmd)
        f.write('---- verifier output ----\n')
        for m in msgs:
            f.write(m + '\n')


def write_evidence(prop, tier, seed, obligations, discharged, violations, known, undecided, fn_rows, trusted,
                   rewrites, samples, vac_total, vac_ok, cmds, solver_ms, wall, reg, extra):
    pmeta = reg['properties'][prop]
    ev = dict(
        property_id=prop, tier=tier if tier in ('quick', 'thorough') else 'quick', seed=seed, level='proof',
        coverage=dict(
            # obligations that fail only because of a recorded known finding are reported separately
            # (coverage.known_findings) and are not part of the proof-level count
            obligations=len(obligations) - len(known), discharged=len(discharged),
            obligations_including_known_findings=len(obligations),
            checker_cmd='; '.join(cmds) if cmds else 'verus <generated unit>.rs --output-json --time --error-format=json',
            trusted_base=sorted(set(trusted)),
            backend='verus 0.2026.09.13 / z3 (bundled)',
            functions_under_contract=fn_rows,
            solver_time_ms=solver_ms,
            bounded_obligations=extra.get('bounded_rows', []),
            clauses_not_covered=pmeta.get('not_covered', []),
            clauses_covered=pmeta.get('covered', []),
            extraction=dict(method='function and type texts lifted from the working tree by vc/weave.py on this run; '
                                   'rewrite rules R0..R17 only (DESIGN.md 3.2)', rewrites=sorted(set(rewrites))[:200],
                            dropped='attributes, visibility qualifiers, feature-gated code outside the unit feature set, '
                                    'SmallVec inline capacity, hashers; callers outside the unit see only contracts'),
            vacuity=dict(must_fail_copies=vac_total, failed_as_expected=vac_ok,
                         rule='each function with a contract is copied with `ensures false`, and marked clauses are '
                              'copied negated; every copy has to be rejected by the verifier'),
            samples=samples,
            failing=[v[1]['id'] for v in violations],
            known_findings=[k[1]['line'] for k in known],
            undecided=undecided[:20],
            stability=extra.get('stability', {}),
        ),
        assumptions=pmeta.get('assumptions', []) + reg.get('global_assumptions', []),
        wall_s=round(wall, 2),
        violations=len(violations),
    )
    # evidence under /verif/evidence always describes a run against /repo itself; runs against a scratch
    # tree (--repo, used for seeded changes) write to evidence_scratch/ (git-ignored) instead
    edir = os.path.join(VERIF, 'evidence' if os.path.realpath(EVIDENCE_REPO[0]) == '/repo' else 'evidence_scratch')
    os.makedirs(edir, exist_ok=True)
    json.dump(ev, open(os.path.join(edir, prop + '.json'), 'w'), indent=1)


if __name__ == '__main__':
    sys.exit(main())
