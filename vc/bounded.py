"""Bounded stand-in for a function that can no longer be brought into the verifier.

When the weaver has to isolate a function (Verus rejects a construct in its new text, or a rewrite / proof
anchor is lost) its contract cannot be decided deductively any more.  For functions that are pure over std
types a harness under contracts/bounded/ stands in: the REAL text of the function (and of the crate functions
it calls) is extracted from the tree under check, pasted into the harness in place of `/*{REAL}*/`, compiled
with rustc and run over an enumerated input space with a stated bound, comparing against an executable copy
of the contract.  The outcome is never counted as proof:
  * a counterexample is a failing input of the real code: the obligation is reported as a VIOLATION with it;
  * no counterexample leaves the obligation UNDECIDED (the note states the bound that was explored).
Harness protocol (stdout): `BOUND <text>` once, `CHECKED <n>` once, `WITNESS label=<clause label> input=<debug>`
per counterexample (at most one per label is used)."""
import os, re, shutil, subprocess, time
from . import rustlex as R
from . import weave

CONTRACTS = weave.CONTRACTS


def run(item_id, spec, repo, workdir):
    b = spec['bounded']
    out = dict(item=item_id, harness=b['harness'], status='error', witnesses={}, bound='', checked=0, detail='')
    try:
        texts = []
        for ent in b['items']:
            src, path = ent[0], ent[1]
            srcpath = weave.resolve_src(repo, src)
            s, toks = weave.load_src(srcpath)
            if path == '*':
                # the whole source file (a small leaf module); `subs` adapts its `use crate::...` lines to the harness
                t = s
                for (pa, rp) in b.get('subs', []):
                    t = re.sub(pa, rp, t)
                t = re.sub(r'\bpub\(crate\)\s+', 'pub ', t)
                texts.append('// ---- real text of the file %s ----\n%s\n' % (src, t))
                continue
            it = R.locate(s, toks, path)
            t = R.item_text(s, toks, it)
            t = re.sub(r'\bpub\(crate\)\s+', '', t)
            if len(ent) > 2:
                # a statement fragment of the item, placed verbatim into the given wrapper (as the weaver does)
                ms = list(re.finditer(ent[2], weave.strip_comments(t), re.S))
                if len(ms) != 1:
                    out['detail'] = 'fragment of %s not found (%d matches)' % (path, len(ms))
                    return out
                t = ent[3].replace('{FRAG}', ms[0].group(0))
            texts.append('// ---- real text of %s (%s) ----\n%s\n' % (path, src, t))
        h = open(os.path.join(CONTRACTS, b['harness'])).read()
        if '/*{REAL}*/' not in h:
            out['detail'] = 'harness has no /*{REAL}*/ placeholder'
            return out
        h = h.replace('/*{REAL}*/', '\n'.join(texts))
        if b.get('label'):
            h = h.replace('LABEL_OF_THE_ISOLATED_FUNCTION', b['label'])
        d = os.path.join(workdir, 'bounded')
        os.makedirs(d, exist_ok=True)
        name = re.sub(r'[^A-Za-z0-9_]', '_', item_id)
        src_path = os.path.join(d, name + '.rs')
        exe = os.path.join(d, name)
        open(src_path, 'w').write(h)
        out['source'] = src_path
        t0 = time.time()
        cfgs = []
        for cf in b.get('cfgs', []):
            cfgs += ['--cfg', cf]
        if b.get('cargo_deps'):
            # the function needs crates of the repository's dependency set: a throw-away cargo project with exactly those
            # dependencies, pinned by a copy of the repository's Cargo.lock, built offline from the local registry
            proj = os.path.join(d, name + '_proj')
            shutil.rmtree(proj, ignore_errors=True)
            os.makedirs(os.path.join(proj, 'src'))
            deps = '\n'.join(('%s = %s' % kv) if str(kv[1]).lstrip().startswith('{') else ('%s = "%s"' % kv) for kv in b['cargo_deps'].items())
            open(os.path.join(proj, 'Cargo.toml'), 'w').write(
                '[package]\nname = "bounded_harness"\nversion = "0.0.0"\nedition = "2024"\n[workspace]\n[dependencies]\n%s\n[profile.release]\ndebug = false\n' % deps)
            shutil.copy(src_path, os.path.join(proj, 'src', 'main.rs'))
            lock = os.path.join(repo, 'Cargo.lock')
            if os.path.exists(lock):
                shutil.copy(lock, os.path.join(proj, 'Cargo.lock'))
            env = dict(os.environ, CARGO_NET_OFFLINE='true', RUSTFLAGS='-A warnings', CARGO_TARGET_DIR=os.path.join(proj, 'target'))
            c = subprocess.run(['cargo', 'build', '--release', '--offline', '-q'], cwd=proj, capture_output=True, text=True, timeout=600, env=env)
            if c.returncode != 0 and os.path.exists(os.path.join(proj, 'Cargo.lock')):
                os.remove(os.path.join(proj, 'Cargo.lock'))     # the copied lock file may not fit a one-crate project: let cargo resolve offline
                c = subprocess.run(['cargo', 'build', '--release', '--offline', '-q'], cwd=proj, capture_output=True, text=True, timeout=600, env=env)
            exe = os.path.join(proj, 'target', 'release', 'bounded_harness')
        else:
            c = subprocess.run(['rustc', '--edition', '2024', '-O', '-A', 'warnings'] + cfgs + ['-o', exe, src_path],
                               capture_output=True, text=True, timeout=300)
        if c.returncode != 0:
            out['detail'] = 'the real function text does not compile stand-alone: ' + c.stderr.strip()[:600]
            return out
        r = subprocess.run([exe], capture_output=True, text=True, timeout=b.get('timeout', 300))
        out['wall_s'] = round(time.time() - t0, 2)
        for l in r.stdout.splitlines():
            m = re.match(r'WITNESS label=(\S+) input=(.*)$', l)
            if m:
                out['witnesses'].setdefault(m.group(1), m.group(2))
            m = re.match(r'BOUND (.*)$', l)
            if m:
                out['bound'] = m.group(1)
            m = re.match(r'CHECKED (\d+)$', l)
            if m:
                out['checked'] = int(m.group(1))
        if r.returncode not in (0, 1) or not out['checked']:
            out['detail'] = 'harness ended abnormally (rc %s): %s' % (r.returncode, (r.stderr or r.stdout)[-400:])
            return out
        out['status'] = 'witness' if out['witnesses'] else 'clean'
        out['cmd'] = 'rustc --edition 2024 -O %s -o h %s && ./h' % (' '.join(cfgs), os.path.basename(src_path))
    except subprocess.TimeoutExpired:
        out['detail'] = 'timeout'
    except (KeyError, ValueError, R.LexError, weave.Undecided, OSError) as e:
        out['detail'] = 'cannot build the harness: %s' % e
    return out
