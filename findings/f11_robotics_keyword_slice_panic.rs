// F11 (C19, C01 with feature `robotics`): `Parser::starts_ci` sliced the text by bytes (`&self.s[self.i..self.i + 4]`)
// without checking that the end is a char boundary: a float target with angle_conversions on panicked on `.a€`
// ("end byte index 4 is not a char boundary") instead of returning an error.
// Run: cp this file to /repo/tests/ and `cargo test --offline --features robotics --test f11_robotics_keyword_slice_panic`
#![cfg(feature = "robotics")]
#[test]
fn f11_multibyte_text_after_a_dot_is_an_error_not_a_panic() {
    for text in [".a€", ".aé1", "..€", ".in€", "1 + .a€"] {
        let opts = serde_saphyr::options! { angle_conversions: true };
        // a panic here fails the test; the evaluator must reject the text with an error
        let res = serde_saphyr::from_str_with_options::<f64>(text, opts);
        assert!(res.is_err(), "{text:?} should be rejected");
    }
}
