// F31 (C17 "... and for the miette adapter"; C16: locations denote positions of the BOM-stripped text): to_miette_report kept
// a leading U+FEFF in the source it hands to miette, while every offset in the error's Location refers to the text WITHOUT it
// (the parser ignores the mark).  For "\u{feff}x: nope\n" the label covered "x: n" instead of "nope".
// Needs `--features miette`.
#![cfg(feature = "miette")]
use miette::Diagnostic;
use serde::Deserialize;
#[derive(Debug, Deserialize)]
#[allow(dead_code)]
struct S { x: i32 }

fn labelled(doc: &str) -> Vec<String> {
    let err = serde_saphyr::from_str::<S>(doc).unwrap_err();
    let rep = serde_saphyr::miette::to_miette_report(&err, doc, "f.yaml");
    let d: &dyn Diagnostic = rep.as_ref();
    let src = d.source_code().expect("source");
    d.labels().expect("labels").map(|l| {
        let c = src.read_span(l.inner(), 0, 0).expect("span inside the source");
        String::from_utf8_lossy(c.data()).into_owned()
    }).collect()
}

#[test] fn f31_label_covers_the_offending_value_with_and_without_a_byte_order_mark() {
    assert_eq!(labelled("x: nope\n"), vec!["nope".to_string()]);
    assert_eq!(labelled("\u{feff}x: nope\n"), vec!["nope".to_string()]);
    assert_eq!(labelled("\u{feff}é: 1\nx: nope\n"), vec!["nope".to_string()]);
}
