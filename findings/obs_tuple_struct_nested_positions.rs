// Observation (C13, not applicable to this machinery; NOT repaired): a tuple STRUCT (`struct TS(String, String)`) is
// emitted by TupleSer's `Normal` path at `ser.depth + 1` without regard to its position. Inside a sequence that is
// itself a value (`k: [TS, TS]`, `[[TS]]`, `E::X(Vec<TS>)`) the items of the tuple struct are written at the column of
// the outer sequence and read back as its items ("invalid length 0, expected tuple struct TS with 2 elements"); with
// multi-line strings (block scalars) the bodies are under-indented in every position. Found by a throw-away round-trip
// probe while bringing tuple variants under contract (F22); the repair would have to rebuild TupleSer on top of the
// sequence serializer and is not a small local change. These tests FAIL on the current tree.
use serde::{Deserialize, Serialize};
use serde_saphyr::{from_str, to_string};
#[derive(Serialize, Deserialize, PartialEq, Debug, Clone)] struct TS(String, String);
#[derive(Serialize, Deserialize, PartialEq, Debug, Clone)] struct M { k: Vec<TS>, z: i32 }
#[test] fn tuple_struct_inside_a_sequence_value() {
    let v = M { k: vec![TS("a".into(), "b".into())], z: 1 };
    let y = to_string(&v).unwrap();
    assert_eq!(from_str::<M>(&y).unwrap_or_else(|e| panic!("via {y:?}: {e}")), v);
}
#[test] fn tuple_struct_with_block_scalar() {
    let v = TS("a\nb".into(), "c".into());
    let y = to_string(&v).unwrap();
    assert_eq!(from_str::<TS>(&y).unwrap_or_else(|e| panic!("via {y:?}: {e}")), v);
}
