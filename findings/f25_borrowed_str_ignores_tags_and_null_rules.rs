// F25 (C09: "deserializing into borrowed strings ... yields the same text as the owned variant"; C06: tags and null forms):
// `deserialize_str` (the path taken by `&str` targets) had its own, shorter acceptance rules: it ignored every tag except
// `!!null`, so `!!binary aGk=` was lent as the RAW text "aGk=" where `String` gets the decoded "hi", `!!int 12` was lent as
// "12" where `String` is refused, and `!!str null` / `!!str ~` were refused as null where `String` gets "null" / "~"; under
// `no_schema` a number-like plain scalar was lent where `String` demands quoting. It now applies the rules of
// `deserialize_string` before lending.
#[test] fn f25_borrowed_and_owned_string_targets_agree() {
    for y in ["!!str null", "!!str ~", "a", "!!str a", "\"q\"", "12", "true", "!custom a"] {
        let o: String = serde_saphyr::from_str(y).unwrap_or_else(|e| panic!("{y:?} String: {e}"));
        let b: &str = serde_saphyr::from_str(y).unwrap_or_else(|e| panic!("{y:?} &str: {e}"));
        assert_eq!(o, b, "{y:?}");
    }
    for y in ["!!int 12", "!!float 1.5", "!!bool true", "!!seq a", "null", "~", "! null"] {
        assert!(serde_saphyr::from_str::<String>(y).is_err(), "{y:?} String");
        assert!(serde_saphyr::from_str::<&str>(y).is_err(), "{y:?} into &str must be refused like String");
    }
    // decoded base64 does not exist in the input: it cannot be lent, and the raw text must not be handed out instead
    assert_eq!(serde_saphyr::from_str::<String>("!!binary aGk=").unwrap(), "hi");
    assert!(serde_saphyr::from_str::<&str>("!!binary aGk=").is_err());
    let o = serde_saphyr::options! { no_schema: true };
    assert!(serde_saphyr::from_str_with_options::<String>("12", o.clone()).is_err());
    assert!(serde_saphyr::from_str_with_options::<&str>("12", o).is_err());
}
