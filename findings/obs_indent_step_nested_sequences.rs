// OBSERVATION (C13 / C20, outside every unit of this machinery; NOT detected by a contract, NOT repaired):
// with `indent_step` other than 2, a mapping that is the first element of a NESTED block sequence (`- - key: ...`)
// gets its first key at column depth*step + 4 but its following keys at a column computed from `step`, so the
// emitted document does not re-parse to the same value (step 1: "missing field"; step 3, 4, 8: parse error).
// Example value: Vec<Vec<Map>> with a two-key map.  Run: copy to /repo/tests and `cargo test --offline --test <name>`.
use std::collections::BTreeMap;
#[test]
fn indent_step_must_not_change_data() {
    let mut m = BTreeMap::new();
    m.insert("x".to_string(), vec![1, 2]);
    m.insert("y".to_string(), vec![3]);
    let v = vec![vec![m]];
    for step in [1usize, 2, 3, 4, 8] {
        let opts = serde_saphyr::ser_options! { indent_step: step };
        let y = serde_saphyr::to_string_with_options(&v, opts).unwrap();
        let back: Result<Vec<Vec<BTreeMap<String, Vec<i32>>>>, _> = serde_saphyr::from_str(&y);
        assert_eq!(back.ok().as_ref(), Some(&v), "indent_step {step} produced:\n{y}");
    }
}
