// F22 (C12: strings in enum payload position; also a C13 matter): serialize_tuple_variant wrote the variant name at
// the current position without looking at where it stands. As the value of a struct field / map key this gave
// `e:T:` (the key and the variant name on one line: a different key, or unreadable); as an element of a sequence that
// is itself nested, the items were written left of the variant name and so belonged to the outer sequence
// ("invalid length 0, expected tuple variant"). Struct variants already handled both positions; tuple variants now
// follow the same rules, and their items record the dash depth the way sequence elements do (block scalars inside
// them were under-indented otherwise).
use serde::{Deserialize, Serialize};
use serde_saphyr::{from_str, to_string};
#[derive(Serialize, Deserialize, PartialEq, Debug, Clone)] enum E { T(String, String) }
#[derive(Serialize, Deserialize, PartialEq, Debug, Clone)] struct W { e: E, v: Vec<E>, n: i32 }
#[derive(Serialize, Deserialize, PartialEq, Debug, Clone)] struct O { w: W }
fn rt<T: Serialize + for<'a> Deserialize<'a> + PartialEq + std::fmt::Debug>(v: &T) {
    let y = to_string(v).unwrap();
    assert_eq!(&from_str::<T>(&y).unwrap_or_else(|e| panic!("via {y:?}: {e}")), v, "via {y:?}");
}
#[test] fn f22_tuple_variant_in_every_position() {
    for s in ["plain", "two\nlines", " leading blank\nsecond"] {
        let e = || E::T(s.to_string(), s.to_string());
        rt(&e());
        rt(&vec![e(), e()]);
        rt(&vec![vec![e()]]);
        rt(&W { e: e(), v: vec![e(), e()], n: 1 });
        rt(&O { w: W { e: e(), v: vec![e()], n: 2 } });
        rt(&Some(e()));
    }
}
