// F14 (C10): the document iterators (`read`, `read_with_options` and the *_valid / *_validate variants) skipped an
// empty document with `let _ = self.src.next();`.  When the reader failed while that (empty) document was being
// scanned, the deferred I/O error surfaced exactly in that discarded call and was lost: the iterator ended with no
// item and no error (e.g. a reader that fails on its first read, or after `---\n`).
use std::io::{self, Read};
struct Failing { data: Vec<u8>, pos: usize }
impl Read for Failing {
    fn read(&mut self, buf: &mut [u8]) -> io::Result<usize> {
        if self.pos >= self.data.len() { return Err(io::Error::new(io::ErrorKind::Other, "disk on fire")); }
        let n = buf.len().min(self.data.len() - self.pos);
        buf[..n].copy_from_slice(&self.data[self.pos..self.pos + n]);
        self.pos += n;
        Ok(n)
    }
}
#[test]
fn f14_a_failing_reader_is_reported_by_the_document_iterator() {
    for text in ["", "---\n", "\n\n", "# only a comment\n", "--- ~\n"] {
        let mut r = Failing { data: text.as_bytes().to_vec(), pos: 0 };
        let items: Vec<Result<i32, serde_saphyr::Error>> = serde_saphyr::read(&mut r).collect();
        assert!(items.iter().any(|x| x.is_err()), "reader failed after {text:?} but the iterator yielded {} items and no error", items.len());
    }
}
