// F38 / F39 (C20: "all serializer options affect only the layout of the emitted document"; also C13, which this machinery
// does not claim). With `indent_step` other than 2 the document re-parsed to different data or not at all:
//   F38: a block sequence below a dash kept its first dash on the line of the outer dash (`- - a`, two columns right of it)
//        while its following dashes were indented by one indent step - the same column only for a step of 2.
//        indent_step 4: vec![vec!["a", "b"]] => "- - a\n    - b\n" (reads back as [["a - b"]] / an error); the same for
//        tuple structs and for mappings below `- -` (first key and later keys in different columns).
//   F39: with a step of 1 the fields of a struct variant below a dash (`- S:`) started in the column of the variant name.
// First recorded as an observation (found by a throw-away round-trip probe, before the sequence machinery was under
// contract); once `serialize_seq`'s prologue and the dash of `SeqSer::serialize_element` were under contract (unit `seropts`)
// the clause "all dashes of a block sequence stand in one column" could be stated and fails on the tree before the repair.
// Repaired in /repo 4c3b740 (F38) and a33b962 (F39). These tests fail before those commits and pass with them.
// NOT repaired (observation): `indent_step: 1` together with `compact_list_indent: true` still misplaces a sequence that is
// the payload of a newtype variant below a dash (`- N:\n - x`); see DESIGN.md.
use serde::{Deserialize, Serialize};
use std::collections::BTreeMap;
#[derive(Debug, Serialize, Deserialize, PartialEq, Clone)] struct P { a: i32, b: String }
#[derive(Debug, Serialize, Deserialize, PartialEq, Clone)] struct TS(String, String);
#[derive(Debug, Serialize, Deserialize, PartialEq, Clone)] enum E { T(String, i32), S { a: i32, b: i32 } }
#[derive(Debug, Serialize, Deserialize, PartialEq, Clone)]
struct W { vv: Vec<Vec<String>>, vvv: Vec<Vec<Vec<String>>>, vvm: Vec<Vec<P>>, mv: BTreeMap<String, Vec<Vec<P>>>, ts: Vec<TS>, es: Vec<E>, ves: Vec<Vec<E>>, ml: Vec<Vec<String>>, z: i32 }
#[test]
fn indent_step_must_not_change_data() {
    let mut m = BTreeMap::new();
    m.insert("x".to_string(), vec![1, 2]);
    m.insert("y".to_string(), vec![3]);
    let v = vec![vec![m]];
    for step in [1usize, 2, 3, 4, 8] {
        let opts = serde_saphyr::ser_options! { indent_step: step };
        let y = serde_saphyr::to_string_with_options(&v, opts).unwrap();
        let back: Result<Vec<Vec<BTreeMap<String, Vec<i32>>>>, _> = serde_saphyr::from_str(&y);
        assert_eq!(back.ok().as_ref(), Some(&v), "indent_step {step} produced:\n{y}");
    }
}
#[test]
fn nested_sequences_of_every_kind_for_every_step() {
    let p = P { a: 1, b: "x".into() };
    let mut mv = BTreeMap::new(); mv.insert("k".to_string(), vec![vec![p.clone(), p.clone()], vec![p.clone()]]);
    let es = vec![E::T("t".into(), 1), E::S { a: 1, b: 2 }];
    let w = W { vv: vec![vec!["a".into(), "b".into()], vec!["c".into()]], vvv: vec![vec![vec!["a".into(), "b".into()], vec!["c".into()]]],
        vvm: vec![vec![p.clone(), p.clone()]], mv, ts: vec![TS("a".into(), "b".into())], es: es.clone(), ves: vec![es.clone()],
        ml: vec![vec!["l1\nl2".into(), " lead\nx".into()]], z: 1 };
    for step in [1usize, 2, 3, 4, 8] { for compact in [false, true] {
        let mut o = serde_saphyr::SerializerOptions::default(); o.indent_step = step; o.compact_list_indent = compact;
        let y = serde_saphyr::to_string_with_options(&w, o).unwrap();
        let back = serde_saphyr::from_str::<W>(&y).unwrap_or_else(|e| panic!("indent_step {step} compact {compact}: {e}\n{y}"));
        assert_eq!(back, w, "indent_step {step} compact {compact} produced:\n{y}");
    }}
}
#[test]
fn struct_variant_below_a_dash_with_step_one() {
    let v = vec![E::S { a: 1, b: 2 }];
    let y = serde_saphyr::to_string_with_options(&v, serde_saphyr::ser_options! { indent_step: 1 }).unwrap();
    assert_eq!(serde_saphyr::from_str::<Vec<E>>(&y).unwrap_or_else(|e| panic!("{e}\n{y}")), v);
}
