// F36 (C12 position "sequence item"; primarily C14 / C13, which this machinery does not claim). A sequence shared through
// RcAnchor / ArcAnchor and placed as an ELEMENT of another sequence was written as
//     - &a1
//     - a
//       - b
//     - *a1
// serialize_seq decided "keep the first inner dash on the line of the outer dash" before it wrote the anchor, and the anchor
// ends the line: the first dash of the anchored sequence lands in the column of the outer dash. The text reads back as a
// different tree ("expected sequence start") and the alias names a scalar. Found by a round-trip probe while rebuilding tuple
// structs on the sequence serializer (F35); repaired in /repo dc88837. Fails before that commit, passes with it.
use serde_saphyr::{from_str, to_string, RcAnchor};
use std::rc::Rc;
#[test] fn anchored_sequence_as_sequence_item() {
    let rc = Rc::new(vec!["a".to_string(), "b".to_string()]);
    let y = to_string(&vec![RcAnchor(rc.clone()), RcAnchor(rc.clone())]).unwrap();
    let back = from_str::<Vec<Vec<String>>>(&y).unwrap_or_else(|e| panic!("via {y:?}: {e}"));
    assert_eq!(back, vec![(*rc).clone(), (*rc).clone()]);
    let shared = from_str::<Vec<RcAnchor<Vec<String>>>>(&y).unwrap_or_else(|e| panic!("via {y:?}: {e}"));
    assert!(Rc::ptr_eq(&shared[0].0, &shared[1].0), "sharing lost via {y:?}");
}
#[test] fn anchored_sequence_two_levels_down() {
    let rc = Rc::new(vec![vec!["a".to_string()]]);
    let y = to_string(&vec![vec![RcAnchor(rc.clone())], vec![RcAnchor(rc.clone())]]).unwrap();
    let back = from_str::<Vec<Vec<Vec<Vec<String>>>>>(&y).unwrap_or_else(|e| panic!("via {y:?}: {e}"));
    assert_eq!(back, vec![vec![(*rc).clone()], vec![(*rc).clone()]]);
}
