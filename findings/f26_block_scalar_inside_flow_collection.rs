// F26 (C20): the explicit LitStr / FoldStr wrappers inside a flow collection (FlowSeq / FlowMap) wrote a block scalar header
// inside `[ ... ]`: FlowSeq([LitStr("a\nb")]) => "[|-\n  a\n  b\n]" which the reader takes for the PLAIN scalar "|- a b" -
// silently different data. (The automatic block style already checked the flow context; the explicit wrappers did not.)
use serde_saphyr::{from_str, to_string, FlowMap, FlowSeq, FoldStr, LitStr};
use std::collections::BTreeMap;
#[test] fn f26_block_wrappers_inside_flow_collections() {
    let y = to_string(&FlowSeq(vec![LitStr("a\nb"), LitStr("c")])).unwrap();
    assert_eq!(from_str::<Vec<String>>(&y).unwrap_or_else(|e| panic!("via {y:?}: {e}")), vec!["a\nb", "c"], "via {y:?}");
    let long = "word ".repeat(25) + "end";
    let y = to_string(&FlowSeq(vec![FoldStr(&long)])).unwrap();
    assert_eq!(from_str::<Vec<String>>(&y).unwrap_or_else(|e| panic!("via {y:?}: {e}")), vec![long.clone()], "via {y:?}");
    let mut m = BTreeMap::new(); m.insert("k".to_string(), LitStr("x\ny"));
    let y = to_string(&FlowMap(m)).unwrap();
    assert_eq!(from_str::<BTreeMap<String, String>>(&y).unwrap_or_else(|e| panic!("via {y:?}: {e}"))["k"], "x\ny", "via {y:?}");
}
