// F33 (C20 "the presentation wrappers (flow sequence, flow mapping ...) affect only the layout of the emitted document: it deserializes
// to the same data"): an enum variant WITH a payload inside a flow collection was written with the block-style rules - a newtype
// variant as the value of a flow mapping gave `{k: N: x}` (rejected by the reader), a tuple variant `[T:\n  - a- 2]`, a struct
// variant `[S:\n  a: sb: 3]` (both garbage).  Inside a flow collection a variant with a payload has to be a flow mapping:
// `{k: {N: x}}`, `[{T: [a, 2]}]`, `[{S: {a: s, b: 3}}]`.
use serde::{Deserialize, Serialize};
use serde_saphyr::{FlowMap, FlowSeq};
use std::collections::BTreeMap;
#[derive(Debug, Serialize, Deserialize, PartialEq, Clone)]
enum E { N(String), T(String, i32), S { a: String, b: i32 }, U, O(Option<i32>), V(Vec<i32>), M(BTreeMap<String, i32>) }
#[derive(Debug, Serialize, Deserialize, PartialEq, Clone)]
struct W { fs: FlowSeq<Vec<E>>, fm: FlowMap<BTreeMap<String, E>>, nested: Vec<FlowSeq<Vec<E>>>, mv: BTreeMap<String, FlowMap<BTreeMap<String, E>>> }

#[test] fn f33_enums_with_a_payload_survive_the_flow_wrappers() {
    let mut mm = BTreeMap::new(); mm.insert("k".to_string(), 1);
    let es = vec![E::N("x".into()), E::N("a, b".into()), E::T("a".into(), 2), E::S { a: "s".into(), b: 3 }, E::U, E::O(Some(4)), E::O(None),
                  E::V(vec![1, 2]), E::V(vec![]), E::M(mm), E::M(BTreeMap::new())];
    for e in &es {
        let mut m = BTreeMap::new(); m.insert("k".to_string(), e.clone()); m.insert("z".to_string(), E::U);
        let mut mv = BTreeMap::new(); mv.insert("q".to_string(), FlowMap(m.clone()));
        let w = W { fs: FlowSeq(vec![e.clone(), E::U, e.clone()]), fm: FlowMap(m), nested: vec![FlowSeq(vec![e.clone()]), FlowSeq(vec![])], mv };
        let y = serde_saphyr::to_string(&w).unwrap();
        let r: W = serde_saphyr::from_str(&y).unwrap_or_else(|x| panic!("{e:?} via\n{y}\n{x}"));
        assert_eq!(r, w, "via\n{y}");
        let top = FlowSeq(vec![e.clone()]);
        let y = serde_saphyr::to_string(&top).unwrap();
        let r: FlowSeq<Vec<E>> = serde_saphyr::from_str(&y).unwrap_or_else(|x| panic!("{e:?} via {y:?}: {x}"));
        assert_eq!(r, top, "via {y:?}");
    }
}
