// F30 (C17 "includes the line the location refers to with the marker under the reported column ... for snippets taken from
// the reader's recent-bytes window"): from_reader_with_options put its recent-bytes ring around the RAW reader, in front of
// the BOM-sniffing decoder.  For UTF-16 input (which the reader entry points accept and decode) the snippet was cut from the
// raw UTF-16 bytes: every character followed by a NUL shown as a blank, the marker under the wrong column
// (" x :   n o p e" with the caret under ':'), the byte order mark as two replacement characters, and no snippet at all
// when some UTF-16 code unit happens to contain the byte 0x0A (U+010A).
use serde::Deserialize;
#[derive(Debug, Deserialize)]
#[allow(dead_code)]
struct S { x: i32 }

fn utf16(doc: &str, le: bool) -> Vec<u8> {
    let mut v: Vec<u8> = if le { vec![0xFF, 0xFE] } else { vec![0xFE, 0xFF] };
    for u in doc.encode_utf16() { v.extend_from_slice(&if le { u.to_le_bytes() } else { u.to_be_bytes() }); }
    v
}

fn check(report: &str, what: &str) {
    let lines: Vec<&str> = report.lines().collect();
    let m = lines.iter().position(|l| l.contains("^ ")).unwrap_or_else(|| panic!("{what}: no snippet in:\n{report}"));
    let shown = lines[m - 1];
    assert!(shown.ends_with("| x: nope"), "{what}: marker under {shown:?}\n{report}");
    assert_eq!(lines[m].find('^'), shown.find("nope"), "{what}: caret not under the value\n{report}");
}

#[test] fn f30_utf16_input_through_the_reader_gets_a_readable_snippet() {
    for doc in ["# a\ny: 1\nx: nope\nz: 2\n", "# \u{10A}\u{10A}\u{10A}\ny: 1\nx: nope\nz: 2\n"] {
        let by_str = serde_saphyr::from_str::<S>(doc).unwrap_err().to_string();
        check(&by_str, "from_str");
        for le in [true, false] {
            let bytes = utf16(doc, le);
            let by_reader = serde_saphyr::from_reader::<_, S>(&bytes[..]).unwrap_err().to_string();
            check(&by_reader, if le { "from_reader UTF-16LE" } else { "from_reader UTF-16BE" });
            assert_eq!(by_reader, by_str, "the reader report differs from the string report");
        }
    }
}
