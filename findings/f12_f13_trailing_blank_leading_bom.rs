// F12 / F13 (C12): strings with trailing white space ("a ") and strings starting with U+FEFF were emitted as plain
// scalars; the reader drops trailing white space and takes a leading U+FEFF for a byte order mark, so the value
// read back differed ("a", resp. without the BOM / null / an error for "\u{feff}").
use std::collections::BTreeMap;
fn rt(c: &str) {
    let y = serde_saphyr::to_string(&c.to_string()).unwrap();
    assert_eq!(serde_saphyr::from_str::<String>(&y).unwrap(), c, "root {c:?} via {y:?}");
    let mut m = BTreeMap::new(); m.insert("k".to_string(), c.to_string());
    let y = serde_saphyr::to_string(&m).unwrap();
    assert_eq!(serde_saphyr::from_str::<BTreeMap<String, String>>(&y).unwrap(), m, "value {c:?} via {y:?}");
    let mut m = BTreeMap::new(); m.insert(c.to_string(), "v".to_string());
    let y = serde_saphyr::to_string(&m).unwrap();
    assert_eq!(serde_saphyr::from_str::<BTreeMap<String, String>>(&y).unwrap(), m, "key {c:?} via {y:?}");
    let v = vec![c.to_string()];
    let y = serde_saphyr::to_string(&v).unwrap();
    assert_eq!(serde_saphyr::from_str::<Vec<String>>(&y).unwrap(), v, "seq {c:?} via {y:?}");
}
#[test] fn f12_trailing_blank_round_trips() { rt("a "); rt("a  "); rt("x y "); }
#[test] fn f13_leading_bom_round_trips() { rt("\u{feff}a"); rt("\u{feff}"); }
