// F21 (C20, C12): with `yaml_12: true` the serializer wrote the `%YAML 1.2` directive line and then the document
// content directly. A directive must be followed by the document start marker `---` (YAML 1.2, 9.1); without it
// the text is not a YAML stream: the crate's own reader rejected EVERY document emitted with the option
// ("did not find expected <document start>"), i.e. the option changed readable output into unreadable output.
use std::collections::BTreeMap;
#[test] fn f21_yaml12_output_reads_back() {
    let opts = || serde_saphyr::ser_options! { yaml_12: true };
    let mut m = BTreeMap::new(); m.insert("k".to_string(), "v".to_string());
    let y = serde_saphyr::to_string_with_options(&m, opts()).unwrap();
    assert!(y.starts_with("%YAML 1.2\n"));
    assert_eq!(serde_saphyr::from_str::<BTreeMap<String, String>>(&y).unwrap_or_else(|e| panic!("via {y:?}: {e}")), m);
    let y = serde_saphyr::to_string_with_options(&vec![1, 2, 3], opts()).unwrap();
    assert_eq!(serde_saphyr::from_str::<Vec<i32>>(&y).unwrap_or_else(|e| panic!("via {y:?}: {e}")), vec![1, 2, 3]);
    let y = serde_saphyr::to_string_with_options(&"text", opts()).unwrap();
    assert_eq!(serde_saphyr::from_str::<String>(&y).unwrap_or_else(|e| panic!("via {y:?}: {e}")), "text");
}
