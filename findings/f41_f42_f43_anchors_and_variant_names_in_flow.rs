// F41 / F42 / F43: three defects a seeding agent listed as "already broken on the unchanged crate" while it was looking
// for a change to seed; each confirmed here against the real crate, stated as a contract clause, and repaired.
//   F41 (C20, flow wrappers): an anchored flow collection as a mapping VALUE was written `k:&a1  [1, 2]` - the staged anchor
//        before the space that follows the colon - so `RcAnchor<FlowSeq<..>>` / `RcAnchor<FlowMap<..>>` gave an unreadable
//        document where the bare collection is fine. Repaired in /repo e40e0ee.
//   F42 (C12 "None ... in any position"; primarily C14): the null written for a dangling weak anchor as a mapping value was
//        glued to the colon: `k:null`. Repaired in /repo 9375515.
//   F43 (C20): in the flow forms of enum variants (`{Variant: value}`, introduced with F33) the variant name was written by the
//        block-style rules: a variant renamed to `a,b` gave `[{a,b: 1}]`, read back as the unknown variant `a`. Repaired in
//        /repo 7b762de (the name is written by the key rules, like every other key inside a flow collection).
// These tests fail before those commits and pass with them.
use serde::{Deserialize, Serialize};
use serde_saphyr::{from_str, to_string, FlowMap, FlowSeq, RcAnchor, RcWeakAnchor};
use std::collections::BTreeMap;
use std::rc::Rc;
#[derive(Serialize)] struct S { k: RcAnchor<FlowSeq<Vec<i32>>>, j: RcAnchor<FlowSeq<Vec<i32>>> }
#[derive(Serialize)] struct M { k: RcAnchor<FlowMap<BTreeMap<String, i32>>>, j: RcAnchor<FlowMap<BTreeMap<String, i32>>> }
#[derive(Serialize)] struct Wk { k: RcWeakAnchor<i32>, z: i32 }
#[derive(Debug, Serialize, Deserialize, PartialEq, Clone)]
enum E { #[serde(rename = "a,b")] V(i32), #[serde(rename = "x]")] W { f: i32 }, #[serde(rename = "p, q")] T(i32, i32) }
#[test] fn f41_anchored_flow_sequence_as_mapping_value() {
    let rc = Rc::new(FlowSeq(vec![1, 2]));
    let y = to_string(&S { k: RcAnchor(rc.clone()), j: RcAnchor(rc.clone()) }).unwrap();
    let back = from_str::<BTreeMap<String, Vec<i32>>>(&y).unwrap_or_else(|e| panic!("{e}\n{y}"));
    assert_eq!(back["k"], vec![1, 2]); assert_eq!(back["j"], vec![1, 2]);
}
#[test] fn f41_anchored_flow_mapping_as_mapping_value() {
    let mut m = BTreeMap::new(); m.insert("a".to_string(), 1);
    let rc = Rc::new(FlowMap(m.clone()));
    let y = to_string(&M { k: RcAnchor(rc.clone()), j: RcAnchor(rc.clone()) }).unwrap();
    let back = from_str::<BTreeMap<String, BTreeMap<String, i32>>>(&y).unwrap_or_else(|e| panic!("{e}\n{y}"));
    assert_eq!(back["k"], m); assert_eq!(back["j"], m);
}
#[test] fn f42_dangling_weak_anchor_as_mapping_value() {
    let weak = { let r = Rc::new(5); Rc::downgrade(&r) };
    let y = to_string(&Wk { k: RcWeakAnchor(weak), z: 1 }).unwrap();
    let back = from_str::<BTreeMap<String, Option<i32>>>(&y).unwrap_or_else(|e| panic!("{e}\n{y}"));
    assert_eq!(back["k"], None); assert_eq!(back["z"], Some(1));
}
#[test] fn f43_variant_names_with_flow_indicators_inside_flow_collections() {
    let v = vec![E::V(1), E::W { f: 2 }, E::T(1, 2)];
    let y = to_string(&FlowSeq(v.clone())).unwrap();
    assert_eq!(from_str::<Vec<E>>(&y).unwrap_or_else(|e| panic!("{e}\n{y}")), v, "via {y}");
    let bare = to_string(&v).unwrap();
    assert_eq!(from_str::<Vec<E>>(&bare).unwrap(), v);
}
