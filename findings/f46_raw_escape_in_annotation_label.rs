// F46 (C17: the rendering "contains no C0 (other than newline and tab), DEL or C1 control characters whatever the input or
// any reflected key / value text contained"). The renderer normalises the TITLE of a snippet report but not the annotation
// label under the marker; a message that reflects key text (duplicate key) put a raw ESC into the label:
//     "a\eb": 1
//     "a\eb": 2      =>   "  | ^ duplicate mapping key: a<ESC>b, set DuplicateKeyPolicy ..."
// Listed by a seeding agent as "already broken"; confirmed here; stated as the obligations crop/Snippet::fmt_or_fallback#label
// (the label is sanitised like the snippet text) and #annotation (it is the sanitised label that is handed to the renderer).
// Repaired in /repo bfea3b6. This test fails before that commit and passes with it.
use std::collections::HashMap;
#[test] fn label_has_no_raw_escape() {
    let y = "\"a\\eb\": 1\n\"a\\eb\": 2\n";
    let e = serde_saphyr::from_str::<HashMap<String, i32>>(y).unwrap_err().to_string();
    assert!(!e.contains('\u{1b}'), "{e:?}");
}
