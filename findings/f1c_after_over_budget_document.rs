use serde::Deserialize;
#[derive(Debug, Deserialize, PartialEq)]
struct P { a: Vec<i32> }

fn opts(max_events: usize) -> serde_saphyr::Options {
    serde_saphyr::options! { budget: serde_saphyr::budget! { max_events: max_events, }, }
}

fn run(input: &str, max_events: usize) -> Vec<Result<P, String>> {
    let mut r = input.as_bytes();
    serde_saphyr::read_with_options::<_, P>(&mut r, opts(max_events)).map(|x| x.map_err(|e| e.to_string())).collect()
}

#[test]
fn f1c_documents_after_an_over_budget_document_are_counted_on_their_own() {
    let small = "---\na: [1]\n";
    let big = "---\na: [1, 2, 3, 4, 5, 6, 7, 8, 9, 10, 11, 12, 13, 14, 15, 16, 17, 18, 19, 20]\n";
    let limit = 12;
    let v = run(small, limit);
    assert!(v.len() == 1 && v[0].is_ok(), "{v:?}");
    assert!(run(big, limit).iter().any(|r| r.is_err()));
    // per-document enforcement: the small documents after the big one are still fine
    let v = run(&format!("{big}{small}{small}"), limit);
    assert_eq!(v.len(), 3, "{v:?}");
    assert!(v[0].is_err());
    assert!(v[1].is_ok() && v[2].is_ok(), "{v:?}");
}
