// F44 (C07: "deserialization succeeds only if every counted quantity ... merge keys ... is within its limit"). The budget
// enforcer sees the alias TOKEN and then every replayed event of the anchored node; both flipped the key/value phase of the
// enclosing mapping, so after an alias in value position (`x: *B`) the tracker took the next KEY for a value and a merge key
// that followed was not counted:
//     base: &B {k: 1}
//     x: *B
//     <<: *B
// was accepted with `max_merge_keys: 0` (the callback report said merge_keys: 0, `check_yaml_budget` counts 1). Listed by a
// seeding agent as "already broken"; confirmed here. The abstract model of unit `budget` (abs_step) had been written from the
// code and treated the alias token and the replayed node as two nodes as well, so no obligation failed: a specification taken
// from the code, not from the property. Repaired in /repo 683de1b (when an alias is about to be expanded the phase recorded
// for the token is taken back: BudgetEnforcer::alias_will_be_replayed, under contract in unit `budget`; obligation in
// live/LiveEvents::next_impl#body). These tests fail before that commit and pass with it.
use serde_saphyr::{from_str_with_options, Budget, Options};
use std::collections::BTreeMap;
fn opts(max_merge: usize) -> Options { let mut b = Budget::default(); b.max_merge_keys = max_merge; let mut o = Options::default(); o.budget = Some(b); o }
#[test] fn merge_key_after_alias_value_is_counted() {
    let y = "base: &B {k: 1}\nx: *B\n<<: *B\n";
    let r = from_str_with_options::<BTreeMap<String, serde_json::Value>>(y, opts(0));
    assert!(r.is_err(), "accepted with max_merge_keys 0: {r:?}");
    assert!(from_str_with_options::<BTreeMap<String, serde_json::Value>>(y, opts(1)).is_ok());
}
#[test] fn merge_key_after_scalar_alias_value_is_counted() {
    let y = "s: &S 1\nt: *S\n<<: {k: 1}\n";
    assert!(from_str_with_options::<BTreeMap<String, i32>>(y, opts(0)).is_err());
    assert!(from_str_with_options::<BTreeMap<String, i32>>(y, opts(1)).is_ok());
}
#[test] fn alias_as_key_then_merge() {
    let y = "a: &K kk\n*K : 1\n<<: {z: 2}\n";
    assert!(from_str_with_options::<BTreeMap<String, serde_json::Value>>(y, opts(0)).is_err());
}
