// Demonstration for finding F7 (C06), fails before fix 'accept i128::MIN written in hex/octal/binary notation'.
// Put under /repo/tests/ and run: cargo test --offline --test f7_i128_min_radix
#[test]
fn f7_i128_min_in_hex_octal_binary() {
    let dec: i128 = serde_saphyr::from_str("-170141183460469231731687303715884105728").unwrap();
    assert_eq!(dec, i128::MIN);
    let hex: Result<i128, _> = serde_saphyr::from_str("-0x80000000000000000000000000000000");
    assert_eq!(hex.ok(), Some(i128::MIN));
    let over: Result<i128, _> = serde_saphyr::from_str("-0x80000000000000000000000000000001");
    assert!(over.is_err());
}
