// F37 (C20: "all serializer options affect only the layout of the emitted document"). With `compact_list_indent: true`
// (and the default `empty_as_braces: true`) an EMPTY sequence that follows a block-style sibling was written as
//     a:
//     - 1
//     b:
//     []
// serialize_seq broke the line after `b:` as soon as the previous value had been a block, before it knew whether the
// sequence has elements; SeqSer::end then wrote `[]` at the sequence's depth, which under compact indentation is the column
// of the key: "simple key expect ':'". Without the option the same value was written `b:\n  []` and read back fine, so the
// option changed whether the document can be read at all. Found by a round-trip probe over option vectors while repairing
// F35; repaired in /repo 986093b (the line break is left to the first element; an empty sequence is `b: []` under every
// option set). Fails before that commit, passes with it.
use serde::{Deserialize, Serialize};
use serde_saphyr::{from_str, to_string_with_options, SerializerOptions};
#[derive(Serialize, Deserialize, PartialEq, Debug, Clone)] struct S { a: Vec<i32>, b: Vec<i32>, z: i32 }
#[test] fn no_option_vector_makes_the_document_unreadable() {
    let v = S { a: vec![1], b: vec![], z: 1 };
    for compact in [false, true] { for braces in [false, true] {
        let mut o = SerializerOptions::default(); o.compact_list_indent = compact; o.empty_as_braces = braces;
        let y = to_string_with_options(&v, o).unwrap();
        assert_eq!(from_str::<S>(&y).unwrap_or_else(|e| panic!("compact={compact} braces={braces} via {y:?}: {e}")), v);
    }}
}
