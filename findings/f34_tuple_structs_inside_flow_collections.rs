// F34 (C20, same family as F33): a tuple STRUCT (`struct TS(i32, String)`) inside a flow collection was written as a block sequence:
// FlowMap({"k": TS(7, "x")}) => "{k: \n  - 7- x}" (rejected by the reader).  Inside a flow collection it has to be `[7, x]`.
use serde::{Deserialize, Serialize};
use serde_saphyr::{FlowMap, FlowSeq};
use std::collections::BTreeMap;
#[derive(Debug, Serialize, Deserialize, PartialEq, Clone)] struct TS(i32, String);
#[derive(Debug, Serialize, Deserialize, PartialEq, Clone)] struct ETS();
#[derive(Debug, Serialize, Deserialize, PartialEq, Clone)] struct St { t: TS, e: ETS, v: Vec<TS>, n: (TS, (TS,)) }
#[test] fn f34_tuple_structs_survive_the_flow_wrappers() {
    let st = St { t: TS(7, "s: t".into()), e: ETS(), v: vec![TS(1, "a".into()), TS(2, "b, c".into())], n: (TS(3, "".into()), (TS(4, "x".into()),)) };
    let y = serde_saphyr::to_string(&FlowSeq(vec![st.clone(), st.clone()])).unwrap();
    let r: Vec<St> = serde_saphyr::from_str(&y).unwrap_or_else(|x| panic!("via\n{y}\n{x}"));
    assert_eq!(r, vec![st.clone(), st.clone()], "via\n{y}");
    let mut m = BTreeMap::new(); m.insert("k".to_string(), TS(7, "x".into())); m.insert("l".to_string(), TS(8, "y".into()));
    let y = serde_saphyr::to_string(&FlowMap(m.clone())).unwrap();
    let r: BTreeMap<String, TS> = serde_saphyr::from_str(&y).unwrap_or_else(|x| panic!("via\n{y}\n{x}"));
    assert_eq!(r, m, "via\n{y}");
}
