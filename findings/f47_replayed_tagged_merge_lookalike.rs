// F47 (C07: "never rejects an input all of whose quantities are within the limits; the usage report ... equals an independent
// count of the parser's event stream plus replayed events"). observe_budget_for_replay rebuilt every replayed scalar WITHOUT
// its tag; the enforcer counts a plain untagged `<<` in key position as a merge key, so a tagged `<<` key inside an anchored
// mapping was an ordinary key where it is defined and a merge key each time it was replayed:
//     base: &B {!!str <<: 1}
//     x: *B
// was rejected with max_merge_keys: 0 although it has no merge key. Listed by a seeding agent as "already broken"; confirmed.
// The specification `replay_charge_matches` (unit `live`) had said "no anchor, no tag" - read off the code; corrected to
// "tagged exactly if the recorded scalar was tagged", the obligation
// live/LiveEvents::observe_budget_for_replay/C07:replayed_event_is_charged_once then fails on the tree before the repair.
// Repaired in /repo db92f33. This test fails before that commit and passes with it.
use serde_saphyr::{from_str_with_options, Budget, Options};
use std::collections::BTreeMap;
fn opts(max_merge: usize) -> Options { let mut b = Budget::default(); b.max_merge_keys = max_merge; let mut o = Options::default(); o.budget = Some(b); o }
#[test] fn a_replayed_tagged_key_is_not_a_merge_key() {
    let y = "base: &B {!!str <<: 1}\nx: *B\n";
    let r = from_str_with_options::<BTreeMap<String, BTreeMap<String, i32>>>(y, opts(0));
    assert!(r.is_ok(), "rejected although the document has no merge key: {r:?}");
    let direct = from_str_with_options::<BTreeMap<String, BTreeMap<String, i32>>>("base: {!!str <<: 1}\n", opts(0));
    assert!(direct.is_ok(), "{direct:?}");
}
