use serde::Serialize;
use serde_saphyr::Commented;
use std::collections::BTreeMap;

#[derive(Serialize)]
struct S { k: Commented<i32> }

#[test]
fn f5_comment_text_cannot_inject_entries() {
    for comment in ["a\rinjected: 2", "a\ninjected: 2", "a\r\ninjected: 2"] {
        let y = serde_saphyr::to_string(&S { k: Commented(1, comment.to_string()) }).unwrap();
        let back: BTreeMap<String, i32> = serde_saphyr::from_str(&y).unwrap_or_else(|e| panic!("{comment:?} emitted {y:?}: {e}"));
        assert_eq!(back.len(), 1, "comment {comment:?} emitted {y:?} read back as {back:?}");
        assert_eq!(back.get("k"), Some(&1));
    }
}
