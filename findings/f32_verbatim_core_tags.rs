// F32 (C06 "a scalar is interpreted from its text, style, TAG, the requested type and the options only ... follow the documented
// tables"): the tag table lists the full tag URI spelling (`tag:yaml.org,2002:str`, ...) next to `!!str` and `!str`, but a tag
// written as a URI can only come from the verbatim syntax `!<tag:yaml.org,2002:str>`, for which the parser reports an empty
// handle, and the lookup key built with `Display` was "!tag:yaml.org,2002:str": never found.  The same tag gave different
// results depending on its spelling: `!!str null` is the string "null", `!<tag:yaml.org,2002:str> null` was refused as null.
#[test] fn f32_a_core_schema_tag_means_the_same_however_it_is_spelled() {
    let spell = |t: &str, v: &str| vec![format!("!!{t} {v}"), format!("!<tag:yaml.org,2002:{t}> {v}"), format!("%TAG !y! tag:yaml.org,2002:\n--- !y!{t} {v}")];
    for doc in spell("str", "null") { assert_eq!(serde_saphyr::from_str::<String>(&doc).map_err(|e| e.to_string()), Ok("null".to_string()), "{doc:?}"); }
    for doc in spell("str", "12") { assert_eq!(serde_saphyr::from_str::<String>(&doc).map_err(|e| e.to_string()), Ok("12".to_string()), "{doc:?}"); }
    for doc in spell("int", "0x10") {
        assert_eq!(serde_saphyr::from_str::<i64>(&doc).map_err(|e| e.to_string()), Ok(16), "{doc:?}");
        assert!(serde_saphyr::from_str::<String>(&doc).is_err(), "{doc:?}: an !!int scalar is not a string");
    }
    for doc in spell("binary", "aGk=") { assert_eq!(serde_saphyr::from_str::<String>(&doc).map_err(|e| e.to_string()), Ok("hi".to_string()), "{doc:?}"); }
    for doc in spell("null", "x") { assert_eq!(serde_saphyr::from_str::<Option<String>>(&doc).map_err(|e| e.to_string()), serde_saphyr::from_str::<Option<String>>("!!null x").map_err(|e| e.to_string()), "{doc:?}"); }
}
