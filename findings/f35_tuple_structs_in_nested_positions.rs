// F35 (C12: strings "serialized in any position"; also C13, which this machinery does not claim). A tuple STRUCT
// (`struct TS(String, String)`) was emitted by an emitter of TupleSer's own at `ser.depth + 1` without regard to its position.
// Inside a sequence that is itself a value (`k: [TS, TS]`, `[[TS]]`, `E::X(Vec<TS>)`) its items were written at the column
// of the outer sequence and read back as items of that one ("invalid length 0, expected tuple struct TS with 2 elements");
// a multi-line string in a tuple struct became a block scalar whose body is not indented deeper than its dash, in every
// position including the document root. First recorded as an observation (found by a round-trip probe while bringing tuple
// variants under contract, F22); repaired in /repo eda581e by making the Normal kind of TupleSer a thin layer over SeqSer.
// These tests fail before that commit and pass with it.
use serde::{Deserialize, Serialize};
use serde_saphyr::{from_str, to_string};
#[derive(Serialize, Deserialize, PartialEq, Debug, Clone)] struct TS(String, String);
#[derive(Serialize, Deserialize, PartialEq, Debug, Clone)] struct M { k: Vec<TS>, z: i32 }
#[test] fn tuple_struct_inside_a_sequence_value() {
    let v = M { k: vec![TS("a".into(), "b".into())], z: 1 };
    let y = to_string(&v).unwrap();
    assert_eq!(from_str::<M>(&y).unwrap_or_else(|e| panic!("via {y:?}: {e}")), v);
}
#[test] fn tuple_struct_with_block_scalar() {
    let v = TS("a\nb".into(), "c".into());
    let y = to_string(&v).unwrap();
    assert_eq!(from_str::<TS>(&y).unwrap_or_else(|e| panic!("via {y:?}: {e}")), v);
}
#[test] fn tuple_struct_under_anchor_as_sequence_item() {
    // needs F36 as well: the anchored sequence starts on a line of its own
    let rc = std::rc::Rc::new(TS("a".into(), "b".into()));
    let y = to_string(&vec![serde_saphyr::RcAnchor(rc.clone()), serde_saphyr::RcAnchor(rc.clone())]).unwrap();
    assert_eq!(from_str::<Vec<TS>>(&y).unwrap_or_else(|e| panic!("via {y:?}: {e}")), vec![(*rc).clone(), (*rc).clone()]);
}
