// F29 (C17 "includes the line the location refers to with the marker under the reported column"): the YAML scanner counts
// a CR that is not followed by LF as a line break (YAML 1.2 b-break) and Location::line follows it, but the snippet code
// split lines at LF only, and the reader's recent-bytes window advanced its first line number on LF only.  With one lone
// CR anywhere in front of the error the report "line 4 column 4" showed the marker under the NEXT line (`z: 2`), for the
// string entry points and the reader entry points alike; for a reader input larger than the window the same happened
// through the window's start line.
use serde::Deserialize;
#[derive(Debug, Deserialize)]
#[allow(dead_code)]
struct S { x: i32 }

fn marked_line(report: &str) -> String {
    // the source line printed directly above the marker line (`  |    ^ ...`)
    let lines: Vec<&str> = report.lines().collect();
    let m = lines.iter().position(|l| l.contains("^ ")).unwrap_or_else(|| panic!("no marker in:\n{report}"));
    lines[m - 1].to_string()
}

#[test] fn f29_string_entry_point_lone_cr_in_front_of_the_error() {
    for doc in ["# a\r# b\ny: 1\nx: nope\nz: 2\n", "w: 0\ny: 1\r# c\nx: nope\nz: 2\n", "y: 1\rx: nope\rz: 2\r", "y: 1\r\n# a\r# b\r\nx: nope\r\nz: 2\r\n"] {
        let e = serde_saphyr::from_str::<S>(doc).unwrap_err();
        let shown = marked_line(&e.to_string());
        assert!(shown.contains("x: nope"), "doc {doc:?}: marker under {shown:?}\n{e}");
        let e = serde_saphyr::from_reader::<_, S>(doc.as_bytes()).unwrap_err();
        let shown = marked_line(&e.to_string());
        assert!(shown.contains("x: nope"), "reader, doc {doc:?}: marker under {shown:?}\n{e}");
    }
}

#[test] fn f29_reader_window_counts_a_lone_cr_that_left_it_once_and_crlf_once() {
    for brk in ["\r", "\r\n", "\n"] {
        let mut doc = String::new();
        for i in 0..400 { doc.push_str(&format!("# comment line number {i}{brk}")); }
        doc.push_str("y: 1\nx: nope\nz: 2\n");
        let by_str = serde_saphyr::from_str::<S>(&doc).unwrap_err().to_string();
        let by_reader = serde_saphyr::from_reader::<_, S>(doc.as_bytes()).unwrap_err().to_string();
        assert!(marked_line(&by_str).contains("x: nope"), "break {brk:?}: {by_str}");
        assert!(marked_line(&by_reader).contains("x: nope"), "break {brk:?}: {by_reader}");
    }
}
