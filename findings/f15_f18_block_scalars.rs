// F15-F18 (C12 / C20): block scalars (automatic `|` / `>` and the LitStr / FoldStr wrappers).
//  F15  the indentation indicator was the ABSOLUTE body column (indent_step * (base + 1)) although YAML 1.2 (8.1.1.1)
//       defines it relative to the parent node: any text whose first line starts with a space, nested two levels or
//       deeper, produced a document the crate's own reader rejects ("wrongly indented line in block scalar").
//  F16  text containing a carriage return or NUL was put into a block scalar; the reader normalises CR to a line
//       break / stops at NUL, so LitStr("a\rb\nc") read back as "a".
//  F17  a text consisting of two or more line feeds only was written with one empty line under `|+` and read back
//       one line feed short.
//  F18  write_folded_block broke a long line right before a tab, and wrapped lines that start with a tab; both make
//       the continuation "more-indented", so the reader keeps the line break instead of folding it to a space.
// Each test fails on the tree before the corresponding fix: commit and passes after it.
use serde::{Deserialize, Serialize};
use serde_saphyr::{from_str, to_string, FoldStr, LitStr};

#[derive(Serialize)] struct In<'a> { k: LitStr<'a> }
#[derive(Serialize)] struct Out<'a> { o: In<'a> }
#[derive(Deserialize)] struct RIn { k: String }
#[derive(Deserialize)] struct ROut { o: RIn }
#[derive(Serialize, Deserialize, PartialEq, Debug)] struct Auto { inner: AutoIn }
#[derive(Serialize, Deserialize, PartialEq, Debug)] struct AutoIn { text: String }

#[test] fn f15_nested_literal_with_leading_space() {
    for s in [" a\nb", "  a", " a"] {
        let y = to_string(&Out { o: In { k: LitStr(s) } }).unwrap();
        let r: ROut = from_str(&y).unwrap_or_else(|e| panic!("{s:?} via {y:?}: {e}"));
        assert_eq!(r.o.k, s, "via {y:?}");
        let y = to_string(&vec![vec![LitStr(s)]]).unwrap();
        let r: Vec<Vec<String>> = from_str(&y).unwrap_or_else(|e| panic!("{s:?} via {y:?}: {e}"));
        assert_eq!(r[0][0], s, "via {y:?}");
    }
    // default options, no wrapper: a nested multi-line string whose first line is indented
    let v = Auto { inner: AutoIn { text: "  leading spaces on first line\nsecond line".to_string() } };
    let y = to_string(&v).unwrap();
    assert_eq!(from_str::<Auto>(&y).unwrap_or_else(|e| panic!("via {y:?}: {e}")), v);
}

#[test] fn f16_carriage_return_and_nul() {
    for s in ["a\rb\nc", "a\0b\nc", "a\nb\r"] {
        let y = to_string(&LitStr(s)).unwrap();
        assert_eq!(from_str::<String>(&y).unwrap_or_else(|e| panic!("{s:?} via {y:?}: {e}")), s, "via {y:?}");
        let long = format!("{s}\n{}", "word ".repeat(30));
        let y = to_string(&long).unwrap();
        assert_eq!(from_str::<String>(&y).unwrap_or_else(|e| panic!("auto {s:?}: {e}")), long);
    }
}

#[test] fn f17_only_line_feeds() {
    for s in ["\n\n", "\n\n\n"] {
        let y = to_string(&LitStr(s)).unwrap();
        assert_eq!(from_str::<String>(&y).unwrap(), s, "via {y:?}");
    }
}

#[test] fn f18_folding_next_to_tabs() {
    for s in [format!("{} \t{}", "a".repeat(70), "b".repeat(40)), format!("\t{} {}", "a".repeat(60), "b".repeat(40))] {
        let y = to_string(&FoldStr(&s)).unwrap();
        let r: String = from_str(&y).unwrap();
        assert_eq!(r.trim_end_matches('\n'), s, "via {y:?}");   // FoldStr clips: one trailing line feed is documented
    }
}
