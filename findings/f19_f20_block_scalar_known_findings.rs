// F19 / F20 (C20): genuine deviations from the property that cannot be repaired without contradicting tests and
// doc-tests of the crate (recorded as `finding:` in known_findings.txt; the tests below FAIL on the current tree).
//  F19  the explicit folded wrapper writes every line of its text on its own line of a `>` scalar (documented in
//       src/long_strings.rs and pinned by doc-tests and wrapping.rs unit tests); the reader folds those line breaks,
//       so FoldStr("a\nb") reads back as "a b\n" (C20 allows a difference of ONE TRAILING line break only).
//  F20  the block-scalar path of serialize_str never writes the anchor staged by RcAnchor / ArcAnchor
//       (tests/test_block_str.rs::verdanta_case_fold pins "description: >" for an anchored FoldString), so a shared
//       string that is emitted as a block scalar leaves its aliases dangling: with the default options
//       (prefer_block_scalars) the document is unreadable, with the option off it round-trips.
use serde::{Deserialize, Serialize};
use serde_saphyr::{from_str, to_string, FoldStr, RcAnchor};
use std::rc::Rc;

#[test] fn f19_explicit_fold_with_inner_line_break() {
    let y = to_string(&FoldStr("a\nb")).unwrap();
    let r: String = from_str(&y).unwrap();
    assert_eq!(r.trim_end_matches('\n'), "a\nb", "via {y:?}");
}

#[derive(Serialize, Deserialize)] struct D { a: RcAnchor<String>, b: RcAnchor<String> }
#[test] fn f20_anchor_lost_on_block_scalar() {
    let r = Rc::new("line1\nline2".to_string());
    let y = to_string(&D { a: RcAnchor(r.clone()), b: RcAnchor(r) }).unwrap();
    let d: D = from_str(&y).unwrap_or_else(|e| panic!("via {y:?}: {e}"));
    assert_eq!(*d.b.0, "line1\nline2");
}
