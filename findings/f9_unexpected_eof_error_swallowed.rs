use std::io::{self, Read};
use serde::Deserialize;

/// A reader that delivers a prefix and then reports a hard error of kind UnexpectedEof
/// (what e.g. a decompressor reports for a truncated stream).
struct Truncated { data: &'static [u8], pos: usize }
impl Read for Truncated {
    fn read(&mut self, buf: &mut [u8]) -> io::Result<usize> {
        if self.pos >= self.data.len() {
            return Err(io::Error::new(io::ErrorKind::UnexpectedEof, "stream truncated"));
        }
        let n = buf.len().min(self.data.len() - self.pos).min(3);
        buf[..n].copy_from_slice(&self.data[self.pos..self.pos + n]);
        self.pos += n;
        Ok(n)
    }
}

#[derive(Debug, Deserialize, PartialEq)]
struct P { a: i32 }

#[test]
fn f9_reader_error_of_kind_unexpected_eof_is_not_swallowed() {
    let r = Truncated { data: b"a: 1\n", pos: 0 };
    let res: Result<P, _> = serde_saphyr::from_reader(r);
    assert!(res.is_err(), "a value was built from the truncated prefix: {res:?}");
}
