// F27 (C20; the case the property text itself names: "a blank line after a literal scalar ... changes the data only in
// particular parent contexts"): SpaceAfter around a literal block scalar with keep chomping (`|+`, text ending in two or
// more line feeds) appended its blank line right after the scalar body, where it is one more line break OF THE SCALAR:
// [SpaceAfter(LitStr("a\n\n")), ..] => "- |+\n  a\n  \n\n- ..." => "a\n\n\n".
use serde_saphyr::{from_str, to_string, LitStr, SpaceAfter};
#[test] fn f27_space_after_keep_chomped_literal() {
    for s in ["a\n\n", "a\n\n\n", "\n\n", "a\n", "a"] {
        let v = vec![SpaceAfter(LitStr(s)), SpaceAfter(LitStr("c"))];
        let y = to_string(&v).unwrap();
        let r: Vec<String> = from_str(&y).unwrap_or_else(|e| panic!("via {y:?}: {e}"));
        assert_eq!(r, vec![s.to_string(), "c".to_string()], "via {y:?}");
    }
}
