// Demonstrations for findings F1 / F2 (C07, C01); both fail on the pinned snapshot 251f625 and pass after the fix: commits.
use serde_saphyr::budget::{Budget, BudgetBreach, EnforcingPolicy, check_yaml_budget};

#[test]
fn f1_per_document_anchor_count_is_per_document() {
    let y = "---\na: &x 1\nb: &y 2\n---\na: &x 1\nb: &y 2\n---\na: &x 1\nb: &y 2\n";
    let b = Budget { max_anchors: 2, ..Default::default() };
    let rep = check_yaml_budget(y, b, EnforcingPolicy::PerDocument).unwrap();
    assert!(rep.breached.is_none(), "breached: {:?}", rep.breached);
}

#[test]
fn f2_ratio_multiplier_does_not_overflow() {
    let mut y = String::from("a: &x 1\nb: &y 2\nl:\n");
    for _ in 0..100 { y.push_str("  - *x\n"); }
    let b = Budget { alias_anchor_ratio_multiplier: 1usize << 63, ..Default::default() };
    let rep = check_yaml_budget(&y, b, EnforcingPolicy::AllContent).unwrap();
    assert!(!matches!(rep.breached, Some(BudgetBreach::AliasAnchorRatio { .. })));
}
