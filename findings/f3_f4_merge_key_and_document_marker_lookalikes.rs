use std::collections::BTreeMap;

#[test]
fn f3_merge_key_lookalike_as_map_key_round_trips() {
    let mut m = BTreeMap::new();
    m.insert("<<".to_string(), 1i32);
    let y = serde_saphyr::to_string(&m).unwrap();
    let back: BTreeMap<String, i32> = serde_saphyr::from_str(&y).unwrap_or_else(|e| panic!("emitted {y:?}: {e}"));
    assert_eq!(back, m, "emitted {y:?}");
}

#[test]
fn f4_document_marker_lookalikes_round_trip() {
    for s in ["---", "...", "--- a", "... b"] {
        let y = serde_saphyr::to_string(&s.to_string()).unwrap();
        let back: String = serde_saphyr::from_str(&y).unwrap_or_else(|e| panic!("{s:?} emitted {y:?}: {e}"));
        assert_eq!(back, s, "emitted {y:?}");
        let mut m = BTreeMap::new();
        m.insert(s.to_string(), 1i32);
        let y = serde_saphyr::to_string(&m).unwrap();
        let back: BTreeMap<String, i32> = serde_saphyr::from_str(&y).unwrap_or_else(|e| panic!("key {s:?} emitted {y:?}: {e}"));
        assert_eq!(back, m, "emitted {y:?}");
    }
}
