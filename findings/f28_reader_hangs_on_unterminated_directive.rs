// F28 (C01: "always terminates"; KNOWN FINDING, not repaired): `from_reader` (and every other reader-based entry point)
// never returns, and allocates without bound, when the input ends inside a `%` directive line - for instance on the ONE-BYTE
// input "%", on "%YAML", or on "a: 1\n...\n%". The loop is in the dependency saphyr-parser (trait Input, default method
// `fetch_while_is_yaml_non_space`, used by the directive scanner): at end of input its BufferedInput pads with '\0' for ever
// and `is_yaml_non_space('\0')` is true. The string entry points use StrInput, which overrides the method, and return an
// error. A repair inside serde-saphyr would have to wrap BufferedInput in an own `Input` implementation, which changes a type
// that the crate's own unit tests in src/buffered_input.rs spell out. This test FAILS (times out) on the current tree.
use std::io::Cursor;
use std::sync::mpsc;
use std::time::Duration;
#[test] fn f28_reader_terminates_on_an_unterminated_directive() {
    for input in ["%", "%YAML", "a: 1\n...\n%"] {
        let (tx, rx) = mpsc::channel();
        let bytes = input.as_bytes().to_vec();
        std::thread::spawn(move || { let r = serde_saphyr::from_reader::<_, serde_json::Value>(Cursor::new(bytes)); let _ = tx.send(r.is_ok()); });
        assert!(rx.recv_timeout(Duration::from_secs(3)).is_ok(), "from_reader did not return within 3 s on {input:?} (from_str returns at once)");
    }
}
