// F23 (C12, flow context): a string that ends in a blank followed by '-' ("a -") was emitted as a plain scalar inside a
// flow sequence / as a flow mapping value: "[a -]". This crate's reader takes that '-' (after a blank, before ',' ']' '}')
// for the start of a new token and rejects the document: "plain scalar cannot start with '-' followed by ,[]{}".
use serde_saphyr::{from_str, to_string, FlowMap, FlowSeq};
use std::collections::BTreeMap;
#[test] fn f23_flow_entries_ending_in_blank_dash() {
    for s in ["a -", "a  -", "x -y -"] {
        let v = FlowSeq(vec![s.to_string(), s.to_string()]);
        let y = to_string(&v).unwrap();
        assert_eq!(from_str::<Vec<String>>(&y).unwrap_or_else(|e| panic!("via {y:?}: {e}")), v.0);
        let mut m = BTreeMap::new(); m.insert("k".to_string(), s.to_string());
        let y = to_string(&FlowMap(m.clone())).unwrap();
        assert_eq!(from_str::<BTreeMap<String, String>>(&y).unwrap_or_else(|e| panic!("via {y:?}: {e}")), m);
    }
}
