use serde::Deserialize;
#[derive(Debug, Deserialize, PartialEq)]
struct P { a: i32 }

fn opts(max_nodes: usize) -> serde_saphyr::Options {
    serde_saphyr::options! { budget: serde_saphyr::budget! { max_nodes: max_nodes, }, }
}

#[test]
fn f1b_document_after_a_failed_one_is_counted_on_its_own() {
    // second document alone: 3 nodes, fine with max_nodes = 4
    let mut alone = "---\na: 1\n".as_bytes();
    let v: Vec<Result<P, _>> = serde_saphyr::read_with_options(&mut alone, opts(4)).collect();
    assert_eq!(v.len(), 1);
    assert_eq!(v[0].as_ref().ok(), Some(&P { a: 1 }));
    // same document after one that failed with a type error
    let mut both = "---\na: [x, y, z, w]\n---\na: 1\n".as_bytes();
    let v: Vec<Result<P, _>> = serde_saphyr::read_with_options(&mut both, opts(4)).collect();
    assert_eq!(v.len(), 2, "{v:?}");
    assert!(v[0].is_err());
    assert_eq!(v[1].as_ref().ok(), Some(&P { a: 1 }), "second document rejected: {:?}", v[1]);
}
