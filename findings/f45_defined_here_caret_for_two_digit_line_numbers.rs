// F45 (C17: "the line the location refers to with the marker under the reported column"). The secondary ("defined here")
// window of a two-location (alias) error prints its source lines with a gutter as wide as the largest line number, but
// the caret line and the frame lines used a fixed two-column gutter:
//     13 | a: &x foo
//       |    ^ defined here
// From line 10 on the caret stood gutter_width - 1 columns left of the anchor. Listed by a seeding agent as "already
// broken"; confirmed here; stated as the clause crop/fmt_snippet_window_with_mapping_or_fallback#gutter (the caret line has
// the gutter of the source line above it), which fails on the tree before the repair. Repaired in /repo 30ee572.
// This test fails before that commit and passes with it.
use serde::Deserialize;
#[derive(Debug, Deserialize)] #[allow(dead_code)] struct S { a: String, b: i32 }
#[test] fn defined_here_caret_is_under_the_anchor_for_two_digit_line_numbers() {
    let mut y = String::new();
    for i in 0..12 { y.push_str(&format!("# c{i}\n")); }
    y.push_str("a: &x foo\n");
    for i in 0..12 { y.push_str(&format!("# d{i}\n")); }
    y.push_str("b: *x\n");
    let e = serde_saphyr::from_str::<S>(&y).unwrap_err().to_string();
    let lines: Vec<&str> = e.lines().collect();
    let i = lines.iter().position(|l| l.contains("| a: &x foo")).unwrap_or_else(|| panic!("{e}"));
    let src = lines[i]; let caret = lines[i + 1];
    let col_src = src.find("&x").or_else(|| src.find("foo")).unwrap();
    let col_caret = caret.find('^').unwrap_or_else(|| panic!("{e}"));
    let under = src.chars().nth(col_caret).unwrap();
    assert!(src.find('|') == caret.find('|'), "gutter bars not aligned:\n{e}");
    assert!(under == '&' || under == 'f', "caret under {under:?} (col {col_caret}, anchor at {col_src}):\n{e}");
}
