#[test]
fn f6_anchor_on_empty_quoted_scalar_keeps_it_a_string() {
    let plain: String = serde_saphyr::from_str("\"\"").unwrap();
    assert_eq!(plain, "");
    let anchored: Result<String, _> = serde_saphyr::from_str("&a \"\"");
    assert_eq!(anchored.ok().as_deref(), Some(""));
    let v: std::collections::BTreeMap<String, String> = serde_saphyr::from_str("k: &a ''\nj: *a\n").unwrap();
    assert_eq!(v["k"], ""); assert_eq!(v["j"], "");
}
