// F40 (C12: "no string is ever emitted in a form that reads back as ... a different string", position "mapping value";
// also C13). A block sequence that is the VALUE of a complex (non-scalar) mapping key was written with its first dash
// unindented and the following ones indented:
//     ? - k1
//       - k2
//     :
//     - v1
//       - v2
// so ["v1", "v2"] read back as ["v1 - v2"]. MapSer::serialize_value stages `pending_inline_map` for the value of a complex
// key (so that a mapping can follow ": " directly); SeqSer::serialize_element broke the line for its first item but still
// honoured that hint and skipped the indentation. A seeding agent mentioned the symptom in passing; the contract clause
// `seropts/SeqSer::serialize_element#block_dash/C12:the_first_dash_of_a_sequence_in_mapping_value_position_starts_a_line_of_its_own`
// had been written WITH the hypothesis `!pending_inline_map` because the code needed it - a precondition derived from the
// code instead of the property; without it the clause fails on the tree before the repair. Repaired in /repo b2ab60e.
// These tests fail before that commit and pass with it.
use serde::{Deserialize, Serialize};
use std::collections::BTreeMap;
#[derive(Debug, Serialize, Deserialize, PartialEq, Eq, PartialOrd, Ord, Clone)] struct K { a: i32, b: String }
#[test] fn sequence_value_of_a_sequence_key() {
    let mut m: BTreeMap<Vec<String>, Vec<String>> = BTreeMap::new();
    m.insert(vec!["k1".into(), "k2".into()], vec!["v1".into(), "v2".into()]);
    let y = serde_saphyr::to_string(&m).unwrap();
    assert_eq!(serde_saphyr::from_str::<BTreeMap<Vec<String>, Vec<String>>>(&y).unwrap_or_else(|e| panic!("{e}\n{y}")), m, "via\n{y}");
}
#[test] fn sequence_value_of_a_struct_key() {
    let mut m: BTreeMap<K, Vec<String>> = BTreeMap::new();
    m.insert(K { a: 1, b: "x".into() }, vec!["v1".into(), "l1\nl2".into()]);
    let y = serde_saphyr::to_string(&m).unwrap();
    assert_eq!(serde_saphyr::from_str::<BTreeMap<K, Vec<String>>>(&y).unwrap_or_else(|e| panic!("{e}\n{y}")), m, "via\n{y}");
}
