// F24 (C20, known finding, NOT repaired): with `empty_as_braces: false` an empty sequence / mapping is written as nothing
// and the reader sees null, so the option changes data. Documented in src/serializer_options.rs and pinned by
// tests/empty_map_braces.rs. These tests FAIL on the current tree.
use std::collections::BTreeMap;
#[test] fn f24_empty_sequence_without_braces() {
    let o = serde_saphyr::ser_options! { empty_as_braces: false };
    let v: Vec<Option<Vec<u8>>> = vec![Some(vec![]), None];
    let y = serde_saphyr::to_string_with_options(&v, o).unwrap();
    assert_eq!(serde_saphyr::from_str::<Vec<Option<Vec<u8>>>>(&y).unwrap(), v, "via {y:?}");
}
#[test] fn f24_empty_mapping_without_braces() {
    let o = serde_saphyr::ser_options! { empty_as_braces: false };
    let v: Vec<Option<BTreeMap<String, u8>>> = vec![Some(BTreeMap::new()), None];
    let y = serde_saphyr::to_string_with_options(&v, o).unwrap();
    assert_eq!(serde_saphyr::from_str::<Vec<Option<BTreeMap<String, u8>>>>(&y).unwrap(), v, "via {y:?}");
}
