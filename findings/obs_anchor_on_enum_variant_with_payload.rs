// Observation (C14, shared-pointer topology - not applicable to this machinery): an RcAnchor / ArcAnchor around an enum variant WITH
// a payload puts the anchor on the first scalar inside the payload instead of on the variant node, so the alias stands for that scalar:
// vec![RcAnchor(rc(E::N(1))), RcAnchor(rc)] => "- N: &a1 1\n- *a1\n" => error "unknown variant `1`" (block and flow alike;
// unit variants are fine).  This test FAILS on the current tree.
use serde::{Deserialize, Serialize};
use serde_saphyr::RcAnchor;
use std::rc::Rc;
#[derive(Debug, Serialize, Deserialize, PartialEq, Clone)] enum E { A, N(i32), S { x: i32 }, T(i32, i32) }
#[test] fn obs_shared_enum_values_with_a_payload() {
    for e in [E::A, E::N(1), E::S { x: 1 }, E::T(1, 2)] {
        let se = Rc::new(e.clone());
        let y = serde_saphyr::to_string(&vec![RcAnchor(se.clone()), RcAnchor(se.clone())]).unwrap();
        let r: Vec<E> = serde_saphyr::from_str(&y).unwrap_or_else(|x| panic!("{e:?} via {y:?}: {x}"));
        assert_eq!(r, vec![e.clone(), e.clone()], "via {y:?}");
    }
}
