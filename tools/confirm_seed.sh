#!/bin/bash
# tools/confirm_seed.sh <PROP> <outdir> <worktree> [cargo feature args]
# Confirms a seeded change the way the verifier author does before packing it: the demo passes without the
# change, fails with it, and the crate's own suite passes with it.  Writes <outdir>/confirm.log.
P=$1; OUT=$2; WT=$3; FEAT=$4
p=$(echo $P | tr A-Z a-z)
export CARGO_NET_OFFLINE=true
cd $WT && git checkout -q -- . && git clean -fdq tests
git apply --check $OUT/patch.diff || { echo "patch does not apply" > $OUT/confirm.log; exit 3; }
cp $OUT/demo.rs tests/seeded_$p.rs
cargo test --offline $FEAT --test seeded_$p > $OUT/demo_without.log 2>&1; A=$?
git apply $OUT/patch.diff
cargo test --offline $FEAT --test seeded_$p > $OUT/demo_with.log 2>&1; B=$?
rm tests/seeded_$p.rs
cargo nextest run --workspace --no-fail-fast --offline --test-threads 6 > $OUT/suite_with.log 2>&1; C=$?
if [ -n "$FEAT" ]; then cargo nextest run --offline $FEAT --test-threads 6 > $OUT/suite_with_feat.log 2>&1; C2=$?; else C2=0; fi
{ echo "demo_without_change_rc=$A demo_with_change_rc=$B suite_with_change_rc=$C"; grep -E "Summary" $OUT/suite_with.log; [ -n "$FEAT" ] && echo "feature suite rc=$C2 $(grep -E Summary $OUT/suite_with_feat.log)"; } > $OUT/confirm.log
git checkout -q -- . && git clean -fdq tests
cat $OUT/confirm.log
