#!/usr/bin/env python3
"""Apply every seeded change in /verif/seeded to a scratch worktree of /repo, run ./check ALL against it and
record which obligations fire.  Usage: tools/run_seeded.py [name ...]   (writes seeded/RESULTS.json)"""
import json, os, re, subprocess, sys, tempfile, shutil
V = os.path.dirname(os.path.dirname(os.path.abspath(__file__)))
names = sys.argv[1:] or sorted(d for d in os.listdir(os.path.join(V, 'seeded')) if os.path.isdir(os.path.join(V, 'seeded', d)))
wt = tempfile.mkdtemp(prefix='verif-seedwt-')
# run from a private snapshot of the machinery, so that edits made to /verif while this (long) job runs cannot
# change what is being checked
snap = tempfile.mkdtemp(prefix='verif-seedsnap-')
for item in ('vc', 'contracts', 'check', 'baseline_obligations.json', 'known_findings.txt', 'properties.jsonl'):
    src = os.path.join(V, item)
    if os.path.isdir(src):
        shutil.copytree(src, os.path.join(snap, item), ignore=shutil.ignore_patterns('__pycache__'))
    elif os.path.exists(src):
        shutil.copy(src, os.path.join(snap, item))
subprocess.run(['git', '-C', '/repo', 'worktree', 'add', '--detach', '-f', wt, 'HEAD'], check=True, capture_output=True)
res_path = os.path.join(V, 'seeded', 'RESULTS.json')
results = json.load(open(res_path)) if os.path.exists(res_path) else {}
try:
    for n in names:
        d = os.path.join(V, 'seeded', n)
        subprocess.run(['git', '-C', wt, 'checkout', '-q', '--', '.'], check=True)
        ap = subprocess.run(['git', '-C', wt, 'apply', os.path.join(d, 'patch.diff')], capture_output=True, text=True)
        if ap.returncode != 0:
            results[n] = dict(status='patch does not apply to current HEAD', detail=ap.stderr[-300:])
            continue
        p = subprocess.run([os.path.join(snap, 'check'), 'ALL', '--repo', wt], capture_output=True, text=True)
        viol = sorted(set(re.findall(r'^VIOLATION property=(\S+) .*?obligation=(\S+)', p.stdout, re.M)))
        und = [l[:200] for l in p.stdout.splitlines() if l.startswith('UNDECIDED')]
        prop = json.load(open(os.path.join(d, 'meta.json'))).get('property')
        results[n] = dict(property=prop, exit=p.returncode,
                          caught=bool(viol), caught_for_its_property=any(v[0] == prop for v in viol),
                          violations=['%s %s' % v for v in viol][:12], undecided=und[:3])
        print(n, 'exit', p.returncode, 'violations', len(viol), 'undecided', len(und))
finally:
    subprocess.run(['git', '-C', '/repo', 'worktree', 'remove', '--force', wt], capture_output=True)
    shutil.rmtree(wt, ignore_errors=True)
    shutil.rmtree(snap, ignore_errors=True)
json.dump(results, open(res_path, 'w'), indent=1, sort_keys=True)
