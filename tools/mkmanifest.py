#!/usr/bin/env python3
"""Regenerates /verif/MANIFEST.json from contracts/registry.py (claimed properties) + the fixed N/A list."""
import json, os, sys
sys.path.insert(0, os.path.dirname(os.path.dirname(os.path.abspath(__file__))))
from vc import check
reg = check.load_registry()
TECH = 'contract-based deductive verification: Verus (Z3) on function texts extracted from /repo on every run, sidecar contracts woven in'
NOTE = ('Trusted: Verus/Z3; extractor rewrite rules R0..R19 (DESIGN.md 3.2); assumed contracts listed per run in evidence coverage.trusted_base '
        '(shims for Cow<str>, std str methods, HashSet/Vec via vstd, mechanically extracted mirror of saphyr-parser Event). '
        'Callers/callees outside the unit are seen through contracts only.')
import importlib.util
spec = importlib.util.spec_from_file_location('reg', os.path.join(check.VERIF, 'contracts', 'registry.py'))
mod = importlib.util.module_from_spec(spec); spec.loader.exec_module(mod)
checks = []
claimed = sorted(p for p in reg['properties'] if any(p in u['properties'] for u in reg['units'].values()))
for pid in claimed:
    pm = reg['properties'][pid]
    units = [u for u, m in reg['units'].items() if pid in m['properties']]
    checks.append(dict(
        property_id=pid, quick_cmd='./check %s --tier quick' % pid, thorough_cmd='./check %s --tier thorough' % pid,
        evidence_file='/verif/evidence/%s.json' % pid, replay_cmd_template='./check %s --replay {path}' % pid,
        engine='verus-contracts',
        level_claimed=dict(category='proof', design_ref='DESIGN.md section 5 (%s)' % pid,
                           text=pm.get('level_text') or ('Function contracts proved by Verus for all inputs, no bound (units: %s). Partial claim: covered = %s ; NOT covered = %s'
                                 % (', '.join(units), ' | '.join(pm.get('covered', [])), ' | '.join(pm.get('not_covered', []))))),
        level_note=NOTE + ' ' + ' '.join(pm.get('assumptions', [])),
        technique=TECH))
na = [dict(property_id=p, reason=r) for p, r in mod.NOT_APPLICABLE.items() if p not in claimed]
m = dict(version=1, setup_cmd='python3 -c "import vc.check" && verus --version',
         hooks=dict(guard='none', enable='no hooks: contracts live in /verif and are woven into text extracted from /repo at check time',
                    baseline_off_cmd='cd /repo && cargo test --workspace --no-fail-fast --offline', source_commits=[], add_only=True),
         engines=[dict(name='verus-contracts', path='/verif/vc', serves_properties=claimed,
                       kind_free_text='extractor+weaver (python) -> Verus single-file verification, per-obligation classification against a committed baseline')],
         checks=checks, notes=mod.NOTES, not_applicable=na)
json.dump(m, open(os.path.join(check.VERIF, 'MANIFEST.json'), 'w'), indent=1)
print('claimed:', claimed, 'n/a:', [x['property_id'] for x in na])
