#!/usr/bin/env python3
"""Package a confirmed seeded change: tools/pack_seed.py <PROP> <name> [outdir]"""
import json, os, re, shutil, sys
prop, name = sys.argv[1], sys.argv[2]
out = sys.argv[3] if len(sys.argv) > 3 else '/tmp/seed_out_%s' % prop
dst = os.path.join(os.path.dirname(os.path.dirname(os.path.abspath(__file__))), 'seeded', name)
os.makedirs(dst, exist_ok=True)
shutil.copy(os.path.join(out, 'patch.diff'), os.path.join(dst, 'patch.diff'))
shutil.copy(os.path.join(out, 'demo.rs'), os.path.join(dst, 'demo.rs'))
meta = json.load(open(os.path.join(out, 'meta.json')))
log = open(os.path.join(out, 'confirm.log')).read()
m = re.search(r'demo_without_change_rc=(\d+) demo_with_change_rc=(\d+) suite_with_change_rc=(\d+)', log)
summ = re.search(r'Summary.*', log)
meta['confirmed_by_verifier_author'] = dict(
    worktree='/tmp/w2 (scratch worktree of /repo, removed afterwards)',
    demo_without_change='pass' if m and m.group(1) == '0' else 'FAIL',
    demo_with_change='fail (as required)' if m and m.group(2) != '0' else 'PASSES (not a valid seed)',
    existing_suite_with_change=(summ.group(0).strip() if summ else '?') + (' rc=%s' % m.group(3) if m else ''),
    commands=['git apply patch.diff', 'cargo test --offline --test seeded_<id> (with and without the change)',
              'cargo nextest run --workspace --no-fail-fast --offline (with the change, demo file removed)'])
json.dump(meta, open(os.path.join(dst, 'meta.json'), 'w'), indent=1)
print('packed', dst, meta['confirmed_by_verifier_author']['demo_with_change'])
