// ===== spec library for unit `reader` =====

/// width announced by a UTF-8 leading byte (0: not a leading byte)
spec fn lead_width(b: u8) -> int {
    if b < 0x80 { 1 } else if 0xC0 <= b <= 0xDF { 2 } else if 0xE0 <= b <= 0xEF { 3 } else if 0xF0 <= b <= 0xF7 { 4 } else { 0 }
}

proof fn lemma_masks(first: u8)
    ensures
        (first & 0b1110_0000 == 0b1100_0000) == (0xC0 <= first <= 0xDF),
        (first & 0b1111_0000 == 0b1110_0000) == (0xE0 <= first <= 0xEF),
        (first & 0b1111_1000 == 0b1111_0000) == (0xF0 <= first <= 0xF7),
{
    assert((first & 0b1110_0000 == 0b1100_0000) == (0xC0 <= first <= 0xDF)) by(bit_vector);
    assert((first & 0b1111_0000 == 0b1110_0000) == (0xE0 <= first <= 0xEF)) by(bit_vector);
    assert((first & 0b1111_1000 == 0b1111_0000) == (0xF0 <= first <= 0xF7)) by(bit_vector);
}

/// valid UTF-8 of exactly the length its leading byte announces is exactly one character
proof fn lemma_one_char(b: Seq<u8>)
    requires valid_utf8(b), b.len() >= 1, lead_width(b[0]) == b.len(),
    ensures decode_utf8(b).len() == 1, encode_utf8(decode_utf8(b)) == b,
{
    reveal_with_fuel(valid_utf8, 3);
    reveal_with_fuel(decode_utf8, 3);
    assert(pop_first_scalar(b).len() == 0);
    decode_utf8_encode_utf8(b);
}

/// `next` delivered the character `c` encoded by the first `n` bytes of `rem`
spec fn first_char_is(rem: Seq<u8>, n: int, c: char) -> bool {
    1 <= n <= 4 && n <= rem.len() && rem.take(n) == encode_utf8(seq![c])
}
