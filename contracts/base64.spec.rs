// ===== specification of strict canonical base64 (RFC 4648 §4, with YAML's "whitespace is ignored") =====

/// `u8::is_ascii_whitespace`: space, \t, \n, form feed, \r.
spec fn b64_is_ws(b: u8) -> bool { b == 0x20 || b == 0x09 || b == 0x0a || b == 0x0c || b == 0x0d }

spec fn b64_strip_ws(s: Seq<u8>) -> Seq<u8> { s.filter(|b: u8| !b64_is_ws(b)) }

/// number of trailing bytes equal to `x`
spec fn trailing_count(s: Seq<u8>, x: u8) -> nat
    decreases s.len(),
{
    if s.len() == 0 { 0 } else if s.last() == x { 1 + trailing_count(s.drop_last(), x) } else { 0 }
}

/// One quantum of four characters -> 1..3 bytes.  `last`: padding is only allowed in the final quantum.
/// Canonical: the bits that do not reach the output must be zero.
spec fn b64_quantum(c: Seq<u8>, last: bool) -> Option<Seq<u8>>
    recommends c.len() == 4,
{
    let pad = trailing_count(c, 0x3d);
    if pad > 2 || (pad > 0 && !last) { None }
    else { match (b64_sextet(c[0]), b64_sextet(c[1])) {
        (Some(a), Some(b)) =>
            if pad == 2 {
                if b % 16 == 0 { Some(seq![(a * 4 + b / 16) as u8]) } else { None }
            } else { match b64_sextet(c[2]) {
                None => None,
                Some(cc) =>
                    if pad == 1 {
                        if cc % 4 == 0 { Some(seq![(a * 4 + b / 16) as u8, ((b % 16) * 16 + cc / 4) as u8]) } else { None }
                    } else { match b64_sextet(c[3]) {
                        None => None,
                        Some(d) => Some(seq![(a * 4 + b / 16) as u8, ((b % 16) * 16 + cc / 4) as u8, ((cc % 4) * 64 + d) as u8]),
                    } }
            } },
        _ => None,
    } }
}

/// decoding of the first `k` quanta of `c`
spec fn b64_quanta(c: Seq<u8>, k: nat) -> Option<Seq<u8>>
    recommends k * 4 <= c.len(),
    decreases k,
{
    if k == 0 { Some(Seq::<u8>::empty()) } else {
        match b64_quanta(c, (k - 1) as nat) {
            None => None,
            Some(p) => match b64_quantum(c.subrange((k - 1) * 4, k as int * 4), k * 4 == c.len()) {
                None => None,
                Some(q) => Some(p + q) } } }
}

/// the whole text after whitespace removal
spec fn b64_decode(c: Seq<u8>) -> Option<Seq<u8>> {
    if c.len() % 4 != 0 { None } else { b64_quanta(c, c.len() / 4) }
}

proof fn lemma_quanta_none_propagates(c: Seq<u8>, j: nat, k: nat)
    requires j <= k, b64_quanta(c, j) is None,
    ensures b64_quanta(c, k) is None,
    decreases k,
{
    if j < k { lemma_quanta_none_propagates(c, j, (k - 1) as nat); }
}

proof fn lemma_quantum_fails(c: Seq<u8>, j: nat, k: nat)
    requires j < k, b64_quantum(c.subrange(j as int * 4, (j + 1) as int * 4), (j + 1) * 4 == c.len()) is None,
    ensures b64_quanta(c, k) is None,
{
    assert(b64_quanta(c, j + 1) is None);
    lemma_quanta_none_propagates(c, j + 1, k);
}

proof fn lemma_sextet_range(b: u8)
    ensures b64_sextet(b) is Some ==> b64_sextet(b)->Some_0 < 64, b64_sextet(0x3d) is None,
{}

proof fn lemma_trailing4(c: Seq<u8>)
    requires c.len() == 4,
    ensures
        trailing_count(c, 0x3d) <= 4,
        trailing_count(c, 0x3d) == 0 <==> c[3] != 0x3d,
        trailing_count(c, 0x3d) == 1 <==> (c[3] == 0x3d && c[2] != 0x3d),
        trailing_count(c, 0x3d) >= 2 <==> (c[3] == 0x3d && c[2] == 0x3d),
        trailing_count(c, 0x3d) >= 3 ==> c[1] == 0x3d,
{
    reveal_with_fuel(trailing_count, 5);
    let c3 = c.drop_last(); let c2 = c3.drop_last(); let c1 = c2.drop_last();
    assert(c3.last() == c[2]); assert(c2.last() == c[1]); assert(c1.last() == c[0]);
}

proof fn lemma_b64_bits(a: u32, b: u32, c: u32, d: u32)
    requires a < 64, b < 64, c < 64, d < 64,
    ensures
        ({ let t = (a << 18) | (b << 12) | (c << 6) | d;
           &&& (t >> 16) & 0xFF == a * 4 + b / 16
           &&& (t >> 8) & 0xFF == (b % 16) * 16 + c / 4
           &&& t & 0xFF == (c % 4) * 64 + d }),
        (b & 0x0F) == b % 16,
        (c & 0x03) == c % 4,
{
    assert(({ let t = (a << 18) | (b << 12) | (c << 6) | d;
           &&& (t >> 16) & 0xFF == a * 4 + b / 16
           &&& (t >> 8) & 0xFF == (b % 16) * 16 + c / 4
           &&& t & 0xFF == (c % 4) * 64 + d })
        && (b & 0x0F) == b % 16 && (c & 0x03) == c % 4) by(bit_vector)
        requires a < 64, b < 64, c < 64, d < 64;
}
