// ===== assumed contracts for the std string operations used by the cropping helpers (call-site shims) =====
/// `s.char_indices()` collected: (byte offset, char) of every character, in order
#[verifier::external_body]
fn str_char_indices(s: &str) -> (v: Vec<(usize, char)>)
    ensures v@.len() == s@.len(), s@.len() <= s.spec_bytes().len(), s.spec_bytes().len() <= isize::MAX,
        forall|k: int| 0 <= k < v@.len() ==> (#[trigger] v@[k]).0 == char_off(s@, k) && v@[k].1 == s@[k],
{ s.char_indices().collect() }

/// `s.chars().count()`
#[verifier::external_body]
fn str_chars_count(s: &str) -> (n: usize)
    ensures n == s@.len(), s@.len() <= s.spec_bytes().len(), s.spec_bytes().len() <= isize::MAX,
{ s.chars().count() }

/// `s.len()` (bytes)
#[verifier::external_body]
fn str_len(s: &str) -> (n: usize)
    ensures n == s.spec_bytes().len(), n <= isize::MAX,
{ s.len() }

/// `&s[a..b]`: panics unless a <= b and both are char boundaries
#[verifier::external_body]
fn str_slice<'a>(s: &'a str, a: usize, b: usize) -> (r: &'a str)
    requires a <= b, boundary(s@, a as int), boundary(s@, b as int),
    ensures r@ == s@.subrange(char_index(s@, a as int), char_index(s@, b as int)),
        r.spec_bytes() == s.spec_bytes().subrange(a as int, b as int),
{ &s[a..b] }

/// `s.to_owned()`
#[verifier::external_body]
fn str_to_owned(s: &str) -> (r: String)
    ensures r@ == s@,
{ s.to_owned() }

/// `String::push_str`
#[verifier::external_body]
fn string_push_str(out: &mut String, s: &str)
    ensures final(out)@ == old(out)@ + s@,
{ out.push_str(s) }

/// `String::push`
#[verifier::external_body]
fn string_push(out: &mut String, c: char)
    ensures final(out)@ == old(out)@.push(c),
{ out.push(c) }

/// `text.strip_prefix('\u{FEFF}').unwrap_or(text)`
#[verifier::external_body]
fn str_strip_bom<'a>(s: &'a str) -> (r: &'a str)
    ensures r@ == (if s@.len() > 0 && s@[0] == '\u{FEFF}' { s@.skip(1) } else { s@ }),
{ s.strip_prefix('\u{FEFF}').unwrap_or(s) }

/// `s.strip_suffix('\r').unwrap_or(s)`
#[verifier::external_body]
fn str_strip_cr_suffix<'a>(s: &'a str) -> (r: &'a str)
    ensures r@ == (if s@.len() > 0 && s@.last() == '\r' { s@.drop_last() } else { s@ }),
{ s.strip_suffix('\r').unwrap_or(s) }

/// `s[from..].find('\n').map(|i| from + i)`: offset of the next line feed at or after `from`
#[verifier::external_body]
fn str_find_lf_from(s: &str, from: usize) -> (r: Option<usize>)
    requires from <= s.spec_bytes().len(), boundary(s@, from as int),
    ensures match r {
        Some(nl) => from <= nl < s.spec_bytes().len() && s.spec_bytes()[nl as int] == 0x0a
            && forall|p: int| from <= p < nl ==> #[trigger] s.spec_bytes()[p] != 0x0a,
        None => forall|p: int| from <= p < s.spec_bytes().len() ==> #[trigger] s.spec_bytes()[p] != 0x0a },
{ s[from..].find('\n').map(|i| from + i) }

/// `s.lines().any(|l| l.strip_suffix('\r').unwrap_or(l).len() > limit)`: only a heuristic gate; uninterpreted
uninterp spec fn spec_any_line_longer(s: Seq<char>, limit: int) -> bool;
#[verifier::external_body]
fn str_any_line_longer_than(s: &str, limit: usize) -> (r: bool)
    ensures r == spec_any_line_longer(s@, limit as int),
{ s.lines().any(|l| l.strip_suffix('\r').unwrap_or(l).len() > limit) }

/// `String::with_capacity(n)`
#[verifier::external_body]
fn string_with_capacity(n: usize) -> (r: String)
    ensures r@ == Seq::<char>::empty(),
{ String::with_capacity(n) }

/// `a.min(b)` / `a.max(b)` on usize
fn usize_min(a: usize, b: usize) -> (r: usize) ensures r == (if a <= b { a } else { b }) { if a <= b { a } else { b } }
fn usize_max(a: usize, b: usize) -> (r: usize) ensures r == (if a >= b { a } else { b }) { if a >= b { a } else { b } }

/// ASSUMED (Rust allocation invariant): a `str` occupies at most isize::MAX bytes, and has no more chars than bytes
#[verifier::external_body]
proof fn axiom_str_len_bounded(s: &str)
    ensures s@.len() <= s.spec_bytes().len(), s.spec_bytes().len() <= isize::MAX,
{}

/// `s.as_bytes().contains(&b)`
#[verifier::external_body]
fn str_contains_byte(s: &str, b: u8) -> (r: bool)
    ensures r == (exists|i: int| 0 <= i < s.spec_bytes().len() && #[trigger] s.spec_bytes()[i] == b),
{ s.as_bytes().contains(&b) }
/// `s.ends_with('\n')`
#[verifier::external_body]
fn str_ends_with_lf(s: &str) -> (r: bool)
    ensures r == (s.spec_bytes().len() > 0 && s.spec_bytes().last() == 0x0a),
{ s.ends_with('\n') }
/// `String::len` (bytes)
#[verifier::external_body]
fn string_len(s: &String) -> (n: usize)
    ensures n == encode_utf8(s@).len(), n <= isize::MAX,
{ s.len() }

/// `a.saturating_sub(b)`
#[verifier::external_body]
fn usize_sub_sat(a: usize, b: usize) -> (r: usize) ensures r == (if a >= b { a - b } else { 0 }), { a.saturating_sub(b) }
/// `s.as_bytes().get(i) == Some(&b)`
#[verifier::external_body]
fn str_byte_is(s: &str, i: usize, b: u8) -> (r: bool) ensures r == (i < s.spec_bytes().len() && s.spec_bytes()[i as int] == b), { s.as_bytes().get(i) == Some(&b) }
