// ===== spec library for unit `quoting`: YAML double-quoted escapes (C12) =====

spec fn is_cc(c: char) -> bool { (c as u32) <= 0x1F || (0x7F <= (c as u32) && (c as u32) <= 0x9F) }

/// characters that must never appear raw inside a double-quoted scalar if it is to read back as
/// the same string: the quote and the backslash, C0/C1 controls and DEL, every YAML line break
/// (LF, CR, NEL, LS, PS) and the byte-order mark
spec fn needs_escape(c: char) -> bool {
    c == '"' || c == '\\' || is_cc(c) || c == '\u{2028}' || c == '\u{2029}' || c == '\u{FEFF}'
}

/// The escape YAML 1.2 (5.7) assigns: named escapes where they exist, else \xHH / \uHHHH.
spec fn dq_escape(c: char) -> Seq<char> {
    if c == '\\' { seq!['\\', '\\'] }
    else if c == '"' { seq!['\\', '"'] }
    else if c == '\0' { seq!['\\', '0'] }
    else if c == '\u{7}' { seq!['\\', 'a'] }
    else if c == '\u{8}' { seq!['\\', 'b'] }
    else if c == '\t' { seq!['\\', 't'] }
    else if c == '\n' { seq!['\\', 'n'] }
    else if c == '\u{b}' { seq!['\\', 'v'] }
    else if c == '\u{c}' { seq!['\\', 'f'] }
    else if c == '\r' { seq!['\\', 'r'] }
    else if c == '\u{1b}' { seq!['\\', 'e'] }
    else if c == '\u{85}' { seq!['\\', 'N'] }
    else if c == '\u{2028}' { seq!['\\', 'L'] }
    else if c == '\u{2029}' { seq!['\\', 'P'] }
    else if c == '\u{FEFF}' { seq!['\\', 'u', 'F', 'E', 'F', 'F'] }
    else if is_cc(c) { let v = c as u32; seq!['\\', 'x', hex_digit(v / 16), hex_digit(v % 16)] }
    else { seq![c] }
}

spec fn dq_body(s: Seq<char>) -> Seq<char>
    decreases s.len()
{
    if s.len() == 0 { Seq::empty() } else { dq_body(s.drop_last()) + dq_escape(s.last()) }
}

/// nothing that needs escaping is written raw
proof fn lemma_escape_is_safe(c: char)
    ensures
        needs_escape(c) ==> dq_escape(c).len() >= 2 && dq_escape(c)[0] == '\\',
        !needs_escape(c) ==> dq_escape(c) == seq![c],
        forall|i: int| 0 <= i < dq_escape(c).len() && !(needs_escape(c) && i <= 1) ==> !needs_escape(#[trigger] dq_escape(c)[i]),
{
    if needs_escape(c) && is_cc(c) && c != '\0' && c != '\u{7}' && c != '\u{8}' && c != '\t' && c != '\n' && c != '\u{b}'
        && c != '\u{c}' && c != '\r' && c != '\u{1b}' && c != '\u{85}' {
        let v = c as u32;
        assert(v <= 0xFF);
        assert(!needs_escape(hex_digit(v / 16)));
        assert(!needs_escape(hex_digit(v % 16)));
    }
}

spec fn sq_escape(c: char) -> Seq<char> { if c == '\'' { seq!['\'', '\''] } else { seq![c] } }

spec fn sq_body(s: Seq<char>) -> Seq<char>
    decreases s.len()
{
    if s.len() == 0 { Seq::empty() } else { sq_body(s.drop_last()) + sq_escape(s.last()) }
}

// ---- comments (C20): an inline comment must stay on its line ----

spec fn is_line_break(c: char) -> bool { c == '\n' || c == '\r' }

spec fn break_free(s: Seq<char>) -> bool { forall|i: int| 0 <= i < s.len() ==> !is_line_break(#[trigger] s[i]) }

proof fn lemma_replaced2_break_free(s: Seq<char>)
    ensures break_free(replaced2(s, '\n', '\r', seq![' '])),
    decreases s.len(),
{
    if s.len() > 0 {
        lemma_replaced2_break_free(s.drop_last());
        let p = replaced2(s.drop_last(), '\n', '\r', seq![' ']);
        let t = if s.last() == '\n' || s.last() == '\r' { seq![' '] } else { seq![s.last()] };
        assert forall|i: int| 0 <= i < (p + t).len() implies !is_line_break(#[trigger] (p + t)[i]) by {
            if i < p.len() { assert((p + t)[i] == p[i]); } else { assert((p + t)[i] == t[i - p.len()]); }
        }
    }
}

// ---- block scalar indentation indicator (C12) ----

/// leading spaces of the first non-empty line at or after index i (0 if there is none)
spec fn first_line_spaces(lines: Seq<Seq<char>>, i: int) -> nat
    decreases lines.len() - i
{
    if i < 0 || i >= lines.len() { 0 } else if lines[i].len() > 0 { leading_spaces(lines[i]) } else { first_line_spaces(lines, i + 1) }
}

proof fn lemma_leading_spaces_prefix(s: Seq<char>)
    ensures
        leading_spaces(s) <= s.len(),
        forall|i: int| 0 <= i < leading_spaces(s) ==> s[i] == ' ',
    decreases s.len(),
{
    if s.len() > 0 && s[0] == ' ' {
        lemma_leading_spaces_prefix(s.skip(1));
        assert forall|i: int| 0 <= i < leading_spaces(s) implies s[i] == ' ' by {
            if i > 0 { assert(s.skip(1)[i - 1] == s[i]); }
        }
    }
}

/// `needs_double_quotes` (iterator `any` over chars: a quote, a backslash or a control character)
spec fn needs_dq(s: Seq<char>) -> bool { exists|k: int| 0 <= k < s.len() && ((#[trigger] s[k]) == '\'' || s[k] == '\\' || is_cc(s[k])) }

// ---- folding of long lines (src/wrapping.rs write_folded_block) ----
spec fn fold_spaces(n: int) -> Seq<char> { Seq::new(if n > 0 { n as nat } else { 0 }, |i: int| ' ') }
spec fn all_spaces(cs: Seq<char>, a: int, b: int) -> bool { forall|j: int| a <= j < b ==> (#[trigger] cs[j]) == ' ' }

proof fn lemma_char_off_step(cs: Seq<char>, k: int)
    requires 0 <= k < cs.len(),
    ensures char_off(cs, k + 1) == char_off(cs, k) + encode_scalar(cs[k] as u32).len(),
{
    assert(cs.take(k + 1) =~= cs.take(k).push(cs[k]));
    encode_utf8_push(cs.take(k), cs[k]);
}

/// a piece, the remaining spaces of the run and the one space the line break stands for are the text up to the run's end
proof fn lemma_fold_piece(cs: Seq<char>, ks: int, a: int, b: int)
    requires 0 <= ks <= a < b <= cs.len(), all_spaces(cs, a, b),
    ensures cs.subrange(0, ks) + cs.subrange(ks, a) + fold_spaces(b - a - 1) + seq![' '] =~= cs.subrange(0, b),
{
    let l = cs.subrange(0, ks) + cs.subrange(ks, a) + fold_spaces(b - a - 1) + seq![' '];
    assert(l.len() == b);
    assert forall|j: int| 0 <= j < b implies (#[trigger] l[j]) == cs.subrange(0, b)[j] by {
        if j >= a { assert(cs[j] == ' '); }
    }
}
