// ===== spec library for unit `quoting`: YAML double-quoted escapes (C12) =====

spec fn is_cc(c: char) -> bool { (c as u32) <= 0x1F || (0x7F <= (c as u32) && (c as u32) <= 0x9F) }

/// characters that must never appear raw inside a double-quoted scalar if it is to read back as
/// the same string: the quote and the backslash, C0/C1 controls and DEL, every YAML line break
/// (LF, CR, NEL, LS, PS) and the byte-order mark
spec fn needs_escape(c: char) -> bool {
    c == '"' || c == '\\' || is_cc(c) || c == '\u{2028}' || c == '\u{2029}' || c == '\u{FEFF}'
}

/// The escape YAML 1.2 (5.7) assigns: named escapes where they exist, else \xHH / \uHHHH.
spec fn dq_escape(c: char) -> Seq<char> {
    if c == '\\' { seq!['\\', '\\'] }
    else if c == '"' { seq!['\\', '"'] }
    else if c == '\0' { seq!['\\', '0'] }
    else if c == '\u{7}' { seq!['\\', 'a'] }
    else if c == '\u{8}' { seq!['\\', 'b'] }
    else if c == '\t' { seq!['\\', 't'] }
    else if c == '\n' { seq!['\\', 'n'] }
    else if c == '\u{b}' { seq!['\\', 'v'] }
    else if c == '\u{c}' { seq!['\\', 'f'] }
    else if c == '\r' { seq!['\\', 'r'] }
    else if c == '\u{1b}' { seq!['\\', 'e'] }
    else if c == '\u{85}' { seq!['\\', 'N'] }
    else if c == '\u{2028}' { seq!['\\', 'L'] }
    else if c == '\u{2029}' { seq!['\\', 'P'] }
    else if c == '\u{FEFF}' { seq!['\\', 'u', 'F', 'E', 'F', 'F'] }
    else if is_cc(c) { let v = c as u32; seq!['\\', 'x', hex_digit(v / 16), hex_digit(v % 16)] }
    else { seq![c] }
}

spec fn dq_body(s: Seq<char>) -> Seq<char>
    decreases s.len()
{
    if s.len() == 0 { Seq::empty() } else { dq_body(s.drop_last()) + dq_escape(s.last()) }
}

/// nothing that needs escaping is written raw
proof fn lemma_escape_is_safe(c: char)
    ensures
        needs_escape(c) ==> dq_escape(c).len() >= 2 && dq_escape(c)[0] == '\\',
        !needs_escape(c) ==> dq_escape(c) == seq![c],
        forall|i: int| 0 <= i < dq_escape(c).len() && !(needs_escape(c) && i <= 1) ==> !needs_escape(#[trigger] dq_escape(c)[i]),
{
    if needs_escape(c) && is_cc(c) && c != '\0' && c != '\u{7}' && c != '\u{8}' && c != '\t' && c != '\n' && c != '\u{b}'
        && c != '\u{c}' && c != '\r' && c != '\u{1b}' && c != '\u{85}' {
        let v = c as u32;
        assert(v <= 0xFF);
        assert(!needs_escape(hex_digit(v / 16)));
        assert(!needs_escape(hex_digit(v % 16)));
    }
}

spec fn sq_escape(c: char) -> Seq<char> { if c == '\'' { seq!['\'', '\''] } else { seq![c] } }

spec fn sq_body(s: Seq<char>) -> Seq<char>
    decreases s.len()
{
    if s.len() == 0 { Seq::empty() } else { sq_body(s.drop_last()) + sq_escape(s.last()) }
}

// ---- comments (C20): an inline comment must stay on its line ----

spec fn is_line_break(c: char) -> bool { c == '\n' || c == '\r' }

spec fn break_free(s: Seq<char>) -> bool { forall|i: int| 0 <= i < s.len() ==> !is_line_break(#[trigger] s[i]) }

proof fn lemma_replaced2_break_free(s: Seq<char>)
    ensures break_free(replaced2(s, '\n', '\r', seq![' '])),
    decreases s.len(),
{
    if s.len() > 0 {
        lemma_replaced2_break_free(s.drop_last());
        let p = replaced2(s.drop_last(), '\n', '\r', seq![' ']);
        let t = if s.last() == '\n' || s.last() == '\r' { seq![' '] } else { seq![s.last()] };
        assert forall|i: int| 0 <= i < (p + t).len() implies !is_line_break(#[trigger] (p + t)[i]) by {
            if i < p.len() { assert((p + t)[i] == p[i]); } else { assert((p + t)[i] == t[i - p.len()]); }
        }
    }
}

// ---- block scalar indentation indicator (C12) ----

/// leading spaces of the first non-empty line at or after index i (0 if there is none)
spec fn first_line_spaces(lines: Seq<Seq<char>>, i: int) -> nat
    decreases lines.len() - i
{
    if i < 0 || i >= lines.len() { 0 } else if lines[i].len() > 0 { leading_spaces(lines[i]) } else { first_line_spaces(lines, i + 1) }
}

proof fn lemma_leading_spaces_prefix(s: Seq<char>)
    ensures
        leading_spaces(s) <= s.len(),
        forall|i: int| 0 <= i < leading_spaces(s) ==> s[i] == ' ',
    decreases s.len(),
{
    if s.len() > 0 && s[0] == ' ' {
        lemma_leading_spaces_prefix(s.skip(1));
        assert forall|i: int| 0 <= i < leading_spaces(s) implies s[i] == ' ' by {
            if i > 0 { assert(s.skip(1)[i - 1] == s[i]); }
        }
    }
}

/// `needs_double_quotes` (iterator `any` over chars: a quote, a backslash or a control character)
spec fn needs_dq(s: Seq<char>) -> bool { exists|k: int| 0 <= k < s.len() && ((#[trigger] s[k]) == '\'' || s[k] == '\\' || is_cc(s[k])) }

// ---- folding of long lines (src/wrapping.rs write_folded_block) ----
spec fn fold_spaces(n: int) -> Seq<char> { Seq::new(if n > 0 { n as nat } else { 0 }, |i: int| ' ') }
spec fn all_spaces(cs: Seq<char>, a: int, b: int) -> bool { forall|j: int| a <= j < b ==> (#[trigger] cs[j]) == ' ' }

proof fn lemma_char_off_step(cs: Seq<char>, k: int)
    requires 0 <= k < cs.len(),
    ensures char_off(cs, k + 1) == char_off(cs, k) + encode_scalar(cs[k] as u32).len(),
{
    assert(cs.take(k + 1) =~= cs.take(k).push(cs[k]));
    encode_utf8_push(cs.take(k), cs[k]);
}

/// a piece, the remaining spaces of the run and the one space the line break stands for are the text up to the run's end
proof fn lemma_fold_piece(cs: Seq<char>, ks: int, a: int, b: int)
    requires 0 <= ks <= a < b <= cs.len(), all_spaces(cs, a, b),
    ensures cs.subrange(0, ks) + cs.subrange(ks, a) + fold_spaces(b - a - 1) + seq![' '] =~= cs.subrange(0, b),
{
    let l = cs.subrange(0, ks) + cs.subrange(ks, a) + fold_spaces(b - a - 1) + seq![' '];
    assert(l.len() == b);
    assert forall|j: int| 0 <= j < b implies (#[trigger] l[j]) == cs.subrange(0, b)[j] by {
        if j >= a { assert(cs[j] == ' '); }
    }
}

// ---- block scalars chosen and written by serialize_str (C12 / C20) ----
//
// Reader side, written from YAML 1.2 section 8.1 (the reader itself, saphyr-parser, is an external
// dependency): a block scalar's header is the style character, an optional indentation indicator digit
// that is RELATIVE to the indentation of the parent node (8.1.1.1) and an optional chomping indicator
// (8.1.1.2); every following line at or beyond the content indentation belongs to the scalar, the
// content indentation is removed from each line, and in literal style (8.1.2) the value is the lines
// joined by line feeds, with the final line breaks treated per the chomping mode.

spec fn trailing_lf(s: Seq<char>) -> nat
    decreases s.len()
{
    if s.len() > 0 && s.last() == '\n' { 1 + trailing_lf(s.drop_last()) } else { 0 }
}
spec fn strip_lf(s: Seq<char>) -> Seq<char> { s.take(s.len() - trailing_lf(s)) }
spec fn lfs(n: nat) -> Seq<char> { Seq::new(n, |i: int| '\n') }
spec fn empties(n: nat) -> Seq<Seq<char>> { Seq::new(n, |i: int| Seq::<char>::empty()) }

/// every line followed by a line feed
spec fn join_lines(lines: Seq<Seq<char>>) -> Seq<char>
    decreases lines.len()
{
    if lines.len() == 0 { Seq::empty() } else { join_lines(lines.drop_last()) + lines.last() + seq!['\n'] }
}

pub enum Chomp { Strip, Clip, Keep }

/// value of a literal block scalar whose de-indented lines are `lines` (8.1.1.2: strip removes the final
/// line breaks, keep keeps them, clip keeps one).  For content that consists of empty lines only the
/// crate's reader keeps one line break under clip (observed: "|\n  \n" reads as "\n"); that corner is
/// written here as the reader behaves, and pinned by the crate's own tests.
#[verifier::opaque]
spec fn lit_value(lines: Seq<Seq<char>>, c: Chomp) -> Seq<char> {
    let raw = join_lines(lines);
    match c {
        Chomp::Strip => strip_lf(raw),
        Chomp::Keep => raw,
        Chomp::Clip => if strip_lf(raw).len() == 0 { if raw.len() > 0 { seq!['\n'] } else { Seq::empty() } } else { strip_lf(raw) + seq!['\n'] },
    }
}

spec fn chomp_of(t: nat) -> Chomp { if t == 0 { Chomp::Strip } else if t == 1 { Chomp::Clip } else { Chomp::Keep } }
spec fn chomp_text(c: Chomp) -> Seq<char> { match c { Chomp::Strip => seq!['-'], Chomp::Clip => Seq::empty(), Chomp::Keep => seq!['+'] } }

/// the lines a literal block scalar must consist of to read back as `v`
#[verifier::opaque]
spec fn lit_lines(v: Seq<char>) -> Seq<Seq<char>> {
    let t = trailing_lf(v);
    let content = strip_lf(v);
    if content.len() == 0 { empties(t) } else { split_lines(content) + empties(if t >= 2 { (t - 1) as nat } else { 0 }) }
}

/// the body text: every line preceded by the content indentation and followed by a line feed
#[verifier::opaque]
spec fn block_lines_text(ind: Seq<char>, lines: Seq<Seq<char>>) -> Seq<char>
    decreases lines.len()
{
    if lines.len() == 0 { Seq::empty() } else { block_lines_text(ind, lines.drop_last()) + ind + lines.last() + seq!['\n'] }
}

spec fn digit_char(d: int) -> char { if 0 <= d <= 9 { ((0x30 + d) as u8) as char } else { '?' } }

/// header of a block scalar: style character, indentation indicator (if any), chomping indicator (if any)
spec fn block_header(style: char, has_ind: bool, d: int, c: Chomp) -> Seq<char> {
    seq![style] + (if has_ind { seq![digit_char(d)] } else { Seq::empty() }) + chomp_text(c)
}

/// characters a block scalar cannot carry to this reader unchanged: a carriage return is a line break
/// and is normalised to a line feed (5.4), NUL ends the reader's input
#[verifier::opaque]
spec fn block_text_ok(v: Seq<char>) -> bool { forall|i: int| 0 <= i < v.len() ==> (#[trigger] v[i]) != '\r' && v[i] != '\0' }

/// line breaks the explicit folded wrapper preserves (up to the one trailing break its documented clip
/// chomping adds or removes): none inside the text, at most two at its end
#[verifier::opaque]
spec fn fold_keeps_breaks(v: Seq<char>) -> bool {
    trailing_lf(v) <= 2 && (forall|i: int| 0 <= i < strip_lf(v).len() ==> (#[trigger] strip_lf(v)[i]) != '\n')
}

proof fn lemma_trailing_lf_bound(s: Seq<char>)
    ensures trailing_lf(s) <= s.len(), s =~= strip_lf(s) + lfs(trailing_lf(s)), trailing_lf(strip_lf(s)) == 0,
            strip_lf(s).len() > 0 ==> strip_lf(s).last() != '\n',
    decreases s.len(),
{
    if s.len() > 0 && s.last() == '\n' {
        let p = s.drop_last();
        lemma_trailing_lf_bound(p);
        assert(strip_lf(s) =~= strip_lf(p));
        assert(lfs(trailing_lf(s)) =~= lfs(trailing_lf(p)).push('\n'));
        assert(s =~= p.push('\n'));
    } else {
        assert(strip_lf(s) =~= s);
        assert(lfs(0) =~= Seq::<char>::empty());
    }
}

proof fn lemma_trailing_lf_append(s: Seq<char>, k: nat)
    requires trailing_lf(s) == 0,
    ensures trailing_lf(s + lfs(k)) == k, strip_lf(s + lfs(k)) =~= s,
    decreases k,
{
    if k == 0 {
        assert(s + lfs(0) =~= s);
        assert(strip_lf(s) =~= s);
    } else {
        lemma_trailing_lf_append(s, (k - 1) as nat);
        assert((s + lfs(k)).drop_last() =~= s + lfs((k - 1) as nat));
        assert((s + lfs(k)).last() == '\n');
    }
}

proof fn lemma_join_split(s: Seq<char>)
    ensures join_lines(split_lines(s)) =~= s + seq!['\n'], split_lines(s).len() >= 1,
    decreases s.len(),
{
    if s.len() == 0 {
        let one = seq![Seq::<char>::empty()];
        assert(one.drop_last() =~= Seq::<Seq<char>>::empty());
        assert(join_lines(one) =~= join_lines(one.drop_last()) + one.last() + seq!['\n']);
    } else {
        let sp = s.drop_last();
        lemma_join_split(sp);
        let p = split_lines(sp);
        assert(s =~= sp.push(s.last()));
        if s.last() == '\n' {
            let q = p.push(Seq::<char>::empty());
            assert(q.drop_last() =~= p);
        } else {
            let q = p.update(p.len() - 1, p.last().push(s.last()));
            assert(q.drop_last() =~= p.drop_last());
            assert(join_lines(p) =~= join_lines(p.drop_last()) + p.last() + seq!['\n']);
            assert(join_lines(q) =~= join_lines(p.drop_last()) + p.last().push(s.last()) + seq!['\n']);
            assert(join_lines(p.drop_last()) + p.last() =~= sp) by {
                let a = join_lines(p.drop_last()) + p.last();
                assert(a + seq!['\n'] =~= sp + seq!['\n']);
                assert(a.len() == sp.len());
                assert forall|i: int| 0 <= i < a.len() implies a[i] == sp[i] by { assert((a + seq!['\n'])[i] == (sp + seq!['\n'])[i]); }
            }
        }
    }
}

proof fn lemma_join_empties(a: Seq<Seq<char>>, k: nat)
    ensures join_lines(a + empties(k)) =~= join_lines(a) + lfs(k),
    decreases k,
{
    if k == 0 {
        assert(a + empties(0) =~= a);
    } else {
        lemma_join_empties(a, (k - 1) as nat);
        let q = a + empties(k);
        assert(q.drop_last() =~= a + empties((k - 1) as nat));
        assert(q.last() =~= Seq::<char>::empty());
        assert(lfs(k) =~= lfs((k - 1) as nat).push('\n'));
    }
}

/// the link to the property: the lines `lit_lines(v)` under the chomping mode chosen from the number of
/// trailing line feeds read back as `v`, character for character
proof fn lemma_literal_reads_back(v: Seq<char>)
    ensures lit_value(lit_lines(v), chomp_of(trailing_lf(v))) =~= v,
{
    reveal(lit_lines); reveal(lit_value);
    let t = trailing_lf(v);
    let content = strip_lf(v);
    lemma_trailing_lf_bound(v);
    if content.len() == 0 {
        lemma_join_empties(Seq::<Seq<char>>::empty(), t);
        assert(Seq::<Seq<char>>::empty() + empties(t) =~= empties(t));
        let raw = join_lines(empties(t));
        assert(raw =~= lfs(t));
        assert(v =~= lfs(t));
        lemma_trailing_lf_append(Seq::<char>::empty(), t);
        assert(Seq::<char>::empty() + lfs(t) =~= lfs(t));
        if t == 1 { assert(lfs(1) =~= seq!['\n']); }
    } else {
        let k: nat = if t >= 2 { (t - 1) as nat } else { 0 };
        lemma_join_split(content);
        lemma_join_empties(split_lines(content), k);
        let raw = join_lines(lit_lines(v));
        assert(raw =~= content + seq!['\n'] + lfs(k));
        assert(seq!['\n'] + lfs(k) =~= lfs(k + 1)) by { assert(lfs(k + 1).len() == k + 1); }
        assert(raw =~= content + lfs(k + 1));
        lemma_trailing_lf_append(content, k + 1);
        if t == 0 { assert(content + lfs(0) =~= content); }
    }
}

proof fn lemma_blt_push(ind: Seq<char>, a: Seq<Seq<char>>, l: Seq<char>)
    ensures block_lines_text(ind, a.push(l)) =~= block_lines_text(ind, a) + ind + l + seq!['\n'],
{
    reveal_with_fuel(block_lines_text, 2);
    assert(a.push(l).drop_last() =~= a);
}

proof fn lemma_blt_empty(ind: Seq<char>)
    ensures block_lines_text(ind, Seq::<Seq<char>>::empty()) =~= Seq::<char>::empty(),
{ reveal_with_fuel(block_lines_text, 1); }

/// the shapes `lit_lines` takes, spelled the way the emitter builds them
proof fn lemma_lit_lines_shape(v: Seq<char>)
    ensures ({ let t = trailing_lf(v); let c = strip_lf(v);
        &&& (c.len() == 0 && t == 0 ==> lit_lines(v) =~= Seq::<Seq<char>>::empty())
        &&& (c.len() == 0 && t == 1 ==> lit_lines(v) =~= Seq::<Seq<char>>::empty().push(Seq::<char>::empty()))
        &&& (c.len() == 0 && t >= 2 ==> lit_lines(v) =~= Seq::<Seq<char>>::empty().push(Seq::<char>::empty()) + empties((t - 1) as nat))
        &&& (c.len() > 0 && t < 2 ==> lit_lines(v) =~= split_lines(c))
        &&& (c.len() > 0 && t >= 2 ==> lit_lines(v) =~= split_lines(c) + empties((t - 1) as nat)) }),
{
    reveal(lit_lines);
    let t = trailing_lf(v); let c = strip_lf(v);
    let one = Seq::<Seq<char>>::empty().push(Seq::<char>::empty());
    assert(empties(0) =~= Seq::<Seq<char>>::empty());
    assert(empties(1) =~= one);
    if t >= 2 { assert(one + empties((t - 1) as nat) =~= empties(t)); }
    assert(split_lines(c) + empties(0) =~= split_lines(c));
}

proof fn lemma_empties_push(a: Seq<Seq<char>>, k: nat)
    ensures a + empties(k + 1) =~= (a + empties(k)).push(Seq::<char>::empty()), a + empties(0) =~= a,
{}

/// `%YAML 1.2` directive line followed by the document start marker line (YAML 1.2, 9.1: a document that has
/// directives must begin with an explicit `---`)
spec fn yaml12_document_prefix() -> Seq<char> { seq!['%', 'Y', 'A', 'M', 'L', ' ', '1', '.', '2', '\n', '-', '-', '-', '\n'] }

/// the text ends with the three given characters
spec fn ends_with3(t: Seq<char>, a: char, b: char, c: char) -> bool {
    t.len() >= 3 && t[t.len() - 3] == a && t[t.len() - 2] == b && t[t.len() - 1] == c
}

// ---- scalar mapping keys (KeyScalarSink::serialize_str) ----
spec fn t0_of(k: &KeyScalarSink) -> Seq<char> { k.s@ }
/// characters that end or corrupt a double-quoted scalar if written raw: the quote, the backslash, C0/C1 controls and DEL
/// (this includes every line break the reader normalises: LF, CR, NEL)
spec fn key_needs_escape(c: char) -> bool { c == '"' || c == '\\' || is_cc(c) }
/// escape written by the key path: named escapes for \ " LF CR TAB, \uXXXX for the other control characters
spec fn kq_escape(c: char) -> Seq<char> {
    if c == '\\' { seq!['\\', '\\'] }
    else if c == '"' { seq!['\\', '"'] }
    else if c == '\n' { seq!['\\', 'n'] }
    else if c == '\r' { seq!['\\', 'r'] }
    else if c == '\t' { seq!['\\', 't'] }
    else if is_cc(c) { let v = c as u32; seq!['\\', 'u', hex_digit(v / 4096), hex_digit((v / 256) % 16), hex_digit((v / 16) % 16), hex_digit(v % 16)] }
    else { seq![c] }
}
spec fn kq_body(s: Seq<char>) -> Seq<char>
    decreases s.len()
{
    if s.len() == 0 { Seq::empty() } else { kq_body(s.drop_last()) + kq_escape(s.last()) }
}
/// nothing that needs escaping is written raw: every such character of the body is the head of an escape pair
proof fn lemma_key_escape_is_safe(c: char)
    ensures
        key_needs_escape(c) ==> kq_escape(c).len() >= 2 && kq_escape(c)[0] == '\\',
        !key_needs_escape(c) ==> kq_escape(c) == seq![c],
        forall|i: int| 0 <= i < kq_escape(c).len() && !(key_needs_escape(c) && i <= 1) ==> !key_needs_escape(#[trigger] kq_escape(c)[i]),
{
    if is_cc(c) && c != '\n' && c != '\r' && c != '\t' {
        let v = c as u32;
        assert(v <= 0xFF);
        assert(!key_needs_escape(hex_digit(v / 4096)));
        assert(!key_needs_escape(hex_digit((v / 256) % 16)));
        assert(!key_needs_escape(hex_digit((v / 16) % 16)));
        assert(!key_needs_escape(hex_digit(v % 16)));
    }
}

// ---- float text normalisation (src/zmij_format.rs) ----
spec fn all_ascii(cs: Seq<char>) -> bool { forall|i: int| 0 <= i < cs.len() ==> (#[trigger] cs[i] as u32) < 128 }
spec fn first_index_of(cs: Seq<char>, c: char) -> Option<int>
    decreases cs.len()
{
    if cs.len() == 0 { None } else if cs[0] == c { Some(0int) } else { match first_index_of(cs.skip(1), c) { Some(i) => Some(i + 1), None => None } }
}
spec fn has_char(cs: Seq<char>, c: char) -> bool { exists|i: int| 0 <= i < cs.len() && cs[i] == c }
/// position of the exponent marker: the first `e`, else the first `E`
spec fn exp_pos(cs: Seq<char>) -> Option<int> { match first_index_of(cs, 'e') { Some(p) => Some(p), None => first_index_of(cs, 'E') } }
spec fn mant_norm(m: Seq<char>) -> Seq<char> { if has_char(m, '.') { m } else { m + seq!['.', '0'] } }
/// YAML float text made from formatted digits: a mantissa without a point gets `.0`, an exponent without a sign gets `+`
spec fn float_norm(cs: Seq<char>) -> Seq<char> {
    match exp_pos(cs) {
        Some(p) => mant_norm(cs.subrange(0, p)) + seq![cs[p]]
            + (if p + 1 < cs.len() && (cs[p + 1] == '+' || cs[p + 1] == '-') { Seq::<char>::empty() } else { seq!['+'] }) + cs.subrange(p + 1, cs.len() as int),
        None => mant_norm(cs),
    }
}
/// YAML 1.1 / core-schema float grammar, the two points the crate adds: a `.` before any exponent marker, and a sign
/// right after the exponent marker
spec fn mantissa_has_point(t: Seq<char>) -> bool {
    match exp_pos(t) { Some(p) => has_char(t.subrange(0, p), '.'), None => has_char(t, '.') }
}
spec fn exponent_is_signed(t: Seq<char>) -> bool {
    match exp_pos(t) { Some(p) => p + 1 < t.len() && (t[p + 1] == '+' || t[p + 1] == '-'), None => true }
}
proof fn lemma_first_index(cs: Seq<char>, c: char)
    ensures match first_index_of(cs, c) {
        Some(i) => 0 <= i < cs.len() && cs[i] == c && (forall|j: int| 0 <= j < i ==> cs[j] != c),
        None => forall|j: int| 0 <= j < cs.len() ==> cs[j] != c },
    decreases cs.len(),
{
    if cs.len() > 0 && cs[0] != c {
        lemma_first_index(cs.skip(1), c);
        match first_index_of(cs.skip(1), c) {
            Some(i) => { assert forall|j: int| 0 <= j < i + 1 implies cs[j] != c by { if j > 0 { assert(cs.skip(1)[j - 1] == cs[j]); } } assert(cs.skip(1)[i] == cs[i + 1]); }
            None => { assert forall|j: int| 0 <= j < cs.len() implies cs[j] != c by { if j > 0 { assert(cs.skip(1)[j - 1] == cs[j]); } } }
        }
    }
}
/// the first occurrence is determined by its defining property
proof fn lemma_first_index_unique(cs: Seq<char>, c: char, i: int)
    requires 0 <= i < cs.len(), cs[i] == c, forall|j: int| 0 <= j < i ==> cs[j] != c,
    ensures first_index_of(cs, c) == Some(i),
{
    lemma_first_index(cs, c);
}
proof fn lemma_first_index_none(cs: Seq<char>, c: char)
    requires forall|j: int| 0 <= j < cs.len() ==> cs[j] != c,
    ensures first_index_of(cs, c) is None,
{
    lemma_first_index(cs, c);
}
/// the normalised text has its point before the exponent marker and a sign after it
proof fn lemma_float_norm_grammar(cs: Seq<char>)
    ensures mantissa_has_point(float_norm(cs)) && exponent_is_signed(float_norm(cs)),
{
    lemma_first_index(cs, 'e'); lemma_first_index(cs, 'E');
    let t = float_norm(cs);
    match exp_pos(cs) {
        Some(p) => {
            let m = mant_norm(cs.subrange(0, p));
            let mk = cs[p];
            // the marker of the result sits right after the normalised mantissa, and the mantissa has no marker
            assert(t.subrange(0, m.len() as int) =~= m);
            assert(t[m.len() as int] == mk);
            assert forall|j: int| 0 <= j < m.len() implies t[j] != 'e' && (first_index_of(cs, 'e') is None ==> t[j] != 'E') by {
                if j < p { assert(m[j] == cs[j]); } else { assert(m[j] == '.' || m[j] == '0'); }
            }
            if first_index_of(cs, 'e') is Some {
                lemma_first_index_unique(t, 'e', m.len() as int);
            } else {
                assert forall|j: int| 0 <= j < t.len() implies t[j] != 'e' by {
                    if j < m.len() { } else if j == m.len() { } else {
                        // sign or a character of the tail of cs
                        let k = j - m.len() - 1;
                        if p + 1 < cs.len() && (cs[p + 1] == '+' || cs[p + 1] == '-') { assert(t[j] == cs[p + 1 + k]); }
                        else if k == 0 { assert(t[j] == '+'); } else { assert(t[j] == cs[p + 1 + (k - 1)]); }
                    }
                }
                lemma_first_index_none(t, 'e');
                lemma_first_index_unique(t, 'E', m.len() as int);
            }
            assert(exp_pos(t) == Some(m.len() as int));
            // the mantissa has a point
            if has_char(cs.subrange(0, p), '.') { } else { assert(m[m.len() - 2] == '.'); }
            assert(has_char(m, '.'));
            // a sign follows the marker
            if p + 1 < cs.len() && (cs[p + 1] == '+' || cs[p + 1] == '-') { assert(t[m.len() as int + 1] == cs[p + 1]); } else { assert(t[m.len() as int + 1] == '+'); }
        }
        None => {
            let m = mant_norm(cs);
            assert forall|j: int| 0 <= j < m.len() implies m[j] != 'e' && m[j] != 'E' by { if j < cs.len() { assert(m[j] == cs[j]); } else { assert(m[j] == '.' || m[j] == '0'); } }
            lemma_first_index_none(m, 'e'); lemma_first_index_none(m, 'E');
            if has_char(cs, '.') { } else { assert(m[m.len() - 2] == '.'); }
        }
    }
}

// ---- which text a float gets (src/zmij_format.rs, whole functions) ----
uninterp spec fn fl_nan(f: f64) -> bool;
uninterp spec fn fl_inf(f: f64) -> bool;
uninterp spec fn fl_pos(f: f64) -> bool;
/// the shortest round-trip digits the external formatter (crate zmij) produces for a finite float
uninterp spec fn zmij_text(f: f64) -> Seq<char>;
spec fn float_text(f: f64) -> Seq<char> {
    if fl_nan(f) { seq!['.', 'n', 'a', 'n'] }
    else if fl_inf(f) { if fl_pos(f) { seq!['.', 'i', 'n', 'f'] } else { seq!['-', '.', 'i', 'n', 'f'] } }
    else { float_norm(zmij_text(f)) }
}
