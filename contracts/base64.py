"""Unit `base64`: src/base64.rs decode_base64_yaml against the strict canonical RFC 4648 decoder (C06: `!!binary` payloads)."""
from contracts_types import *
import importlib.util as _ilu, os as _os
def _load(n):
    sp = _ilu.spec_from_file_location('contracts_%s_for_base64' % n, _os.path.join(_os.path.dirname(__file__), n + '.py'))
    m = _ilu.module_from_spec(sp); sp.loader.exec_module(m); return m
_sc = _load('scalars')
NAME = 'base64'
FEATURES = []
USES = ['use vstd::string::*;', 'use vstd::utf8::*;', 'use vstd::slice::*;']
PRELUDE = ['common.shim.rs', 'error.spec.rs', 'str.shim.rs', 'scalars.spec.rs', 'base64.spec.rs', 'base64.shim.rs']
SUBST = SUBST_COMMON
B = 'src/base64.rs'
INV = 'Error::InvalidBinaryBase64 { location: Location::UNKNOWN }'

def _callee(it):
    it = dict(it); it.update(trusted=True, props=[]); it.pop('canaries', None)
    return it

ITEMS = location_types() + budget_types() + error_types() + [
    _callee([x for x in _sc.ITEMS if x.get('path') == 'fn decode_val'][0]),
    dict(src=B, path='fn decode_base64_yaml', props=['C06'],
         bounded=dict(harness='bounded/base64.rs', items=[('src/base64.rs', '*')], subs=[(r'use crate::Location;', 'use super::shim::Location;'), (r'use crate::de::Error;', 'use super::shim::Error;')]),
         pre_rewrites=[
            (r'let cleaned: Vec<u8> = s\.bytes\(\)\.filter\(\|b\| !b\.is_ascii_whitespace\(\)\)\.collect\(\);',
             'let cleaned: Vec<u8> = bytes_without_ascii_whitespace(s);', 1, 'R8'),
            (r"chunk\.iter\(\)\.rev\(\)\.take_while\(\|&&c\| c == b'='\)\.count\(\)", "trailing_eq_count(chunk, b'=')", 1, 'R8'),
            (r'!cleaned\.len\(\)\.is_multiple_of\(4\)', 'cleaned.len() % 4 != 0', 1, 'R8'),
            (r'Vec::with_capacity\(cleaned\.len\(\) / 4 \* 3\)', 'Vec::<u8>::with_capacity(cleaned.len() / 4 * 3)', 1, 'R8'),
         ],
         loop_rewrites=[(1, 'chunks_exact_enumerate')],
         ensures=[('C06:binary_payload_is_exactly_the_strict_canonical_base64_decoding', '''match r {
                Ok(v) => b64_decode(b64_strip_ws(s.spec_bytes())) == Some(v@),
                Err(e) => b64_decode(b64_strip_ws(s.spec_bytes())) is None && e == (%s) }''' % INV)],
         canaries=['C06:binary_payload_is_exactly_the_strict_canonical_base64_decoding'],
         proofs=[
            dict(after=r"let pad = trailing_eq_count(chunk, b'=');", ghost=True,
                 text='let ghost out0 = out@; let ghost last = (idx + 1) * 4 == cleaned@.len(); let ghost q = b64_quantum(chunk@, last);'),
            dict(after=r"let pad = trailing_eq_count(chunk, b'=');", text='''lemma_trailing4(chunk@);
                lemma_sextet_range(chunk@[0]); lemma_sextet_range(chunk@[1]); lemma_sextet_range(chunk@[2]); lemma_sextet_range(chunk@[3]);
                assert(chunk@ == cleaned@.subrange(idx as int * 4, idx as int * 4 + 4));
                assert(last == (idx + 1 == total_chunks));
                if q is None { lemma_quantum_fails(cleaned@, idx as nat, total_chunks as nat); }'''),
            dict(before='if pad == 2 && (b & 0x0F) != 0 {', text='''lemma_b64_bits(a, b, c, d);
                assert(b64_sextet(chunk@[0]) == Some(a as u8) && b64_sextet(chunk@[1]) == Some(b as u8));
                assert(pad < 2 ==> b64_sextet(chunk@[2]) == Some(c as u8));
                assert(pad == 0 ==> b64_sextet(chunk@[3]) == Some(d as u8));'''),
            dict(before='match pad {', text='assert(q is Some && out@ =~= out0 + q->Some_0);'),
         ],
         loops={1: dict(invariant=[
                ('C06:bytes_so_far_are_the_decoding_of_the_quanta_so_far', 'b64_quanta(cleaned@, __i1 as nat) == Some(out@)'),
                ('bounds', '__i1 <= __n1 && __n1 == total_chunks && total_chunks * 4 == cleaned@.len()'),
                ('input', 'cleaned@ == b64_strip_ws(s.spec_bytes())')],
              decreases='__n1 - __i1')}),
]
