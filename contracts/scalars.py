"""Unit `scalars`: integer scalar parsing of src/parse_scalars.rs against a mathematical oracle."""
from contracts_types import *
NAME = 'scalars'
FEATURES = []
USES = ['use vstd::string::*;', 'use vstd::utf8::*;']
PRELUDE = ['common.shim.rs', 'error.spec.rs', 'str.shim.rs', 'scalars.spec.rs']
SUBST = SUBST_COMMON
P = ['C06', 'C01']
S = 'src/parse_scalars.rs'
ITEMS = location_types() + budget_types() + error_types() + [
    dict(src=S, path='fn parse_digits_u128', props=P, loop_rewrites=[(1, 'slice')],
         bounded=dict(harness='bounded/parse_digits.rs', items=[('src/parse_scalars.rs', 'fn parse_digits_u128')]),
         requires=[('radix_range', '2 <= radix <= 16')],
         ensures=[('exact_value_or_none', '''r == (match digits_value(digits.spec_bytes(), radix as nat) {
                Some(v) => if v <= u128::MAX { Some(v as u128) } else { None },
                None => None })''')],
         loops={1: dict(
             invariant=[('prefix_value', '''__i1 <= digits.spec_bytes().len() && 2 <= radix <= 16
                 && digits_spec(digits.spec_bytes().take(__i1 as int), radix as nat) == Some((val as nat, saw))''')],
             decreases='digits.spec_bytes().len() - __i1')},
         proofs=[dict(after='__i1 += 1;', text='''
                 lemma_digits_step(digits.spec_bytes(), __i1 as int, radix as nat);
                 lemma_digits_prefix(digits.spec_bytes(), __i1 as int, radix as nat);
                 assert(digits.spec_bytes().take(__i1 as int - 1) == digits.spec_bytes().take((__i1 - 1) as int));'''),
                 dict(after_loop=1, text='assert(digits.spec_bytes().take(__i1 as int) =~= digits.spec_bytes());')],
         canaries=['exact_value_or_none']),
    dict(src=S, path='fn parse_decimal_unsigned_u128', props=P, loop_rewrites=[(1, 'slice')],
         ensures=[('exact_value_or_none', '''r == (match digits_value(digits.spec_bytes(), 10) {
                Some(v) => if v <= u128::MAX { Some(v as u128) } else { None },
                None => None })''')],
         loops={1: dict(
             invariant=[('prefix_value', '''__i1 <= digits.spec_bytes().len()
                 && digits_spec(digits.spec_bytes().take(__i1 as int), 10) == Some((val as nat, saw))''')],
             decreases='digits.spec_bytes().len() - __i1')},
         proofs=[dict(after='__i1 += 1;', text='''
                 lemma_digits_step(digits.spec_bytes(), __i1 as int, 10);
                 lemma_digits_prefix(digits.spec_bytes(), __i1 as int, 10);
                 assert(digits.spec_bytes().take(__i1 as int - 1) == digits.spec_bytes().take((__i1 - 1) as int));'''),
                 dict(after_loop=1, text='assert(digits.spec_bytes().take(__i1 as int) =~= digits.spec_bytes());')],
         canaries=['exact_value_or_none']),
    dict(src=S, path='fn parse_decimal_signed_i128', props=P, loop_rewrites=[(1, 'slice'), (2, 'slice')],
         ensures=[('exact_value_or_none', '''r == (match digits_value(digits.spec_bytes(), 10) {
                Some(v) => { let x: int = if neg { -(v as int) } else { v as int };
                             if i128::MIN <= x <= i128::MAX { Some(x as i128) } else { None } },
                None => None })''')],
         loops={1: dict(
             invariant=[('prefix_value', '''__i1 <= digits.spec_bytes().len() && val <= 0 && neg
                 && digits_spec(digits.spec_bytes().take(__i1 as int), 10) == Some(((-val) as nat, saw))''')],
             decreases='digits.spec_bytes().len() - __i1'),
                2: dict(
             invariant=[('prefix_value', '''__i2 <= digits.spec_bytes().len() && val >= 0 && !neg
                 && digits_spec(digits.spec_bytes().take(__i2 as int), 10) == Some((val as nat, saw))''')],
             decreases='digits.spec_bytes().len() - __i2')},
         proofs=[dict(after='__i1 += 1;', text='''
                 lemma_digits_step(digits.spec_bytes(), __i1 as int, 10);
                 lemma_digits_prefix(digits.spec_bytes(), __i1 as int, 10);
                 assert(digits.spec_bytes().take(__i1 as int - 1) == digits.spec_bytes().take((__i1 - 1) as int));'''),
                 dict(after='__i2 += 1;', text='''
                 lemma_digits_step(digits.spec_bytes(), __i2 as int, 10);
                 lemma_digits_prefix(digits.spec_bytes(), __i2 as int, 10);
                 assert(digits.spec_bytes().take(__i2 as int - 1) == digits.spec_bytes().take((__i2 - 1) as int));'''),
                 dict(after_loop=1, text='assert(digits.spec_bytes().take(__i1 as int) =~= digits.spec_bytes());'),
                 dict(after_loop=2, text='assert(digits.spec_bytes().take(__i2 as int) =~= digits.spec_bytes());')],
         canaries=['exact_value_or_none']),
    dict(src=S, path='fn radix_and_digits', props=P,
         bounded=dict(harness='bounded/radix_and_digits.rs', items=[('src/parse_scalars.rs', 'fn radix_and_digits')]),
         rewrites=[
             (r'rest\.strip_prefix\("(0[xXoObB])"\)\.or_else\(\|\| rest\.strip_prefix\("(0[xXoObB])"\)\)',
              r'(match str_strip_prefix_str(rest, "\1") { Some(__v) => Some(__v), None => str_strip_prefix_str(rest, "\2") })', None, 'R8+R18'),
             (r'rest\.starts_with\("00"\)', 'str_starts_with_str(rest, "00")', None, 'R8'),
             (r'&rest\[(\w+)\.\.\]', r'str_slice_from(rest, \1)', None, 'R8'),
         ],
         proofs=[dict(at='start', text='''
             let b = rest.spec_bytes();
             reveal_strlit("0x"); reveal_strlit("0X"); reveal_strlit("0o"); reveal_strlit("0O");
             reveal_strlit("0b"); reveal_strlit("0B"); reveal_strlit("00"); reveal_strlit("0");
             lemma_lit2("0x", '0', 'x'); lemma_lit2("0X", '0', 'X'); lemma_lit2("0o", '0', 'o'); lemma_lit2("0O", '0', 'O');
             lemma_lit2("0b", '0', 'b'); lemma_lit2("0B", '0', 'B'); lemma_lit2("00", '0', '0');
             is_ascii_chars_encode_utf8("0"@); assert("0".spec_bytes() =~= seq![0x30u8]);
             lemma_prefix2(b, 0x30, 0x78); lemma_prefix2(b, 0x30, 0x58); lemma_prefix2(b, 0x30, 0x6f); lemma_prefix2(b, 0x30, 0x4f);
             lemma_prefix2(b, 0x30, 0x62); lemma_prefix2(b, 0x30, 0x42); lemma_prefix2(b, 0x30, 0x30);
             lemma_str_bytes_inj(rest, "00");
             if has_prefix2(b, 0x30, 0x30) { lemma_boundary2(rest); if b.len() == 2 { assert(b =~= seq![0x30u8, 0x30u8]); } }
             ''')],
         ensures=[('prefix_table', '''r.0 as nat == radix_digits_spec(legacy_octal, rest.spec_bytes()).0
                && r.1.spec_bytes() == radix_digits_spec(legacy_octal, rest.spec_bytes()).1'''),
                  ('radix_is_2_8_10_16', 'r.0 == 2 || r.0 == 8 || r.0 == 10 || r.0 == 16')],
         canaries=['prefix_table']),
]

STR_RW = [
    (r'\bs\.trim\(\)', 'str_trim(s)', None, 'R8'),
    (r"\bt\.strip_prefix\('\+'\)", "str_strip_prefix_char(t, '+')", None, 'R8'),
]

def _signed(ty):
    lo, hi = '%s::MIN' % ty, '%s::MAX' % ty
    return dict(src=S, path='fn parse_int_signed', id='parse_int_signed<%s>' % ty, rename='parse_int_signed_%s' % ty, props=P,
        rewrites=STR_RW + [
            (r"\bt\.strip_prefix\('-'\)", "str_strip_prefix_char(t, '-')", None, 'R8'),
            (r'fn parse_int_signed<T>\(', 'fn parse_int_signed(', 1, 'R9'),
            (r'Result<T, Error>', 'Result<%s, Error>' % ty, 1, 'R9'),
            (r'where\s+T: TryFrom<i128>,', '', 1, 'R9'),
            (r'\bT::try_from\b', ('i128_try_from_i128' if ty == 'i128' else '%s::try_from' % ty), 2, 'R9'),
            (r'\bmag\.try_into\(\)', 'i128::try_from(mag)', None, 'R19'),
        ],
        ensures=[('exact_or_error_never_wrapped', '''match r {
              Ok(v) => int_spec(spec_trim(s.spec_bytes()), legacy_octal) == Some(v as int),
              Err(_e) => match int_spec(spec_trim(s.spec_bytes()), legacy_octal) {
                  None => true, Some(x) => !(%s <= x <= %s) } }''' % (lo, hi))],
        canaries=['exact_or_error_never_wrapped'])

def _unsigned(ty):
    hi = '%s::MAX' % ty
    return dict(src=S, path='fn parse_int_unsigned', id='parse_int_unsigned<%s>' % ty, rename='parse_int_unsigned_%s' % ty, props=P,
        rewrites=STR_RW + [
            (r"\bt\.starts_with\('-'\)", "str_starts_with_char(t, '-')", None, 'R8'),
            (r'fn parse_int_unsigned<T>\(', 'fn parse_int_unsigned(', 1, 'R9'),
            (r'Result<T, Error>', 'Result<%s, Error>' % ty, 1, 'R9'),
            (r'where\s+T: TryFrom<u128>,', '', 1, 'R9'),
            (r'\bT::try_from\b', ('u128_try_from_u128' if ty == 'u128' else '%s::try_from' % ty), 2, 'R9'),
        ],
        ensures=[('exact_or_error_never_wrapped', '''match r {
              Ok(v) => uint_spec(spec_trim(s.spec_bytes()), legacy_octal) == Some(v as int),
              Err(_e) => match uint_spec(spec_trim(s.spec_bytes()), legacy_octal) {
                  None => true, Some(x) => !(0 <= x <= %s) } }''' % hi)],
        canaries=['exact_or_error_never_wrapped'])

ITEMS += [_signed(t) for t in ('i8', 'i16', 'i32', 'i64', 'i128')]
ITEMS += [_unsigned(t) for t in ('u8', 'u16', 'u32', 'u64', 'u128')]


ITEMS += [
    dict(src='src/tags.rs', path='enum SfTag', derive=COPY),
    dict(src='src/base64.rs', path='fn decode_val', props=P,
         ensures=[('base64_alphabet', '''match r {
                Ok(v) => b64_sextet(b) == Some(v),
                Err(e) => b64_sextet(b) is None && e == (Error::InvalidBinaryBase64 { location: Location::UNKNOWN }) }''')],
         canaries=['base64_alphabet']),
    dict(src='src/tags.rs', path='impl SfTag/fn can_parse_into_string', props=['C06'],
         ensures=[('only_untagged_str_or_unknown', 'r == (*self is None || *self is String || *self is Other)')],
         canaries=['only_untagged_str_or_unknown']),
]
# ---- the tag table (C06): a LazyLock<BTreeMap> lookup, outside the verifier's subset; contract assumed in the deductive part (the callers only
# use the resulting kind), bounded-only harness on the real text of the whole file in every run, built with the parser crate (F32)
ITEMS += [
    dict(src='src/tags.rs', path='impl SfTag/fn from_optional_cow', trusted=True, props=[], bounded_props=['C06', 'C01'], bounded_only=True,
         rewrites=[(r'&Option<Cow<Tag>>', "&Option<CowTag<'_>>", 1, 'R6')],
         bounded=dict(harness='bounded/tag_table.rs', items=[('src/tags.rs', '*')], subs=[],
                      cargo_deps={'saphyr-parser': '{ package = "saphyr-parser-bw", version = "0.0.608" }'}),
         ensures=[('C06:a_core_schema_tag_has_its_kind_however_it_is_spelled_and_a_foreign_tag_has_none', 'true')]),
]
# ---- the float front (C06): generic over FromStr + num_traits::Float, so not even its signature is inside the verifier's subset: harness only ----
ITEMS += [
    dict(src='src/parse_scalars.rs', path='fn parse_yaml12_float#2', id='parse_yaml12_float', harness_only=True, bounded_only=True, trusted=True, props=[], bounded_props=['C06', 'C01'],
         bounded=dict(harness='bounded/float_tokens.rs', items=[('src/parse_scalars.rs', 'fn parse_yaml12_float#2')], cargo_deps={'num-traits': '0.2'}),
         ensures=[('C06:the_special_float_tokens_give_the_special_values_with_their_sign_everything_else_is_the_standard_parse_of_the_trimmed_text', 'true')]),
]
