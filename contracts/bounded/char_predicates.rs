// Bounded check of two iterator predicates that are outside the verifier's subset (`chars().any(closure)`):
// src/ser_quoting.rs contains_any_or_is_control and src/ser.rs YamlSerializer::needs_double_quotes (pasted as a free function).
/*{REAL}*/

fn is_cc(c: char) -> bool { (c as u32) <= 0x1F || (0x7F <= (c as u32) && (c as u32) <= 0x9F) }
fn main() {
    std::panic::set_hook(Box::new(|_| {}));
    let alphabet: [char; 12] = ['a', '\'', '\\', '\n', '\t', '\u{7f}', '\u{85}', '\u{9f}', '\u{a0}', '#', ':', 'é'];
    let lists: [&[char]; 5] = [&[], &['#'], &[':', '#'], &[',', '[', ']', '{', '}', '#'], &['é']];
    let max_len = 4usize;
    println!("BOUND all strings over {:?} up to {} characters, x the value lists {:?}", alphabet, max_len, lists);
    let mut checked = 0u64;
    let mut w = [false; 3];
    let mut cur: Vec<String> = vec![String::new()];
    for len in 0..=max_len {
        for s in &cur {
            #[cfg(has_needs_dq)]
            {
                checked += 1;
                let want = s.chars().any(|c| c == '\'' || c == '\\' || is_cc(c));
                match std::panic::catch_unwind(|| needs_double_quotes(s)) {
                    Err(_) => { if !w[0] { w[0] = true; println!("WITNESS label=implicit input={:?} (panic)", s); } }
                    Ok(r) => if r != want && !w[1] { w[1] = true; println!("WITNESS label=C12:single_quoted_style_is_refused_exactly_for_text_with_a_quote_a_backslash_or_a_control_character input={:?} (returned {})", s, r); } }
            }
            #[cfg(has_contains)]
            for l in lists {
                checked += 1;
                // exactly the code's meaning: some character is listed, or (the list is non-empty and) it is a control character
                let want = s.chars().any(|c| l.contains(&c) || (!l.is_empty() && is_cc(c)));
                match std::panic::catch_unwind(|| contains_any_or_is_control(s, l)) {
                    Err(_) => { if !w[0] { w[0] = true; println!("WITNESS label=implicit input={:?} {:?} (panic)", s, l); } }
                    Ok(r) => if r != want && !w[2] { w[2] = true; println!("WITNESS label=C12:some_character_is_listed_or_is_a_control_character input={:?} with {:?} (returned {})", s, l, r); } }
            }
        }
        if len == max_len { break; }
        let mut nx = Vec::with_capacity(cur.len() * alphabet.len());
        for s in &cur { for c in alphabet { let mut t = s.clone(); t.push(c); nx.push(t); } }
        cur = nx;
    }
    println!("CHECKED {}", checked);
    std::process::exit(if w.iter().any(|x| *x) { 1 } else { 0 });
}
