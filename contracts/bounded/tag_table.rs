// Bounded check of the tag table (src/tags.rs, whole file pasted; needs the crate saphyr-parser for `Tag` and to see how the parser
// presents each spelling): a node tagged with the core schema tag tag:yaml.org,2002:X - however it is spelled in the document -
// is given the kind of X, the documented custom tags their kinds, the non-specific tag its own kind, anything else `Other`.
/*{REAL}*/

use saphyr_parser::{Event, Parser};
fn tag_of(doc: &str) -> Option<Option<Tag>> {
    for item in Parser::new_from_str(doc) {
        match item { Ok((Event::Scalar(_, _, _, t), _)) => return Some(t.map(|c| c.into_owned())), Err(_) => return None, _ => {} }
    }
    None
}
fn main() {
    std::panic::set_hook(Box::new(|_| {}));
    let core: [(&str, SfTag); 9] = [("int", SfTag::Int), ("float", SfTag::Float), ("bool", SfTag::Bool), ("null", SfTag::Null), ("seq", SfTag::Seq),
        ("map", SfTag::Map), ("str", SfTag::String), ("timestamp", SfTag::TimeStamp), ("binary", SfTag::Binary)];
    println!("BOUND the 9 core schema tags x 5 spellings (!!x, !x, verbatim URI, declared handle, verbatim local), the custom tags, the non-specific tag, untagged, 6 foreign tags");
    let mut checked = 0u64; let mut bad: Option<String> = None;
    let mut check = |doc: String, want: SfTag| {
        checked += 1;
        let got = match tag_of(&doc) { Some(t) => std::panic::catch_unwind(|| SfTag::from_optional_cow(&t.map(std::borrow::Cow::Owned))).ok(), None => None };
        if got != Some(want) && bad.is_none() { bad = Some(format!("{:?} (kind {:?}, expected {:?})", doc, got, want)); }
    };
    for (name, kind) in core {
        check(format!("!!{name} x"), kind);
        check(format!("!{name} x"), kind);                                   // the crate documents the single-bang shorthand as the same tag
        check(format!("!<tag:yaml.org,2002:{name}> x"), kind);
        check(format!("%TAG !y! tag:yaml.org,2002:\n--- !y!{name} x"), kind);
        check(format!("!<!{name}> x"), kind);
    }
    for (t, kind) in [("!degrees", SfTag::Degrees), ("!radians", SfTag::Radians), ("!time", SfTag::TimeStamp)] { check(format!("{t} x"), kind); }
    check("! x".to_string(), SfTag::NonSpecific);
    check("x".to_string(), SfTag::None);
    for t in ["!foo", "!!foo", "!<tag:example.com,2000:int>", "!<tag:yaml.org,2002:integer>", "!Int", "!<foo>"] { check(format!("{t} x"), SfTag::Other); }
    if let Some(b) = bad { println!("WITNESS label=C06:a_core_schema_tag_has_its_kind_however_it_is_spelled_and_a_foreign_tag_has_none input={}", b); }
    println!("CHECKED {}", checked);
}
