// Bounded stand-in for src/zmij_format.rs (push_float_string / write_float_string), built as a cargo project because the
// file needs the crates zmij and num-traits. The whole file is pasted below (its `use crate::ser;` is mapped to the small
// module here). Oracle, from the statement of C12: the text must read back as the same float bit for bit (Rust's float
// parser stands for the YAML reader; `.nan` / `.inf` / `-.inf` are the YAML spellings of the specials), it must have a
// decimal point in the mantissa, and an exponent, if present, must carry a sign.
mod ser { pub type Result<T> = std::result::Result<T, std::fmt::Error>; }
mod real {
/*{REAL}*/
}

fn grammar_ok(t: &str) -> bool {
    if t == ".nan" || t == ".inf" || t == "-.inf" { return true; }
    let (m, e) = match t.find(|c| c == 'e' || c == 'E') { Some(p) => (&t[..p], Some(&t[p + 1..])), None => (t, None) };
    m.contains('.') && e.map_or(true, |x| x.starts_with('+') || x.starts_with('-'))
}
fn reads_back(t: &str, bits: u64, is32: bool) -> bool {
    let (v, want_nan) = if is32 { let f = f32::from_bits(bits as u32); (f as f64, f.is_nan()) } else { let f = f64::from_bits(bits); (f, f.is_nan()) };
    if t == ".nan" { return want_nan; }
    if t == ".inf" { return v == f64::INFINITY; }
    if t == "-.inf" { return v == f64::NEG_INFINITY; }
    if is32 { t.parse::<f32>().map_or(false, |p| p.to_bits() == bits as u32) } else { t.parse::<f64>().map_or(false, |p| p.to_bits() == bits) }
}

fn main() {
    let mut vals64: Vec<u64> = vec![0.0f64, -0.0, 1.0, -1.0, 30.0, -5.0, 0.5, 0.1, 1e7, 9999999.0, 1e15, 1e16, 1e21, 1e22, 1e-5, 1e-7, 5e-324, f64::MIN_POSITIVE, f64::MAX, f64::MIN,
        f64::INFINITY, f64::NEG_INFINITY, f64::NAN, 123456789.0, 4e-6, 1.5e300, 2.0f64.powi(53), 2.0f64.powi(63), 16777216.0].into_iter().map(f64::to_bits).collect();
    for i in -1000i64..=1000 { vals64.push((i as f64).to_bits()); vals64.push((i as f64 / 8.0).to_bits()); }
    let mut x: u64 = 0x9E3779B97F4A7C15;
    for _ in 0..200000 { x ^= x << 13; x ^= x >> 7; x ^= x << 17; vals64.push(x); }
    let mut vals32: Vec<u32> = vec![0.0f32, -0.0, 1.0, -1.0, 0.1, 1e7, 1e10, f32::MAX, f32::MIN_POSITIVE, 1e-45, f32::INFINITY, f32::NEG_INFINITY, f32::NAN, 16777216.0].into_iter().map(f32::to_bits).collect();
    let mut y: u32 = 0x9E3779B9;
    for _ in 0..200000 { y ^= y << 13; y ^= y >> 17; y ^= y << 5; vals32.push(y); }
    println!("BOUND {} f64 and {} f32 bit patterns: specials, powers, all integers and eighths in [-1000, 1000], xorshift samples; both entry points", vals64.len(), vals32.len());
    let mut checked = 0u64;
    let mut w = [false; 2];
    let lbl = "C12:a_float_is_written_as_nan_inf_or_the_formatter_digits_normalised_to_yaml_float_grammar";
    let lbl2 = "C12:float_text_has_a_decimal_point_in_the_mantissa_and_a_signed_exponent";
    let mut one = |t1: String, t2: String, bits: u64, is32: bool, shown: String| {
        for t in [&t1, &t2] {
            if !reads_back(t, bits, is32) && !w[0] { w[0] = true; println!("WITNESS label={} input={} (bits {:#x}) is written as {:?}, which does not read back as the same float", lbl, shown, bits, t); }
            if !grammar_ok(t) && !w[1] { w[1] = true; println!("WITNESS label={} input={} is written as {:?}", lbl2, shown, t); }
        }
    };
    for b in &vals64 {
        checked += 1;
        let f = f64::from_bits(*b);
        let mut s1 = String::new(); real::push_float_string(&mut s1, f).unwrap();
        let mut s2 = String::new(); real::write_float_string(&mut s2, f).unwrap();
        one(s1, s2, *b, false, format!("{:?}f64", f));
    }
    for b in &vals32 {
        checked += 1;
        let f = f32::from_bits(*b);
        let mut s1 = String::new(); real::push_float_string(&mut s1, f).unwrap();
        let mut s2 = String::new(); real::write_float_string(&mut s2, f).unwrap();
        one(s1, s2, *b as u64, true, format!("{:?}f32", f));
    }
    println!("CHECKED {}", checked);
    std::process::exit(if w.iter().any(|x| *x) { 1 } else { 0 });
}
