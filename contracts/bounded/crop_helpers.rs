// Bounded stand-in for col_to_byte_offset_in_line and line_starts of src/de/snippet.rs (both pasted; std only).
/*{REAL}*/

fn main() {
    std::panic::set_hook(Box::new(|_| {}));
    let alphabet = ['a', ' ', '\n', '\r', '\u{e9}', '\u{20ac}', '\u{1f600}'];
    let max_len = 6usize;
    println!("BOUND all strings over {:?} up to length {}; columns 0..=len+2", alphabet, max_len);
    let mut checked = 0u64;
    let mut w = [false; 3];
    let mut cur: Vec<String> = vec![String::new()];
    for len in 0..=max_len {
        for s in &cur {
            let cs: Vec<(usize, char)> = s.char_indices().collect();
            for col in 0..=cs.len() + 2 {
                checked += 1;
                let want = if col == 0 { None } else if col <= cs.len() { Some(cs[col - 1].0) } else if col == cs.len() + 1 { Some(s.len()) } else { None };
                match std::panic::catch_unwind(|| col_to_byte_offset_in_line(s, col)) {
                    Err(_) => { if !w[0] { w[0] = true; println!("WITNESS label=implicit input={:?} col={} (panics)", s, col); } }
                    Ok(got) => { if got != want && !w[1] { w[1] = true; println!("WITNESS label=C17:column_to_byte_offset_is_exact input={:?} col={} (returned {:?}, contract {:?})", s, col, got, want); } }
                }
            }
            checked += 1;
            let want: Vec<usize> = if s.is_empty() { vec![] } else { std::iter::once(0).chain(s.bytes().enumerate().filter(|(_, b)| *b == b'\n').map(|(i, _)| i + 1)).collect() };
            if line_starts(s) != want && !w[2] { w[2] = true; println!("WITNESS label=C17:line_starts_are_exactly_the_offsets_after_each_newline input={:?} (returned {:?})", s, line_starts(s)); }
        }
        if len == max_len { break; }
        let mut nx = Vec::with_capacity(cur.len() * alphabet.len());
        for s in &cur { for c in alphabet { let mut t = s.clone(); t.push(c); nx.push(t); } }
        cur = nx;
    }
    println!("CHECKED {}", checked);
    std::process::exit(if w.iter().any(|x| *x) { 1 } else { 0 });
}
