// Bounded stand-in for src/de/snippet.rs::is_terminal_snippet_clean and sanitize_terminal_snippet_preserve_len
// (used only for whichever of the two Verus can no longer take).  Clauses as in contracts/snippet.py, executable.
/*{REAL}*/

fn bad_ascii(x: u8) -> bool { (x < 0x20 && x != 0x0a && x != 0x09) || x == 0x7f }
fn c1_at(b: &[u8], i: usize) -> bool { i + 1 < b.len() && b[i] == 0xC2 && (0x80..=0x9F).contains(&b[i + 1]) }
fn term_clean(b: &[u8]) -> bool { b.iter().all(|x| !bad_ascii(*x)) && (0..b.len()).all(|i| !c1_at(b, i)) }

fn main() {
    let alphabet = ['a', ' ', '\n', '\t', '\r', '\0', '\u{1b}', '\u{7f}', '\u{80}', '\u{85}', '\u{9f}', '\u{a0}', '\u{e9}', '\u{202e}', '\u{c2}'];
    let max_len = 4usize;
    println!("BOUND all strings over {:?} up to length {} ({} symbols)", alphabet, max_len, alphabet.len());
    let mut checked = 0u64;
    let mut w = [false; 2];
    let mut cur: Vec<String> = vec![String::new()];
    for len in 0..=max_len {
        for s in &cur {
            checked += 1;
            let b = s.as_bytes();
            #[cfg(has_clean)]
            {
                let r = is_terminal_snippet_clean(s);
                if r != term_clean(b) && !w[0] { w[0] = true; println!("WITNESS label=C17:decides_terminal_safety_exactly input={:?} (returned {}, contract {})", s, r, term_clean(b)); }
            }
            #[cfg(has_sanitize)]
            {
                let out = sanitize_terminal_snippet_preserve_len(s.clone());
                let o = out.as_bytes();
                let ok = o.len() == b.len() && term_clean(o)
                    && (0..o.len()).all(|j| o[j] == b[j] || bad_ascii(b[j]) || (j > 0 && c1_at(b, j - 1)));
                if !ok && !w[1] { w[1] = true; println!("WITNESS label=C17:bytes_are_terminal_safe_same_length_rest_untouched input={:?} (returned {:?})", s, out); }
            }
        }
        if len == max_len { break; }
        let mut nx = Vec::with_capacity(cur.len() * alphabet.len());
        for s in &cur { for c in alphabet { let mut t = s.clone(); t.push(c); nx.push(t); } }
        cur = nx;
    }
    println!("CHECKED {}", checked);
    std::process::exit(if w.iter().any(|x| *x) { 1 } else { 0 });
}
