// Bounded stand-in for the UTF-8 boundary helpers of src/ring_reader.rs: is_utf8_continuation, utf8_expected_len,
// trim_incomplete_utf8_tail, trim_to_utf8_boundaries_with_line (all four pasted; they only use std).
/*{REAL}*/

fn cont(b: u8) -> bool { b & 0xC0 == 0x80 }
fn explen(b: u8) -> Option<usize> { if b <= 0x7F { Some(1) } else if (0xC2..=0xDF).contains(&b) { Some(2) } else if (0xE0..=0xEF).contains(&b) { Some(3) } else if (0xF0..=0xF4).contains(&b) { Some(4) } else { None } }
/// the tail is "settled": empty, or the last lead byte (looking back over at most 3 continuation bytes) is invalid or complete
fn settled(b: &[u8]) -> bool {
    if b.is_empty() { return true; }
    let mut i = b.len(); let mut c = 0;
    while i > 0 && c < 3 && cont(b[i - 1]) { i -= 1; c += 1; }
    if i == 0 { return false; }
    match explen(b[i - 1]) { None => true, Some(n) => b.len() - (i - 1) >= n }
}
fn main() {
    std::panic::set_hook(Box::new(|_| {}));
    let alphabet: [u8; 10] = [b'a', b'\n', 0x80, 0xBF, 0xC2, 0xC3, 0xE2, 0xF0, 0xF5, 0xFF];
    let max_len = 6usize;
    println!("BOUND all byte strings over {:02x?} up to length {}; the two byte classifiers over all 256 bytes", alphabet, max_len);
    let mut checked = 0u64;
    let mut w = [false; 6];
    for b in 0..=255u8 { checked += 1;
        if is_utf8_continuation(b) != cont(b) && !w[0] { w[0] = true; println!("WITNESS label=continuation_bytes_are_10xxxxxx input={:#04x}", b); }
        if utf8_expected_len(b) != explen(b) && !w[1] { w[1] = true; println!("WITNESS label=lead_byte_table input={:#04x} (returned {:?})", b, utf8_expected_len(b)); } }
    let mut cur: Vec<Vec<u8>> = vec![vec![]];
    for len in 0..=max_len {
        for s in &cur {
            checked += 1;
            let r = std::panic::catch_unwind(|| { let mut v = s.clone(); trim_incomplete_utf8_tail(&mut v); v });
            match r { Err(_) => { if !w[2] { w[2] = true; println!("WITNESS label=implicit input={:02x?} (trim_incomplete_utf8_tail panics)", s); } }
                Ok(v) => {
                    if !(v.len() <= s.len() && s[..v.len()] == v[..] && settled(&v)) && !w[3] { w[3] = true; println!("WITNESS label=C17:the_window_no_longer_stops_inside_a_code_point input={:02x?} (left {:02x?})", s, v); }
                    if settled(s) && v != *s && !w[4] { w[4] = true; println!("WITNESS label=C17:only_an_incomplete_last_code_point_is_dropped input={:02x?} (left {:02x?})", s, v); }
                } }
            let r = std::panic::catch_unwind(|| trim_to_utf8_boundaries_with_line(s.clone(), 100, 7));
            if let Ok((off, line, v)) = r {
                let lead = s.iter().take_while(|b| cont(**b)).count();
                let ok = off == 100 + lead as u64 && line == 7 && s[lead..].starts_with(&v) && (v.is_empty() || !cont(v[0])) && settled(&v);
                if !ok && !w[5] { w[5] = true; println!("WITNESS label=C17:leading_continuation_bytes_are_dropped_and_counted input={:02x?} (returned offset {}, line {}, bytes {:02x?})", s, off, line, v); }
            } else if !w[2] { w[2] = true; println!("WITNESS label=implicit input={:02x?} (trim_to_utf8_boundaries_with_line panics)", s); }
        }
        if len == max_len { break; }
        let mut nx = Vec::with_capacity(cur.len() * alphabet.len());
        for s in &cur { for c in alphabet { let mut t = s.clone(); t.push(c); nx.push(t); } }
        cur = nx;
    }
    println!("CHECKED {}", checked);
    std::process::exit(if w.iter().any(|x| *x) { 1 } else { 0 });
}
