// Bounded check of src/parse_scalars.rs parse_yaml12_float (the variant without the robotics feature; pasted), instantiated at f64 and f32:
// the special tokens of the YAML core schema (.nan / .inf with optional sign, any letter case, surrounding blanks) give the special
// values with the right sign; every other token is what the standard float parser makes of the trimmed text, or an error.
// The types the function mentions are stubbed here (only the error KIND and the float matter).
#[derive(Debug, Clone, Copy, PartialEq)] pub struct Location;
#[derive(Debug, Clone, Copy, PartialEq)] pub enum SfTag { None }
#[derive(Debug, PartialEq)] pub enum Error { InvalidScalar { ty: &'static str, location: Location } }
use std::str::FromStr;
/*{REAL}*/

fn want(tok: &str) -> Result<f64, ()> {
    let t = tok.trim();
    let l = t.to_ascii_lowercase();
    if l == ".nan" || l == "+.nan" || l == "-.nan" { return Ok(f64::NAN); }
    if l == ".inf" || l == "+.inf" { return Ok(f64::INFINITY); }
    if l == "-.inf" { return Ok(f64::NEG_INFINITY); }
    t.parse::<f64>().map_err(|_| ())
}
fn same(a: f64, b: f64) -> bool { (a.is_nan() && b.is_nan()) || a.to_bits() == b.to_bits() }
fn main() {
    std::panic::set_hook(Box::new(|_| {}));
    let words = [".nan", ".inf", ".NaN", ".Inf", ".NAN", ".INF", ".nAn", ".iNf", "nan", "inf", ".na", ".in", ".infinity", ".nann", "0", "1.5", "-0.0", "1e3", ".5", "5.", "1_0", "0x10", "", ".", "-", "+", "1e", "--1", "+-.inf", "..inf", "١", "é"];
    let signs = ["", "+", "-"];
    let pads = ["", " ", "\t", "\n"];
    println!("BOUND {} words x 3 signs x 4 leading x 4 trailing blanks, at f64 and f32", words.len());
    let mut checked = 0u64; let mut w = [false; 2];
    for wd in words { for s in signs { for a in pads { for b in pads {
        let tok = format!("{a}{s}{wd}{b}");
        checked += 1;
        let got = std::panic::catch_unwind(|| parse_yaml12_float::<f64>(&tok, Location, SfTag::None, false));
        match got { Err(_) => { if !w[0] { w[0] = true; println!("WITNESS label=implicit input={:?} (panic)", tok); } }
            Ok(g) => { let ok = match (&g, want(&tok)) { (Ok(x), Ok(y)) => same(*x, y), (Err(Error::InvalidScalar { .. }), Err(())) => true, _ => false };
                if !ok && !w[1] { w[1] = true; println!("WITNESS label=C06:the_special_float_tokens_give_the_special_values_with_their_sign_everything_else_is_the_standard_parse_of_the_trimmed_text input={:?} (returned {:?})", tok, g); } } }
        let g32 = std::panic::catch_unwind(|| parse_yaml12_float::<f32>(&tok, Location, SfTag::None, false));
        if let Ok(Ok(x)) = g32 { if let Ok(y) = want(&tok) { let y32 = tok.trim().parse::<f32>().unwrap_or(y as f32);
            if !((x.is_nan() && y.is_nan()) || x.to_bits() == y32.to_bits()) && !w[1] { w[1] = true; println!("WITNESS label=C06:the_special_float_tokens_give_the_special_values_with_their_sign_everything_else_is_the_standard_parse_of_the_trimmed_text input={:?} (f32 returned {:?})", tok, x); } } }
    }}}}
    println!("CHECKED {}", checked);
    std::process::exit(if w.iter().any(|x| *x) { 1 } else { 0 });
}
