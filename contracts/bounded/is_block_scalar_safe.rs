// Bounded stand-in for src/wrapping.rs::is_block_scalar_safe (used only when Verus can no longer take the function).
// The clauses are the ones of the deductive contract in contracts/quoting.py, written executably.
/*{REAL}*/

fn is_cc(c: char) -> bool { (c as u32) <= 0x1F || (0x7F <= (c as u32) && (c as u32) <= 0x9F) }

fn main() {
    let alphabet = ['a', ' ', '\n', '\t', '\r', '\0', '\u{1b}', '\u{85}', '\u{7f}', '\u{e9}'];
    let max_len = 5usize;
    println!("BOUND all strings over {:?} up to length {} ({} symbols)", alphabet, max_len, alphabet.len());
    let mut checked = 0u64;
    let mut w1 = false; let mut w2 = false;
    let mut cur: Vec<String> = vec![String::new()];
    for _len in 0..=max_len {
        for s in &cur {
            checked += 1;
            let r = is_block_scalar_safe(s);
            if r && s.chars().any(|c| c == '\r' || c == '\0') && !w1 {
                w1 = true;
                println!("WITNESS label=C12:text_with_a_carriage_return_or_nul_is_not_block_safe input={:?} (returned true)", s);
            }
            let spec = s.chars().all(|c| !(is_cc(c) && c != '\n' && c != '\t'));
            if r != spec && !w2 {
                w2 = true;
                println!("WITNESS label=exactly_the_control_characters_other_than_line_feed_and_tab_are_refused input={:?} (returned {}, contract {})", s, r, spec);
            }
        }
        if _len == max_len { break; }
        let mut nx = Vec::with_capacity(cur.len() * alphabet.len());
        for s in &cur { for c in alphabet { let mut t = s.clone(); t.push(c); nx.push(t); } }
        cur = nx;
    }
    println!("CHECKED {}", checked);
    std::process::exit(if w1 || w2 { 1 } else { 0 });
}
