// Bounded stand-in for src/de/snippet.rs::crop_line_by_cols (with the real LineCrop and col_to_byte_offset_in_line).
// Clause as in contracts/crop.py, executable; a panic is a failing input of the implicit obligations.
/*{REAL}*/

fn char_off(cs: &[char], k: usize) -> usize { cs[..k].iter().map(|c| c.len_utf8()).sum() }

fn main() {
    std::panic::set_hook(Box::new(|_| {}));
    let alphabet = ['a', ' ', '\t', '\u{e9}', '\u{20ac}', '\u{1f600}', '\u{2026}'];
    let max_len = 5usize;
    println!("BOUND all lines over {:?} up to length {} ({} symbols), 1 <= left <= right <= {}", alphabet, max_len, alphabet.len(), max_len + 3);
    let mut checked = 0u64;
    let mut w = [false; 2];
    let mut cur: Vec<String> = vec![String::new()];
    for len in 0..=max_len {
        for s in &cur {
            let cs: Vec<char> = s.chars().collect();
            let n = cs.len();
            for left in 1..=max_len + 3 { for right in left..=max_len + 3 {
                checked += 1;
                let r = std::panic::catch_unwind(|| { let (o, c) = crop_line_by_cols(s, left, right); (o, c.start_byte, c.prefix_bytes) });
                match r {
                    Err(_) => { if !w[0] { w[0] = true; println!("WITNESS label=implicit input={:?} left={} right={} (the function panics)", s, left, right); } }
                    Ok((o, sb, pb)) => {
                        let ok = if n == 0 { o.is_empty() && sb == 0 && pb == 0 }
                            else if left >= n + 1 || (left <= 1 && right >= n) { o == *s && sb == 0 && pb == 0 }
                            else {
                                let e = if right + 1 < n + 1 { right + 1 } else { n + 1 };
                                let mut want = String::new();
                                if left > 1 { want.push('\u{2026}'); }
                                want.extend(cs[left - 1..e - 1].iter());
                                if e <= n { want.push('\u{2026}'); }
                                o == want && sb == char_off(&cs, left - 1) && pb == (if left > 1 { 3 } else { 0 })
                            };
                        if !ok && !w[1] { w[1] = true; println!("WITNESS label=C17:line_is_cropped_to_exactly_the_column_window_with_ellipses input={:?} left={} right={} (returned ({:?}, start_byte {}, prefix_bytes {}))", s, left, right, o, sb, pb); }
                    }
                }
            } }
        }
        if len == max_len { break; }
        let mut nx = Vec::with_capacity(cur.len() * alphabet.len());
        for s in &cur { for c in alphabet { let mut t = s.clone(); t.push(c); nx.push(t); } }
        cur = nx;
    }
    println!("CHECKED {}", checked);
    std::process::exit(if w.iter().any(|x| *x) { 1 } else { 0 });
}
