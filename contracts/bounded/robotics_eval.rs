// Bounded stand-in for the expression evaluator of src/robotics.rs (whole file pasted; `use crate::...` mapped to the
// small module below). The inputs are GENERATED from expression trees, so the expected value is known without parsing:
// standard precedence, left associativity, unary minus, the constants pi / tau, deg(x) = x * (PI / 180), rad(x) = x (names in
// any letter case), evaluated in f64 in the order the tree gives. Only the sublanguage whose meaning the documentation
// fixes without doubt is generated: small integer literals, no sexagesimal fields, no exponents, no digit separators, tag
// None or Radians (no tag-driven conversion, no mixed-unit rule).  Results are compared bit for bit (NaN with NaN).
mod shim {
    #[derive(Clone, Copy, Debug, PartialEq)] pub struct Location;
    impl Location { pub const UNKNOWN: Location = Location; }
    #[derive(Clone, Copy, Debug, PartialEq)] pub enum SfTag { None, Degrees, Radians, TimeStamp, Float }
    #[derive(Debug)] pub enum Error { HookError { msg: String, location: Location } }
}
mod real {
/*{REAL}*/
}
use shim::{Location, SfTag};

#[derive(Clone)]
enum T { Num(u32), Pi, Tau, Neg(Box<T>), Bin(Box<T>, char, Box<T>), Deg(Box<T>, &'static str), Rad(Box<T>, &'static str) }
fn prec(t: &T) -> u8 { match t { T::Bin(_, '+', _) | T::Bin(_, '-', _) => 1, T::Bin(..) => 2, T::Neg(_) => 3, _ => 4 } }
fn eval(t: &T) -> f64 {
    match t {
        T::Num(n) => *n as f64, T::Pi => core::f64::consts::PI, T::Tau => 2.0 * core::f64::consts::PI,
        T::Neg(a) => -eval(a),
        T::Bin(a, o, b) => { let (x, y) = (eval(a), eval(b)); match o { '+' => x + y, '-' => x - y, '*' => x * y, _ => x / y } }
        T::Deg(a, _) => eval(a) * (core::f64::consts::PI / 180.0), T::Rad(a, _) => eval(a),
    }
}
fn show(t: &T, sp: bool) -> String {
    let s = if sp { " " } else { "" };
    match t {
        T::Num(n) => n.to_string(), T::Pi => "pi".into(), T::Tau => "tau".into(),
        T::Neg(a) => format!("-{}", if prec(a) < 3 || matches!(**a, T::Neg(_)) { format!("({})", show(a, sp)) } else { show(a, sp) }),
        T::Bin(a, o, b) => {
            let p = prec(t);
            let l = if prec(a) < p { format!("({})", show(a, sp)) } else { show(a, sp) };
            // right operand: parenthesise when it binds no tighter (left associativity), and a leading unary minus always
            let r = if prec(b) <= p || matches!(**b, T::Neg(_)) { format!("({})", show(b, sp)) } else { show(b, sp) };
            format!("{l}{s}{o}{s}{r}")
        }
        T::Deg(a, name) | T::Rad(a, name) => format!("{}({}{}{})", name, s, show(a, sp), s),
    }
}
fn unitless(t: &T) -> bool { match t { T::Deg(..) | T::Rad(..) => false, T::Neg(a) => unitless(a), T::Bin(a, _, b) => unitless(a) && unitless(b), _ => true } }

fn main() {
    std::panic::set_hook(Box::new(|_| {}));
    let atoms = vec![T::Num(1), T::Num(2), T::Num(3), T::Num(8), T::Num(180), T::Pi, T::Tau];
    let mut level: Vec<T> = atoms.clone();
    let mut all: Vec<T> = atoms.clone();
    for _depth in 0..2 {
        let mut next: Vec<T> = Vec::new();
        let pool: Vec<T> = all.iter().cloned().filter(|t| matches!(t, T::Num(1) | T::Num(2) | T::Num(8) | T::Pi) || !matches!(t, T::Num(_) | T::Tau)).take(60).collect();
        for a in &level { next.push(T::Neg(Box::new(a.clone())));
            if unitless(a) { for n in ["deg", "Deg", "DEG"] { next.push(T::Deg(Box::new(a.clone()), n)); } for n in ["rad", "RAD"] { next.push(T::Rad(Box::new(a.clone()), n)); } }
            for b in &pool { for o in ['+', '-', '*', '/'] { next.push(T::Bin(Box::new(a.clone()), o, Box::new(b.clone()))); next.push(T::Bin(Box::new(b.clone()), o, Box::new(a.clone()))); } } }
        all.extend(next.iter().cloned());
        level = next.into_iter().take(400).collect();
    }
    println!("BOUND {} generated expression trees (depth <= 3 over 1 2 3 8 180 pi tau, + - * /, unary minus, deg/rad in several letter cases), each with and without blanks, tags None and Radians", all.len());
    let mut checked = 0u64;
    let mut w = false;
    for t in &all { for sp in [false, true] { for tag in [SfTag::None, SfTag::Radians] {
        checked += 1;
        let text = show(t, sp);
        let want = eval(t);
        let got = std::panic::catch_unwind(|| real::parse_yaml12_float_angle_converting::<f64>(&text, Location::UNKNOWN, tag));
        let ok = match &got { Ok(Ok(v)) => v.to_bits() == want.to_bits() || (v.is_nan() && want.is_nan()), _ => false };
        if !ok && !w { w = true; println!("WITNESS label=LABEL_OF_THE_ISOLATED_FUNCTION input={:?} tag={:?} (evaluates to {:?}, the expression denotes {:?})", text, tag, got.map(|r| r.map_err(|e| format!("{e:?}"))).map_err(|_| "panic"), want); }
    } } }
    println!("CHECKED {}", checked);
    std::process::exit(if w { 1 } else { 0 });
}
