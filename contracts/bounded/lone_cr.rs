// Bounded stand-in for the lone-CR helpers of src/de/snippet.rs: has_lone_cr, lone_cr_to_lf (both pasted; they only use std).
/*{REAL}*/

/// independent definition: byte i is a CR that is not followed by LF
fn lone_at(b: &[u8], i: usize) -> bool { b[i] == b'\r' && !(i + 1 < b.len() && b[i + 1] == b'\n') }
fn main() {
    std::panic::set_hook(Box::new(|_| {}));
    let alphabet: [&str; 5] = ["a", "\r", "\n", "é", " "];
    let max_len = 8usize;
    println!("BOUND all strings over {:?} up to {} characters", alphabet, max_len);
    let mut checked = 0u64;
    let mut w = [false; 3];
    let mut cur: Vec<String> = vec![String::new()];
    for len in 0..=max_len {
        for s in &cur {
            checked += 1;
            let b = s.as_bytes();
            let want_has = (0..b.len()).any(|i| lone_at(b, i));
            let want: Vec<u8> = (0..b.len()).map(|i| if lone_at(b, i) { b'\n' } else { b[i] }).collect();
            match std::panic::catch_unwind(|| (has_lone_cr(s), lone_cr_to_lf(s))) {
                Err(_) => { if !w[0] { w[0] = true; println!("WITNESS label=implicit input={:?} (panic)", s); } }
                Ok((h, t)) => {
                    if h != want_has && !w[1] { w[1] = true; println!("WITNESS label=C17:a_lone_carriage_return_is_recognised_exactly input={:?} (returned {})", s, h); }
                    if t.as_bytes() != &want[..] && !w[2] { w[2] = true; println!("WITNESS label=C17:exactly_the_lone_carriage_returns_become_line_feeds_and_every_other_byte_stays input={:?} (returned {:?})", s, t); }
                } }
        }
        if len == max_len { break; }
        let mut nx = Vec::with_capacity(cur.len() * alphabet.len());
        for s in &cur { for c in alphabet { let mut t = s.clone(); t.push_str(c); nx.push(t); } }
        cur = nx;
    }
    println!("CHECKED {}", checked);
    std::process::exit(if w.iter().any(|x| *x) { 1 } else { 0 });
}
