// Bounded stand-in for src/base64.rs (whole file pasted; `use crate::...` mapped to the module below).
// Oracle: the strict canonical RFC 4648 decoder of contracts/base64.spec.rs, executable: ASCII white space ignored, length a
// multiple of 4, padding only in the last quantum, unused bits zero.
mod shim {
    #[derive(Clone, Copy, Debug, PartialEq)] pub struct Location;
    impl Location { pub const UNKNOWN: Location = Location; }
    #[derive(Debug, PartialEq)] pub enum Error { InvalidBinaryBase64 { location: Location } }
}
mod real {
/*{REAL}*/
}
fn val(b: u8) -> Option<u32> { match b { b'A'..=b'Z' => Some((b - b'A') as u32), b'a'..=b'z' => Some((b - b'a' + 26) as u32), b'0'..=b'9' => Some((b - b'0' + 52) as u32), b'+' => Some(62), b'/' => Some(63), _ => None } }
fn oracle(s: &[u8]) -> Option<Vec<u8>> {
    let c: Vec<u8> = s.iter().copied().filter(|b| !matches!(b, b' ' | b'\t' | b'\n' | b'\r' | 0x0c)).collect();
    if c.len() % 4 != 0 { return None; }
    let mut out = Vec::new();
    let n = c.len() / 4;
    for (i, q) in c.chunks(4).enumerate() {
        let last = i + 1 == n;
        let pad = if q[3] == b'=' { if q[2] == b'=' { 2 } else { 1 } } else { 0 };
        if pad > 0 && !last { return None; }
        let a = val(q[0])?; let b = val(q[1])?;
        match pad {
            0 => { let c2 = val(q[2])?; let d = val(q[3])?; let w = (a << 18) | (b << 12) | (c2 << 6) | d; out.extend_from_slice(&[(w >> 16) as u8, (w >> 8) as u8, w as u8]); }
            1 => { let c2 = val(q[2])?; if c2 & 3 != 0 { return None; } let w = (a << 18) | (b << 12) | (c2 << 6); out.extend_from_slice(&[(w >> 16) as u8, (w >> 8) as u8]); }
            _ => { if b & 15 != 0 { return None; } out.push(((a << 2) | (b >> 4)) as u8); }
        }
    }
    Some(out)
}
fn main() {
    std::panic::set_hook(Box::new(|_| {}));
    let alphabet = ['A', 'Q', 'g', 'w', '/', '+', '=', ' ', '\n', '\u{b}', '\u{a0}', '\u{e9}'];   // VT and NBSP: white space for Unicode, not for YAML / ASCII
    let max_len = 6usize;
    println!("BOUND all strings over {:?} up to length {}, plus the canonical encodings of all byte strings of length <= 2 and samples of length 3..8, each also with one character altered", alphabet, max_len);
    let mut all: Vec<String> = vec![];
    let mut cur: Vec<String> = vec![String::new()];
    for len in 0..=max_len { all.extend(cur.iter().cloned()); if len == max_len { break; }
        let mut nx = Vec::with_capacity(cur.len() * alphabet.len()); for s in &cur { for c in alphabet { let mut t = s.clone(); t.push(c); nx.push(t); } } cur = nx; }
    let tbl = b"ABCDEFGHIJKLMNOPQRSTUVWXYZabcdefghijklmnopqrstuvwxyz0123456789+/";
    let enc = |d: &[u8]| { let mut o = String::new(); for ch in d.chunks(3) { let w = (ch[0] as u32) << 16 | (*ch.get(1).unwrap_or(&0) as u32) << 8 | *ch.get(2).unwrap_or(&0) as u32;
        o.push(tbl[(w >> 18) as usize & 63] as char); o.push(tbl[(w >> 12) as usize & 63] as char);
        if ch.len() > 1 { o.push(tbl[(w >> 6) as usize & 63] as char) } else { o.push('=') }
        if ch.len() > 2 { o.push(tbl[w as usize & 63] as char) } else { o.push('=') } } o };
    let mut data: Vec<Vec<u8>> = vec![vec![]];
    for a in 0..=255u8 { data.push(vec![a]); }
    for a in (0..=255u8).step_by(5) { for b in (0..=255u8).step_by(7) { data.push(vec![a, b]); } }
    let mut x: u64 = 0x9E3779B97F4A7C15;
    for _ in 0..3000 { x ^= x << 13; x ^= x >> 7; x ^= x << 17; let n = 3 + (x % 6) as usize; data.push((0..n).map(|k| (x >> (8 * (k % 8))) as u8).collect()); }
    for d in &data { let e = enc(d); all.push(e.clone()); let mut b = e.clone().into_bytes(); if !b.is_empty() { let k = d.len() % b.len(); b[k] = b'='; all.push(String::from_utf8_lossy(&b).into_owned()); let mut b2 = e.into_bytes(); let l = b2.len(); b2[l - 1] = b'B'; all.push(String::from_utf8_lossy(&b2).into_owned()); } }
    let mut checked = 0u64;
    let mut w = [false; 2];
    for s in &all {
        checked += 1;
        match std::panic::catch_unwind(|| real::decode_base64_yaml(s)) {
            Err(_) => { if !w[0] { w[0] = true; println!("WITNESS label=implicit input={:?} (decode_base64_yaml panics)", s); } }
            Ok(r) => { let got = r.ok(); let want = oracle(s.as_bytes()); if got != want && !w[1] { w[1] = true; println!("WITNESS label=C06:binary_payload_is_exactly_the_strict_canonical_base64_decoding input={:?} (returned {:?}, contract {:?})", s, got, want); } }
        }
    }
    println!("CHECKED {}", checked);
    std::process::exit(if w.iter().any(|x| *x) { 1 } else { 0 });
}
