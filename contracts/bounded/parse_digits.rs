// Bounded stand-in for src/parse_scalars.rs::parse_digits_u128 (and parse_decimal_unsigned_u128 when present in the paste).
// Clause `exact_value_or_none`, executable: digits of the radix with `_` separators, at least one digit, value as an
// exact integer or None on overflow / a foreign character.
/*{REAL}*/

fn oracle(s: &[u8], radix: u32) -> Option<u128> {
    let mut val: Option<u128> = Some(0); // None = overflow
    let mut saw = false;
    for b in s {
        let d = match *b {
            b'_' => continue,
            b'0'..=b'9' => (*b - b'0') as u32,
            b'a'..=b'f' if radix > 10 => 10 + (*b - b'a') as u32,
            b'A'..=b'F' if radix > 10 => 10 + (*b - b'A') as u32,
            _ => return None,
        };
        if d >= radix { return None; }
        val = val.and_then(|v| v.checked_mul(radix as u128)).and_then(|v| v.checked_add(d as u128));
        saw = true;
    }
    if saw { val } else { None }
}

fn main() {
    std::panic::set_hook(Box::new(|_| {}));
    let alphabet = ['0', '1', '7', '9', 'a', 'f', 'F', 'g', '_', '-', '\u{e9}'];
    let max_len = 5usize;
    let radices = [2u32, 8, 10, 16];
    println!("BOUND all strings over {:?} up to length {} for radix 2, 8, 10, 16, plus boundary values around u128::MAX in each radix", alphabet, max_len);
    let mut all: Vec<String> = vec![];
    let mut cur: Vec<String> = vec![String::new()];
    for len in 0..=max_len {
        all.extend(cur.iter().cloned());
        if len == max_len { break; }
        let mut nx = Vec::with_capacity(cur.len() * alphabet.len());
        for s in &cur { for c in alphabet { let mut t = s.clone(); t.push(c); nx.push(t); } }
        cur = nx;
    }
    for x in [u128::MAX, u128::MAX - 1, u128::MAX / 2, 1u128 << 64, (1u128 << 64) - 1] {
        all.push(format!("{:b}", x)); all.push(format!("{:o}", x)); all.push(format!("{}", x)); all.push(format!("{:x}", x)); all.push(format!("{:X}", x));
        all.push(format!("{:x}0", x)); all.push(format!("{}0", x)); all.push(format!("1{:b}", x)); all.push(format!("_{:x}_", x));
    }
    let mut checked = 0u64;
    let mut w = [false; 2];
    for s in &all { for r in radices {
        checked += 1;
        match std::panic::catch_unwind(|| parse_digits_u128(s, r)) {
            Err(_) => { if !w[0] { w[0] = true; println!("WITNESS label=implicit input={:?} radix={} (the function panics)", s, r); } }
            Ok(got) => { let want = oracle(s.as_bytes(), r); if got != want && !w[1] { w[1] = true; println!("WITNESS label=exact_value_or_none input={:?} radix={} (returned {:?}, contract {:?})", s, r, got, want); } }
        }
    } }
    println!("CHECKED {}", checked);
    std::process::exit(if w.iter().any(|x| *x) { 1 } else { 0 });
}
