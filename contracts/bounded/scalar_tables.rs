// Bounded stand-in for the scalar tables of src/parse_scalars.rs: scalar_is_nullish, scalar_is_nullish_for_option,
// parse_yaml11_bool, leading_zero_decimal (used only for whichever of them Verus can no longer take).
// Clauses as in contracts/typed.py, executable; `spec_trim` is std `str::trim`.
#[derive(Clone, Copy, PartialEq, Debug)]
enum ScalarStyle { Plain, SingleQuoted, DoubleQuoted, Literal, Folded }
/*{REAL}*/

fn eq_ci(a: &[u8], b: &[u8]) -> bool { a.len() == b.len() && a.iter().zip(b).all(|(x, y)| x.to_ascii_lowercase() == y.to_ascii_lowercase()) }
fn null_text(b: &[u8]) -> bool { b.is_empty() || b == b"~" || eq_ci(b, b"null") }
fn yaml11(b: &[u8]) -> Option<bool> {
    if eq_ci(b, b"true") || eq_ci(b, b"yes") || eq_ci(b, b"y") || eq_ci(b, b"on") { Some(true) }
    else if eq_ci(b, b"false") || eq_ci(b, b"no") || eq_ci(b, b"n") || eq_ci(b, b"off") { Some(false) } else { None }
}
fn leading_zero(tb: &[u8]) -> bool {
    let d = if !tb.is_empty() && (tb[0] == b'+' || tb[0] == b'-') { &tb[1..] } else { tb };
    d.len() >= 2 && d[0] == b'0' && !matches!(d[1], b'x' | b'X' | b'o' | b'O' | b'b' | b'B')
}

fn main() {
    let alphabet = ['n', 'N', 'u', 'l', 'L', '~', 'y', 'Y', 'e', 's', 'o', 'O', 'f', 'F', 't', 'r', 'a', ' ', '0', '1', 'x', 'b', '+', '-', '\u{e9}'];
    let max_len = 4usize;
    let words = ["null", "Null", "NULL", "nUlL", "true", "True", "TRUE", "false", "FALSE", "yes", "Yes", "YES", "no", "NO", "on", "ON", "off", "OFF", "Off",
                 " true ", "\ttrue\n", "truee", "0127", "+0127", "-0127", "0x1f", "0o17", "0b11", "0", "+0", "-0", "00", " 012 ", "0X1F", "0O7", "0B1", "01", "0a"];
    println!("BOUND all strings over {:?} up to length {} plus {} listed words, all 5 scalar styles", alphabet, max_len, words.len());
    let styles = [ScalarStyle::Plain, ScalarStyle::SingleQuoted, ScalarStyle::DoubleQuoted, ScalarStyle::Literal, ScalarStyle::Folded];
    let mut checked = 0u64;
    let mut w = [false; 6];
    let mut all: Vec<String> = words.iter().map(|s| s.to_string()).collect();
    let mut cur: Vec<String> = vec![String::new()];
    for len in 0..=max_len {
        all.extend(cur.iter().cloned());
        if len == max_len { break; }
        let mut nx = Vec::with_capacity(cur.len() * alphabet.len());
        for s in &cur { for c in alphabet { let mut t = s.clone(); t.push(c); nx.push(t); } }
        cur = nx;
    }
    for s in &all {
        checked += 1;
        let b = s.as_bytes();
        let tb = s.trim().as_bytes();
        #[cfg(has_nullish)]
        for st in &styles {
            let r = scalar_is_nullish(s, st);
            if r != (*st == ScalarStyle::Plain && null_text(b)) && !w[0] { w[0] = true; println!("WITNESS label=C06:null_like_is_exactly_plain_empty_tilde_or_null input={:?} style {:?} (returned {})", s, st, r); }
            if (*st == ScalarStyle::SingleQuoted || *st == ScalarStyle::DoubleQuoted) && r && !w[1] { w[1] = true; println!("WITNESS label=C06:quoted_scalars_are_never_null_like input={:?} style {:?}", s, st); }
        }
        #[cfg(has_nullish_opt)]
        for st in &styles {
            let r = scalar_is_nullish_for_option(s, st);
            let q = *st == ScalarStyle::SingleQuoted || *st == ScalarStyle::DoubleQuoted;
            if r != ((b.is_empty() && !q) || (*st == ScalarStyle::Plain && null_text(b))) && !w[2] { w[2] = true; println!("WITNESS label=C06:none_is_exactly_unquoted_empty_or_plain_tilde_or_null input={:?} style {:?} (returned {})", s, st, r); }
            if q && r && !w[3] { w[3] = true; println!("WITNESS label=C06:quoted_scalars_are_never_none input={:?} style {:?}", s, st); }
        }
        #[cfg(has_bool)]
        {
            let r = parse_yaml11_bool(s);
            let ok = match &r { Ok(v) => yaml11(tb) == Some(*v), Err(_) => yaml11(tb).is_none() };
            if !ok && !w[4] { w[4] = true; println!("WITNESS label=C06:yaml11_boolean_table input={:?} (returned {:?})", s, r); }
        }
        #[cfg(has_lzd)]
        {
            let r = leading_zero_decimal(s);
            if r != leading_zero(tb) && !w[5] { w[5] = true; println!("WITNESS label=C06:redundant_leading_zero_is_a_zero_followed_by_anything_but_a_radix_letter input={:?} (returned {})", s, r); }
        }
    }
    println!("CHECKED {}", checked);
    std::process::exit(if w.iter().any(|x| *x) { 1 } else { 0 });
}
