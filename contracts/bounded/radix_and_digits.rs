// Bounded stand-in for src/parse_scalars.rs::radix_and_digits. A panic of the real function is a failing input for the
// implicit (no-panic / in-bounds) obligations; the prefix table is compared with its executable copy.
/*{REAL}*/

fn has2(b: &[u8], x: u8, y: u8) -> bool { b.len() >= 2 && b[0] == x && b[1] == y }
fn spec(legacy_octal: bool, rest: &[u8]) -> (u32, Vec<u8>) {
    if has2(rest, b'0', b'x') || has2(rest, b'0', b'X') { (16, rest[2..].to_vec()) }
    else if has2(rest, b'0', b'o') || has2(rest, b'0', b'O') { (8, rest[2..].to_vec()) }
    else if has2(rest, b'0', b'b') || has2(rest, b'0', b'B') { (2, rest[2..].to_vec()) }
    else if legacy_octal && has2(rest, b'0', b'0') { if rest.len() == 2 { (8, b"0".to_vec()) } else { (8, rest[2..].to_vec()) } }
    else { (10, rest.to_vec()) }
}

fn main() {
    std::panic::set_hook(Box::new(|_| {}));
    let alphabet = ['0', '1', '7', 'x', 'X', 'o', 'O', 'b', 'B', 'f', '_', '\u{e9}', '\u{20ac}', '\u{1f600}'];
    let max_len = 4usize;
    println!("BOUND all strings over {:?} up to length {} ({} symbols), both settings of legacy_octal", alphabet, max_len, alphabet.len());
    let mut checked = 0u64;
    let mut w = [false; 3];
    let mut cur: Vec<String> = vec![String::new()];
    for len in 0..=max_len {
        for s in &cur { for lo in [false, true] {
            checked += 1;
            let r = std::panic::catch_unwind(|| { let (a, d) = radix_and_digits(lo, s); (a, d.as_bytes().to_vec()) });
            match r {
                Err(_) => { if !w[0] { w[0] = true; println!("WITNESS label=implicit input={:?} legacy_octal={} (the function panics)", s, lo); } }
                Ok((a, d)) => {
                    let (sa, sd) = spec(lo, s.as_bytes());
                    if (a != sa || d != sd) && !w[1] { w[1] = true; println!("WITNESS label=prefix_table input={:?} legacy_octal={} (returned ({}, {:?}), contract ({}, {:?}))", s, lo, a, String::from_utf8_lossy(&d), sa, String::from_utf8_lossy(&sd)); }
                    if !matches!(a, 2 | 8 | 10 | 16) && !w[2] { w[2] = true; println!("WITNESS label=radix_is_2_8_10_16 input={:?} (radix {})", s, a); }
                }
            }
        } }
        if len == max_len { break; }
        let mut nx = Vec::with_capacity(cur.len() * alphabet.len());
        for s in &cur { for c in alphabet { let mut t = s.clone(); t.push(c); nx.push(t); } }
        cur = nx;
    }
    println!("CHECKED {}", checked);
    std::process::exit(if w.iter().any(|x| *x) { 1 } else { 0 });
}
