// Bounded check of src/de/snippet.rs crop_window_text (pasted with LineCrop, crop_line_by_cols, col_to_byte_offset_in_line,
// is_terminal_snippet_clean, sanitize_terminal_snippet_preserve_len), against the statement of C17: every line of the window is
// shown cropped to the configured radius around the error column (an ellipsis on each clipped side), line ends are LF, and the
// marker still starts at the character of the reported column.
/*{REAL}*/

fn crop_cols(l: &[char], left: usize, right: usize) -> (String, usize /*prefix bytes*/, usize /*first kept char index*/) {
    let n = l.len();
    if n == 0 { return (String::new(), 0, 0); }
    if left >= n + 1 || (left <= 1 && right >= n) { return (l.iter().collect(), 0, 0); }
    let e = if right + 1 < n + 1 { right + 1 } else { n + 1 };
    let mut out = String::new();
    if left > 1 { out.push('\u{2026}'); }
    out.extend(l[left - 1..e - 1].iter());
    if e <= n { out.push('\u{2026}'); }
    (out, if left > 1 { 3 } else { 0 }, left - 1)
}
fn main() {
    std::panic::set_hook(Box::new(|_| {}));
    let alphabet = ['a', 'b', '\u{e9}', '\u{20ac}'];
    let max_line = 5usize;
    let mut lines: Vec<Vec<char>> = vec![vec![]];
    let mut cur: Vec<Vec<char>> = vec![vec![]];
    for _ in 0..max_line { let mut nx = vec![]; for s in &cur { for c in alphabet { let mut t = s.clone(); t.push(c); nx.push(t); } } lines.extend(nx.iter().cloned()); cur = nx; }
    // a sample of the lines keeps the product small: every line up to 3 chars, then every 7th
    let lines: Vec<Vec<char>> = lines.into_iter().enumerate().filter(|(i, l)| l.len() <= 3 || i % 7 == 0).map(|(_, l)| l).collect();
    println!("BOUND windows of 1 or 2 lines (error line: {} sampled lines over {:?} up to {} chars; the other line from 4 fixed lines), line ends LF / CR LF, with and without a final line end, every column 1..=len+1, radius 0..=3", lines.len(), alphabet, max_line);
    let others: [&str; 4] = ["", "a", "ab\u{e9}ba", "\u{20ac}\u{20ac}\u{20ac}\u{20ac}\u{20ac}\u{20ac}\u{20ac}"];
    let mut checked = 0u64; let mut w = [false; 3];
    for el in &lines { for other in others { for layout in 0..3 { for brk in ["\n", "\r\n"] { for trailing in [false, true] {
        // layout 0: only the error line; 1: other line first; 2: error line first
        let rows: Vec<Vec<char>> = match layout { 0 => vec![el.clone()], 1 => vec![other.chars().collect(), el.clone()], _ => vec![el.clone(), other.chars().collect()] };
        let erow_idx = if layout == 1 { 1 } else { 0 };
        let mut text = String::new(); let mut starts = vec![];
        for (i, r) in rows.iter().enumerate() { starts.push(text.len()); text.extend(r.iter()); if i + 1 < rows.len() || trailing { text.push_str(brk); } }
        for col in 1..=el.len() + 1 { for radius in 0..=3usize {
            let ls = starts[erow_idx] + el[..col - 1].iter().map(|c| c.len_utf8()).sum::<usize>();
            let le = if col - 1 < el.len() { ls + el[col - 1].len_utf8() } else { ls };
            checked += 1;
            let t2 = text.clone();
            let got = std::panic::catch_unwind(move || crop_window_text(&t2, 10, 10 + erow_idx, col, radius, ls, le));
            let (out, ns, ne) = match got { Ok(x) => x, Err(_) => { if !w[0] { w[0] = true; println!("WITNESS label=implicit input={:?} col={} radius={} (panic)", text, col, radius); } continue; } };
            // expected text and marker
            let left = if col > radius { std::cmp::max(col - radius, 1) } else { 1 }; let right = col + radius;
            let mut want = String::new(); let mut want_start = 0usize;
            for (i, r) in rows.iter().enumerate() {
                let (shown, prefix, first) = if radius == 0 { (r.iter().collect::<String>(), 0, 0) } else { crop_cols(r, left, right) };
                if i == erow_idx { want_start = want.len() + prefix + r[first..col - 1].iter().map(|c| c.len_utf8()).sum::<usize>(); }
                want.push_str(&shown);
                if i + 1 < rows.len() || trailing { want.push('\n'); }
            }
            if out != want && !w[1] { w[1] = true; println!("WITNESS label=C17:every_line_of_the_window_is_shown_cropped_to_the_radius_around_the_error_column input={:?} row={} col={} radius={} (returned {:?}, expected {:?})", text, erow_idx, col, radius, out, want); }
            if out == want && (ns != want_start || ne < ns || ne > out.len()) && !w[2] { w[2] = true; println!("WITNESS label=C17:the_marker_still_starts_at_the_character_of_the_reported_column input={:?} row={} col={} radius={} (marker at {}..{}, expected start {})", text, erow_idx, col, radius, ns, ne, want_start); }
        }}
    }}}}}
    println!("CHECKED {}", checked);
    std::process::exit(if w.iter().any(|x| *x) { 1 } else { 0 });
}
