// Bounded stand-in for src/wrapping.rs (whole file pasted): first_line_leading_spaces and write_folded_block.
// write_folded_block is judged by what a YAML reader makes of the lines it writes (YAML 1.2, 8.1.3 folded style): a
// single line break between two lines that both start with a non-blank is a space; a line that starts with a space or
// a tab is "more-indented" and keeps the breaks around it. Only ONE-LINE inputs are generated (text with inner line
// breaks under the explicit folded wrapper is the recorded known finding F19), so the reader must get the input back.
mod ser { pub type Result<T> = std::result::Result<T, std::fmt::Error>; }
mod real {
/*{REAL}*/
}

fn fold_read(body: &str, indent: usize) -> Option<String> {
    // lines of the block scalar body, de-indented; the final line break is dropped (clip + the caller's comparison)
    let mut lines: Vec<&str> = Vec::new();
    for l in body.strip_suffix('\n')?.split('\n') {
        if l.len() < indent || !l[..indent].bytes().all(|b| b == b' ') { return None; }
        lines.push(&l[indent..]);
    }
    let mut out = String::new();
    for (i, l) in lines.iter().enumerate() {
        if i > 0 {
            let prev = lines[i - 1];
            let more = |x: &str| x.starts_with(' ') || x.starts_with('\t');
            if prev.is_empty() || l.is_empty() || more(prev) || more(l) { out.push('\n'); } else { out.push(' '); }
        }
        out.push_str(l);
    }
    Some(out)
}

fn main() {
    std::panic::set_hook(Box::new(|_| {}));
    let alphabet = ['a', 'b', ' ', '\t', '-', '\u{e9}'];
    let max_len = 7usize;
    println!("BOUND all one-line strings over {:?} up to length {} that do not start with a blank and do not end in one, wrap column 1..4, indent 0..2; first_line_leading_spaces on all strings over the alphabet plus line feed up to length 5", alphabet, max_len);
    let mut checked = 0u64;
    let mut w = [false; 3];
    let mut cur: Vec<String> = vec![String::new()];
    for len in 0..=max_len {
        for s in &cur {
            if s.is_empty() || s.starts_with([' ', '\t']) || s.ends_with([' ', '\t']) { continue; }
            for wrap in 1usize..=4 { for indent in 0usize..=2 {
                checked += 1;
                let r = std::panic::catch_unwind(|| { let mut out = String::new(); real::write_folded_block(&mut out, s, indent, 2, wrap).map(|_| out) });
                match r {
                    Err(_) => { if !w[0] { w[0] = true; println!("WITNESS label=implicit input={:?} wrap={} (write_folded_block panics)", s, wrap); } }
                    Ok(Err(_)) => {}
                    Ok(Ok(out)) => {
                        let back = fold_read(&out, 2 * indent);
                        if back.as_deref() != Some(s.as_str()) && !w[1] { w[1] = true; println!("WITNESS label=C20:the_pieces_joined_by_single_spaces_are_the_original_line input={:?} wrap={} indent={} (written {:?}, which a YAML reader folds to {:?})", s, wrap, indent, out, back); }
                    }
                }
            } }
        }
        if len == max_len { break; }
        let mut nx = Vec::with_capacity(cur.len() * alphabet.len());
        for s in &cur { for c in alphabet { let mut t = s.clone(); t.push(c); nx.push(t); } }
        cur = nx;
    }
    // first_line_leading_spaces
    let alpha2 = ['a', ' ', '\n', '\t'];
    let mut cur: Vec<String> = vec![String::new()];
    for len in 0..=5usize {
        for s in &cur {
            checked += 1;
            let want = s.split('\n').find(|l| !l.is_empty()).map_or(0, |l| l.chars().take_while(|c| *c == ' ').count());
            let got = real::first_line_leading_spaces(s);
            if got != want && !w[2] { w[2] = true; println!("WITNESS label=C12:indent_indicator_counts_spaces_of_first_non_empty_line input={:?} (returned {}, contract {})", s, got, want); }
        }
        if len == 5 { break; }
        let mut nx = Vec::new();
        for s in &cur { for c in alpha2 { let mut t = s.clone(); t.push(c); nx.push(t); } }
        cur = nx;
    }
    println!("CHECKED {}", checked);
    std::process::exit(if w.iter().any(|x| *x) { 1 } else { 0 });
}
