// Bounded stand-in for the statement of TupleSer::serialize_field that stages an inline comment (src/ser.rs).
/*{REAL}*/

fn main() {
    let alphabet = ['a', ' ', '#', '\n', '\r', '\t', ':', '\u{85}', '\u{2028}'];
    let max_len = 5usize;
    println!("BOUND all comment texts over {:?} up to length {} ({} symbols)", alphabet, max_len, alphabet.len());
    let mut checked = 0u64;
    let mut w = false;
    let mut cur: Vec<String> = vec![String::new()];
    for len in 0..=max_len {
        for s in &cur {
            checked += 1;
            let out = stage_comment_fragment(s.clone());
            if out.contains('\n') || out.contains('\r') {
                if !w { w = true; println!("WITNESS label=C20:staged_comment_has_no_line_break input={:?} (staged {:?})", s, out); }
            }
        }
        if len == max_len { break; }
        let mut nx = Vec::with_capacity(cur.len() * alphabet.len());
        for s in &cur { for c in alphabet { let mut t = s.clone(); t.push(c); nx.push(t); } }
        cur = nx;
    }
    println!("CHECKED {}", checked);
    std::process::exit(if w { 1 } else { 0 });
}
