// ===== spec library for unit `budget`: an independent count of an event history =====
// Written from the statement of C07 (what is counted), not from the code.

enum Ctx { InSeq, InMap { next_is_key: bool } }

/// Abstract counted state after a history of parser events.
struct Abs {
    events: nat,
    aliases: nat,
    nodes: nat,
    scalar_bytes: nat,      // saturating at usize::MAX (documented: "saturating on overflow")
    merge_keys: nat,
    documents: nat,
    max_depth: nat,         // high-water mark of open containers
    anchors: Set<usize>,    // distinct non-zero anchor ids defined
    stack: Seq<Ctx>,        // open containers, innermost last
}

spec fn abs_fresh() -> Abs {
    Abs { events: 0, aliases: 0, nodes: 0, scalar_bytes: 0, merge_keys: 0, documents: 0,
          max_depth: 0, anchors: Set::empty(), stack: Seq::empty() }
}

spec fn sat_add(a: nat, b: nat) -> nat {
    if a + b > usize::MAX as nat { usize::MAX as nat } else { a + b }
}

/// A node has just been completed inside the innermost open container.
spec fn node_done(stack: Seq<Ctx>) -> Seq<Ctx> {
    if stack.len() == 0 { stack } else {
        match stack.last() {
            Ctx::InSeq => stack,
            Ctx::InMap { next_is_key } => stack.drop_last().push(Ctx::InMap { next_is_key: !next_is_key }),
        }
    }
}

spec fn in_key_position(stack: Seq<Ctx>) -> bool {
    stack.len() > 0 && stack.last() == (Ctx::InMap { next_is_key: true })
}

spec fn add_anchor(s: Set<usize>, id: usize) -> Set<usize> {
    if id != 0 { s.insert(id) } else { s }
}

spec fn is_merge_scalar(ev: Event<'_>) -> bool {
    match ev {
        Event::Scalar(value, style, _, tag) => tag is None && style is Plain && value@ == "<<"@,
        _ => false,
    }
}

/// Does the end event close the innermost open container of the right kind?
spec fn end_balanced(a: Abs, ev: Event<'_>) -> bool {
    match ev {
        Event::SequenceEnd => a.stack.len() > 0 && a.stack.last() is InSeq,
        Event::MappingEnd => a.stack.len() > 0 && a.stack.last() is InMap,
        _ => true,
    }
}

spec fn max_nat(a: nat, b: nat) -> nat { if a >= b { a } else { b } }

/// One event of the history. `per_document`: quantities restart at every document start.
spec fn abs_step(a: Abs, ev: Event<'_>, per_document: bool) -> Abs {
    let a1 = Abs { events: a.events + 1, ..a };
    match ev {
        Event::Scalar(value, style, anchor_id, tag) => Abs {
            nodes: a1.nodes + 1,
            scalar_bytes: sat_add(a1.scalar_bytes, value.byte_len()),
            anchors: add_anchor(a1.anchors, anchor_id),
            merge_keys: if in_key_position(a1.stack) && is_merge_scalar(ev) { a1.merge_keys + 1 } else { a1.merge_keys },
            stack: node_done(a1.stack),
            ..a1
        },
        Event::SequenceStart(anchor_id, _) => Abs {
            nodes: a1.nodes + 1,
            max_depth: max_nat(a1.max_depth, a1.stack.len() + 1),
            anchors: add_anchor(a1.anchors, anchor_id),
            stack: a1.stack.push(Ctx::InSeq),
            ..a1
        },
        Event::MappingStart(anchor_id, _) => Abs {
            nodes: a1.nodes + 1,
            max_depth: max_nat(a1.max_depth, a1.stack.len() + 1),
            anchors: add_anchor(a1.anchors, anchor_id),
            stack: a1.stack.push(Ctx::InMap { next_is_key: true }),
            ..a1
        },
        Event::SequenceEnd | Event::MappingEnd => Abs {
            stack: if a1.stack.len() > 0 { node_done(a1.stack.drop_last()) } else { a1.stack },
            ..a1
        },
        Event::Alias(_) => Abs { aliases: a1.aliases + 1, stack: node_done(a1.stack), ..a1 },
        Event::DocumentStart(_) => if per_document {
            // everything that is counted restarts at the boundary -- whatever the state was --
            // and the document start is the first event of the new document
            Abs { documents: a.documents, events: 1, ..abs_fresh() }
        } else {
            Abs { documents: a1.documents + 1, ..a1 }
        },
        _ => a1,
    }
}

/// Is the history still acceptable after this event?
spec fn accepted(a: Abs, ev: Event<'_>, b: Budget, per_document: bool) -> bool {
    within(abs_step(a, ev, per_document), b, per_document) && end_balanced(a, ev)
}

/// The breach value names a quantity that really exceeds its limit after this event, with its value.
spec fn rejected_for(br: BudgetBreach, a: Abs, ev: Event<'_>, b: Budget, per_document: bool) -> bool {
    breach_justified(br, abs_step(a, ev, per_document), b, end_balanced(a, ev), per_document)
}

spec fn within(a: Abs, b: Budget, per_document: bool) -> bool {
    &&& a.events <= b.max_events
    &&& a.aliases <= b.max_aliases
    &&& a.anchors.len() <= b.max_anchors
    &&& a.max_depth <= b.max_depth
    &&& (per_document || a.documents <= b.max_documents)
    &&& a.nodes <= b.max_nodes
    &&& a.scalar_bytes <= b.max_total_scalar_bytes
    &&& a.merge_keys <= b.max_merge_keys
}

/// The breach value names a counter of `a` that really exceeds its limit, and reports its value.
spec fn breach_justified(br: BudgetBreach, a: Abs, b: Budget, balanced: bool, per_document: bool) -> bool {
    match br {
        BudgetBreach::Events { events } => events == a.events && a.events > b.max_events,
        BudgetBreach::Aliases { aliases } => aliases == a.aliases && a.aliases > b.max_aliases,
        BudgetBreach::Anchors { anchors } => anchors == a.anchors.len() && a.anchors.len() > b.max_anchors,
        BudgetBreach::Depth { depth } => depth == a.max_depth && a.max_depth > b.max_depth,
        BudgetBreach::Documents { documents } => !per_document && documents == a.documents && a.documents > b.max_documents,
        BudgetBreach::Nodes { nodes } => nodes == a.nodes && a.nodes > b.max_nodes,
        BudgetBreach::ScalarBytes { total_scalar_bytes } => total_scalar_bytes == a.scalar_bytes && a.scalar_bytes > b.max_total_scalar_bytes,
        BudgetBreach::MergeKeys { merge_keys } => merge_keys == a.merge_keys && a.merge_keys > b.max_merge_keys,
        BudgetBreach::SequenceUnbalanced => !balanced,
        _ => false,
    }
}

/// The documented post-scan heuristic.
spec fn ratio_breached(aliases: nat, anchors: nat, b: Budget) -> bool {
    b.enforce_alias_anchor_ratio && aliases >= b.alias_anchor_min_aliases
        && (anchors == 0 || aliases > b.alias_anchor_ratio_multiplier * anchors)
}
