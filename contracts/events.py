"""Unit `events`: node skipping / capture / merge helpers of src/de.rs over the Events cursor."""
from contracts_types import *
NAME = 'events'
FEATURES = []
USES = ['use vstd::string::*;', 'use std::collections::HashSet;', 'use std::collections::VecDeque;']
PRELUDE = ['common.shim.rs', 'error.spec.rs', 'evnodes.spec.rs', 'events.spec.rs', 'events.shim.rs']
SUBST = SUBST_COMMON + [
    (r"Cow<'(a|de|_), str>", r"CowStr<'\1>"),
    (r'FastHashSet<KeyFingerprint>', 'HashSet<KeyFingerprint>'),
    (r"Cow<'_, KeyFingerprint>", "CowFp<'_>"),
]
D = 'src/de.rs'
MA = 'impl de::Deserializer for YamlDeserializer/fn deserialize_map/'
P34 = ['C03', 'C04', 'C01']
EN = 'impl de::Deserializer for YamlDeserializer/fn deserialize_enum/'

EVENTS_TRAIT = events_trait()

ITEMS = location_types() + budget_types() + error_types() + [
    dict(src=SAPHYR + 'scanner.rs', path='enum ScalarStyle', derive=COPY),
    dict(src='src/tags.rs', path='enum SfTag', derive='#[derive(Clone, Copy, PartialEq, Eq, Hash, Structural)]'),
    dict(src='src/options.rs', path='enum DuplicateKeyPolicy', derive=COPY),
    dict(src=D, path='struct Cfg', derive='#[derive(Clone, Copy)]'),
    dict(src=D, path='enum Ev'),
    dict(src=D, path='impl Ev/fn location', props=['C16'],
         ensures=[('value', 'r == self.spec_location()')], canaries=['value']),
    dict(src=D, path='enum KeyFingerprint', derive='#[derive(Clone, PartialEq, Eq, Hash, Default)] #[verifier::external_derive]',
         rewrites=[(r'\bDefault,', '#[default] Default,', 1, 'R0')]),
    dict(src=D, path='enum KeyNode'),
    dict(src=D, path='struct PendingEntry'),
    EVENTS_TRAIT,
    dict(src=D, path='fn skip_one_node_len', props=P34, attrs='#[verifier::loop_isolation(false)]',
         requires=[('buffer_below_2g_events', 'events@.len() <= i32::MAX')],
         ensures=[
             ('exactly_one_node', '''!closing_kind_mismatch(events@, i as int) ==>
                 r == (match node_len_at(events@, i as int) { Some(n) => Some(n as usize), None => None })'''),
             ('in_bounds', 'r is Some ==> 1 <= r.unwrap() && i + r.unwrap() <= events@.len()'),
             ('spec_in_bounds', 'node_len_at(events@, i as int) is Some ==> 1 <= node_len_at(events@, i as int).unwrap() <= events@.len() - i'),
         ],
         loops={
             1: dict(invariant=[('scan_state', '''start < i <= events@.len() && events@.len() <= i32::MAX
                        && -(i - start) <= depth <= i - start && start == i0 && start < events@.len() && events@[start as int] is SeqStart
                        && (closing_kind_mismatch(events@, start as int)
                            || (depth >= 1 && scan(events@, start + 1, 1) == scan(events@, i as int, depth as int)))''')],
                     decreases='events@.len() - i'),
             2: dict(invariant=[('scan_state', '''start < i <= events@.len() && events@.len() <= i32::MAX
                        && -(i - start) <= depth <= i - start && start == i0 && start < events@.len() && events@[start as int] is MapStart
                        && (closing_kind_mismatch(events@, start as int)
                            || (depth >= 1 && scan(events@, start + 1, 1) == scan(events@, i as int, depth as int)))''')],
                     decreases='events@.len() - i'),
         },
         proofs=[
             dict(at='start', ghost=True, text='let ghost i0 = i;'),
             dict(at='start', text='if i < events@.len() { lemma_scan_bounds(events@, i + 1, 1); }'),
             dict(after='while i < events.len() {', nth=1, text='if depth >= 1 { lemma_scan_step(events@, i as int, depth as int); }'),
             dict(after='while i < events.len() {', nth=2, text='if depth >= 1 { lemma_scan_step(events@, i as int, depth as int); }'),
             dict(after_loop=1, text='if depth >= 1 { lemma_scan_end(events@, i as int, depth as int); }'),
             dict(after_loop=2, text='if depth >= 1 { lemma_scan_end(events@, i as int, depth as int); }'),
         ],
         canaries=['exactly_one_node', 'in_bounds']),
    dict(src=D, path='fn one_entry_map_spans', props=['C04', 'C01'],
         requires=[('buffer_below_2g_events', 'events@.len() <= i32::MAX')],
         ensures=[('spans_partition_the_map', '''match r {
                Some((ks, ke, vs, ve)) => ks == 1 && ks < ke && ke == vs && vs < ve && ve == events@.len() - 1
                    && events@[0] is MapStart && events@[events@.len() - 1] is MapEnd
                    && (!closing_kind_mismatch(events@, 1) ==> node_len_at(events@, 1) == Some(ke - 1))
                    && (!closing_kind_mismatch(events@, ke as int) ==> node_len_at(events@, ke as int) == Some(ve - ke)),
                None => true }''')],
         canaries=['spans_partition_the_map']),
    dict(src=D, path='struct ReplayEvents'),
    dict(src=D, path=MA + 'struct MA'),
    dict(src=D, path=MA + 'impl MA/fn skip_one_node', props=['C04', 'C01'],
         rewrites=[(r'let mut depth;', 'let mut depth: i32 = 0;', 1, 'R13')],
         requires=[('stream_below_2g_events', 'old(self).ev.rest().len() <= i32::MAX')],
         proofs=[dict(at='start', ghost=True, text='let ghost s0 = self.ev.rest();'),
                 dict(after='while depth != 0 {', text='''
                     let k = s0.len() - self.ev.rest().len();
                     if self.ev.rest().len() > 0 { lemma_scan_step(s0, k, depth as int); assert(s0.skip(k)[0] == s0[k]); assert(s0.skip(k).skip(1) =~= s0.skip(k + 1)); }'''),
                 dict(after='let mut depth: i32 = 0;', text='if s0.len() > 0 { assert(s0.skip(1) =~= s0.skip(0).skip(1)); assert(s0.skip(0) =~= s0); }'),
                 ],
         ensures=[('skips_exactly_one_node', '''match r {
                Ok(()) => node_len(old(self).ev.rest()) is Some
                          && final(self).ev.rest() == old(self).ev.rest().skip(node_len(old(self).ev.rest()).unwrap()),
                Err(_) => true }'''),
                  ('rest_of_state_untouched', '''final(self).have_key == old(self).have_key && final(self).seen == old(self).seen
                && final(self).pending == old(self).pending && final(self).merge_stack == old(self).merge_stack
                && final(self).flushing_merges == old(self).flushing_merges && final(self).pending_value == old(self).pending_value
                && final(self).cfg == old(self).cfg''')],
         loops={1: dict(invariant=[('cursor_tracks_scan', '''({ let k = s0.len() - self.ev.rest().len();
                    &&& 0 <= depth && 1 <= k <= s0.len() && s0.len() <= i32::MAX && depth <= k
                    &&& self.ev.rest() == s0.skip(k) && scan(s0, 1, 1) == scan(s0, k, depth as int)
                    &&& s0.len() > 0 && is_start(s0[0]) && s0 == old(self).ev.rest()
                    &&& self.have_key == old(self).have_key && self.seen == old(self).seen && self.pending == old(self).pending
                    &&& self.merge_stack == old(self).merge_stack && self.flushing_merges == old(self).flushing_merges
                    &&& self.pending_value == old(self).pending_value && self.cfg == old(self).cfg })''')],
                        decreases='self.ev.rest().len()')},
         canaries=['skips_exactly_one_node']),
    dict(src=D, path='impl KeyNode/fn fingerprint', props=['C04', 'C01'],
         rewrites=[(r'Cow::Borrowed\(', 'CowFp::Borrowed(', 1, 'R6'), (r'Cow::Owned\(', 'CowFp::Owned(', 1, 'R6')],
         requires=[('representation_invariant', 'keynode_wf(*self)')],
         ensures=[('scalar_fingerprint_is_text_and_tag', '''match *self {
                KeyNode::Fingerprinted { fingerprint, .. } => r.deref_spec() == fingerprint,
                KeyNode::Scalar { events, .. } => match events@[0] {
                    Ev::Scalar { value, tag, .. } => fp_deep(r.deref_spec()) == Fp::Scalar(value@, tag),
                    _ => false } }''')],
         canaries=['scalar_fingerprint_is_text_and_tag']),
    dict(src=D, path='impl KeyNode/fn events', props=['C03', 'C04'],
         ensures=[('view', 'r@ == keynode_events(*self)')], canaries=['view']),
    dict(src=D, path='impl KeyNode/fn take_events', props=['C03', 'C04'],
         rewrites=[(r'mem::take\(events\)', 'mem_take_events(events)', None, 'R8')],
         ensures=[('moves_events_out', '''r@ == keynode_events(*old(self)) && keynode_events(*final(self)) == Seq::<Ev<'a>>::empty()
                && keynode_location(*final(self)) == keynode_location(*old(self))''')], canaries=['moves_events_out']),
    dict(src=D, path='impl KeyNode/fn take_fingerprint', props=['C04', 'C01'],
         rewrites=[(r'mem::take\(fingerprint\)', 'mem_take_fingerprint(fingerprint)', None, 'R8')],
         requires=[('representation_invariant', 'keynode_wf(*old(self))')],
         ensures=[('fingerprint_value', '''keynode_events(*final(self)) == keynode_events(*old(self))
                && keynode_location(*final(self)) == keynode_location(*old(self)) && keynode_wf(*final(self))
                && match *old(self) {
                    KeyNode::Fingerprinted { fingerprint, .. } => r == fingerprint,
                    KeyNode::Scalar { events, .. } => match events@[0] {
                        Ev::Scalar { value, tag, .. } => fp_deep(r) == Fp::Scalar(value@, tag),
                        _ => false } }''')],
         canaries=['fingerprint_value']),
    dict(src=D, path='impl KeyNode/fn location', props=['C16'],
         ensures=[('value', 'r == keynode_location(*self)')], canaries=['value']),
    dict(src=D, path='fn is_merge_key', props=['C03'],
         ensures=[('only_untagged_plain_double_angle', 'r == is_merge_events(keynode_events(*node))')],
         canaries=['only_untagged_plain_double_angle']),
    dict(src=D, path='impl ReplayEvents/fn new', props=['C16'],
         ensures=[('starts_at_zero', 'r.buf@ == buf@ && r.idx == 0 && r.ref_override is None')], canaries=['starts_at_zero']),
    dict(src=D, path='impl ReplayEvents/fn with_reference', props=['C16'],
         ensures=[('starts_at_zero_with_override', 'r.buf@ == buf@ && r.idx == 0 && r.ref_override == Some(reference)')],
         canaries=['starts_at_zero_with_override']),
    dict(src=D, path='impl Events for ReplayEvents', props=['C03', 'C04', 'C16', 'C01'],
         trait_extra='''
    // ghost view: what is left of the buffer (an exhausted or over-run index leaves nothing)
    spec fn rest(&self) -> Seq<Ev<'a>> {
        if self.idx <= self.buf@.len() { self.buf@.skip(self.idx as int) } else { Seq::empty() }
    }
    // a buffer has its current event at hand at all times
    spec fn primed(&self) -> bool { true }
    spec fn use_site_override(&self) -> Option<Location> { self.ref_override }
''',
         impl_methods={
             'next': dict(rewrites=[(r'mem::replace\(&mut self\.buf\[self\.idx\], Ev::Taken \{ location \}\)',
                                     'vec_replace_ev(&mut self.buf, self.idx, Ev::Taken { location })', None, 'R8')],
                          ensures=[('replays_in_order', '''match r {
                              Ok(Some(e)) => old(self).idx < old(self).buf@.len() && e == old(self).buf@[old(self).idx as int]
                                             && final(self).idx == old(self).idx + 1
                                             && final(self).buf@ == old(self).buf@.update(old(self).idx as int, Ev::Taken { location: e.spec_location() }),
                              Ok(None) => old(self).idx >= old(self).buf@.len() && *final(self) == *old(self),
                              Err(_) => false }'''),
                                   ('override_kept', 'final(self).ref_override == old(self).ref_override')],
                          canaries=['replays_in_order']),
             'peek': dict(ensures=[('never_fails_never_moves', 'r is Ok && *final(self) == *old(self)')], canaries=['never_fails_never_moves']),
             'last_location': dict(rewrites=[(r'self\.buf\s*\.get\(last\)\s*\.map\(\|e\| e\.location\(\)\)\s*\.unwrap_or\(Location::UNKNOWN\)',
                        '(match self.buf.get(last) { Some(e) => e.location(), None => Location::UNKNOWN })', None, 'R18')],
                                   ensures=[('location_of_previous_event', '''r == (
                    if self.buf@.len() == 0 || prev_idx(self.idx) >= self.buf@.len() { Location::UNKNOWN }
                    else { self.buf@[prev_idx(self.idx)].spec_location() })''')]),
             'reference_location': dict(rewrites=[(r'self\.buf\s*\.get\(self\.idx\)\s*\.map\(\|e\| e\.location\(\)\)\s*\.unwrap_or_else\(\|\| self\.last_location\(\)\)',
                        '(match self.buf.get(self.idx) { Some(e) => e.location(), None => self.last_location() })', None, 'R18')],
                                        ensures=[('override_else_current_else_last', '''r == (match self.ref_override {
                    Some(loc) => loc,
                    None => if self.idx < self.buf@.len() { self.buf@[self.idx as int].spec_location() }
                            else if self.buf@.len() == 0 || prev_idx(self.idx) >= self.buf@.len() { Location::UNKNOWN }
                            else { self.buf@[prev_idx(self.idx)].spec_location() } })''')],
                                        canaries=['override_else_current_else_last']),
         }),
    dict(src=D, path='fn capture_node', props=['C03', 'C04', 'C08', 'C01'],
         rewrites=[(r'events\.extend\((\w+)\);', r'vec_extend_ev(&mut events, \1);', None, 'R8'),
                   # R41: `v.sort_unstable()` / `v.sort()` (if a change introduces one): assumed to leave a permutation of the vector
                   (r'(\w+)\.sort(_unstable)?\(\);', r'vec_sort_permutes(&mut \1);', None, 'R41')],
         decreases='old(ev).rest().len()',
         ensures=[
             ('captures_exactly_one_node', '''match r {
                Ok(node) => ({ let s = old(ev).rest();
                    &&& knode(s, 0) is Some
                    &&& keynode_events(node) == s.take(knode(s, 0).unwrap())
                    &&& final(ev).rest() == s.skip(knode(s, 0).unwrap())
                    &&& keynode_wf(node)
                    &&& keynode_location(node) == s[0].spec_location() }),
                Err(_) => true }'''),
             ('C04:fingerprint_is_structure_text_tag', '''match r {
                Ok(node) => keynode_fp(node) == fp_node(old(ev).rest(), 0),
                Err(_) => true }'''),
         ],
         requires=[('stream_below_2_64_events', 'old(ev).rest().len() <= usize::MAX')],
         proofs=[
             dict(at='start', ghost=True, text='let ghost s = ev.rest();'),
             dict(at='start', text='lemma_knode_bounds(s, 0); lemma_knode_bounds(s, 1); if s.len() > 0 { assert(s.skip(0) =~= s); assert(s.take(1) =~= seq![s[0]]); assert(s.skip(1) =~= s.skip(0).skip(1)); }'),
             # sequence: closing event
             dict(after='events.push(Ev::SeqEnd { location: end_loc });', text='''
                 let c = s.len() - ev.rest().len();
                 assert(s.skip(c - 1)[0] == s[c - 1]);
                 assert(s.skip(c - 1).skip(1) =~= s.skip(c));
                 assert(s.take(c - 1).push(s[c - 1]) =~= s.take(c));
                 assert(fp_seq(s, c - 1) =~= Seq::<Fp>::empty());
                 assert(fps_deep(elements@) + Seq::<Fp>::empty() =~= fps_deep(elements@));'''),
             # sequence: one child captured
             dict(before='let mut child = capture_node(ev)?;', ghost=True, text='let ghost c0: int = s.len() - ev.rest().len();'),
             dict(after='let mut child = capture_node(ev)?;', text='lemma_child(s, c0);'),
             dict(after='events.reserve(child_events.len());', text='''
                 let m = child_events@.len() as int;
                 lemma_kseq_step(s, c0, c0 + m);
                 let prev = elements@.drop_last();
                 assert(fps_deep(elements@) =~= fps_deep(prev).push(fp_deep(elements@.last())));
                 assert(fps_deep(prev).push(fp_deep(elements@.last())) + fp_seq(s, c0 + m) =~= fps_deep(prev) + (seq![fp_deep(elements@.last())] + fp_seq(s, c0 + m)));'''),
             dict(after_loop=1, text='lemma_fp_deep_seq(elements);'),
             # mapping: closing event
             dict(after='events.push(Ev::MapEnd { location: end_loc });', text='''
                 let c = s.len() - ev.rest().len();
                 assert(s.skip(c - 1)[0] == s[c - 1]);
                 assert(s.skip(c - 1).skip(1) =~= s.skip(c));
                 assert(s.take(c - 1).push(s[c - 1]) =~= s.take(c));
                 assert(fp_map(s, c - 1) =~= Seq::<(Fp, Fp)>::empty());
                 assert(fp_pairs_deep(entries@) + Seq::<(Fp, Fp)>::empty() =~= fp_pairs_deep(entries@));'''),
             # mapping: key captured, then value captured
             dict(before='let mut key = capture_node(ev)?;', ghost=True, text='let ghost c0: int = s.len() - ev.rest().len();'),
             dict(after='let mut key = capture_node(ev)?;', text='lemma_child(s, c0);'),
             dict(before='let mut value = capture_node(ev)?;', ghost=True, text='let ghost c1: int = s.len() - ev.rest().len();'),
             dict(after='let mut value = capture_node(ev)?;', text='lemma_child(s, c1);'),
             dict(before='events.reserve(key_events.len() + value_events.len());', text='''
                 let c = s.len() - ev.rest().len();
                 lemma_kmap_step(s, c0, c1, c);
                 let prev = entries@.drop_last();
                 let last = (fp_deep(entries@.last().0), fp_deep(entries@.last().1));
                 assert(fp_pairs_deep(entries@) =~= fp_pairs_deep(prev).push(last));
                 assert(fp_pairs_deep(prev).push(last) + fp_map(s, c) =~= fp_pairs_deep(prev) + (seq![last] + fp_map(s, c)));'''),
             dict(after_loop=2, text='lemma_fp_deep_map(entries);'),
         ],
         loops={
             1: dict(
                 invariant_except_break=[('seq_cursor', '''({ let c = s.len() - ev.rest().len();
                     &&& s == old(ev).rest() && s.len() > 0 && s[0] is SeqStart && location == s[0].spec_location()
                     &&& 1 <= c <= s.len() && s.len() <= usize::MAX && ev.rest() == s.skip(c) && events@ == s.take(c)
                     &&& kseq(s, 1) == kseq(s, c)
                     &&& fp_seq(s, 1) == fps_deep(elements@) + fp_seq(s, c) })''')],
                 ensures=[('seq_done', '''s == old(ev).rest() && s.len() > 0 && s[0] is SeqStart && location == s[0].spec_location()
                     && knode(s, 0) is Some && events@ == s.take(knode(s, 0).unwrap()) && ev.rest() == s.skip(knode(s, 0).unwrap())
                     && fp_seq(s, 1) == fps_deep(elements@)''')],
                 decreases='ev.rest().len()'),
             2: dict(
                 invariant_except_break=[('map_cursor', '''({ let c = s.len() - ev.rest().len();
                     &&& s == old(ev).rest() && s.len() > 0 && s[0] is MapStart && location == s[0].spec_location()
                     &&& 1 <= c <= s.len() && s.len() <= usize::MAX && ev.rest() == s.skip(c) && events@ == s.take(c)
                     &&& kmap(s, 1) == kmap(s, c)
                     &&& fp_map(s, 1) == fp_pairs_deep(entries@) + fp_map(s, c) })''')],
                 ensures=[('map_done', '''s == old(ev).rest() && s.len() > 0 && s[0] is MapStart && location == s[0].spec_location()
                     && knode(s, 0) is Some && events@ == s.take(knode(s, 0).unwrap()) && ev.rest() == s.skip(knode(s, 0).unwrap())
                     && fp_map(s, 1) == fp_pairs_deep(entries@)''')],
                 decreases='ev.rest().len()'),
         },
         canaries=['captures_exactly_one_node', 'C04:fingerprint_is_structure_text_tag']),
    # merge expansion: order in which collected batches are flattened (own fields first, then merge
    # sources from last to first).  The node-level correspondence with the event stream is not proved
    # in this revision; the flattening order is (obligation `merge_sources_last_to_first`).
    # merge expansion (C03): the three mutually recursive functions.  Termination measure: number of events still to
    # be read (a merge value is captured as a node that is shorter than what was left), then a rank.
    dict(src=D, path='fn pending_entries_from_events', props=['C03', 'C01'],
         rewrites=[(r'\b\w+\.reserve\([^;]*\);', '', None, 'R36'),
                   (r'collect_entries_from_map\(&mut replay, ', 'collect_entries_from_map(replay_as_dyn(&mut replay), ', None, 'R34'),
                   (r'capture_node\(&mut replay\)', 'capture_node(replay_as_dyn(&mut replay))', None, 'R34')],
         requires=[('buffer_below_2g_events', 'events@.len() <= i32::MAX')],
         ensures=[('C03:a_merge_value_is_null_a_mapping_or_a_sequence_anything_else_is_rejected', '''r is Ok ==> events@.len() > 0
                        && (events@[0] is MapStart || events@[0] is SeqStart || (events@[0] is Scalar && spec_nullish(events@[0]->Scalar_value@, events@[0]->Scalar_style)))'''),
                  ('entries_are_captured_nodes', 'r is Ok ==> pending_ok(r->Ok_0@)')],
         decreases='events@.len(), 1int',
         proofs=[
             dict(before='let mut element = capture_node(replay_as_dyn(&mut replay))?;', ghost=True, text='let ghost s1 = replay.rest(); let ghost uso1 = replay.use_site_override();'),
             dict(before_re=r'batches\.push\(pending_entries_from_events\(', label='C16:the_use_site_of_a_merge_element_is_read_while_the_element_is_still_in_front_of_the_cursor', props=['C16', 'C03'],
                  text='assert(s1.len() > 0 && element_ref_loc == spec_use_site(uso1, s1[0]));'),
             dict(after='let mut element = capture_node(replay_as_dyn(&mut replay))?;', text='lemma_knode_bounds(s1, 0); let k = knode(s1, 0).unwrap(); assert(s1 =~= events@.skip(1 + captured)); assert(0 <= k <= s1.len() && s1.len() == events@.len() - (1 + captured)); assert(s1.skip(k) =~= events@.skip(1 + captured + k)); captured = captured + k;'),
             dict(after_re=r'let _ = replay\.next\(\)\?;\s*(?=loop)', ghost=True, text='let ghost mut captured: int = 0; assert(events@.len() >= 1 && replay.rest() =~= events@.skip(1));'),
             dict(before='let mut merged = Vec::new();', ghost=True, text='let ghost b0 = batches@;'),
             dict(before='merged.append(&mut nested);', ghost=True, text='let ghost e_before = merged@; let ghost n0 = nested@;'),
             dict(after='merged.append(&mut nested);', text='lemma_abs_entries_append(e_before, n0); lemma_pending_ok_append(e_before, n0);'),
             dict(after_loop=2, label='C03:later_elements_of_a_merge_sequence_come_first',
                  text='assert(concat_rev(batches@) =~= Seq::<AEnt>::empty()); assert(abs_entries(merged@) =~= concat_rev(b0));'),
         ],
         loops={
             1: dict(header=r'^loop$', invariant=[('bounded', 'replay.rest().len() < events@.len() && events@.len() <= i32::MAX && batches_ok(batches@)')],
                     invariant_except_break=[('C03:every_element_of_a_merge_sequence_is_captured_and_expanded_none_is_skipped',
                                              'captured >= 0 && 1 + captured <= events@.len() && replay.rest() =~= events@.skip(1 + captured)')],
                     ensures=[('left_at_the_end_of_the_sequence', 'true')],
                     decreases='replay.rest().len()'),
             2: dict(header=r'^while let Some\(mut nested\) = batches\.pop\(\)$',
                     invariant=[('newest_first', 'abs_entries(merged@) + concat_rev(batches@) =~= concat_rev(b0)'),
                                ('captured', 'pending_ok(merged@) && batches_ok(batches@)')],
                     ensures=[('all_used', 'batches@.len() == 0')],
                     decreases='batches@.len()'),
         },
         canaries=['C03:a_merge_value_is_null_a_mapping_or_a_sequence_anything_else_is_rejected']),
    dict(src=D, path='fn pending_entries_from_live_events', props=['C03', 'C01'],
         rewrites=[(r'\b\w+\.reserve\([^;]*\);', '', None, 'R36')],
         requires=[('stream_below_2g_events', 'old(ev).rest().len() <= i32::MAX')],
         ensures=[('only_consumes', 'r is Ok ==> final(ev).rest().len() <= old(ev).rest().len()'),
                  ('entries_are_captured_nodes', 'r is Ok ==> pending_ok(r->Ok_0@)'),
                  ('C03:a_merge_value_is_null_a_mapping_or_a_sequence_anything_else_is_rejected', '''r is Ok ==> old(ev).rest().len() > 0 && ({ let e = old(ev).rest()[0];
                        e is MapStart || e is SeqStart || (e is Scalar && spec_nullish(e->Scalar_value@, e->Scalar_style)) })''')],
         decreases='old(ev).rest().len(), 2int',
         proofs=[
             dict(at='start', ghost=True, text='let ghost s0 = ev.rest();'),
             dict(after='let mut node = capture_node(ev)?;', text='lemma_knode_bounds(s0, 0);'),
             dict(before='let mut element = capture_node(ev)?;', ghost=True, text='let ghost s1 = ev.rest(); let ghost uso1 = ev.use_site_override();'),
             dict(before_re=r'batches\.push\(pending_entries_from_events\(', label='C16:the_use_site_of_a_merge_element_is_read_while_the_element_is_still_in_front_of_the_cursor', props=['C16', 'C03'],
                  text='assert(s1.len() > 0 && element_ref_loc == spec_use_site(uso1, s1[0]));'),
             dict(after='let mut element = capture_node(ev)?;', text='lemma_knode_bounds(s1, 0); let k = knode(s1, 0).unwrap(); assert(s1 =~= s0.skip(1 + captured)); assert(0 <= k <= s1.len() && s1.len() == s0.len() - (1 + captured)); assert(s1.skip(k) =~= s0.skip(1 + captured + k)); captured = captured + k;'),
             dict(before='let mut batches = Vec::new();', ghost=True, text='let ghost mut captured: int = 0; assert(s0.len() >= 1 && ev.rest() =~= s0.skip(1));'),
             dict(before='let mut merged = Vec::new();', ghost=True, text='let ghost b0 = batches@;'),
             dict(before='merged.append(&mut nested);', ghost=True, text='let ghost e_before = merged@; let ghost n0 = nested@;'),
             dict(after='merged.append(&mut nested);', text='lemma_abs_entries_append(e_before, n0); lemma_pending_ok_append(e_before, n0);'),
             dict(after_loop=2, label='C03:later_elements_of_a_merge_sequence_come_first',
                  text='assert(concat_rev(batches@) =~= Seq::<AEnt>::empty()); assert(abs_entries(merged@) =~= concat_rev(b0));'),
         ],
         loops={
             1: dict(header=r'^loop$', invariant=[('bounded', 'ev.rest().len() < s0.len() && s0.len() <= i32::MAX && s0 == old(ev).rest() && batches_ok(batches@)')],
                     invariant_except_break=[
                                                  # everything consumed so far inside the merge sequence went through capture_node (and from there through
                                                  # pending_entries_from_events, which rejects what is not a mapping, a sequence or null): no element is skipped
                                                  ('C03:every_element_of_a_merge_sequence_is_captured_and_expanded_none_is_skipped', 'captured >= 0 && 1 + captured <= s0.len() && ev.rest() =~= s0.skip(1 + captured)')],
                     ensures=[('left_at_the_end_of_the_sequence', 'true')],
                     decreases='ev.rest().len()'),
             2: dict(header=r'^while let Some\(mut nested\) = batches\.pop\(\)$',
                     invariant=[('newest_first', 'abs_entries(merged@) + concat_rev(batches@) =~= concat_rev(b0)'),
                                ('captured', 'pending_ok(merged@) && batches_ok(batches@)'),
                                ('cursor', 'ev.rest().len() <= old(ev).rest().len()')],
                     ensures=[('all_used', 'batches@.len() == 0')],
                     decreases='batches@.len()'),
         },
         canaries=['C03:a_merge_value_is_null_a_mapping_or_a_sequence_anything_else_is_rejected']),
    dict(src=D, path='fn collect_entries_from_map', props=['C03', 'C16', 'C01'],
         rewrites=[(r'\b\w+\.reserve\([^;]*\);', '', None, 'R36'),   # R36: Vec::reserve only changes capacity
                   # the use site handed to the expansion of a nested merge value is bound to a name (R18), so that it can be spoken about
                   (r'merges\.push\(pending_entries_from_live_events\(ev, ([^()]*(?:\([^()]*\))?[^()]*)\)\?\);',
                    r'{ let ghost __s_m = ev.rest(); let ghost __uso_m = ev.use_site_override(); let __use_site = \1; merges.push(pending_entries_from_live_events(ev, __use_site)?); }', 1, 'R18')],
         requires=[('stream_below_2g_events', 'old(ev).rest().len() <= i32::MAX')],
         decreases='old(ev).rest().len(), 0int',
         proofs=[
             dict(at='start', ghost=True, text='let ghost s0 = ev.rest();'),
             dict(before='let key = capture_node(ev)?;', ghost=True, text='let ghost s1 = ev.rest();'),
             dict(after='let key = capture_node(ev)?;', text='lemma_knode_bounds(s1, 0);'),
             dict(before='let value = capture_node(ev)?;', ghost=True, text='let ghost s2 = ev.rest();'),
             dict(after='let value = capture_node(ev)?;', text='lemma_knode_bounds(s2, 0);'),
             dict(before='merges.push(pending_entries_from_live_events(ev, __use_site)?);', label='C16:the_use_site_of_a_merge_nested_in_a_merged_mapping_is_the_alias_or_merge_entry_that_stands_for_it_not_the_definition', props=['C16'],
                  text='assert(__s_m.len() > 0 ==> __use_site == spec_use_site(__uso_m, __s_m[0]));'),
             dict(before='let mut entries = fields;', ghost=True, text='let ghost f0 = abs_entries(fields@); let ghost b0 = merges@;'),
             dict(before='entries.append(&mut nested);', ghost=True, text='let ghost e_before = entries@; let ghost n0 = nested@;'),
             dict(after='entries.append(&mut nested);', text='lemma_abs_entries_append(e_before, n0); lemma_pending_ok_append(e_before, n0);'),
             dict(after_loop=2, label='merge_sources_last_to_first',
                  text='assert(concat_rev(merges@) =~= Seq::<AEnt>::empty()); assert(abs_entries(entries@) =~= f0 + concat_rev(b0));'),
         ],
         ensures=[('only_consumes', 'r is Ok ==> final(ev).rest().len() <= old(ev).rest().len()'),
                  ('entries_are_captured_nodes', 'r is Ok ==> pending_ok(r->Ok_0@)')],
         loops={
             1: dict(header=r'^loop$', invariant=[('bounded', 'ev.rest().len() < s0.len() && s0 == old(ev).rest() && s0.len() <= i32::MAX && pending_ok(fields@) && batches_ok(merges@)')],
                     decreases='ev.rest().len()'),
             2: dict(header=r'^while let Some\(mut nested\) = merges\.pop\(\)$',
                     invariant=[('newest_batch_first', 'abs_entries(entries@) + concat_rev(merges@) =~= f0 + concat_rev(b0)'),
                                ('captured', 'pending_ok(entries@) && batches_ok(merges@)'),
                                ('cursor', 'ev.rest().len() <= old(ev).rest().len()')],
                     ensures=[('all_batches_used', 'merges@.len() == 0')],
                     decreases='merges@.len()'),
         }),
    # ---- cursor discipline of the typed deserializer (C05): each leaf helper either fails or moves the
    # cursor by exactly one event of the kind it names
    dict(src=D, path='struct YamlDeserializer'),
    dict(src=D, path='impl YamlDeserializer/fn take_scalar_event', props=['C05', 'C01'],
         rewrites=[(r'value\.into_owned\(\)', 'cowstr_into_owned(value)', None, 'R8')],
         ensures=[('C05:consumes_exactly_one_scalar', '''match r {
                Ok((text, tag, loc)) => old(self).ev.rest().len() > 0 && match old(self).ev.rest()[0] {
                        Ev::Scalar { value, tag: t, location, .. } => text@ == value@ && tag == t && loc == location,
                        _ => false }
                    && final(self).ev.rest() == old(self).ev.rest().skip(1),
                Err(_) => true }'''),
                  ('config_kept', 'final(self).cfg == old(self).cfg && final(self).in_key == old(self).in_key')],
         canaries=['C05:consumes_exactly_one_scalar']),
    dict(src=D, path='impl YamlDeserializer/fn take_scalar_cow_event', props=['C05', 'C01'],
         ensures=[('C05:consumes_exactly_one_scalar', '''match r {
                Ok((text, tag, loc)) => old(self).ev.rest().len() > 0 && match old(self).ev.rest()[0] {
                        Ev::Scalar { value, tag: t, location, .. } => text == value && tag == t && loc == location,
                        _ => false }
                    && final(self).ev.rest() == old(self).ev.rest().skip(1),
                Err(_) => true }''')],
         canaries=['C05:consumes_exactly_one_scalar']),
    dict(src=D, path='impl YamlDeserializer/fn expect_seq_start', props=['C05', 'C01'],
         ensures=[('C05:consumes_exactly_one_sequence_start', '''r is Ok ==> old(self).ev.rest().len() > 0
                && old(self).ev.rest()[0] is SeqStart && final(self).ev.rest() == old(self).ev.rest().skip(1)'''),
                  ('config_kept', 'final(self).cfg == old(self).cfg')],
         canaries=['C05:consumes_exactly_one_sequence_start']),
    dict(src=D, path='impl YamlDeserializer/fn expect_map_start', props=['C05', 'C01'],
         ensures=[('C05:consumes_exactly_one_mapping_start', '''r is Ok ==> old(self).ev.rest().len() > 0
                && old(self).ev.rest()[0] is MapStart && final(self).ev.rest() == old(self).ev.rest().skip(1)'''),
                  ('config_kept', 'final(self).cfg == old(self).cfg')],
         canaries=['C05:consumes_exactly_one_mapping_start']),
    dict(src=D, path='impl YamlDeserializer/fn peek_anchor_id', props=['C05', 'C01'],
         ensures=[('peeks_without_consuming', '''r is Ok ==> final(self).ev.rest() == old(self).ev.rest() && r->Ok_0 == (
                if old(self).ev.rest().len() == 0 { None } else { match old(self).ev.rest()[0] {
                    Ev::Scalar { anchor, .. } => if anchor == 0 { None } else { Some(anchor) },
                    Ev::SeqStart { anchor, .. } => if anchor == 0 { None } else { Some(anchor) },
                    Ev::MapStart { anchor, .. } => if anchor == 0 { None } else { Some(anchor) },
                    _ => None } })''')],
         canaries=['peeks_without_consuming']),
    # scalar_is_nullish: string comparisons are std; its result is an uninterpreted function of text and style here
    dict(src='src/parse_scalars.rs', path='fn scalar_is_nullish', trusted=True, props=[],
         ensures=[('function_of_text_and_style', 'r == spec_nullish(value@, *style)')]),
    dict(src=D, path=EN + 'struct VA'),
    dict(src=D, path=EN + 'impl VA/fn expect_map_end', props=['C05', 'C01'],
         ensures=[('C05:closes_exactly_one_mapping_or_fails', '''r is Ok ==> old(self).ev.rest().len() > 0
                && old(self).ev.rest()[0] is MapEnd && final(self).ev.rest() == old(self).ev.rest().skip(1)'''),
                  ('mode_and_config_kept', 'final(self).map_mode == old(self).map_mode && final(self).cfg == old(self).cfg')],
         canaries=['C05:closes_exactly_one_mapping_or_fails']),
    dict(src=D, path=EN + 'impl de::VariantAccess for VA/fn unit_variant', id='VA::unit_variant',
         impl_header="impl<'de, 'e> VA<'de, 'e>", props=['C05', 'C01'],
         rewrites=[(r'scalar_is_nullish\(s, style\)', 'scalar_is_nullish(s.as_str(), style)', None, 'R15')],
         ensures=[('C05:unit_variant_accepts_only_nothing_or_a_null', '''r is Ok ==> ({
                let s = old(self.ev).rest();
                if !self.map_mode { true }
                else if s.len() > 0 && s[0] is MapEnd { true }
                else { s.len() >= 2 && s[1] is MapEnd && match s[0] {
                        Ev::Scalar { value, style, .. } => spec_nullish(value@, style), _ => false } } })''')],
         canaries=['C05:unit_variant_accepts_only_nothing_or_a_null']),
    # ---- MA::next_key_seed (duplicate-key policy, merge flush); K: DeserializeSeed is monomorphised to an opaque seed
    dict(src=D, path='fn pending_entries_from_live_events', id='pending_entries_from_live_events#decl2', trusted=True, props=[], rename='pending_entries_from_live_events2',
         ensures=[('only_consumes', 'r is Ok ==> final(ev).rest().len() <= old(ev).rest().len()')]) if False else None,
    dict(src=D, path=MA + 'impl MA/fn deserialize_recorded_key', trusted=True, props=[],
         rewrites=[(r"fn deserialize_recorded_key<'de2, K>\(", 'fn deserialize_recorded_key(', 1, 'R9'),
                   (r'seed: K,', 'seed: KeySeed,', 1, 'R9'), (r"Vec<Ev<'de2>>", "Vec<Ev<'de>>", 1, 'R9'),
                   (r'Result<K::Value, Error>', 'Result<KeyVal, Error>', 1, 'R9'),
                   (r"where\s+K: de::DeserializeSeed<'de2>,", '', 1, 'R9')],
         ensures=[('map_access_state_untouched', '''final(self).ev.rest() == old(self).ev.rest() && final(self).seen == old(self).seen
                && final(self).pending == old(self).pending && final(self).merge_stack == old(self).merge_stack
                && final(self).flushing_merges == old(self).flushing_merges && final(self).cfg == old(self).cfg
                && final(self).have_key == old(self).have_key && final(self).pending_value == old(self).pending_value''')]),
    # `entries.into_iter().rev()` + push_front: assumed to put the batch in front of the queue, in order
    dict(src=D, path=MA + 'impl MA/fn enqueue_entries', trusted=True, props=[],
         ensures=[('batch_goes_to_the_front_in_order', '''final(self).pending@ == entries@ + old(self).pending@
                && final(self).ev.rest() == old(self).ev.rest() && final(self).seen == old(self).seen
                && final(self).merge_stack == old(self).merge_stack && final(self).flushing_merges == old(self).flushing_merges
                && final(self).cfg == old(self).cfg && final(self).have_key == old(self).have_key
                && final(self).pending_value == old(self).pending_value''')]),
    dict(src=D, path=MA + 'impl MA/fn enqueue_next_merge_batch', props=['C03', 'C01'],
         ensures=[('C03:newest_non_empty_merge_batch_is_flushed_next', '''({
                let b = old(self).merge_stack@; let k = newest_nonempty(b);
                if k < 0 { !r && final(self).pending@ == old(self).pending@ && final(self).merge_stack@.len() == 0 }
                else { r && final(self).pending@ == b[k]@ + old(self).pending@ && final(self).merge_stack@ == b.take(k) } })'''),
                  ('frame', '''final(self).ev.rest() == old(self).ev.rest() && final(self).seen == old(self).seen
                && final(self).flushing_merges == old(self).flushing_merges && final(self).cfg == old(self).cfg
                && final(self).have_key == old(self).have_key && final(self).pending_value == old(self).pending_value''')],
         loops={1: dict(invariant=[('skipping_empty_batches', '''self.merge_stack@.len() <= old(self).merge_stack@.len()
                    && self.merge_stack@ == old(self).merge_stack@.take(self.merge_stack@.len() as int)
                    && newest_nonempty(self.merge_stack@) == newest_nonempty(old(self).merge_stack@)
                    && self.pending@ == old(self).pending@ && self.ev.rest() == old(self).ev.rest() && self.seen == old(self).seen
                    && self.flushing_merges == old(self).flushing_merges && self.cfg == old(self).cfg
                    && self.have_key == old(self).have_key && self.pending_value == old(self).pending_value''')],
                        ensures=[('all_empty', 'self.merge_stack@.len() == 0')],
                        decreases='self.merge_stack@.len()')},
         canaries=['C03:newest_non_empty_merge_batch_is_flushed_next']),
    dict(src=D, path=MA + 'impl de::MapAccess for MA/fn next_key_seed', id='MA::next_key_seed', impl_header="impl<'de, 'e> MA<'de, 'e>",
         props=['C04', 'C03', 'C01'],
         attrs='#[verifier::exec_allows_no_decreases_clause]',
         rewrites=[(r'fn next_key_seed<K>\(&mut self, seed: K\) -> Result<Option<K::Value>, Error>\s*where\s*K: de::DeserializeSeed<\'de>,',
                    'fn next_key_seed(&mut self, seed: KeySeed) -> Result<Option<KeyVal>, Error>', 1, 'R9'),
                   (r'self\.seen\.contains\(&fingerprint\)', 'seen_contains(&self.seen, &fingerprint)', None, 'R8'),
                   (r'self\.seen\.insert\(fingerprint\);', 'seen_insert(&mut self.seen, fingerprint);', None, 'R8'),
                   (r'key_node\s*\.fingerprint\(\)\s*\.stringy_scalar_value\(\)\s*\.map\(\|s\| s\.to_owned\(\)\)', 'fp_display_key(key_node.fingerprint().get())', None, 'R8'),
                   (r'fingerprint\s*\.stringy_scalar_value\(\)\s*\.map\(\|s\| s\.to_owned\(\)\)', 'fp_display_key(&fingerprint)', None, 'R8'),
                   (r'\bother\.clone\(\)', 'ev_clone(other)', None, 'R8'),
                   (r'matches!\(\*fingerprint,', 'matches!(*fingerprint.get(),', None, 'R15'),
                   (r'match &\*fingerprint \{', 'match fingerprint.get() {', None, 'R15'),
                   (r'events\.drain\(vs\.\.ve\)\.collect\(\)', 'vec_drain_ev(&mut events, vs, ve)', None, 'R8'),
                   (r'sv\.eq_ignore_ascii_case\("null"\)', 'string_eq_ignore_case_null(sv)', None, 'R8'),
                   (r'sv == "~"', 'string_is_tilde(sv)', None, 'R8'),
         ],
         requires=[('map_access_invariant', 'ma_inv_parts(old(self).pending@, old(self).merge_stack@, old(self).ev.rest())')],
         ensures=[('map_access_invariant_preserved', 'r is Ok ==> ma_inv_parts(final(self).pending@, final(self).merge_stack@, final(self).ev.rest())'),
                  ('config_unchanged', 'final(self).cfg == old(self).cfg')],
         proofs=[
             dict(before='return Err(Error::DuplicateMappingKey { key, location });', nth=1, label='C04:duplicate_error_is_located_at_the_repeated_key',
                  text='assert(is_duplicate && !self.flushing_merges && location == kloc);'),
             dict(after='let location = key.location();', ghost=True, text='let ghost kloc = keynode_location(key);'),
             dict(before='return Err(Error::DuplicateMappingKey { key, location });', nth=2, label='C04:duplicate_error_is_located_at_the_repeated_key',
                  text='assert(is_duplicate && location == keynode_location(key_node));'),
             dict(before='let mut key_node = capture_node(self.ev)?;', ghost=True, text='let ghost rk = self.ev.rest();'),
             dict(after='let mut key_node = capture_node(self.ev)?;', text='lemma_knode_bounds(rk, 0);'),
             dict(before='let value_node = capture_node(self.ev)?;', ghost=True, text='let ghost rv = self.ev.rest();'),
             dict(after='let value_node = capture_node(self.ev)?;', text='lemma_knode_bounds(rv, 0);'),
             # a key that is handed to the visitor is remembered: the merge flush (and the duplicate test) rely on it
             dict(after='self.have_key = true;', nth=1, ghost=True, text='let ghost fpd = fingerprint;'),
             dict(before='return Ok(Some(key_value));', nth=1, label='C03:delivered_key_is_remembered', props=['C03', 'C04'],
                  text='assert(self.seen@.contains(fpd));'),
             dict(after='self.have_key = true;', nth=2, ghost=True, text='let ghost fpd = fingerprint;'),
             dict(before='return Ok(Some(key_value));', nth=2, label='C03:delivered_key_is_remembered', props=['C03', 'C04'],
                  text='assert(self.seen@.contains(fpd));'),
             dict(before='if self.enqueue_next_merge_batch() {', nth=1, ghost=True, text='let ghost ms0 = self.merge_stack@; let ghost p0 = self.pending@;'),
             dict(after='if self.enqueue_next_merge_batch() {', nth=1, text='lemma_flush_step(ms0, p0);'),
             dict(before='if self.enqueue_next_merge_batch() {', nth=2, ghost=True, text='let ghost ms0 = self.merge_stack@; let ghost p0 = self.pending@;'),
             dict(after='if self.enqueue_next_merge_batch() {', nth=2, text='lemma_flush_step(ms0, p0);'),
             dict(before='self.skip_one_node()?;', ghost=True, text='let ghost rb = self.ev.rest();'),
             dict(after='self.skip_one_node()?;', label='C04:first_wins_discards_exactly_the_later_value',
                  text='lemma_scan_bounds(rb, 1, 1); assert(is_duplicate && node_len(rb) is Some && self.ev.rest() == rb.skip(node_len(rb).unwrap()));'),
         ],
         loops={1: dict(header=r'^loop$', invariant=[
                    ('map_access_invariant', 'ma_inv_parts(self.pending@, self.merge_stack@, self.ev.rest()) && self.cfg == old(self).cfg')])},
         ),
    dict(src=D, path=MA + 'impl de::MapAccess for MA/fn next_value_seed', id='MA::next_value_seed', impl_header="impl<'de, 'e> MA<'de, 'e>",
         props=['C05', 'C16', 'C01'],
         rewrites=[(r"fn next_value_seed<Vv>\(&mut self, seed: Vv\) -> Result<Vv::Value, Error>\s*where\s*Vv: de::DeserializeSeed<'de>,",
                    'fn next_value_seed(&mut self, seed: ValSeed) -> Result<ValVal, Error>', 1, 'R9'),
                   (r'let defined_location = replay\s*\.peek\(\)\?\s*\.map\(\|ev\| ev\.location\(\)\)\s*\.unwrap_or_else\(\|\| replay\.last_location\(\)\);',
                    'let defined_location = (match replay.peek()? { Some(ev) => ev.location(), None => replay.last_location() });', 1, 'R18'),
                   (r'let defined_location = self\s*\.ev\s*\.peek\(\)\?\s*\.map\(\|ev: &Ev\| ev\.location\(\)\)\s*\.unwrap_or_else\(\|\| self\.ev\.last_location\(\)\);',
                    'let defined_location = (match self.ev.peek()? { Some(ev) => ev.location(), None => self.ev.last_location() });', 1, 'R18'),
                   (r'let de = YamlDeserializer::new\(&mut replay, self\.cfg\);\s*seed\.deserialize\(de\)\.map_err\(\|e\| \{\s*attach_alias_locations_if_missing\(e, (\w+), (\w+)\)\s*\}\)',
                    r'{ let __use_site = \1; let __def_site = \2; value_seed_on_replay(seed, &mut replay, self.cfg, __use_site, __def_site) }', 1, 'R8+R18'),
                   (r'let de = YamlDeserializer::new\(self\.ev, self\.cfg\);\s*seed\.deserialize\(de\)\.map_err\(\|e\| \{\s*attach_alias_locations_if_missing\(e, (\w+), (\w+)\)\s*\}\)',
                    r'{ let __use_site = \1; let __def_site = \2; value_seed_on_live(seed, self.ev, self.cfg, __use_site, __def_site) }', 1, 'R8+R18')],
         ensures=[('C05:a_value_is_only_handed_out_after_its_key', '!old(self).have_key ==> r is Err && r->Err_0 is ValueRequestedBeforeKey && final(self).ev.rest() == old(self).ev.rest() && final(self).pending_value == old(self).pending_value'),
                  ('C05:each_key_is_paired_with_exactly_one_value', 'old(self).have_key ==> !final(self).have_key && final(self).pending_value is None'),
                  ('C05:a_buffered_value_is_read_from_exactly_its_recorded_events_and_the_live_cursor_stays', '''old(self).have_key && old(self).pending_value is Some ==>
                        final(self).ev.rest() == old(self).ev.rest()
                        && (r is Ok ==> r == value_seed_result(seed, old(self).pending_value->Some_0.0@, old(self).cfg, old(self).pending_value->Some_0.1,
                                (if old(self).pending_value->Some_0.0@.len() > 0 { old(self).pending_value->Some_0.0@[0].spec_location() } else { Location::UNKNOWN })))'''),
                  ('C05:a_live_value_is_read_at_the_untouched_cursor_with_the_next_node_as_definition_site', '''old(self).have_key && old(self).pending_value is None && r is Ok && old(self).ev.rest().len() > 0 ==>
                        exists|rl: Location| r == #[trigger] value_seed_result(seed, old(self).ev.rest(), old(self).cfg, rl, old(self).ev.rest()[0].spec_location())'''),
                  ('config_and_keys_untouched', 'final(self).cfg == old(self).cfg && final(self).seen == old(self).seen && final(self).pending == old(self).pending && final(self).merge_stack == old(self).merge_stack')],
         proofs=[dict(before='value_seed_on_live(seed, self.ev, self.cfg, __use_site, __def_site)', label='C16:a_value_error_site_is_the_value_node_or_the_alias_token_that_stands_for_it',
                      text='assert(self.ev.rest().len() > 0 ==> __use_site == spec_use_site(self.ev.use_site_override(), self.ev.rest()[0]) && __def_site == self.ev.rest()[0].spec_location());'),
                 dict(before='let mut replay = ReplayEvents::with_reference(events, reference_location);', ghost=True, text='let ghost ev0 = events@;'),
                 dict(after='let mut replay = ReplayEvents::with_reference(events, reference_location);', text='assert(replay.rest() =~= ev0); assert(ev0.skip(0) =~= ev0);')],
         canaries=['C05:a_value_is_only_handed_out_after_its_key', 'C05:each_key_is_paired_with_exactly_one_value']),
    dict(src=D, path='impl de::Deserializer for YamlDeserializer/fn deserialize_map', id='YamlDeserializer::deserialize_map#prologue',
        impl_header="impl<'de, 'e> YamlDeserializer<'de, 'e>", props=['C05', 'C03', 'C04', 'C01'], lift_nested_fns=True,
        pre_rewrites=[(r"fn deserialize_map<V: Visitor<'de>>\(mut self, visitor: V\) -> Result<V::Value, Self::Error>",
                       'fn deserialize_map_prologue(mut self, visitor: MapVis) -> Result<MapVisVal, Error>', 1, 'R9')],
        rewrites=[(r'tag == &SfTag::Null', '*tag == SfTag::Null', None, 'R15'),
                  (r'scalar_is_nullish\(s, style\)', 'scalar_is_nullish(s.as_str(), style)', None, 'R15'),
                  (r'return visitor\.visit_map\(EmptyMap\);', 'return visit_map_empty(visitor);', 1, 'R8'),
                  (r'visitor\.visit_map\(MA \{', 'visit_map_ma(visitor, MA {', 1, 'R8'),
                  (r'FastHashSet::with_capacity\(8\)', 'fast_hash_set_with_capacity(8)', 1, 'R8')],
        requires=[('stream_below_2g_events', 'old(self.ev).rest().len() <= i32::MAX')],
        proofs=[dict(at='start', ghost=True, text='let ghost rest0 = self.ev.rest();')],
        ensures=[('C05:a_null_like_scalar_is_an_empty_mapping_anything_else_must_start_a_mapping', '''({ let rest0 = old(self.ev).rest();
                r is Ok ==> rest0.len() > 0 && (
                    if rest0[0] is Scalar { (rest0[0]->Scalar_tag is Null || spec_nullish(rest0[0]->Scalar_value@, rest0[0]->Scalar_style)) && r == vis_map_empty(visitor) }
                    else { rest0[0] is MapStart && r == vis_map_live(visitor, rest0.skip(1), self.cfg) }) })''')],
        canaries=['C05:a_null_like_scalar_is_an_empty_mapping_anything_else_must_start_a_mapping']),
    # ---- enum variant payloads: the closing `}` of `{Variant: payload}` is checked and consumed, nothing else (C05) ----
    dict(src=D, path=EN + 'impl de::VariantAccess for VA/fn newtype_variant_seed', id='VA::newtype_variant_seed', impl_header="impl<'de, 'e> VA<'de, 'e>",
         props=['C05', 'C01'],
         pre_rewrites=[(r"fn newtype_variant_seed<T>\(mut self, seed: T\) -> Result<T::Value, Error>\s*where\s*T: de::DeserializeSeed<'de>,",
                        'fn newtype_variant_seed(mut self, seed: ValSeed) -> Result<PayVal, Error>', 1, 'R9')],
         rewrites=[(r'let defined_location = this\s*\.ev\s*\.peek\(\)\?\s*\.map\(\|ev: &Ev\| ev\.location\(\)\)\s*\.unwrap_or_else\(\|\| this\.ev\.last_location\(\)\);',
                    'let defined_location = (match this.ev.peek()? { Some(ev) => ev.location(), None => this.ev.last_location() });', 1, 'R18'),
                   (r'let value = seed\s*\.deserialize\(YamlDeserializer::new\(this\.ev, this\.cfg\)\)\s*\.map_err\(\|e\| \{\s*attach_alias_locations_if_missing\(e, (\w+), (\w+)\)\s*\}\)\?;',
                    r'let __use_site = \1; let __def_site = \2; let value = variant_payload_newtype(seed, this.ev, this.cfg, __use_site, __def_site)?;', 1, 'R8+R18')],
         proofs=[dict(before_re=r'let value = variant_payload_newtype\(', label='C16:a_payload_error_site_is_the_payload_node_or_the_alias_token_that_stands_for_it', props=['C16', 'C05'],
                      text='assert(this.ev.rest().len() > 0 ==> __use_site == spec_use_site(this.ev.use_site_override(), this.ev.rest()[0]) && __def_site == this.ev.rest()[0].spec_location());'),
                 dict(after_re=r'let (value|result) = variant_payload_\w+\([^;]*\)\?;', ghost=True, text='let ghost rest_p = this.ev.rest();'),
                 dict(before_re=r'Ok\((value|result)\)\s*\}', label='C05:an_externally_tagged_payload_is_followed_by_exactly_the_mapping_end',
                      text='assert(if this.map_mode { rest_p.len() > 0 && rest_p[0] is MapEnd && this.ev.rest() == rest_p.skip(1) } else { this.ev.rest() == rest_p });')]),
    dict(src=D, path=EN + 'impl de::VariantAccess for VA/fn tuple_variant', id='VA::tuple_variant', impl_header="impl<'de, 'e> VA<'de, 'e>",
         props=['C05', 'C01'],
         pre_rewrites=[(r"fn tuple_variant<Vv>\(mut self, len: usize, visitor: Vv\) -> Result<Vv::Value, Error>\s*where\s*Vv: Visitor<'de>,",
                        'fn tuple_variant(mut self, len: usize, visitor: MapVis) -> Result<PayVal, Error>', 1, 'R9')],
         rewrites=[(r'let result =\s*YamlDeserializer::new\(this\.ev, this\.cfg\)\.deserialize_tuple\(len, visitor\)\?;',
                    'let result = variant_payload_tuple(this.ev, this.cfg, len, visitor)?;', 1, 'R8')],
         proofs=[dict(after_re=r'let (value|result) = variant_payload_\w+\([^;]*\)\?;', ghost=True, text='let ghost rest_p = this.ev.rest();'),
                 dict(before_re=r'Ok\((value|result)\)\s*\}', label='C05:an_externally_tagged_payload_is_followed_by_exactly_the_mapping_end',
                      text='assert(if this.map_mode { rest_p.len() > 0 && rest_p[0] is MapEnd && this.ev.rest() == rest_p.skip(1) } else { this.ev.rest() == rest_p });')]),
    dict(src=D, path=EN + 'impl de::VariantAccess for VA/fn struct_variant', id='VA::struct_variant', impl_header="impl<'de, 'e> VA<'de, 'e>",
         props=['C05', 'C01'],
         pre_rewrites=[(r"fn struct_variant<Vv>\(\s*mut self,\s*fields: &'static \[&'static str\],\s*visitor: Vv,\s*\) -> Result<Vv::Value, Error>\s*where\s*Vv: Visitor<'de>,",
                        "fn struct_variant(mut self, fields: &'static [&'static str], visitor: MapVis) -> Result<PayVal, Error>", 1, 'R9')],
         rewrites=[(r'let result = YamlDeserializer::new\(this\.ev, this\.cfg\)\s*\.deserialize_struct\("", fields, visitor\)\?;',
                    'let result = variant_payload_struct(this.ev, this.cfg, fields, visitor)?;', 1, 'R8')],
         proofs=[dict(after_re=r'let (value|result) = variant_payload_\w+\([^;]*\)\?;', ghost=True, text='let ghost rest_p = this.ev.rest();'),
                 dict(before_re=r'Ok\((value|result)\)\s*\}', label='C05:an_externally_tagged_payload_is_followed_by_exactly_the_mapping_end',
                      text='assert(if this.map_mode { rest_p.len() > 0 && rest_p[0] is MapEnd && this.ev.rest() == rest_p.skip(1) } else { this.ev.rest() == rest_p });')]),
    # ---- deserialize_enum: which notation selects which variant, and what the payload is read from (C05) ----
    dict(src=D, path='fn simple_tagged_enum_name', trusted=True, props=[],
         ensures=[('string_surgery_is_opaque', 'r is Some <==> sp_tagged_name(*raw_tag, *tag) is Some'), ('value', 'r is Some ==> r->Some_0@ == sp_tagged_name(*raw_tag, *tag)->Some_0')]),
    dict(src='src/parse_scalars.rs', path='fn maybe_not_string', trusted=True, props=[],
         ensures=[('proved_in_unit_typed', 'r == sp_looks_non_string_ev(s@, *style)')]),
    dict(src='src/de_error.rs', path='impl Error/fn quoting_required', trusted=True, props=[], ensures=[('kind', 'r is QuotingRequired')]),
    dict(src=D, path=EN + 'enum Mode'),
    dict(src=D, path=EN + 'struct EA'),
    dict(src=D, path=EN + 'struct TaggedEA'),
    dict(src=D, path='impl de::Deserializer for YamlDeserializer/fn deserialize_enum', id='YamlDeserializer::deserialize_enum#dispatch',
        impl_header="impl<'de, 'e> YamlDeserializer<'de, 'e>", props=['C05', 'C06', 'C01'], lift_nested_fns=True,
        pre_rewrites=[(r"fn deserialize_enum<V: Visitor<'de>>\(\s*mut self,\s*_name: &'static str,\s*_variants: &'static \[&'static str\],\s*visitor: V,\s*\) -> Result<V::Value, Self::Error>",
                       "fn deserialize_enum_dispatch(mut self, _name: &'static str, _variants: &'static [&'static str], visitor: MapVis) -> Result<MapVisVal, Error>", 1, 'R9')],
        rewrites=[(r'maybe_not_string\(value, style\)', 'maybe_not_string(value.as_str(), style)', None, 'R15'),
                  (r'maybe_not_string\(&value, &style\)', 'maybe_not_string(value.as_str(), &style)', None, 'R15'),
                  (r'Error::quoting_required\(&v\)', 'Error::quoting_required(v.as_str())', None, 'R15'),
                  (r'Error::quoting_required\(&value\)', 'Error::quoting_required(value.as_str())', None, 'R15'),
                  (r'_variants\.contains\(&tag_name\.as_str\(\)\)', 'variants_contain(_variants, &tag_name)', None, 'R8'),
                  (r'tag_name != _name', 'string_ne_str(&tag_name, _name)', None, 'R8'),
                  (r'tag_name\.clone\(\)', 'string_clone(tag_name)', None, 'R8'),
                  (r'return visitor\.visit_enum\(TaggedEA \{', 'return visit_enum_tagged(visitor, TaggedEA {', None, 'R8'),
                  (r'visitor\.visit_enum\(access\)', 'visit_enum_ea(visitor, access)', None, 'R8')],
        requires=[('stream_below_2g_events', 'old(self.ev).rest().len() <= i32::MAX')],
        ensures=[('C05:a_plain_name_selects_a_unit_like_variant_and_consumes_exactly_that_scalar', '''({ let rest0 = old(self.ev).rest();
                r is Ok && rest0.len() > 0 && rest0[0] is Scalar && !(sp_tagged_name(rest0[0]->Scalar_raw_tag, rest0[0]->Scalar_tag) is Some
                        && sp_is_variant(_variants, sp_tagged_name(rest0[0]->Scalar_raw_tag, rest0[0]->Scalar_tag)->Some_0))
                    ==> r == vis_enum_plain(visitor, rest0[0]->Scalar_value@, false, rest0[0]->Scalar_location, rest0.skip(1), self.cfg)
                        && (sp_tagged_name(rest0[0]->Scalar_raw_tag, rest0[0]->Scalar_tag) is Some ==> sp_tagged_name(rest0[0]->Scalar_raw_tag, rest0[0]->Scalar_tag)->Some_0 == _name@) })'''),
                 ('C05:a_tag_that_names_a_variant_selects_it_and_the_untagged_scalar_is_its_payload', '''({ let rest0 = old(self.ev).rest();
                r is Ok && rest0.len() > 0 && rest0[0] is Scalar && sp_tagged_name(rest0[0]->Scalar_raw_tag, rest0[0]->Scalar_tag) is Some
                        && sp_is_variant(_variants, sp_tagged_name(rest0[0]->Scalar_raw_tag, rest0[0]->Scalar_tag)->Some_0)
                    ==> r == vis_enum_tagged(visitor, sp_tagged_name(rest0[0]->Scalar_raw_tag, rest0[0]->Scalar_tag)->Some_0, rest0[0]->Scalar_location,
                            seq![Ev::Scalar { value: rest0[0]->Scalar_value, tag: SfTag::String, raw_tag: None, style: rest0[0]->Scalar_style,
                                              location: rest0[0]->Scalar_location, anchor: rest0[0]->Scalar_anchor }], self.cfg) })'''),
                 ('C05:a_one_entry_mapping_selects_the_variant_by_its_scalar_key_and_the_payload_follows', '''({ let rest0 = old(self.ev).rest();
                r is Ok && rest0.len() > 0 && rest0[0] is MapStart ==> rest0.len() > 1 && rest0[1] is Scalar
                    && r == vis_enum_plain(visitor, rest0[1]->Scalar_value@, true, rest0[1]->Scalar_location, rest0.skip(2), self.cfg) })'''),
                 ('C05:no_other_node_kind_is_an_enum', '''({ let rest0 = old(self.ev).rest();
                r is Ok ==> rest0.len() > 0 && (rest0[0] is Scalar || rest0[0] is MapStart
                    || (rest0[0] is SeqStart && sp_tagged_name(rest0[0]->SeqStart_raw_tag, rest0[0]->SeqStart_tag) is Some
                        && sp_is_variant(_variants, sp_tagged_name(rest0[0]->SeqStart_raw_tag, rest0[0]->SeqStart_tag)->Some_0))) })'''),
                 ('C06:no_schema_refuses_number_like_plain_names', '''({ let rest0 = old(self.ev).rest();
                r is Ok && self.cfg.no_schema && rest0.len() > 0 && rest0[0] is Scalar && !(rest0[0]->Scalar_tag is String)
                    ==> !sp_looks_non_string_ev(rest0[0]->Scalar_value@, rest0[0]->Scalar_style) })''')],
        proofs=[dict(at='start', ghost=True, text='let ghost s0 = self.ev.rest();'),
                dict(after='while depth > 0 {', text='''
                     let k = s0.len() - this.ev.rest().len();
                     if this.ev.rest().len() > 0 { lemma_scan_step(s0, k, depth as int); assert(s0.skip(k)[0] == s0[k]); assert(s0.skip(k).skip(1) =~= s0.skip(k + 1)); }'''),
                dict(after='let mut depth = 1usize;', text='if s0.len() > 0 { assert(s0.skip(1) =~= s0.skip(0).skip(1)); assert(s0.skip(0) =~= s0); }'),
                dict(before='return visit_enum_tagged(visitor, TaggedEA {', nth=2, text='assert(replay.rest() =~= replay_buf@);'),
                dict(before_re=r'tagged_enum = None;', nth=2, text='''assert(ev == s0[0]); assert(s0[0] is Scalar);
                     assert(replay@ =~= seq![Ev::Scalar { value: s0[0]->Scalar_value, tag: SfTag::String, raw_tag: None, style: s0[0]->Scalar_style, location: s0[0]->Scalar_location, anchor: s0[0]->Scalar_anchor }]);'''),
                dict(before_re=r'let access = match mode \{', text='if s0.len() > 1 { assert(s0.skip(1).skip(1) =~= s0.skip(2)); assert(s0.skip(1)[0] == s0[1]); }'),
                dict(after='replay_events.push(ev);', nth=1, text='assert(replay_events@.skip(1) =~= s0.subrange(1, (s0.len() - this.ev.rest().len()) as int));'),
                dict(after='replay_events.push(ev);', nth=2, text='assert(replay_events@.skip(1) =~= s0.subrange(1, (s0.len() - this.ev.rest().len()) as int));'),
                dict(after='replay_events.push(ev);', nth=3, text='assert(replay_events@.skip(1) =~= s0.subrange(1, (s0.len() - this.ev.rest().len()) as int));'),
                dict(after='replay_events.push(ev);', nth=4, text='assert(replay_events@.skip(1) =~= s0.subrange(1, (s0.len() - this.ev.rest().len()) as int));'),
                dict(after='replay_events.push(ev);', nth=5, text='assert(replay_events@.skip(1) =~= s0.subrange(1, (s0.len() - this.ev.rest().len()) as int));'),

                dict(before_re=r'let replay = Box::new\(ReplayEvents::new\(replay_events\)\);', label='C05:a_tagged_sequence_payload_is_exactly_that_sequence_node',
                     text='''let kk = s0.len() - this.ev.rest().len();
                        assert(replay_events@.len() == kk && replay_events@.skip(1) =~= s0.subrange(1, kk) && this.ev.rest() == s0.skip(kk));
                        assert((forall|j: int| 1 <= j < kk ==> !((#[trigger] s0[j]) is Taken)) ==> node_len(s0) == Some(kk));'''),
                ],
        loops={1: dict(header=r'^while depth > 0$', invariant=[
                    ('bounds', '1 <= s0.len() - this.ev.rest().len() <= s0.len() && s0.len() <= i32::MAX && depth <= s0.len() - this.ev.rest().len() && s0.len() > 0 && is_start(s0[0])'),
                    ('cursor', 'this.ev.rest() == s0.skip(s0.len() - this.ev.rest().len())'),
                    ('cursor_tracks_scan', '(forall|j: int| 1 <= j < s0.len() - this.ev.rest().len() ==> !((#[trigger] s0[j]) is Taken)) ==> scan(s0, 1, 1) == scan(s0, s0.len() - this.ev.rest().len(), depth as int)'),
                    ('collected_events_are_the_node_so_far', 'replay_events@.len() == s0.len() - this.ev.rest().len() && replay_events@.skip(1) =~= s0.subrange(1, s0.len() - this.ev.rest().len())')],
                       decreases='this.ev.rest().len()')},
        canaries=['C05:a_one_entry_mapping_selects_the_variant_by_its_scalar_key_and_the_payload_follows', 'C05:a_plain_name_selects_a_unit_like_variant_and_consumes_exactly_that_scalar']),
    # ---- which location an error keeps while it unwinds through containers (C16) ----
    dict(src='src/de_error.rs', path='impl Error/fn location', trusted=True, props=[],
         ensures=[('the_location_the_error_already_carries', 'r == err_loc(*self)')]),
    dict(src=D, path='fn attach_alias_locations_if_missing', props=['C16', 'C01'],
         rewrites=[(r'err\.to_string\(\)', 'error_to_string(&err)', 1, 'R8')],
         ensures=[('C16:an_error_that_already_names_a_node_keeps_that_location_while_it_unwinds',
                   '''!(reference_location != Location::UNKNOWN && defined_location != Location::UNKNOWN && reference_location != defined_location)
                        && err_loc(err) is Some ==> r == err'''),
                  ('C16:an_error_on_an_aliased_value_reports_the_use_site_and_the_definition_site',
                   '''reference_location != Location::UNKNOWN && defined_location != Location::UNKNOWN && reference_location != defined_location
                        ==> r is AliasError && r->AliasError_locations == (Locations { reference_location, defined_location })'''),
                  ('C16:an_error_without_a_location_stays_the_same_error', 'err_loc(err) is None && !(r is AliasError) ==> error_kind_same(err, r)')],
         canaries=['C16:an_error_that_already_names_a_node_keeps_that_location_while_it_unwinds']),
    # SfTag::can_parse_into_string (proved in unit scalars): available to the functions of this unit, contract assumed here
    dict(src='src/tags.rs', path='impl SfTag/fn can_parse_into_string', trusted=True, props=[],
         ensures=[('proved_in_unit_scalars', 'r == (*self is None || *self is String || *self is Other)')]),
]
ITEMS = [x for x in ITEMS if x is not None]
