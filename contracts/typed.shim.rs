// ===== unit `typed`: the serde Visitor is opaque; what it returns is an uninterpreted function of what it is given =====
#[verifier::external_body]
struct Vis { _p: () }          // stands for `V: Visitor<'de>`
#[verifier::external_body]
struct VisVal { _p: () }       // stands for `V::Value`

uninterp spec fn vis_int(v: Vis, width: int, x: int) -> Result<VisVal, Error>;

impl Vis {
    #[verifier::external_body]
    fn visit_i8(self, v: i8) -> (r: Result<VisVal, Error>)
        ensures r == vis_int(self, -8, v as int),
    { unimplemented!() }
}
impl Vis {
    #[verifier::external_body]
    fn visit_i16(self, v: i16) -> (r: Result<VisVal, Error>)
        ensures r == vis_int(self, -16, v as int),
    { unimplemented!() }
}
impl Vis {
    #[verifier::external_body]
    fn visit_i32(self, v: i32) -> (r: Result<VisVal, Error>)
        ensures r == vis_int(self, -32, v as int),
    { unimplemented!() }
}
impl Vis {
    #[verifier::external_body]
    fn visit_i64(self, v: i64) -> (r: Result<VisVal, Error>)
        ensures r == vis_int(self, -64, v as int),
    { unimplemented!() }
}
impl Vis {
    #[verifier::external_body]
    fn visit_i128(self, v: i128) -> (r: Result<VisVal, Error>)
        ensures r == vis_int(self, -128, v as int),
    { unimplemented!() }
}
impl Vis {
    #[verifier::external_body]
    fn visit_u8(self, v: u8) -> (r: Result<VisVal, Error>)
        ensures r == vis_int(self, 8, v as int),
    { unimplemented!() }
}
impl Vis {
    #[verifier::external_body]
    fn visit_u16(self, v: u16) -> (r: Result<VisVal, Error>)
        ensures r == vis_int(self, 16, v as int),
    { unimplemented!() }
}
impl Vis {
    #[verifier::external_body]
    fn visit_u32(self, v: u32) -> (r: Result<VisVal, Error>)
        ensures r == vis_int(self, 32, v as int),
    { unimplemented!() }
}
impl Vis {
    #[verifier::external_body]
    fn visit_u64(self, v: u64) -> (r: Result<VisVal, Error>)
        ensures r == vis_int(self, 64, v as int),
    { unimplemented!() }
}
impl Vis {
    #[verifier::external_body]
    fn visit_u128(self, v: u128) -> (r: Result<VisVal, Error>)
        ensures r == vis_int(self, 128, v as int),
    { unimplemented!() }
}

uninterp spec fn vis_bytes(v: Vis, bytes: Seq<u8>) -> Result<VisVal, Error>;
impl Vis {
    #[verifier::external_body]
    fn visit_byte_buf(self, v: Vec<u8>) -> (r: Result<VisVal, Error>)
        ensures r == vis_bytes(self, v@),
    { unimplemented!() }
}

/// what one element of a byte sequence must be: an integer scalar whose exact value fits u8
spec fn byte_elem(e: Ev, legacy: bool) -> Option<u8> {
    match e {
        Ev::Scalar { value, .. } => match uint_spec(spec_trim(encode_utf8(value@)), legacy) {
            Some(x) => if x <= 255 { Some(x as u8) } else { None },
            None => None },
        _ => None }
}

/// the bytes spelled by `rest[i..]` up to the closing SeqEnd (None: not a well-formed byte sequence)
spec fn seq_bytes(rest: Seq<Ev>, i: int, legacy: bool) -> Option<Seq<u8>>
    decreases rest.len() - i,
{
    if i < 0 || i >= rest.len() { None }
    else if rest[i] is SeqEnd { Some(Seq::<u8>::empty()) }
    else { match byte_elem(rest[i], legacy) {
        None => None,
        Some(b) => match seq_bytes(rest, i + 1, legacy) { None => None, Some(t) => Some(seq![b] + t) } } }
}

/// prefix `out` collected from rest[1..1+out.len()] — forward (loop) view of `seq_bytes`
spec fn seq_bytes_from(rest: Seq<Ev>, out: Seq<u8>, legacy: bool) -> Option<Seq<u8>> {
    match seq_bytes(rest, (1 + out.len() as int), legacy) { None => None, Some(t) => Some(out + t) }
}

proof fn lemma_seq_bytes_step(rest: Seq<Ev>, out: Seq<u8>, b: u8, legacy: bool)
    requires (1 + out.len() as int) < rest.len(), !(rest[(1 + out.len() as int)] is SeqEnd), byte_elem(rest[(1 + out.len() as int)], legacy) == Some(b),
    ensures seq_bytes_from(rest, out.push(b), legacy) == seq_bytes_from(rest, out, legacy),
{
    match seq_bytes(rest, (2 + out.len() as int), legacy) {
        None => {},
        Some(t) => { assert(out.push(b) + t =~= out + (seq![b] + t)); } }
}

/// `<u8 as serde::Deserialize>::deserialize(YamlDeserializer::new(ev, cfg))`.
/// ASSUMED (dependency): serde's `impl Deserialize for u8` is `deserializer.deserialize_u8(v)` with a visitor whose
/// `visit_u8` returns its argument.  Composed with `deserialize_u8` (contract proved in this unit) this gives:
#[verifier::external_body]
fn serde_u8_via_yaml_deserializer<'de>(ev: &mut dyn Events<'de>, cfg: Cfg) -> (r: Result<u8, Error>)
    ensures match r {
        Ok(b) => old(ev).rest().len() > 0 && byte_elem(old(ev).rest()[0], cfg.legacy_octal_numbers) == Some(b)
                 && final(ev).rest() == old(ev).rest().skip(1),
        Err(_) => true },
{ unimplemented!() }

uninterp spec fn vis_none(v: Vis) -> Result<VisVal, Error>;
uninterp spec fn vis_unit(v: Vis) -> Result<VisVal, Error>;
/// what the visitor makes of a deserializer positioned at `rest` (it may consume any prefix of it)
uninterp spec fn vis_some<'de>(v: Vis, rest: Seq<Ev<'de>>, cfg: Cfg, in_key: bool, key_empty_map_node: bool) -> Result<VisVal, Error>;
impl Vis {
    #[verifier::external_body]
    fn visit_none(self) -> (r: Result<VisVal, Error>) ensures r == vis_none(self) { unimplemented!() }
    #[verifier::external_body]
    fn visit_unit(self) -> (r: Result<VisVal, Error>) ensures r == vis_unit(self) { unimplemented!() }
    #[verifier::external_body]
    fn visit_some<'de, 'e>(self, d: YamlDeserializer<'de, 'e>) -> (r: Result<VisVal, Error>)
        ensures r == vis_some(self, old(d.ev).rest(), d.cfg, d.in_key, d.key_empty_map_node)
    { unimplemented!() }
}

/// `Option<T>` is None for: nothing left, a container end where a value was expected, a `!!null` scalar, a null-like scalar
spec fn opt_none_scalar(e: Ev) -> bool {
    match e { Ev::Scalar { value, tag, style, .. } => tag == SfTag::Null
                || (value@.len() == 0 && !(style is SingleQuoted || style is DoubleQuoted))
                || (style is Plain && sp_null_text(encode_utf8(value@))), _ => false }
}
spec fn unit_scalar(e: Ev) -> bool {
    match e { Ev::Scalar { value, style, .. } => style is Plain && sp_null_text(encode_utf8(value@)), _ => false }
}

// ---- SA::next_element_seed: the element seed (serde side) is opaque ----
#[verifier::external_body]
pub struct ElemSeed { _p: () }     // stands for `T: DeserializeSeed<'de>`
#[verifier::external_body]
pub struct ElemVal { _p: () }      // stands for `T::Value`
uninterp spec fn elem_seed_result<'de>(seed: ElemSeed, rest: Seq<Ev<'de>>, cfg: Cfg, reference_location: Location, defined_location: Location) -> Result<Option<ElemVal>, Error>;
/// `seed.deserialize(YamlDeserializer::new(ev, cfg)).map(Some).map_err(|e| attach_alias_locations_if_missing(e, r, d))`
#[verifier::external_body]
fn seed_deserialize_element<'de>(seed: ElemSeed, ev: &mut dyn Events<'de>, cfg: Cfg, reference_location: Location, defined_location: Location) -> (r: Result<Option<ElemVal>, Error>)
    ensures r == elem_seed_result(seed, old(ev).rest(), cfg, reference_location, defined_location), !(r == Ok::<Option<ElemVal>, Error>(None)),
{ unimplemented!() }
impl MissingFieldLocationGuard {
    #[verifier::external_body]
    fn new(location: Location) -> MissingFieldLocationGuard { unimplemented!() }
}

// ---- untyped inference (deserialize_any) and bool/string entry points: more of the opaque visitor ----
uninterp spec fn vis_bool(v: Vis, b: bool) -> Result<VisVal, Error>;
uninterp spec fn vis_str(v: Vis, s: Seq<char>) -> Result<VisVal, Error>;
uninterp spec fn vis_f64(v: Vis, x: f64) -> Result<VisVal, Error>;
impl Vis {
    #[verifier::external_body] fn visit_bool(self, b: bool) -> (r: Result<VisVal, Error>) ensures r == vis_bool(self, b) { unimplemented!() }
    #[verifier::external_body] fn visit_string(self, s: String) -> (r: Result<VisVal, Error>) ensures r == vis_str(self, s@) { unimplemented!() }
    #[verifier::external_body] fn visit_borrowed_str(self, s: &str) -> (r: Result<VisVal, Error>) ensures r == vis_str(self, s@) { unimplemented!() }
    #[verifier::external_body] fn visit_str(self, s: &str) -> (r: Result<VisVal, Error>) ensures r == vis_str(self, s@) { unimplemented!() }
    #[verifier::external_body] fn visit_f64(self, x: f64) -> (r: Result<VisVal, Error>) ensures r == vis_f64(self, x) { unimplemented!() }
}
/// YAML 1.1 booleans: true/yes/y/on and false/no/n/off in any letter case
spec fn sp_yaml11(b: Seq<u8>) -> Option<bool> {
    if pl_eq_ci(b, seq![0x74u8, 0x72, 0x75, 0x65]) || pl_eq_ci(b, seq![0x79u8, 0x65, 0x73]) || pl_eq_ci(b, seq![0x79u8]) || pl_eq_ci(b, seq![0x6fu8, 0x6e]) { Some(true) }
    else if pl_eq_ci(b, seq![0x66u8, 0x61, 0x6c, 0x73, 0x65]) || pl_eq_ci(b, seq![0x6eu8, 0x6f]) || pl_eq_ci(b, seq![0x6eu8]) || pl_eq_ci(b, seq![0x6fu8, 0x66, 0x66]) { Some(false) }
    else { None }
}
/// strict booleans: only true / false in any letter case
spec fn sp_strict_bool(b: Seq<u8>) -> Option<bool> {
    if pl_eq_ci(b, seq![0x74u8, 0x72, 0x75, 0x65]) { Some(true) } else if pl_eq_ci(b, seq![0x66u8, 0x61, 0x6c, 0x73, 0x65]) { Some(false) } else { None }
}
proof fn lemma_bool_literals()
    ensures "true".spec_bytes() =~= seq![0x74u8, 0x72, 0x75, 0x65], "yes".spec_bytes() =~= seq![0x79u8, 0x65, 0x73], "y".spec_bytes() =~= seq![0x79u8],
        "on".spec_bytes() =~= seq![0x6fu8, 0x6e], "false".spec_bytes() =~= seq![0x66u8, 0x61, 0x6c, 0x73, 0x65], "no".spec_bytes() =~= seq![0x6eu8, 0x6f],
        "n".spec_bytes() =~= seq![0x6eu8], "off".spec_bytes() =~= seq![0x6fu8, 0x66, 0x66],
{
    reveal_strlit("true"); reveal_strlit("yes"); reveal_strlit("y"); reveal_strlit("on"); reveal_strlit("false"); reveal_strlit("no"); reveal_strlit("n"); reveal_strlit("off");
    is_ascii_chars_encode_utf8("true"@); is_ascii_chars_encode_utf8("yes"@); is_ascii_chars_encode_utf8("y"@); is_ascii_chars_encode_utf8("on"@);
    is_ascii_chars_encode_utf8("false"@); is_ascii_chars_encode_utf8("no"@); is_ascii_chars_encode_utf8("n"@); is_ascii_chars_encode_utf8("off"@);
}
/// `format!("invalid YAML 1.1 bool: `{}`", s)`
#[verifier::external_body] fn fmt_invalid_bool(s: &str) -> String { unimplemented!() }

// ---- string side ----
#[verifier::external_body] fn ty_cowstr_into_owned(v: CowStr<'_>) -> (r: String) ensures r@ == v@ { unimplemented!() }
/// `String::from_utf8(data)`
#[verifier::external_body]
fn ty_string_from_utf8(data: Vec<u8>) -> (r: Result<String, ()>)
    ensures match r { Ok(t) => valid_utf8(data@) && encode_utf8(t@) == data@, Err(_) => !valid_utf8(data@) },
{ unimplemented!() }
/// `s.strip_prefix(['+', '-'])`
#[verifier::external_body]
fn ty_str_strip_sign<'a>(s: &'a str) -> (r: Option<&'a str>)
    ensures match r {
        Some(rest) => s.spec_bytes().len() > 0 && (s.spec_bytes()[0] == 0x2b || s.spec_bytes()[0] == 0x2d) && rest.spec_bytes() == s.spec_bytes().skip(1),
        None => s.spec_bytes().len() == 0 || !(s.spec_bytes()[0] == 0x2b || s.spec_bytes()[0] == 0x2d) },
{ s.strip_prefix(['+', '-']) }
/// `s.chars().next()`: None iff empty; an ASCII first character is the first byte
#[verifier::external_body]
fn ty_str_first_char(s: &str) -> (r: Option<char>)
    ensures match r {
        None => s.spec_bytes().len() == 0,
        Some(c) => s.spec_bytes().len() > 0 && (((c as u32) < 0x80) == (s.spec_bytes()[0] < 0x80)) && ((c as u32) < 0x80 ==> c as u32 == s.spec_bytes()[0] as u32) },
{ s.chars().next() }
spec fn sp_leading_zero_decimal(tb: Seq<u8>) -> bool {
    let d = if tb.len() > 0 && (tb[0] == 0x2b || tb[0] == 0x2d) { tb.skip(1) } else { tb };
    d.len() >= 2 && d[0] == 0x30 && !(d[1] == 0x78 || d[1] == 0x58 || d[1] == 0x6f || d[1] == 0x4f || d[1] == 0x62 || d[1] == 0x42)
}
/// may this tag be read as a string?  (can_parse_into_string, the non-specific `!`, or !!binary when the option says so)
spec fn sp_string_tag_ok(tag: SfTag, ignore_binary: bool) -> bool {
    tag is None || tag is String || tag is Other || tag is NonSpecific || (ignore_binary && tag is Binary)
}

// ---- deserialize_any ----
uninterp spec fn sp_float(b: Seq<u8>, tag: SfTag, angle: bool) -> Option<f64>;
uninterp spec fn sp_is_finite(x: f64) -> bool;
uninterp spec fn sp_is_nan(x: f64) -> bool;
uninterp spec fn sp_is_neg(x: f64) -> bool;
/// `parse_yaml12_float::<f64>(s, location, tag, angle_conversions)`: float parsing is std (and, with the robotics
/// feature, the evaluator of unit `robotics`); an uninterpreted function of text, tag and option here
#[verifier::external_body]
fn ty_parse_float_f64(s: &str, location: Location, tag: SfTag, angle: bool) -> (r: Result<f64, Error>)
    ensures match r { Ok(v) => sp_float(s.spec_bytes(), tag, angle) == Some(v), Err(_) => sp_float(s.spec_bytes(), tag, angle) is None },
{ unimplemented!() }
#[verifier::external_body] fn ty_f64_is_finite(x: f64) -> (r: bool) ensures r == sp_is_finite(x) { x.is_finite() }
#[verifier::external_body] fn ty_f64_is_nan(x: f64) -> (r: bool) ensures r == sp_is_nan(x) { x.is_nan() }
#[verifier::external_body] fn ty_f64_is_sign_negative(x: f64) -> (r: bool) ensures r == sp_is_neg(x) { x.is_sign_negative() }
/// `match cow { Cow::Borrowed(b) => visitor.visit_borrowed_str(b), Cow::Owned(s) => visitor.visit_string(s) }`
#[verifier::external_body]
fn ty_visit_cowstr(visitor: Vis, cow: CowStr<'_>) -> (r: Result<VisVal, Error>) ensures r == vis_str(visitor, cow@) { unimplemented!() }
uninterp spec fn vis_seq<'de>(v: Vis, rest: Seq<Ev<'de>>, cfg: Cfg) -> Result<VisVal, Error>;
uninterp spec fn vis_map<'de>(v: Vis, rest: Seq<Ev<'de>>, cfg: Cfg) -> Result<VisVal, Error>;
impl<'de, 'e> YamlDeserializer<'de, 'e> {
    /// delegation targets of deserialize_any (generic over the visitor; opaque here)
    #[verifier::external_body]
    fn deserialize_seq(self, visitor: Vis) -> (r: Result<VisVal, Error>) ensures r == vis_seq(visitor, old(self.ev).rest(), self.cfg) { unimplemented!() }
    #[verifier::external_body]
    fn deserialize_map(self, visitor: Vis) -> (r: Result<VisVal, Error>) ensures r == vis_map(visitor, old(self.ev).rest(), self.cfg) { unimplemented!() }
    /// `deserialize_str` as a delegation target (its body up to the point where the text is lent is item deserialize_str#until_lent)
    #[verifier::external_body]
    fn deserialize_str(self, visitor: Vis) -> (r: Result<VisVal, Error>) ensures r == vis_as_str(visitor, old(self.ev).rest(), self.cfg) { unimplemented!() }
}
uninterp spec fn vis_as_str<'de>(v: Vis, rest: Seq<Ev<'de>>, cfg: Cfg) -> Result<VisVal, Error>;

/// the documented inference for an UNTAGGED PLAIN scalar that is not null-like: bool, then integer, then float, then string
spec fn sp_infer_plain(visitor: Vis, text: Seq<char>, tag: SfTag, cfg: Cfg) -> Result<VisVal, Error> {
    let b = encode_utf8(text);
    let t = spec_trim(b);
    let boolean = if cfg.strict_booleans { sp_strict_bool(t) } else { sp_yaml11(t) };
    if boolean is Some { vis_bool(visitor, boolean->Some_0) }
    else {
        let tt = spec_trim(t);
        let neg = t.len() > 0 && t[0] == 0x2d && !sp_leading_zero_decimal(tt);
        let si = int_spec(tt, cfg.legacy_octal_numbers);
        let ui = uint_spec(tt, cfg.legacy_octal_numbers);
        let s_ok = si is Some && i64::MIN <= si->Some_0 <= i64::MAX;
        let u_ok = ui is Some && ui->Some_0 <= u64::MAX;
        if neg && s_ok { vis_int(visitor, -64, si->Some_0) }
        else if !neg && u_ok { vis_int(visitor, 64, ui->Some_0) }
        else if !neg && s_ok { vis_int(visitor, -64, si->Some_0) }
        else { match sp_float(b, tag, cfg.angle_conversions) {
            Some(v) => if sp_is_finite(v) { vis_f64(visitor, v) }
                       else if sp_is_nan(v) { vis_str(visitor, ".nan"@) } else if sp_is_neg(v) { vis_str(visitor, "-.inf"@) } else { vis_str(visitor, ".inf"@) },
            None => vis_str(visitor, text) } }
    }
}

/// does a plain text look like a number, a boolean or null?  (no_schema mode asks for quotes then)
spec fn sp_looks_non_string(b: Seq<u8>) -> bool {
    sp_float(b, SfTag::None, false) is Some
    || (int_spec(spec_trim(b), false) is Some && i128::MIN <= int_spec(spec_trim(b), false)->Some_0 <= i128::MAX)
    || sp_yaml11(spec_trim(b)) is Some
    || sp_null_text(b)
}

// ---- slice entry points (C09): the options and the target type are opaque ----
#[verifier::external_body] pub struct Options { _p: () }
#[verifier::external_body] pub struct TargetVal { _p: () }     // stands for `T`
#[verifier::external_body] pub struct TargetVec { _p: () }     // stands for `Vec<T>`
uninterp spec fn sp_from_str(text: Seq<u8>, options: Options) -> Result<TargetVal, Error>;
uninterp spec fn sp_from_multiple(text: Seq<u8>, options: Options) -> Result<TargetVec, Error>;
#[verifier::external_body]
fn from_str_with_options(s: &str, options: Options) -> (r: Result<TargetVal, Error>) ensures r == sp_from_str(s.spec_bytes(), options) { unimplemented!() }
#[verifier::external_body]
fn from_multiple_with_options(s: &str, options: Options) -> (r: Result<TargetVec, Error>) ensures r == sp_from_multiple(s.spec_bytes(), options) { unimplemented!() }
/// `std::str::from_utf8`
#[verifier::external_body]
fn ty_str_from_utf8<'a>(b: &'a [u8]) -> (r: Result<&'a str, ()>)
    ensures match r { Ok(s) => valid_utf8(b@) && s.spec_bytes() == b@, Err(_) => !valid_utf8(b@) },
{ unimplemented!() }

// ---- deserialize_seq: the three sequence accesses handed to the visitor ----
uninterp spec fn vis_seq_empty(v: Vis) -> Result<VisVal, Error>;
uninterp spec fn vis_seq_bytes(v: Vis, data: Seq<u8>) -> Result<VisVal, Error>;
uninterp spec fn vis_seq_live<'de>(v: Vis, rest: Seq<Ev<'de>>, cfg: Cfg) -> Result<VisVal, Error>;
impl Vis {
    /// `visitor.visit_seq(EmptySeq)`
    #[verifier::external_body] fn visit_seq_empty(self) -> (r: Result<VisVal, Error>) ensures r == vis_seq_empty(self) { unimplemented!() }
    /// `visitor.visit_seq(ByteSeq { data, idx: 0 })`
    #[verifier::external_body] fn visit_seq_bytes(self, data: Vec<u8>) -> (r: Result<VisVal, Error>) ensures r == vis_seq_bytes(self, data@) { unimplemented!() }
    /// `visitor.visit_seq(SA { ev, cfg })`: the visitor pulls elements through SA::next_element_seed (contract above);
    /// how many it pulls is its own business, so nothing is known about the cursor afterwards
    #[verifier::external_body]
    fn visit_seq_live<'de>(self, ev: &mut dyn Events<'de>, cfg: Cfg) -> (r: Result<VisVal, Error>)
        ensures r == vis_seq_live(self, old(ev).rest(), cfg),
    { unimplemented!() }
}

// ---- deserialize_char ----
uninterp spec fn vis_char(v: Vis, c: char) -> Result<VisVal, Error>;
impl Vis {
    #[verifier::external_body]
    fn visit_char(self, c: char) -> (r: Result<VisVal, Error>)
        ensures r == vis_char(self, c),
    { unimplemented!() }
}
/// `let mut it = s.as_ref().chars(); (it.next(), it.next())`: the first two characters of the text
#[verifier::external_body]
fn cow_first_two_chars<'a>(s: &CowStr<'a>) -> (r: (Option<char>, Option<char>))
    ensures r.0 == (if s@.len() >= 1 { Some(s@[0]) } else { None::<char> }), r.1 == (if s@.len() >= 2 { Some(s@[1]) } else { None::<char> }),
{ unimplemented!() }

// ---- deserialize_str (borrowed string targets) ----
/// `visitor.visit_borrowed_str(b)`: the visitor is handed the text (the same function of the text as for an owned string:
/// C09 compares the two targets by the text they get)
#[verifier::external_body]
fn ty_visit_borrowed_str(v: Vis, b: &str) -> (r: Result<VisVal, Error>)
    ensures r == vis_str(v, b@),
{ unimplemented!() }
/// the owned fallback of deserialize_str (visit_string + the conversion of serde's "expected a borrowed string" message
/// into CannotBorrowTransformed): if it succeeds the visitor was handed the text
#[verifier::external_body]
fn ty_owned_fallback<'a>(v: Vis, cow: CowStr<'a>, location: Location) -> (r: Result<VisVal, Error>)
    ensures r is Ok ==> r == vis_str(v, cow@),
{ unimplemented!() }
/// `if let Cow::Borrowed(b) = cow`: whether the parser could lend the text
#[verifier::external_body]
fn cowstr_is_borrowed<'a>(c: &CowStr<'a>) -> (r: bool) ensures r == c.is_borrowed(), { unimplemented!() }

// ---- deserialize_f32 ----
uninterp spec fn sp_float32(b: Seq<u8>, tag: SfTag, angle: bool) -> Option<f32>;
uninterp spec fn vis_f32(v: Vis, x: f32) -> Result<VisVal, Error>;
#[verifier::external_body]
fn ty_parse_float_f32(s: &str, location: Location, tag: SfTag, angle: bool) -> (r: Result<f32, Error>)
    ensures match r { Ok(v) => sp_float32(s.spec_bytes(), tag, angle) == Some(v), Err(_) => sp_float32(s.spec_bytes(), tag, angle) is None },
{ unimplemented!() }
impl Vis {
    #[verifier::external_body]
    fn visit_f32(self, x: f32) -> (r: Result<VisVal, Error>) ensures r == vis_f32(self, x), { unimplemented!() }
}
/// `visitor.visit_newtype_struct(SpannedDeser { de, referenced, defined, state: 0 })`: the wrapped value is read from `de`
/// (untouched up to here), the two locations are handed on as they are
#[verifier::external_body]
fn visit_spanned<'de, 'e>(visitor: Vis, de: YamlDeserializer<'de, 'e>, referenced: Location, defined: Location) -> Result<VisVal, Error> { unimplemented!() }
// ---- Spanned<T>: the seeds serde hands to the synthetic struct view (opaque; results are uninterpreted functions of what they are given) ----
uninterp spec fn field_name_seed_result(seed: ElemSeed, name: Seq<char>) -> Result<Option<ElemVal>, Error>;
uninterp spec fn location_seed_result(seed: ElemSeed, l: Location) -> Result<ElemVal, Error>;
uninterp spec fn wrapped_value_seed_result<'de>(seed: ElemSeed, rest: Seq<Ev<'de>>, cfg: Cfg) -> Result<ElemVal, Error>;
/// `seed.deserialize(key.into_deserializer()).map(Some)`
#[verifier::external_body]
fn seed_on_field_name(seed: ElemSeed, key: &str) -> (r: Result<Option<ElemVal>, Error>) ensures r == field_name_seed_result(seed, key@), { unimplemented!() }
/// `seed.deserialize(LocationDeser { location })`
#[verifier::external_body]
fn seed_on_location(seed: ElemSeed, location: Location) -> (r: Result<ElemVal, Error>) ensures r == location_seed_result(seed, location), { unimplemented!() }
/// `seed.deserialize(Deserializer::new(&mut *ev, cfg))`
#[verifier::external_body]
fn seed_on_wrapped_value<'de>(seed: ElemSeed, ev: &mut dyn Events<'de>, cfg: Cfg) -> (r: Result<ElemVal, Error>) ensures r == wrapped_value_seed_result(seed, old(ev).rest(), cfg), { unimplemented!() }
/// `Error::msg(text)`
#[verifier::external_body]
fn error_msg(text: &str) -> (r: Error) ensures !(r is IOError), { unimplemented!() }
uninterp spec fn u32_seed_result(seed: ElemSeed, v: u32) -> Result<ElemVal, Error>;
uninterp spec fn u64_seed_result(seed: ElemSeed, v: u64) -> Result<ElemVal, Error>;
uninterp spec fn u64_some_seed_result(seed: ElemSeed, v: u64) -> Result<Option<ElemVal>, Error>;
uninterp spec fn span_seed_result(seed: ElemSeed, s: Span) -> Result<ElemVal, Error>;
uninterp spec fn byte_info_seed_result(seed: ElemSeed, b: (SpanIndex, SpanIndex)) -> Result<ElemVal, Error>;
#[verifier::external_body] fn seed_on_u32(seed: ElemSeed, v: u32) -> (r: Result<ElemVal, Error>) ensures r == u32_seed_result(seed, v), { unimplemented!() }
#[verifier::external_body] fn seed_on_u64(seed: ElemSeed, v: u64) -> (r: Result<ElemVal, Error>) ensures r == u64_seed_result(seed, v), { unimplemented!() }
#[verifier::external_body] fn seed_on_u64_some(seed: ElemSeed, v: u64) -> (r: Result<Option<ElemVal>, Error>) ensures r == u64_some_seed_result(seed, v), { unimplemented!() }
#[verifier::external_body] fn seed_on_span(seed: ElemSeed, s: Span) -> (r: Result<ElemVal, Error>) ensures r == span_seed_result(seed, s), { unimplemented!() }
#[verifier::external_body] fn seed_on_byte_info(seed: ElemSeed, b: (SpanIndex, SpanIndex)) -> (r: Result<ElemVal, Error>) ensures r == byte_info_seed_result(seed, b), { unimplemented!() }
