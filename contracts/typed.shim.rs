// ===== unit `typed`: the serde Visitor is opaque; what it returns is an uninterpreted function of what it is given =====
#[verifier::external_body]
struct Vis { _p: () }          // stands for `V: Visitor<'de>`
#[verifier::external_body]
struct VisVal { _p: () }       // stands for `V::Value`

uninterp spec fn vis_int(v: Vis, width: int, x: int) -> Result<VisVal, Error>;

impl Vis {
    #[verifier::external_body]
    fn visit_i8(self, v: i8) -> (r: Result<VisVal, Error>)
        ensures r == vis_int(self, -8, v as int),
    { unimplemented!() }
}
impl Vis {
    #[verifier::external_body]
    fn visit_i16(self, v: i16) -> (r: Result<VisVal, Error>)
        ensures r == vis_int(self, -16, v as int),
    { unimplemented!() }
}
impl Vis {
    #[verifier::external_body]
    fn visit_i32(self, v: i32) -> (r: Result<VisVal, Error>)
        ensures r == vis_int(self, -32, v as int),
    { unimplemented!() }
}
impl Vis {
    #[verifier::external_body]
    fn visit_i64(self, v: i64) -> (r: Result<VisVal, Error>)
        ensures r == vis_int(self, -64, v as int),
    { unimplemented!() }
}
impl Vis {
    #[verifier::external_body]
    fn visit_i128(self, v: i128) -> (r: Result<VisVal, Error>)
        ensures r == vis_int(self, -128, v as int),
    { unimplemented!() }
}
impl Vis {
    #[verifier::external_body]
    fn visit_u8(self, v: u8) -> (r: Result<VisVal, Error>)
        ensures r == vis_int(self, 8, v as int),
    { unimplemented!() }
}
impl Vis {
    #[verifier::external_body]
    fn visit_u16(self, v: u16) -> (r: Result<VisVal, Error>)
        ensures r == vis_int(self, 16, v as int),
    { unimplemented!() }
}
impl Vis {
    #[verifier::external_body]
    fn visit_u32(self, v: u32) -> (r: Result<VisVal, Error>)
        ensures r == vis_int(self, 32, v as int),
    { unimplemented!() }
}
impl Vis {
    #[verifier::external_body]
    fn visit_u64(self, v: u64) -> (r: Result<VisVal, Error>)
        ensures r == vis_int(self, 64, v as int),
    { unimplemented!() }
}
impl Vis {
    #[verifier::external_body]
    fn visit_u128(self, v: u128) -> (r: Result<VisVal, Error>)
        ensures r == vis_int(self, 128, v as int),
    { unimplemented!() }
}

uninterp spec fn vis_bytes(v: Vis, bytes: Seq<u8>) -> Result<VisVal, Error>;
impl Vis {
    #[verifier::external_body]
    fn visit_byte_buf(self, v: Vec<u8>) -> (r: Result<VisVal, Error>)
        ensures r == vis_bytes(self, v@),
    { unimplemented!() }
}

/// what one element of a byte sequence must be: an integer scalar whose exact value fits u8
spec fn byte_elem(e: Ev, legacy: bool) -> Option<u8> {
    match e {
        Ev::Scalar { value, .. } => match uint_spec(spec_trim(encode_utf8(value@)), legacy) {
            Some(x) => if x <= 255 { Some(x as u8) } else { None },
            None => None },
        _ => None }
}

/// the bytes spelled by `rest[i..]` up to the closing SeqEnd (None: not a well-formed byte sequence)
spec fn seq_bytes(rest: Seq<Ev>, i: int, legacy: bool) -> Option<Seq<u8>>
    decreases rest.len() - i,
{
    if i < 0 || i >= rest.len() { None }
    else if rest[i] is SeqEnd { Some(Seq::<u8>::empty()) }
    else { match byte_elem(rest[i], legacy) {
        None => None,
        Some(b) => match seq_bytes(rest, i + 1, legacy) { None => None, Some(t) => Some(seq![b] + t) } } }
}

/// prefix `out` collected from rest[1..1+out.len()] — forward (loop) view of `seq_bytes`
spec fn seq_bytes_from(rest: Seq<Ev>, out: Seq<u8>, legacy: bool) -> Option<Seq<u8>> {
    match seq_bytes(rest, (1 + out.len() as int), legacy) { None => None, Some(t) => Some(out + t) }
}

proof fn lemma_seq_bytes_step(rest: Seq<Ev>, out: Seq<u8>, b: u8, legacy: bool)
    requires (1 + out.len() as int) < rest.len(), !(rest[(1 + out.len() as int)] is SeqEnd), byte_elem(rest[(1 + out.len() as int)], legacy) == Some(b),
    ensures seq_bytes_from(rest, out.push(b), legacy) == seq_bytes_from(rest, out, legacy),
{
    match seq_bytes(rest, (2 + out.len() as int), legacy) {
        None => {},
        Some(t) => { assert(out.push(b) + t =~= out + (seq![b] + t)); } }
}

/// `<u8 as serde::Deserialize>::deserialize(YamlDeserializer::new(ev, cfg))`.
/// ASSUMED (dependency): serde's `impl Deserialize for u8` is `deserializer.deserialize_u8(v)` with a visitor whose
/// `visit_u8` returns its argument.  Composed with `deserialize_u8` (contract proved in this unit) this gives:
#[verifier::external_body]
fn serde_u8_via_yaml_deserializer<'de>(ev: &mut dyn Events<'de>, cfg: Cfg) -> (r: Result<u8, Error>)
    ensures match r {
        Ok(b) => old(ev).rest().len() > 0 && byte_elem(old(ev).rest()[0], cfg.legacy_octal_numbers) == Some(b)
                 && final(ev).rest() == old(ev).rest().skip(1),
        Err(_) => true },
{ unimplemented!() }

uninterp spec fn vis_none(v: Vis) -> Result<VisVal, Error>;
uninterp spec fn vis_unit(v: Vis) -> Result<VisVal, Error>;
/// what the visitor makes of a deserializer positioned at `rest` (it may consume any prefix of it)
uninterp spec fn vis_some<'de>(v: Vis, rest: Seq<Ev<'de>>, cfg: Cfg, in_key: bool, key_empty_map_node: bool) -> Result<VisVal, Error>;
impl Vis {
    #[verifier::external_body]
    fn visit_none(self) -> (r: Result<VisVal, Error>) ensures r == vis_none(self) { unimplemented!() }
    #[verifier::external_body]
    fn visit_unit(self) -> (r: Result<VisVal, Error>) ensures r == vis_unit(self) { unimplemented!() }
    #[verifier::external_body]
    fn visit_some<'de, 'e>(self, d: YamlDeserializer<'de, 'e>) -> (r: Result<VisVal, Error>)
        ensures r == vis_some(self, old(d.ev).rest(), d.cfg, d.in_key, d.key_empty_map_node)
    { unimplemented!() }
}

/// `Option<T>` is None for: nothing left, a container end where a value was expected, a `!!null` scalar, a null-like scalar
spec fn opt_none_scalar(e: Ev) -> bool {
    match e { Ev::Scalar { value, tag, style, .. } => tag == SfTag::Null
                || (value@.len() == 0 && !(style is SingleQuoted || style is DoubleQuoted))
                || (style is Plain && sp_null_text(encode_utf8(value@))), _ => false }
}
spec fn unit_scalar(e: Ev) -> bool {
    match e { Ev::Scalar { value, style, .. } => style is Plain && sp_null_text(encode_utf8(value@)), _ => false }
}

// ---- SA::next_element_seed: the element seed (serde side) is opaque ----
#[verifier::external_body]
pub struct ElemSeed { _p: () }     // stands for `T: DeserializeSeed<'de>`
#[verifier::external_body]
pub struct ElemVal { _p: () }      // stands for `T::Value`
uninterp spec fn elem_seed_result<'de>(seed: ElemSeed, rest: Seq<Ev<'de>>, cfg: Cfg, reference_location: Location, defined_location: Location) -> Result<Option<ElemVal>, Error>;
/// `seed.deserialize(YamlDeserializer::new(ev, cfg)).map(Some).map_err(|e| attach_alias_locations_if_missing(e, r, d))`
#[verifier::external_body]
fn seed_deserialize_element<'de>(seed: ElemSeed, ev: &mut dyn Events<'de>, cfg: Cfg, reference_location: Location, defined_location: Location) -> (r: Result<Option<ElemVal>, Error>)
    ensures r == elem_seed_result(seed, old(ev).rest(), cfg, reference_location, defined_location), !(r == Ok::<Option<ElemVal>, Error>(None)),
{ unimplemented!() }
impl MissingFieldLocationGuard {
    #[verifier::external_body]
    fn new(location: Location) -> MissingFieldLocationGuard { unimplemented!() }
}
