// ===== unit `typed`: the serde Visitor is opaque; what it returns is an uninterpreted function of what it is given =====
#[verifier::external_body]
struct Vis { _p: () }          // stands for `V: Visitor<'de>`
#[verifier::external_body]
struct VisVal { _p: () }       // stands for `V::Value`

uninterp spec fn vis_int(v: Vis, width: int, x: int) -> Result<VisVal, Error>;

impl Vis {
    #[verifier::external_body]
    fn visit_i8(self, v: i8) -> (r: Result<VisVal, Error>)
        ensures r == vis_int(self, -8, v as int),
    { unimplemented!() }
}
impl Vis {
    #[verifier::external_body]
    fn visit_i16(self, v: i16) -> (r: Result<VisVal, Error>)
        ensures r == vis_int(self, -16, v as int),
    { unimplemented!() }
}
impl Vis {
    #[verifier::external_body]
    fn visit_i32(self, v: i32) -> (r: Result<VisVal, Error>)
        ensures r == vis_int(self, -32, v as int),
    { unimplemented!() }
}
impl Vis {
    #[verifier::external_body]
    fn visit_i64(self, v: i64) -> (r: Result<VisVal, Error>)
        ensures r == vis_int(self, -64, v as int),
    { unimplemented!() }
}
impl Vis {
    #[verifier::external_body]
    fn visit_i128(self, v: i128) -> (r: Result<VisVal, Error>)
        ensures r == vis_int(self, -128, v as int),
    { unimplemented!() }
}
impl Vis {
    #[verifier::external_body]
    fn visit_u8(self, v: u8) -> (r: Result<VisVal, Error>)
        ensures r == vis_int(self, 8, v as int),
    { unimplemented!() }
}
impl Vis {
    #[verifier::external_body]
    fn visit_u16(self, v: u16) -> (r: Result<VisVal, Error>)
        ensures r == vis_int(self, 16, v as int),
    { unimplemented!() }
}
impl Vis {
    #[verifier::external_body]
    fn visit_u32(self, v: u32) -> (r: Result<VisVal, Error>)
        ensures r == vis_int(self, 32, v as int),
    { unimplemented!() }
}
impl Vis {
    #[verifier::external_body]
    fn visit_u64(self, v: u64) -> (r: Result<VisVal, Error>)
        ensures r == vis_int(self, 64, v as int),
    { unimplemented!() }
}
impl Vis {
    #[verifier::external_body]
    fn visit_u128(self, v: u128) -> (r: Result<VisVal, Error>)
        ensures r == vis_int(self, 128, v as int),
    { unimplemented!() }
}
