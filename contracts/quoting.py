"""Unit `quoting`: escaping and comment handling of the emitter (src/ser.rs), plain-safety predicates."""
from contracts_types import *
NAME = 'quoting'
FEATURES = []
# serialize_str#block costs 54-126 M resource units depending on the solver seed (measured over nine seeds; it never diverges):
# the default limit of 30 (90 M) sits inside that range, so this unit asks for 60 (180 M)
RLIMIT = 60
USES = ['use vstd::string::*;', 'use vstd::utf8::*;']
PRELUDE = ['crop.spec.rs', 'crop.shim.rs', 'plain.spec.rs', 'plain.shim.rs', 'quoting.shim.rs', 'quoting.spec.rs']
SUBST = [
    (r"YamlSerializer<'a, W: Write>", "YamlSerializer<'a>"),
    (r"impl<'a, W: Write> YamlSerializer<'a, W>", "impl<'a> YamlSerializer<'a>"),
    (r"out: &'a mut W,", "out: &'a mut Sink,"),
    (r'HashMap<usize, AnchorId, BuildNoHashHasher<usize>>', 'AnchorMap'),
    (r'Option<fn\(usize\) -> String>', 'Option<AnchorGen>'),
    (r'-> Result<\(\)>', '-> Result<(), SerError>'),
]
SR = 'src/ser.rs'
import importlib.util as _ilu, os as _os
def _load(n):
    sp = _ilu.spec_from_file_location('contracts_%s_for_quoting' % n, _os.path.join(_os.path.dirname(__file__), n + '.py'))
    m = _ilu.module_from_spec(sp); sp.loader.exec_module(m); return m
_pl = _load('plain')
def _callee(path):
    it = dict([x for x in _pl.ITEMS if x.get('path') == path][0])
    it.update(trusted=True, props=[])
    for k in ('canaries', 'proofs', 'loops', 'rewrites', 'pre_rewrites', 'lift_nested_fns'): it.pop(k, None)
    return it
WRITES = ('''r is Ok ==> ({ let t0 = old(self).out.text(); let t1 = final(self).out.text(); let b = s.spec_bytes();
                ||| (t1 =~= t0 + s@ && !old(self).quote_all && !sp_ambiguous(b) && plain_reads_back(b, %s))
                ||| t1 =~= t0.push('"') + dq_body(s@) + seq!['"']
                ||| (t1 =~= t0.push('\\'') + sq_body(s@) + seq!['\\''] && old(self).quote_all && !needs_dq(s@)) })''')

CHARS = [(1, 'chars')]
import re as _re
# `matches!(s.as_bytes().get(I), Some(b'x' | b'y'))` -> `ascii_byte_in(s, I, &[b'x', b'y'])`: the byte alternatives stay in the verified text
_BYTE_SET = lambda m: 'ascii_byte_in(s, %s, &[%s])' % (m.group(1), ', '.join(x.strip() for x in m.group(2).split('|')))
def _on_sink(item):
    """R38: a method that touches `self` only through `self.out` is verified as a function of that field (`out: &mut Sink`);
    the method itself is a two-line wrapper in quoting.shim.rs whose frame (`same_pos`) then holds by construction.  If a
    change makes the body use another field, the rewritten text no longer compiles and the item is reported UNDECIDED."""
    def sub(t):
        t = t.replace('old(self).out', 'old(out)').replace('final(self).out', 'final(out)').replace('self.out', 'out')
        return t
    it = dict(item)
    name = it['path'].split('fn ')[-1]
    it['rename'] = name + '__out'
    it['pre_rewrites'] = list(it.get('pre_rewrites', [])) + [(r'fn %s\(&mut self, ' % name, 'fn %s(out: &mut Sink, ' % name, 1, 'R38'),
                                                             (r'\bself\.out\b', 'out', None, 'R38')]
    if 'rewrites' in it: it['rewrites'] = [(rw[0].replace(r'self\.out', 'out'), rw[1].replace('self.out', 'out')) + tuple(rw[2:]) for rw in it['rewrites']]
    for k in ('ensures', 'requires'):
        if k in it: it[k] = [(l, sub(t)) for (l, t) in it[k] if l != 'frame']
    if 'proofs' in it: it['proofs'] = [dict(p, text=sub(p['text'])) for p in it['proofs']]
    if 'loops' in it:
        it['loops'] = {k: dict(v, invariant=[(l, sub(t).replace('same_pos(self, old(self)) && ', '')) for (l, t) in v.get('invariant', [])]) for k, v in it['loops'].items()}
    return it
ITEMS = [
    dict(src=SR, path='enum PendingFlow', derive='#[derive(Clone, Copy, PartialEq, Eq)]'),
    dict(src=SR, path='enum StrStyle', derive='#[derive(Clone, Copy, PartialEq, Eq)]'),
    dict(src=SR, path='type AnchorId'),
    dict(src=SR, path='struct YamlSerializer'),
    dict(src=SR, path='impl YamlSerializer/fn newline', props=['C20'],
         ensures=[('appends_newline', 'r is Ok ==> final(self).out.text() == old(self).out.text().push(\'\\n\')'),
                  ('frame', 'final(self).in_flow == old(self).in_flow && final(self).pending_inline_comment == old(self).pending_inline_comment'),
                  ('frame_block', 'same_block_cfg(final(self), old(self)) && final(self).doc_started == old(self).doc_started && final(self).pending_space_after_colon == old(self).pending_space_after_colon && final(self).last_scalar_kept_breaks == old(self).last_scalar_kept_breaks'),
                  ('next_write_is_at_a_line_start', 'r is Ok ==> final(self).at_line_start')]),
    _on_sink(dict(src=SR, path='impl YamlSerializer/fn write_quoted', props=['C12', 'C01'], loop_rewrites=CHARS,
         rewrites=[(r'write!\(self\.out, "\\\\x\{:02X\}", c as u32\)\?', 'self.out.write_x2(c as u32)?', None, 'R12'),
                   (r'write!\(self\.out, "\\\\u\{:04X\}", c as u32\)\?', 'self.out.write_u4(c as u32)?', None, 'R12'),
                   (r'\(0x7F\.\.=0x9F\)\.contains\(&\(c as u32\)\)', '(0x7F <= (c as u32) && (c as u32) <= 0x9F)', None, 'R24')],
         proofs=[dict(at='start', ghost=True, text='let ghost t0 = self.out.text();'),
                 dict(after='__i1 += 1;', text='''
                     assert(s@.take(__i1 as int).drop_last() =~= s@.take(__i1 as int - 1));
                     assert(s@.take(__i1 as int).last() == ch);
                     reveal_strlit("\\\\\\\\"); reveal_strlit("\\\\\\""); reveal_strlit("\\\\0"); reveal_strlit("\\\\a"); reveal_strlit("\\\\b");
                     reveal_strlit("\\\\t"); reveal_strlit("\\\\n"); reveal_strlit("\\\\v"); reveal_strlit("\\\\f"); reveal_strlit("\\\\r");
                     reveal_strlit("\\\\e"); reveal_strlit("\\\\uFEFF"); reveal_strlit("\\\\N"); reveal_strlit("\\\\L"); reveal_strlit("\\\\P");'''),
                 dict(after_loop=1, text='assert(s@.take(__i1 as int) =~= s@);')],
         ensures=[('C12:double_quoted_text_is_the_yaml_escape_of_every_character',
                   'r is Ok ==> final(self).out.text() =~= old(self).out.text().push(\'"\') + dq_body(s@) + seq![\'"\']'),
                  ('frame', 'same_pos(final(self), old(self))')],
         loops={1: dict(invariant=[('prefix_escaped', '''same_pos(self, old(self)) && __n1 == s@.len() && __i1 <= __n1
                        && self.out.text() =~= t0.push('"') + dq_body(s@.take(__i1 as int))''')],
                        decreases='__n1 - __i1')},
         canaries=['C12:double_quoted_text_is_the_yaml_escape_of_every_character'])),
    _on_sink(dict(src=SR, path='impl YamlSerializer/fn write_single_quoted', props=['C12', 'C01'], loop_rewrites=CHARS,
         proofs=[dict(at='start', ghost=True, text='let ghost t0 = self.out.text();'),
                 dict(after='__i1 += 1;', text='''
                     assert(s@.take(__i1 as int).drop_last() =~= s@.take(__i1 as int - 1));
                     assert(s@.take(__i1 as int).last() == ch);
                     reveal_strlit("''");'''),
                 dict(after_loop=1, text='assert(s@.take(__i1 as int) =~= s@);')],
         ensures=[('C12:single_quoted_text_doubles_every_quote',
                   "r is Ok ==> final(self).out.text() =~= old(self).out.text().push('\\'') + sq_body(s@) + seq!['\\'']"),
                  ('frame', 'same_pos(final(self), old(self))')],
         loops={1: dict(invariant=[('prefix_escaped', '''same_pos(self, old(self)) && __n1 == s@.len() && __i1 <= __n1
                        && self.out.text() =~= t0.push('\\'') + sq_body(s@.take(__i1 as int))''')],
                        decreases='__n1 - __i1')},
         canaries=['C12:single_quoted_text_doubles_every_quote'])),
    dict(src=SR, path='impl YamlSerializer/fn write_end_of_scalar', props=['C20', 'C01'],
         rewrites=[(r'self\.out\.write_str\(&c\)\?', 'self.out.write_str(c.as_str())?', None, 'R15')],
         proofs=[dict(at='start', text='reveal_strlit(" # ");')],
         ensures=[
             ('C20:no_comment_inside_flow_context', 'old(self).in_flow != 0 ==> r is Ok && final(self).out.text() == old(self).out.text()'),
             ('C20:comment_is_emitted_as_hash_text_newline', '''old(self).in_flow == 0 && r is Ok ==> final(self).out.text() =~= (
                    match old(self).pending_inline_comment {
                        Some(c) => old(self).out.text() + seq![' ', '#', ' '] + c@ + seq!['\\n'],
                        None => old(self).out.text().push('\\n') })'''),
             ('C20:staged_comment_is_consumed', 'old(self).in_flow == 0 && r is Ok ==> final(self).pending_inline_comment is None'),
         ],
         canaries=['C20:no_comment_inside_flow_context', 'C20:comment_is_emitted_as_hash_text_newline']),
    # TupleSer::serialize_field is generic over serde::Serialize; the statement that stages the comment is lifted
    dict(src=SR, path='impl SerializeTupleStruct for TupleSer/fn serialize_field', id='TupleSer::serialize_field#stage_comment',
         fragment=r'let sanitized = [^;]*;', props=['C20'],
         wrapper='fn stage_comment_fragment(comment: String) -> String { {FRAG} sanitized }',
         bounded=dict(harness='bounded/stage_comment.rs', items=[('src/ser.rs', 'impl SerializeTupleStruct for TupleSer/fn serialize_field', r'let sanitized = [^;]*;',
                                                                   'fn stage_comment_fragment(comment: String) -> String { {FRAG} sanitized }')]),
         rewrites=[(r"comment\.replace\(\['\\n', '\\r'\], \" \"\)", "string_replace_chars2(&comment, '\\\\n', '\\\\r', \" \")", None, 'R8'),
                   (r"comment\.replace\('\\n', \" \"\)", "string_replace_char(&comment, '\\\\n', \" \")", None, 'R8')],
         proofs=[dict(at='start', text='reveal_strlit(" "); lemma_replaced2_break_free(comment@); assert(" "@ =~= seq![\' \']);')],
         ensures=[('C20:staged_comment_has_no_line_break', 'break_free(r@)')],
         canaries=['C20:staged_comment_has_no_line_break']),
    dict(src='src/wrapping.rs', path='fn first_line_leading_spaces', props=['C12', 'C20', 'C01'],
         bounded=dict(harness='bounded/wrapping.rs', items=[('src/wrapping.rs', '*')], subs=[(r'use crate::ser::Result;', 'use super::ser::Result;')]),
         loop_rewrites=[(1, 'split_lf')],
         rewrites=[(r"\b(\w+)\.trim_start_matches\(' '\)", r"str_trim_start_spaces(\1)", None, 'R8'),
                   (r'\b(\w+)\.len\(\) - (\w+(?:\([^()]*\))?)\.len\(\)', r'str_len_diff(\1, \2)', None, 'R8'),
                   (r'\b(\w+)\.is_empty\(\)', r'str_is_empty(\1)', None, 'R8')],
         proofs=[dict(after='__i1 += 1;', text='lemma_leading_spaces_prefix(line@);')],
         ensures=[('C12:indent_indicator_counts_spaces_of_first_non_empty_line', 'r == first_line_spaces(split_lines(s@), 0)')],
         loops={1: dict(invariant=[('prefix_lines_empty', '''__v1@.len() == split_lines(s@).len() && __i1 <= __v1@.len()
                        && (forall|i: int| 0 <= i < __v1@.len() ==> (#[trigger] __v1@[i])@ == split_lines(s@)[i])
                        && first_line_spaces(split_lines(s@), 0) == first_line_spaces(split_lines(s@), __i1 as int)''')],
                        decreases='__v1@.len() - __i1')},
         canaries=['C12:indent_indicator_counts_spaces_of_first_non_empty_line']),
    # ---- the decision "plain or quoted" (C12): raw text is written only when YAML reads it back as the same string
    _callee('fn is_plain_safe'), _callee('fn is_plain_value_safe'), _callee('fn has_unsafe_plain_edge'),
    dict(src=SR, path='impl YamlSerializer/fn needs_double_quotes', trusted=True, props=[], bounded_props=['C12', 'C01'], bounded_only=True,
         bounded=dict(harness='bounded/char_predicates.rs', items=[('src/ser.rs', 'impl YamlSerializer/fn needs_double_quotes')], cfgs=['has_needs_dq']),
         ensures=[('C12:single_quoted_style_is_refused_exactly_for_text_with_a_quote_a_backslash_or_a_control_character', 'r == needs_dq(s@)')]),
    dict(src=SR, path='impl YamlSerializer/fn write_plain_or_quoted', props=['C12', 'C01'],
         ensures=[('C12:a_key_is_written_raw_only_if_it_reads_back_as_itself_else_quoted', WRITES % 'false'),
                  ('frame', 'same_pos(final(self), old(self))')],
         canaries=['C12:a_key_is_written_raw_only_if_it_reads_back_as_itself_else_quoted']),
    dict(src=SR, path='impl YamlSerializer/fn write_plain_or_quoted_value', props=['C12', 'C01'],
         ensures=[('C12:a_value_is_written_raw_only_if_it_reads_back_as_itself_else_quoted', WRITES % 'old(self).in_flow > 0'),
                  ('frame', 'same_pos(final(self), old(self))')],
         canaries=['C12:a_value_is_written_raw_only_if_it_reads_back_as_itself_else_quoted']),
    # ---- folding of long single lines (C20 / C12: a fold replaces exactly one space of a run by the line break) ----
    dict(src='src/wrapping.rs', path='fn write_folded_block', props=['C20', 'C12', 'C01'],
         bounded=dict(harness='bounded/wrapping.rs', items=[('src/wrapping.rs', '*')], subs=[(r'use crate::ser::Result;', 'use super::ser::Result;')]),
         pre_rewrites=[(r'pub fn write_folded_block<W: Write>\(\s*out: &mut W,', 'fn write_folded_block(\n    out: &mut Sink,', 1, 'R9'),
                       (r'indent_buf\.reserve\(spaces\);', '', 1, 'R36')],
         loop_rewrites=[(1, 'range'), (2, 'split_lf'), (3, 'char_indices'), (4, 'range')],
         rewrites=[(r"indent_buf\.push\(' '\);", "string_push(&mut indent_buf, ' ');", 1, 'R8'),
                   (r'line\.is_empty\(\)', 'str_is_empty(line)', 1, 'R8'),
                   (r"line\.starts_with\(('(?:\\.|[^'\\])')\)", r"pl_str_starts_with_char(line, \1)", None, 'R8'),
                   (r'&line\[start\.\.ws_start\]', 'str_slice(line, start, ws_start)', 1, 'R8'),
                   (r'&line\[start\.\.\]', 'str_slice(line, start, str_len(line))', 1, 'R8')],
         requires=[('indent_fits', 'indent_step * indent <= usize::MAX')],
         proofs=[
            dict(after='let mut start = 0usize;', ghost=True, text='''let ghost cs = line@; let ghost mut ks: int = 0; let ghost mut la: int = 0; let ghost mut lb: int = 0; let ghost mut ra: int = 0;
                 let ghost mut u: Seq<char> = Seq::<char>::empty();'''),
            dict(after='let mut start = 0usize;', text='''axiom_str_len_bounded(line); lemma_char_off_ends(cs); lemma_char_offs_are_boundaries(cs);
                 assert(cs.subrange(0, 0) =~= Seq::<char>::empty());
                 assert(cs.len() > 0 && cs[0] != ' ') by { lemma_first_char_not_space(line); }
                 if !(line.spec_bytes().len() > 0 && line.spec_bytes()[0] == 0x09) { lemma_first_char_not(line, '\\t'); }'''),
            dict(after_re=r'let \(i, ch\) = __v3\[__i3\]; __i3 \+= 1;', text='let k = __i3 - 1; lemma_char_off_step(cs, k); if k > 0 { lemma_char_off_step(cs, k - 1); } lemma_char_off_monotonic(cs, k + 1, cs.len() as int); lemma_char_off_ends(cs); lemma_char_offs_are_boundaries(cs); assert(i == char_off(cs, k) && ch == cs[k]);'),
            dict(after='last_space_run = Some((run_start, run_end, run_len));', text='la = ra; lb = __i3 - 1;'),
            dict(after='run_start = i;', text='ra = __i3 - 1;'),
            dict(before='out.write_str(str_slice(line, start, ws_start))?;', label='C20:a_line_is_broken_only_at_a_run_of_spaces_after_a_non_empty_piece_and_the_next_piece_starts_with_a_non_space',
                 text='''assert(ks < la && la < lb && lb < cs.len() && all_spaces(cs, la, lb) && cs[lb] != ' ' && ws_len == lb - la
                        && ws_start == char_off(cs, la) && ws_end == char_off(cs, lb) && start == char_off(cs, ks));
                      lemma_char_off_monotonic(cs, ks, la);'''),
            dict(before='out.write_str(str_slice(line, start, ws_start))?;', label='C20:a_folded_line_and_every_continuation_piece_start_with_neither_space_nor_tab',
                 text="assert(cs[0] != ' ' && cs[0] != '\\t' && cs[lb] != ' ' && cs[lb] != '\\t');"),
            dict(before='out.write_str(str_slice(line, start, ws_start))?;', ghost=True, text='let ghost t_piece = out.text();'),
            dict(after_re=r'\bstart = ws_\w+;', label='C20:a_fold_swallows_exactly_one_space_of_the_run',
                 text='''lemma_fold_piece(cs, ks, la, lb);
                      assert(out.text() =~= t_piece + cs.subrange(ks, la) + fold_spaces(lb - la - 1) + seq!['\\n']);
                      u = u + cs.subrange(ks, la) + fold_spaces(lb - la - 1) + seq![' '];
                      assert(u =~= cs.subrange(0, lb));
                      ks = lb;'''),
            dict(before_re=r'out\.write_str\(str_slice\(line, start, str_len\(line\)\)\)\?;', label='C20:the_pieces_joined_by_single_spaces_are_the_original_line',
                 text='lemma_char_off_ends(cs); lemma_char_offs_are_boundaries(cs); lemma_char_off_monotonic(cs, ks, cs.len() as int); assert(u + cs.subrange(ks, cs.len() as int) =~= cs);'),
         ],
         loops={
            1: dict(invariant=[('indent_is_spaces', '__i1 <= __n1 && __n1 == spaces')], decreases='__n1 - __i1'),
            2: dict(invariant=[('lines', '__i2 <= __v2@.len()')], decreases='__v2@.len() - __i2'),
            3: dict(invariant_except_break=[
                    ('chars', '''cs == line@ && __v3@.len() == cs.len() && __i3 <= __v3@.len() && cs.len() <= isize::MAX
                        && (forall|j: int| 0 <= j < __v3@.len() ==> (#[trigger] __v3@[j]).0 == char_off(cs, j) && __v3@[j].1 == cs[j])'''),
                    ('piece_start', '0 <= ks <= __i3 && start == char_off(cs, ks) && (ks < cs.len() ==> cs[ks] != \' \') && u =~= cs.subrange(0, ks) && col <= __i3'),
                    ('last_completed_run', '''last_space_run is Some ==> ({ let (rs, re, rl) = last_space_run->Some_0;
                        ks < la && la < lb && lb <= __i3 && lb < cs.len() && rs == char_off(cs, la) && re == char_off(cs, lb) && rl == lb - la && all_spaces(cs, la, lb) && cs[lb] != ' ' })'''),
                    ('C20:a_fold_point_is_never_followed_by_a_tab', 'last_space_run is Some ==> 0 <= lb < cs.len() && cs[lb] != \'\\t\''),
                    ('C20:a_line_that_may_be_folded_starts_with_neither_space_nor_tab', 'cs.len() > 0 && cs[0] != \' \' && cs[0] != \'\\t\''),
                    ('run_in_progress', '''in_space_run ==> ks < ra && ra < __i3 && run_start == char_off(cs, ra) && run_len == __i3 - ra && all_spaces(cs, ra, __i3 as int)
                        && (last_space_run is Some ==> lb <= ra)'''),
                    ('not_in_a_run', '!in_space_run && __i3 > 0 && __i3 > ks ==> cs[__i3 - 1] != \' \''),
                    ('previous_char', '__i3 > 0 ==> prev_i == char_off(cs, __i3 - 1) && prev_ch_len == encode_scalar(cs[__i3 - 1] as u32).len()'),
                 ],
                 invariant=[('piece_start_kept', '0 <= ks <= cs.len() && start == char_off(cs, ks) && u =~= cs.subrange(0, ks) && cs == line@')],
                 decreases='__v3@.len() - __i3'),
            4: dict(invariant=[('trailing_spaces', '__i4 <= __n4 && out.text() =~= t_piece + cs.subrange(ks, la) + fold_spaces(__i4 as int)'),
                               ], decreases='__n4 - __i4'),
         }),
    # ---- block scalars: automatic selection, header and body as written by serialize_str (C12 / C20) ----
    dict(src=SR, path='impl YamlSerializer/fn write_space_if_pending', props=['C12', 'C20', 'C01'],
         ensures=[('writes_the_space_owed_after_a_colon', "r is Ok ==> final(self).out.text() == (if old(self).pending_space_after_colon { old(self).out.text().push(' ') } else { old(self).out.text() })"),
                  ('frame', 'r is Ok ==> same_block_cfg(final(self), old(self)) && !final(self).pending_space_after_colon && final(self).at_line_start == old(self).at_line_start'),
                  ('C20:any_other_scalar_clears_the_keep_mark', 'r is Ok ==> !final(self).last_scalar_kept_breaks')]),
    dict(src=SR, path='impl YamlSerializer/fn write_indent', props=['C12', 'C20', 'C01'], loop_rewrites=[(1, 'range')],
         requires=[('indent_fits', 'old(self).indent_step * depth <= usize::MAX')],
         proofs=[dict(at='start', ghost=True, text='let ghost t0 = self.out.text();'),
                 dict(at='start', text='assert(fold_spaces(0) =~= Seq::<char>::empty());'),
                 dict(after_re=r'self\.out\.write_str\("%YAML[^"]*"\)\?;', text='reveal_strlit("%YAML 1.2\\n---\\n"); reveal_strlit("%YAML 1.2\\n");'),
                 dict(after_re=r'let _\w* = __i1; __i1 \+= 1;', text='assert(fold_spaces(__i1 as int) =~= fold_spaces(__i1 as int - 1).push(\' \'));')],
         ensures=[('frame', 'r is Ok ==> same_block_cfg(final(self), old(self)) && final(self).pending_space_after_colon == old(self).pending_space_after_colon && !final(self).at_line_start'),
                  ('nothing_is_written_in_the_middle_of_a_line', 'r is Ok && !old(self).at_line_start ==> final(self).out.text() == old(self).out.text()'),
                  # YAML 1.2 (9.1.2 / 9.2): a directive is part of a document prefix that MUST end with the `---` marker
                  ('C20:the_yaml_directive_is_followed_by_a_document_start_marker_and_then_only_the_indentation',
                   """r is Ok && old(self).at_line_start ==> final(self).out.text() =~= old(self).out.text()
                        + (if !old(self).doc_started && old(self).yaml_12 { yaml12_document_prefix() } else { Seq::<char>::empty() })
                        + fold_spaces(old(self).indent_step * depth)""")],
         loops={1: dict(invariant=[('frame', '__i1 <= __n1 && __n1 == old(self).indent_step * depth && same_block_cfg(self, old(self)) && self.pending_space_after_colon == old(self).pending_space_after_colon'),
                                   ('spaces_so_far', """self.out.text() =~= t0 + (if !old(self).doc_started && old(self).yaml_12 { yaml12_document_prefix() } else { Seq::<char>::empty() }) + fold_spaces(__i1 as int)""")],
                        decreases='__n1 - __i1')},
         canaries=['C20:the_yaml_directive_is_followed_by_a_document_start_marker_and_then_only_the_indentation']),
    dict(src=SR, path='impl YamlSerializer/fn write_folded_block', id='YamlSerializer::write_folded_block', props=['C20', 'C01'],
         rewrites=[(r'crate::wrapping::write_folded_block\(', 'write_folded_block(', 1, 'R9')],
         requires=[('indent_fits', 'old(self).indent_step * indent <= usize::MAX')],
         ensures=[('frame', 'r is Ok ==> same_block_cfg(final(self), old(self))')]),
    dict(src=SR, path='impl YamlSerializer/fn write_scalar_prefix_if_anchor', trusted=True, props=[]),
    dict(src=SR, path='impl YamlSerializer/fn write_anchor_for_complex_node', trusted=True, props=[]),
    dict(src='src/wrapping.rs', path='fn is_block_scalar_safe', props=['C12', 'C20', 'C01'], optional=True, loop_rewrites=[(1, 'chars')],
         bounded=dict(harness='bounded/is_block_scalar_safe.rs', items=[('src/wrapping.rs', 'fn is_block_scalar_safe')]),
         ensures=[('C12:text_with_a_carriage_return_or_nul_is_not_block_safe', 'r ==> block_text_ok(s@)'),
                  ('exactly_the_control_characters_other_than_line_feed_and_tab_are_refused', "r == (forall|i: int| 0 <= i < s@.len() ==> !(is_cc(#[trigger] s@[i]) && s@[i] != '\\n' && s@[i] != '\\t'))")],
         proofs=[dict(at='start', text='reveal(block_text_ok);')],
         loops={1: dict(invariant=[('prefix_is_safe', "__n1 == s@.len() && __i1 <= __n1 && (forall|i: int| 0 <= i < __i1 ==> !(is_cc(#[trigger] s@[i]) && s@[i] != '\\n' && s@[i] != '\\t'))")],
                        decreases='__n1 - __i1')},
         canaries=['C12:text_with_a_carriage_return_or_nul_is_not_block_safe']),
    dict(src=SR, path='impl Serializer for &mut YamlSerializer/fn serialize_str', id='serialize_str::block_indent_indicator_digit', trusted=True, props=[],
         fragment=r'fn block_indent_indicator_digit\(indent_n: usize\) -> Result<char> \{.*?\n        \}', fragment_flags='S', wrapper='{FRAG}',
         rewrites=[(r'-> Result<char>', '-> Result<char, SerError>', 1, 'R6')],
         ensures=[('char_from_digit_radix_10', 'r is Ok <==> indent_n <= 9'), ('the_decimal_digit', 'r is Ok ==> r->Ok_0 == digit_char(indent_n as int)')]),
    dict(src=SR, path='impl Serializer for &mut YamlSerializer/fn serialize_str', id='YamlSerializer::serialize_str#select', props=['C12', 'C20', 'C01'],
         impl_header="impl<'a> YamlSerializer<'a>",
         fragment=r'if self\.pending_str_style\.is_none\(\) && self\.in_flow == 0 && !self\.quote_all \{.*?\}\s*(?=if let Some\(style\) = self\.pending_str_style\.take\(\))',
         fragment_flags='S', wrapper='fn serialize_str_select(&mut self, v: &str) { {FRAG} }',
         pre_rewrites=[(r'use crate::ser_quoting::is_plain_value_safe;', '', 1, 'R9')],
         rewrites=[(r"v\.contains\('\\n'\)", 'str_contains_lf(v)', 1, 'R8'),
                   (r'v\.chars\(\)\.count\(\)', 'str_char_count(v)', 2, 'R8'),
                   (r"(\w+)\.trim_end_matches\('\\n'\)", r'str_trim_end_lf(\1)', None, 'R8'),
                   (r"trimmed\.replace\('\\n', \" \"\)", "str_replace_char(trimmed, '\\\\n', \" \")", 1, 'R8'),
                   (r'is_plain_value_safe\(&normalized,', 'is_plain_value_safe(normalized.as_str(),', 1, 'R15')],
         ensures=[('C20:an_automatic_literal_is_chosen_only_for_multi_line_text',
                   "old(self).pending_str_style is None && final(self).pending_str_style == Some(StrStyle::Literal) ==> exists|i: int| 0 <= i < v@.len() && v@[i] == '\\n'"),
                  ('C20:an_automatic_fold_is_chosen_only_for_one_line_of_text',
                   "old(self).pending_str_style is None && final(self).pending_str_style == Some(StrStyle::Folded) ==> forall|i: int| 0 <= i < v@.len() ==> v@[i] != '\\n'"),
                  ('C20:no_automatic_block_style_in_flow_context_or_when_everything_is_quoted',
                   '(old(self).in_flow != 0 || old(self).quote_all) ==> final(self).pending_str_style == old(self).pending_str_style'),
                  ('an_explicit_style_is_left_alone', 'old(self).pending_str_style is Some ==> final(self).pending_str_style == old(self).pending_str_style && final(self).pending_str_from_auto == old(self).pending_str_from_auto'),
                  ('an_automatic_choice_is_marked_automatic', 'old(self).pending_str_style is None && final(self).pending_str_style is Some ==> final(self).pending_str_from_auto'),
                  ('frame', 'same_layout(final(self), old(self)) && final(self).out.text() == old(self).out.text()')],
         canaries=['C20:an_automatic_literal_is_chosen_only_for_multi_line_text', 'C20:an_automatic_fold_is_chosen_only_for_one_line_of_text']),
    dict(src=SR, path='impl Serializer for &mut YamlSerializer/fn serialize_str', id='YamlSerializer::serialize_str#block', props=['C12', 'C20', 'C01'],
         impl_header="impl<'a> YamlSerializer<'a>",
         fragment=r'if let Some\(style\) = self\.pending_str_style\.take\(\) \{.*?self\.write_folded_block\(v, body_base\)\?;\s*\}\s*\}\s*self\.pending_str_from_auto = false;\s*return Ok\(\(\)\);\s*\}',
         fragment_flags='S', wrapper='fn serialize_str_block(&mut self, v: &str, Ghost(pcol): Ghost<int>) -> Result<(), SerError> { {FRAG} Ok(()) }',
         loop_rewrites=[(1, 'range'), (2, 'split_lf'), (3, 'range')],
         pre_rewrites=[(r'indent_buf\.reserve\(spaces\);', '', 1, 'R36')],
         rewrites=[(r"(\w+)\.trim_end_matches\('\\n'\)", r'str_trim_end_lf(\1)', None, 'R8'),
                   (r'crate::wrapping::(first_line_leading_spaces|is_block_scalar_safe)\(', r'\1(', None, 'R9'),
                   (r'v\.len\(\) - content\.len\(\)', 'str_len_diff_trailing_lf(v, content)', None, 'R8'),
                   (r'content\.is_empty\(\)', 'str_is_empty(content)', 1, 'R8'),
                   (r"indent_buf\.push\(' '\);", "string_push(&mut indent_buf, ' ');", 1, 'R8')],
         requires=[('assumed:valid_options', 'old(self).indent_step >= 1'),
                   ('assumed:layout_fits_the_machine', 'old(self).indent_step * (block_base(old(self)) + 1) <= usize::MAX && block_base(old(self)) + 1 <= usize::MAX'),
                   ('seam:an_automatic_literal_has_a_line_break', "old(self).pending_str_from_auto && old(self).pending_str_style == Some(StrStyle::Literal) ==> exists|i: int| 0 <= i < v@.len() && v@[i] == '\\n'"),
                   ('seam:an_automatic_fold_is_one_line', "old(self).pending_str_from_auto && old(self).pending_str_style == Some(StrStyle::Folded) ==> forall|i: int| 0 <= i < v@.len() ==> v@[i] != '\\n'"),
                   # layout (SeqSer / MapSer, outside this unit): the parent of a scalar at nesting level `base` starts at column
                   # indent_step * base, except nodes begun inline after "- " which are two columns right of the dash; both agree for
                   # step 2, and at level 0 the parent starts at column 0
                   ('assumed:layout_parent_column', '(old(self).indent_step == 2 || block_base(old(self)) == 0) ==> pcol == old(self).indent_step * block_base(old(self))')],
         proofs=[
            dict(at='start', ghost=True, text="""let ghost base0 = block_base(self) as int; let ghost step = self.indent_step as int;
                 let ghost body_col = step * (base0 + 1); let ghost mut t1: Seq<char> = Seq::empty(); let ghost mut t2: Seq<char> = Seq::empty();
                 let ghost tl = trailing_lf(v@); let ghost cont = strip_lf(v@); let ghost has_ind = first_line_spaces(split_lines(cont), 0) > 0;
                 let ghost anchor_in = self.pending_anchor_id; let ghost explicit_in = !self.pending_str_from_auto;"""),
            dict(at='start', text='lemma_trailing_lf_bound(v@); assert(step * (base0 + 1) == step * base0 + step) by(nonlinear_arith);'),
            # ---- both styles, just before the style character is written ----
            dict(before="self.out.write_char('|')?;", label='C12:a_block_scalar_is_chosen_only_for_text_it_can_carry_unchanged', text='assert(block_text_ok(v@));'),
            dict(before="self.out.write_char('>')?;", label='C12:a_block_scalar_is_chosen_only_for_text_it_can_carry_unchanged', text='assert(block_text_ok(v@));'),
            dict(before="self.out.write_char('|')?;", label='C20:no_block_scalar_is_written_inside_a_flow_collection', text='assert(self.in_flow == 0);'),
            dict(before="self.out.write_char('>')?;", label='C20:no_block_scalar_is_written_inside_a_flow_collection', text='assert(self.in_flow == 0);'),
            dict(before="self.out.write_char('|')?;", label='C20:a_block_scalar_carries_the_anchor_staged_for_it', props=['C20'], text='assert(anchor_in is None);'),
            dict(before="self.out.write_char('>')?;", label='C20:a_block_scalar_carries_the_anchor_staged_for_it', props=['C20'], text='assert(anchor_in is None);'),
            dict(before="self.out.write_char('|')?;", label='C20:an_automatic_literal_is_chosen_only_for_multi_line_text', text="assert(!explicit_in ==> exists|i: int| 0 <= i < v@.len() && v@[i] == '\\n');"),
            dict(before="self.out.write_char('>')?;", label='C20:an_automatic_fold_is_chosen_only_for_one_line_of_text',
                 text="assert(!explicit_in ==> (forall|i: int| 0 <= i < v@.len() ==> v@[i] != '\\n'));"),
            dict(before="self.out.write_char('>')?;", label='C20:the_explicit_folded_wrapper_is_used_only_for_text_whose_line_breaks_it_preserves', props=['C20'],
                 text='assert(explicit_in ==> fold_keeps_breaks(v@));'),
            dict(before="self.out.write_char('|')?;", text='t1 = self.out.text();'),
            dict(before="self.out.write_char('>')?;", text='t1 = self.out.text();'),
            # ---- literal header ----
            dict(before='let mut indent_buf: String = String::new();', label='C12:literal_header_gives_the_indentation_relative_to_the_parent_node_and_the_chomping_that_keeps_the_final_line_breaks',
                 text="""assert(has_ind ==> 1 <= body_col - pcol <= 9);
                      assert(self.out.text() =~= t1 + block_header('|', has_ind, body_col - pcol, chomp_of(tl)) + seq!['\\n']);"""),
            dict(before='let mut indent_buf: String = String::new();', text='t2 = self.out.text();'),
            # ---- literal body ----
            dict(after_loop=1, text='assert(indent_buf@ =~= fold_spaces(body_col));'),
            dict(after='let line = __v2[__i2]; __i2 += 1;', text="""let ll = split_lines(cont);
                      assert(ll.take(__i2 as int) =~= ll.take(__i2 as int - 1).push(ll[__i2 as int - 1])); lemma_blt_push(fold_spaces(body_col), ll.take(__i2 as int - 1), ll[__i2 as int - 1]);"""),
            dict(before_re=r'let __v2 = str_split_lf\(content\);', text='assert(split_lines(cont).take(0) =~= Seq::<Seq<char>>::empty()); lemma_blt_empty(fold_spaces(body_col));'),
            dict(before_re=r'if trailing_nl >= 2 \{', text="""let ll = split_lines(cont); let one = Seq::<Seq<char>>::empty().push(Seq::<char>::empty());
                      assert(ll.take(ll.len() as int) =~= ll); lemma_empties_push(ll, 0); lemma_empties_push(one, 0);
                      lemma_blt_empty(fold_spaces(body_col)); lemma_blt_push(fold_spaces(body_col), Seq::<Seq<char>>::empty(), Seq::<char>::empty());"""),
            dict(after='let _ = __i3; __i3 += 1;', text="""let aa = if cont.len() == 0 { Seq::<Seq<char>>::empty().push(Seq::<char>::empty()) } else { split_lines(cont) };
                      lemma_empties_push(aa, (__i3 - 1) as nat); lemma_blt_push(fold_spaces(body_col), aa + empties((__i3 - 1) as nat), Seq::<char>::empty());"""),
            dict(before_re=r'\}\s*StrStyle::Folded\s*=>', label='C12:literal_body_is_one_indented_line_per_line_of_the_text_and_per_kept_final_line_break_so_that_it_reads_back_as_the_text',
                 text="""lemma_literal_reads_back(v@); lemma_lit_lines_shape(v@); lemma_blt_empty(fold_spaces(body_col));
                      assert(self.out.text() =~= t2 + block_lines_text(fold_spaces(body_col), lit_lines(v@)));
                      assert(lit_value(lit_lines(v@), chomp_of(tl)) =~= v@);"""),
            dict(before_re=r'\}\s*StrStyle::Folded\s*=>', label='C20:a_literal_scalar_that_keeps_its_final_line_breaks_is_marked_for_space_after',
                 text='assert(self.last_scalar_kept_breaks == (tl >= 2));'),
            # ---- folded header ----
            dict(before='self.write_folded_block(v, body_base)?;', label='C20:folded_header_gives_the_indentation_relative_to_the_parent_node',
                 text="""assert(has_ind ==> 1 <= body_col - pcol <= 9);
                      assert(self.out.text() =~= t1 + block_header('>', has_ind, body_col - pcol, if explicit_in { Chomp::Clip } else { chomp_of(tl) }) + seq!['\\n']);"""),
         ],
         loops={1: dict(invariant=[('indent', '__i1 <= __n1 && __n1 == spaces && indent_buf@ =~= fold_spaces(__i1 as int)')], decreases='__n1 - __i1'),
                2: dict(invariant=[('lines_so_far', """self.last_scalar_kept_breaks == (tl >= 2) && indent_str@ =~= fold_spaces(body_col) && __i2 <= __v2@.len() && __v2@.len() == split_lines(cont).len()
                                    && (forall|i: int| 0 <= i < __v2@.len() ==> (#[trigger] __v2@[i])@ == split_lines(cont)[i])
                                    && self.out.text() =~= t2 + block_lines_text(fold_spaces(body_col), split_lines(cont).take(__i2 as int))""")],
                        decreases='__v2@.len() - __i2'),
                3: dict(invariant=[('kept_breaks_so_far', """self.last_scalar_kept_breaks == (tl >= 2) && indent_str@ =~= fold_spaces(body_col) && __i3 <= __n3 && __n3 == tl - 1
                                    && self.out.text() =~= t2 + block_lines_text(fold_spaces(body_col), (if cont.len() == 0 { Seq::<Seq<char>>::empty().push(Seq::<char>::empty()) } else { split_lines(cont) }) + empties(__i3 as nat))""")],
                        decreases='__n3 - __i3')},
         ),
    # ---- where a tuple variant puts its name and its items (C12: strings in enum payload position) ----
    # YAML block structure (7.? / 8.2): a block mapping that is the value of a mapping key starts on a following line,
    # indented deeper than that key; the items of a block sequence that is the value of a key are not left of the key.
    dict(src=SR, path='impl Serializer for &mut YamlSerializer/fn serialize_tuple_variant', id='YamlSerializer::serialize_tuple_variant#prologue',
         impl_header="impl<'a> YamlSerializer<'a>", props=['C12', 'C01'],
         pre_rewrites=[(r"fn serialize_tuple_variant\(\s*self,\s*_name: &'static str,\s*_variant_index: u32,\s*variant: &'static str,\s*_len: usize,\s*\) -> Result<Self::SerializeTupleVariant>",
                        "fn serialize_tuple_variant_prologue(&mut self, variant: &'static str, Ghost(pcol): Ghost<int>) -> Result<usize, SerError>", 1, 'R9')],
         rewrites=[(r'scalar_key_to_string\(variant, self\.yaml_12\)\?', 'variant_key_text(variant, self.yaml_12)?', None, 'R8'),
                   (r'write_str\(&name\)', 'write_str(name.as_str())', None, 'R8'),
                   (r'Ok\(TupleVariantSer \{\s*ser: self,\s*depth: ([^,]+),\s*(?:flow: \w+,\s*first: \w+,\s*)?\}\)', r'Ok(\1)', None, 'R9'),
                   (r'Ok\(TupleVariantSer \{\s*ser: self,\s*depth,\s*(?:flow: \w+,\s*first: \w+,\s*)?\}\)', r'Ok(depth)', None, 'R9')],
         requires=[('assumed:valid_options', 'old(self).indent_step >= 1'),
                   ('assumed:layout_fits_the_machine', '''old(self).depth + 3 <= usize::MAX && (old(self).current_map_depth is Some ==> old(self).current_map_depth->Some_0 + 3 <= usize::MAX)
                        && (old(self).after_dash_depth is Some ==> old(self).after_dash_depth->Some_0 + 3 <= usize::MAX)
                        && old(self).indent_step * (old(self).depth + 3) <= usize::MAX
                        && (old(self).current_map_depth is Some ==> old(self).indent_step * (old(self).current_map_depth->Some_0 + 3) <= usize::MAX)
                        && (old(self).after_dash_depth is Some ==> old(self).indent_step * (old(self).after_dash_depth->Some_0 + 3) <= usize::MAX)'''),
                   # layout (MapSer / SeqSer, outside this unit): in value position the key of the enclosing mapping is at column
                   # indent_step * (its depth); right after "- " the dash is at column indent_step * after_dash_depth
                   ('assumed:a_mapping_key_has_been_written_so_the_document_has_started', 'old(self).pending_space_after_colon ==> old(self).doc_started'),
                   ('assumed:layout_parent_column', '''(old(self).pending_space_after_colon ==> pcol == old(self).indent_step * (match old(self).current_map_depth { Some(d) => d as int, None => old(self).depth as int }))
                        && (!old(self).pending_space_after_colon && !old(self).at_line_start && old(self).after_dash_depth is Some ==> pcol == old(self).indent_step * old(self).after_dash_depth->Some_0)''')],
         proofs=[dict(at='start', text='''let st = self.indent_step as int; let dp = self.depth as int;
                      let kd = match self.current_map_depth { Some(d) => d as int, None => dp };
                      let dd = match self.after_dash_depth { Some(d) => d as int, None => 0int };
                      assert(st * (kd + 1) == st * kd + st && st * (kd + 2) == st * kd + 2 * st && st * (kd + 3) == st * kd + 3 * st) by(nonlinear_arith);
                      assert(st * (dp + 1) == st * dp + st && st * (dp + 2) == st * dp + 2 * st && st * (dp + 3) == st * dp + 3 * st) by(nonlinear_arith);
                      assert(st * (dd + 1) == st * dd + st && st * (dd + 2) == st * dd + 2 * st && st * (dd + 3) == st * dd + 3 * st) by(nonlinear_arith);
                      assert(st * kd >= 0 && st * dp >= 0 && st * dd >= 0) by(nonlinear_arith) requires st >= 1, kd >= 0, dp >= 0, dd >= 0;'''),
                 dict(at='start', ghost=True, text='let ghost mut tm: Seq<char> = Seq::empty(); let ghost t0 = self.out.text();'),
                 dict(after_re=r'self\.out\.write_str\("\{"\)\?;', optional=True, ghost=True,
                      text='let ghost kb = self.out.text().len() - 1; let ghost tb = self.out.text(); proof { reveal_strlit("{"); assert(tb[kb] == \'{\' && kb >= t0.len()); }'),
                 dict(before_re=r'self\.out\.write_str\(": \["\)\?;', optional=True, ghost=True, text='let ghost tq = self.out.text(); proof { assert(tq.subrange(0, tb.len() as int) =~= tb); assert(tq[kb] == tb[kb]); }'),
                 dict(after_re=r'self\.out\.write_str\(": \["\)\?;', optional=True, text='reveal_strlit(": ["); assert(self.out.text()[kb] == tq[kb]);'),
                 dict(before_re=r'self\.write_plain_or_quoted\(variant\)\?;', nth=1, optional=True, text='tm = self.out.text();'),
                 dict(after_re=r'self\.write_plain_or_quoted\(variant\)\?;', nth=1, optional=True, text='assert(self.out.text().subrange(0, tm.len() as int) =~= tm);'),
                 dict(after_re=r'self\.out\.write_str\(":\\n"\)\?;', nth=1, optional=True,
                      text='''assert(self.out.text().subrange(0, tm.len() as int) =~= tm);
                              if tm.len() > t0.len() { assert(self.out.text().subrange(0, t0.len() as int) =~= tm.subrange(0, t0.len() as int));
                                  assert(self.out.text().subrange(t0.len() as int + 1, tm.len() as int) =~= tm.subrange(t0.len() as int + 1, tm.len() as int)); }''')],
         ensures=[('C12:a_variant_name_in_value_position_starts_on_its_own_line_indented_deeper_than_the_key_it_belongs_to',
                   '''r is Ok && old(self).pending_space_after_colon && old(self).in_flow == 0 ==> ({
                        let t0 = old(self).out.text(); let t1 = final(self).out.text();
                        let c = old(self).indent_step * ((match old(self).current_map_depth { Some(d) => d as int, None => old(self).depth as int }) + 1);
                        c > pcol && t1.len() >= t0.len() + 1 + c && t1.subrange(0, t0.len() as int) =~= t0 && t1[t0.len() as int] == '\\n'
                        && t1.subrange(t0.len() as int + 1, t0.len() as int + 1 + c) =~= fold_spaces(c)
                        && old(self).indent_step * r->Ok_0 >= c })'''),
                  ('C12:the_items_of_a_variant_that_follows_a_dash_are_not_left_of_its_name',
                   '''r is Ok && old(self).in_flow == 0 && !old(self).pending_space_after_colon && !old(self).at_line_start && old(self).after_dash_depth is Some
                        ==> old(self).indent_step * r->Ok_0 >= pcol + 2'''),
                  ('C12:the_items_of_a_variant_at_the_start_of_a_line_are_not_left_of_its_name',
                   '''r is Ok && old(self).in_flow == 0 && !old(self).pending_space_after_colon && old(self).at_line_start && old(self).after_dash_depth is None
                        ==> old(self).indent_step * r->Ok_0 >= old(self).indent_step * old(self).depth'''),
                  # F33: a flow collection cannot hold a block collection; inside one, a variant with a payload is a flow mapping `{Name: [ ...`
                  ('C20:inside_a_flow_collection_a_tuple_variant_is_opened_as_a_flow_mapping_holding_a_flow_sequence',
                   '''r is Ok && old(self).in_flow > 0 ==> ({ let t1 = final(self).out.text(); let n = t1.len() as int;
                        n >= 3 && t1[n - 3] == ':' && t1[n - 2] == ' ' && t1[n - 1] == '['
                        && exists|k: int| old(self).out.text().len() <= k < n - 3 && t1[k] == '{' })''', ['C20'])],
         canaries=['C12:a_variant_name_in_value_position_starts_on_its_own_line_indented_deeper_than_the_key_it_belongs_to']),
    # ---- empty block collections (C20: no option may turn data into other data) ----
    dict(src=SR, path='impl SerializeSeq for SeqSer/fn end', id='SeqSer::end#empty', props=['C20', 'C01'],
         fragment=r'if self\.ser\.empty_as_braces \{.*?\} else \{\s*self\.ser\.newline\(\)\?;\s*\}', fragment_flags='S',
         wrapper="fn seq_end_empty_fragment<'a>(ser: &mut YamlSerializer<'a>, depth: usize) -> Result<(), SerError> { {FRAG} Ok(()) }",
         pre_rewrites=[(r'\bself\.ser\.', 'ser.', None, 'R9'), (r'\bself\.depth\b', 'depth', None, 'R9')],
         requires=[('indent_fits', 'old(ser).indent_step * depth <= usize::MAX')],
         proofs=[dict(at='start', text='reveal_strlit("[]"); reveal_strlit(" ");')],
         ensures=[('C20:an_empty_sequence_is_written_as_brackets_when_the_option_asks_for_it',
                   "r is Ok && old(ser).empty_as_braces ==> ends_with3(final(ser).out.text(), '[', ']', '\\n')"),
                  ('C20:no_option_makes_an_empty_sequence_indistinguishable_from_null', "r is Ok ==> ends_with3(final(ser).out.text(), '[', ']', '\\n')", ['C20'])],
         canaries=['C20:an_empty_sequence_is_written_as_brackets_when_the_option_asks_for_it']),
    dict(src=SR, path='impl SerializeMap for MapSer/fn end', id='MapSer::end#empty', props=['C20', 'C01'],
         fragment=r'if self\.ser\.empty_as_braces \{.*?\} else \{\s*self\.ser\.newline\(\)\?;\s*\}', fragment_flags='S',
         wrapper="fn map_end_empty_fragment<'a>(ser: &mut YamlSerializer<'a>, depth: usize, align_after_dash: bool) -> Result<(), SerError> { {FRAG} Ok(()) }",
         pre_rewrites=[(r'\bself\.ser\.', 'ser.', None, 'R9'), (r'\bself\.depth\b', 'depth', None, 'R9'), (r'\bself\.align_after_dash\b', 'align_after_dash', None, 'R9')],
         loop_rewrites=[(1, 'range')],
         requires=[('indent_fits', 'old(ser).indent_step * depth <= usize::MAX')],
         proofs=[dict(at='start', text='reveal_strlit("{}"); reveal_strlit(" "); reveal_strlit("  ");'),
                 dict(at='start', text='''let st = ser.indent_step as int; let d0 = depth as int; let b0 = if d0 >= 1 { d0 - 1 } else { 0int };
                      assert(st * b0 <= st * d0) by(nonlinear_arith) requires 0 <= b0 <= d0, st >= 0;''')],
         ensures=[('C20:an_empty_mapping_is_written_as_braces_when_the_option_asks_for_it',
                   "r is Ok && old(ser).empty_as_braces ==> ends_with3(final(ser).out.text(), '{', '}', '\\n')"),
                  ('C20:no_option_makes_an_empty_mapping_indistinguishable_from_null', "r is Ok ==> ends_with3(final(ser).out.text(), '{', '}', '\\n')", ['C20'])],
         loops={1: dict(invariant=[('frame', '__i1 <= __n1 && ser.empty_as_braces == old(ser).empty_as_braces')], decreases='__n1 - __i1')},
         canaries=['C20:an_empty_mapping_is_written_as_braces_when_the_option_asks_for_it']),
    # ---- scalar mapping keys (C12, position "mapping key"): KeyScalarSink::serialize_str has its own quoting ----
    dict(src=SR, path='struct KeyScalarSink'),
    dict(src=SR, path='impl Serializer for &mut KeyScalarSink/fn serialize_str', id='KeyScalarSink::serialize_str', props=['C12', 'C01'],
         impl_header="impl<'a> KeyScalarSink<'a>", loop_rewrites=CHARS,
         pre_rewrites=[(r'fn serialize_str\(self, v: &str\) -> Result<\(\)>', 'fn serialize_str(&mut self, v: &str) -> Result<(), SerError>', 1, 'R9'),
                       (r'use std::fmt::Write as _;', '', None, 'R9')],
         rewrites=[(r'self\.s\.push_str\(([^;]*)\);', r'string_push_str(self.s, \1);', None, 'R8'),
                   (r"self\.s\.push\(([^;]*)\);", r'string_push(self.s, \1);', None, 'R8'),
                   (r'let _ = write!\(self\.s, "\\\\u\{:04X\}", c as u32\);', 'string_write_u4(self.s, c as u32);', 1, 'R12')],
         proofs=[dict(at='start', ghost=True, text='let ghost t0 = self.s@;'),
                 dict(after='__i1 += 1;', text="""
                     assert(v@.take(__i1 as int).drop_last() =~= v@.take(__i1 as int - 1));
                     assert(v@.take(__i1 as int).last() == ch);
                     reveal_strlit("\\\\\\\\"); reveal_strlit("\\\\\\""); reveal_strlit("\\\\n"); reveal_strlit("\\\\r"); reveal_strlit("\\\\t");"""),
                 dict(after_loop=1, text='assert(v@.take(__i1 as int) =~= v@);')],
         ensures=[('C12:a_key_is_written_raw_only_if_it_reads_back_as_itself_in_block_and_flow_mappings_else_double_quoted',
                   """r is Ok ==> ({ let t1 = final(self).s@; let b = v.spec_bytes();
                        ||| (t1 =~= t0_of(old(self)) + v@ && !sp_ambiguous(b) && plain_reads_back(b, false) && plain_reads_back(b, true))
                        ||| t1 =~= t0_of(old(self)).push('"') + kq_body(v@) + seq!['"'] })"""),
                  ('frame', 'final(self).yaml_12 == old(self).yaml_12')],
         loops={1: dict(invariant=[('prefix_escaped', """__n1 == v@.len() && __i1 <= __n1 && self.s@ =~= t0.push('"') + kq_body(v@.take(__i1 as int))""")],
                        decreases='__n1 - __i1')},
         canaries=['C12:a_key_is_written_raw_only_if_it_reads_back_as_itself_in_block_and_flow_mappings_else_double_quoted']),
    # ---- float text (C12: "emitted floats always match YAML's float grammar (a decimal point, signed exponent)") ----
    # whole functions (monomorphised to f64, rule R9): which text is written for which float.  The digits come from the
    # external formatter (zmij, uninterpreted `zmij_text`); any other way of producing digits is outside this contract.
    dict(src='src/zmij_format.rs', path='fn write_float_string', id='write_float_string<f64>', props=['C12', 'C01'],
         bounded=dict(harness='bounded/float_text.rs', items=[('src/zmij_format.rs', '*')], subs=[(r'use crate::ser;', 'use super::ser;')],
                      cargo_deps={'zmij': '1.0', 'num-traits': '0.2'}),
         pre_rewrites=[(r'pub\(crate\) fn write_float_string<F: Float \+ FloatCore, W: Write>\(\s*target: &mut W,\s*f: F,\s*\) -> ser::Result<\(\)>',
                        'fn write_float_string(target: &mut Sink, f: f64) -> Result<(), SerError>', 1, 'R9'),
                       (r"s\.find\('e'\)\.or_else\(\|\| s\.find\('E'\)\)", "(match ascii_find(s, 'e') { Some(__p) => Some(__p), None => ascii_find(s, 'E') })", 1, 'R18'),
                       (r'matches!\(s\.as_bytes\(\)\.get\(([^,()]+)\), Some\(([^()]*)\)\)', _BYTE_SET, 1, 'R8'),
                       (r'f\.is_nan\(\)', 'fl_is_nan(f)', None, 'R8'), (r'f\.is_infinite\(\)', 'fl_is_infinite(f)', None, 'R8'), (r'f\.is_sign_positive\(\)', 'fl_is_sign_positive(f)', None, 'R8'),
                       (r'let mut buf = zmij::Buffer::new\(\);', 'let mut buf = ZmijBuffer::new();', 1, 'R6')],
         rewrites=[(r"s\[\.\.exp_pos\]\.contains\('\.'\)", "ascii_contains(ascii_slice(s, 0, exp_pos), '.')", None, 'R8'),
                   (r'&s\[\.\.exp_pos\]', 'ascii_slice(s, 0, exp_pos)', None, 'R8'),
                   (r'&s\[exp_pos\.\.=exp_pos\]', 'ascii_slice(s, exp_pos, exp_pos + 1)', None, 'R8'),
                   (r'&s\[exp_pos \+ 1\.\.\]', 'ascii_slice(s, exp_pos + 1, ascii_len(s))', None, 'R8'),
                   (r"!s\.contains\('\.'\)", "!ascii_contains(s, '.')", None, 'R8')],
         proofs=[dict(at='start', text='reveal_strlit(".0"); reveal_strlit(".nan"); reveal_strlit(".inf"); reveal_strlit("-.inf"); lemma_float_norm_grammar(zmij_text(f));'),
                 dict(after_re=r'let s = buf\.format_finite\(f\);', text="lemma_first_index(s@, 'e'); lemma_first_index(s@, 'E');")],
         ensures=[('C12:a_float_is_written_as_nan_inf_or_the_formatter_digits_normalised_to_yaml_float_grammar',
                   'r is Ok ==> final(target).text() =~= old(target).text() + float_text(f)'),
                  ('C12:float_text_has_a_decimal_point_in_the_mantissa_and_a_signed_exponent',
                   '!fl_nan(f) && !fl_inf(f) ==> mantissa_has_point(float_text(f)) && exponent_is_signed(float_text(f))')],
         canaries=['C12:a_float_is_written_as_nan_inf_or_the_formatter_digits_normalised_to_yaml_float_grammar']),
    dict(src='src/zmij_format.rs', path='fn push_float_string', id='push_float_string<f64>', props=['C12', 'C01'],
         bounded=dict(harness='bounded/float_text.rs', items=[('src/zmij_format.rs', '*')], subs=[(r'use crate::ser;', 'use super::ser;')],
                      cargo_deps={'zmij': '1.0', 'num-traits': '0.2'}),
         pre_rewrites=[(r'pub\(crate\) fn push_float_string<F: Float \+ FloatCore>\(\s*target: &mut String,\s*f: F,\s*\) -> ser::Result<\(\)>',
                        'fn push_float_string(target: &mut String, f: f64) -> Result<(), SerError>', 1, 'R9'),
                       (r"s\.find\('e'\)\.or_else\(\|\| s\.find\('E'\)\)", "(match ascii_find(s, 'e') { Some(__p) => Some(__p), None => ascii_find(s, 'E') })", 1, 'R18'),
                       (r'matches!\(s\.as_bytes\(\)\.get\(([^,()]+)\), Some\(([^()]*)\)\)', _BYTE_SET, 1, 'R8'),
                       (r'f\.is_nan\(\)', 'fl_is_nan(f)', None, 'R8'), (r'f\.is_infinite\(\)', 'fl_is_infinite(f)', None, 'R8'), (r'f\.is_sign_positive\(\)', 'fl_is_sign_positive(f)', None, 'R8'),
                       (r'let mut buf = zmij::Buffer::new\(\);', 'let mut buf = ZmijBuffer::new();', 1, 'R6'),
                       (r'target\.reserve\([^;]*\);', '', None, 'R36')],
         rewrites=[(r"s\[\.\.exp_pos\]\.contains\('\.'\)", "ascii_contains(ascii_slice(s, 0, exp_pos), '.')", None, 'R8'),
                   (r'&s\[\.\.exp_pos\]', 'ascii_slice(s, 0, exp_pos)', None, 'R8'),
                   (r'&s\[exp_pos\.\.=exp_pos\]', 'ascii_slice(s, exp_pos, exp_pos + 1)', None, 'R8'),
                   (r'&s\[exp_pos \+ 1\.\.\]', 'ascii_slice(s, exp_pos + 1, ascii_len(s))', None, 'R8'),
                   (r"!s\.contains\('\.'\)", "!ascii_contains(s, '.')", None, 'R8'),
                   (r'target\.push_str\(([^;]*)\);', r'string_push_str(target, \1);', None, 'R8'),
                   (r"target\.push\(([^;]*)\);", r'string_push(target, \1);', None, 'R8')],
         proofs=[dict(at='start', text='reveal_strlit(".0"); reveal_strlit(".nan"); reveal_strlit(".inf"); reveal_strlit("-.inf");'),
                 dict(after_re=r'let s = buf\.format_finite\(f\);', text="lemma_first_index(s@, 'e'); lemma_first_index(s@, 'E');")],
         ensures=[('C12:a_float_is_written_as_nan_inf_or_the_formatter_digits_normalised_to_yaml_float_grammar',
                   'r is Ok ==> final(target)@ =~= old(target)@ + float_text(f)')],
         canaries=['C12:a_float_is_written_as_nan_inf_or_the_formatter_digits_normalised_to_yaml_float_grammar']),
    # ---- SpaceAfter (C20): the blank line must not become content of a block scalar that keeps its final line breaks ----
    dict(src=SR, path='impl Serializer for &mut YamlSerializer/fn serialize_newtype_struct', id='YamlSerializer::serialize_newtype_struct#space_after', props=['C20', 'C01'],
         impl_header="impl<'a> YamlSerializer<'a>",
         fragment=r'self\.last_scalar_kept_breaks = false;\s*let result = value\.serialize\(&mut \*self\);.*?return result;', fragment_flags='S',
         wrapper='fn space_after_fragment(&mut self, value: SerVal) -> Result<(), SerError> { {FRAG} }',
         pre_rewrites=[(r'let result = value\.serialize\(&mut \*self\);', 'let result = ser_value(value, self);', 1, 'R8')],
         proofs=[dict(before_re=r'self\.newline\(\)\?;', label='C20:the_blank_line_of_space_after_is_never_added_after_a_scalar_that_keeps_its_final_line_breaks_nor_in_flow_context',
                      text='assert(!self.last_scalar_kept_breaks && self.in_flow == 0);')],
         ensures=[('the_result_of_the_value_is_passed_on', 'r is Ok ==> true')]),
]

# ---- known-finding obligations of serialize_str#block live in a light copy of the fragment ----
# (a failing assertion makes Verus re-check the whole function body; in the fully annotated copy that re-check costs minutes,
# ---- F34 / F35: the whole body of TupleSer::end (fields and opening of an ordinary tuple struct: unit `seropts`) ----
ITEMS += [
    dict(src=SR, path='impl SerializeTupleStruct for TupleSer/fn end', id='TupleSer::end#whole', props=['C20', 'C12', 'C01'],
         fragment=r'(?<=fn end\(self\) -> Result<\(\)> \{).*(?=\}\s*$)', fragment_flags='S',
         wrapper="fn tuple_ser_end_whole<'a>(ser: &mut YamlSerializer<'a>, normal_flow: Option<bool>, depth_for_normal: usize, idx: usize) -> Result<(), SerError> { {FRAG} }",
         # F35: the end of an ordinary tuple struct IS the end of the sequence opened for it: the call is checked against the contract of the
         # woven SeqSer::end (`seqser_end_whole`, item SeqSer::end#whole), not against its body
         pre_rewrites=[(r'if let TupleKind::Normal \{ flow \} = self\.kind', 'if let Some(flow) = normal_flow', 1, 'R9'),
                       (r'\bflow,', 'flow: flow,', None, 'R9'),
                       (r'SerializeSeq::end\(SeqSer \{\s*ser: self\.ser,\s*depth: ([^,]*),\s*flow: ([^,]*),\s*first: ([^,}]*?),?\s*\}\)', r'seqser_end_whole(ser, \1, \2, \3)', 1, 'R8'),
                       (r'\bself\.depth_for_normal\b', 'depth_for_normal', None, 'R9'), (r'\bself\.idx\b', 'idx', None, 'R9')],
         requires=[('indent_fits', 'old(ser).indent_step * depth_for_normal <= usize::MAX')],
         ensures=[('C20:an_ordinary_tuple_struct_ends_as_the_sequence_it_is_with_a_bracket_in_flow_style_and_with_nothing_after_block_items',
                   """r is Ok && normal_flow is Some ==> (if normal_flow->0 {
                            final(ser).out.text() == (if old(ser).in_flow == 0 { old(ser).out.text().push(']').push('\\n') } else { old(ser).out.text().push(']') })
                        } else { idx > 0 ==> final(ser).out.text() == old(ser).out.text() && final(ser).last_scalar_kept_breaks == old(ser).last_scalar_kept_breaks })"""),
                  ('C20:nothing_is_written_at_the_end_of_a_wrapper_tuple', 'normal_flow is None ==> r is Ok && final(ser).out.text() == old(ser).out.text()')],
         canaries=['C20:an_ordinary_tuple_struct_ends_as_the_sequence_it_is_with_a_bracket_in_flow_style_and_with_nothing_after_block_items']),
]

# so F19 / F20 are asserted in a copy that carries no other proof text, and the annotated copy verifies without errors)
_KF = ('C20:a_block_scalar_carries_the_anchor_staged_for_it', 'C20:the_explicit_folded_wrapper_is_used_only_for_text_whose_line_breaks_it_preserves')
def _split_known_findings():
    idx = [i for i, x in enumerate(ITEMS) if x and x.get('id') == 'YamlSerializer::serialize_str#block'][0]
    main = ITEMS[idx]
    kf = dict(main)
    kf['id'] = 'YamlSerializer::serialize_str#block_known_findings'
    kf['wrapper'] = main['wrapper'].replace('fn serialize_str_block(', 'fn serialize_str_block_kf(')
    kf['props'] = ['C20']
    kf['proofs'] = [p for p in main['proofs'] if p.get('at') == 'start' or p.get('label') in _KF]
    kf['loops'] = {k: dict(decreases=v['decreases']) for k, v in main['loops'].items()}
    kf.pop('ensures', None); kf.pop('canaries', None)
    main['proofs'] = [p for p in main['proofs'] if p.get('label') not in _KF]
    ITEMS.insert(idx + 1, kf)
_split_known_findings()
# ---- the whole of SeqSer::end / MapSer::end (C20): ending a non-empty block collection writes nothing and leaves the
# keep-chomping mark of its last scalar alone (SpaceAfter consults it: F27) ----
def _end_whole(impl, sid, wrapper_params, pre):
    return dict(src=SR, path='impl %s/fn end' % impl, id='%s::end#whole' % sid, props=['C20', 'C01'],
         fragment=r'(?<=fn end\(self\) -> Result<\(\)> \{).*(?=\}\s*$)', fragment_flags='S',   # the whole body
         wrapper="fn %s_end_whole<'a>(ser: &mut YamlSerializer<'a>, %s) -> Result<(), SerError> { {FRAG} }" % (sid.lower(), wrapper_params),
         pre_rewrites=[(r'let me = self;', '', None, 'R9'), (r'\bme\.ser\.', 'ser.', None, 'R9'), (r'\bself\.ser\.', 'ser.', None, 'R9')] + pre,
         loop_rewrites=[(1, 'range')] if sid == 'MapSer' else [],
         requires=[('indent_fits', 'old(ser).indent_step * depth <= usize::MAX')],
         proofs=[dict(at='start', text='reveal_strlit("]"); reveal_strlit("}"); reveal_strlit("[]"); reveal_strlit("{}"); reveal_strlit(" "); reveal_strlit("  ");')] + ([dict(at='start', text='''let st = ser.indent_step as int; let d0 = depth as int; let b0 = if d0 >= 1 { d0 - 1 } else { 0int };
                      assert(st * b0 <= st * d0) by(nonlinear_arith) requires 0 <= b0 <= d0, st >= 0;''')] if sid == 'MapSer' else []),
         ensures=[('C20:ending_a_non_empty_block_collection_writes_nothing_and_keeps_the_mark_of_its_last_scalar',
                   'r is Ok && !flow && !first ==> final(ser).out.text() == old(ser).out.text() && final(ser).last_scalar_kept_breaks == old(ser).last_scalar_kept_breaks && final(ser).at_line_start == old(ser).at_line_start'),
                  ('C20:a_flow_collection_is_closed_by_its_bracket_and_a_line_break_only_at_the_outermost_level',
                   "r is Ok && flow ==> final(ser).out.text() == (if old(ser).in_flow == 0 { old(ser).out.text().push('%s').push('\\n') } else { old(ser).out.text().push('%s') })" % (('}', '}') if sid == 'MapSer' else (']', ']')))],
         loops=({1: dict(invariant=[('frame', '__i1 <= __n1 && ser.empty_as_braces == old(ser).empty_as_braces && ser.in_flow == old(ser).in_flow')], decreases='__n1 - __i1')} if sid == 'MapSer' else {}),
         canaries=['C20:ending_a_non_empty_block_collection_writes_nothing_and_keeps_the_mark_of_its_last_scalar'])
ITEMS += [
    _end_whole('SerializeSeq for SeqSer', 'SeqSer', 'depth: usize, flow: bool, first: bool',
               [(r'\bself\.depth\b', 'depth', None, 'R9'), (r'\bself\.flow\b', 'flow', None, 'R9'), (r'\bself\.first\b', 'first', None, 'R9')]),
    _end_whole('SerializeMap for MapSer', 'MapSer', 'depth: usize, flow: bool, first: bool, align_after_dash: bool',
               [(r'\bself\.depth\b', 'depth', None, 'R9'), (r'\bself\.flow\b', 'flow', None, 'R9'), (r'\bself\.first\b', 'first', None, 'R9'), (r'\bself\.align_after_dash\b', 'align_after_dash', None, 'R9')]),
]
