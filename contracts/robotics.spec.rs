// ===== unit `robotics`: representation invariant of the expression parser =====
impl<'a> Parser<'a> {
    /// the byte view is the text, the cursor is inside it, nesting is within the limit
    spec fn wf(&self) -> bool {
        &&& self.b@ == self.s.spec_bytes()
        &&& self.i <= self.b@.len()
        &&& self.b@.len() <= isize::MAX
        &&& self.depth <= 256
    }
    /// nothing but the cursor (and, transiently, depth / sexagesimal mode) ever changes
    spec fn same_input(&self, o: &Parser<'a>) -> bool {
        self.s == o.s && self.b == o.b && self.loc == o.loc && self.tag == o.tag
    }
    spec fn rest(&self) -> int { self.b@.len() - self.i }
}

/// the digit characters of a byte string (underscore separators dropped)
spec fn digits_only(s: Seq<u8>) -> Seq<u8>
    decreases s.len(),
{
    if s.len() == 0 { Seq::<u8>::empty() }
    else if sp_is_digit(s.last()) { digits_only(s.drop_last()).push(s.last()) }
    else { digits_only(s.drop_last()) }
}

/// value of a digit string the way the evaluator accumulates it: ((0*10 + d0)*10 + d1)...
spec fn uint_fold(ds: Seq<u8>) -> f64
    decreases ds.len(),
{
    if ds.len() == 0 { 0.0f64 } else { sp_fadd(sp_fmul(uint_fold(ds.drop_last()), 10.0f64), sp_u32_to_f64((ds.last() - 0x30) as u32)) }
}

/// `s` is a run of digits in which every `_` stands between two digits
spec fn digits_with_separators(s: Seq<u8>) -> bool {
    &&& s.len() > 0 && sp_is_digit(s[0]) && sp_is_digit(s.last())
    &&& forall|k: int| 0 <= k < s.len() ==> sp_is_digit(#[trigger] s[k]) || (s[k] == 0x5f && 0 < k && k + 1 < s.len() && sp_is_digit(s[k - 1]) && sp_is_digit(s[k + 1]))
}

proof fn lemma_digits_only_step(b: Seq<u8>, a: int, i: int)
    requires 0 <= a <= i < b.len(),
    ensures digits_only(b.subrange(a, i + 1)) == (if sp_is_digit(b[i]) { digits_only(b.subrange(a, i)).push(b[i]) } else { digits_only(b.subrange(a, i)) }),
{
    assert(b.subrange(a, i + 1).drop_last() =~= b.subrange(a, i));
    assert(b.subrange(a, i + 1).last() == b[i]);
}

proof fn lemma_digits_only_len(s: Seq<u8>)
    ensures digits_only(s).len() <= s.len(),
    decreases s.len(),
{
    if s.len() > 0 { lemma_digits_only_len(s.drop_last()); }
}

spec fn scale_fold(n: nat) -> f64
    decreases n,
{
    if n == 0 { 1.0f64 } else { sp_fmul(scale_fold((n - 1) as nat), 10.0f64) }
}

/// value of a fractional digit string: only the first 18 digits count
spec fn frac_value(ds: Seq<u8>) -> f64 {
    let n = if ds.len() < 18 { ds.len() } else { 18 };
    sp_fdiv(uint_fold(ds.take(n as int)), scale_fold(n))
}

/// a byte string with its `_` separators removed
spec fn strip_us(s: Seq<u8>) -> Seq<u8>
    decreases s.len(),
{
    if s.len() == 0 { Seq::<u8>::empty() }
    else if s.last() == 0x5f { strip_us(s.drop_last()) }
    else { strip_us(s.drop_last()).push(s.last()) }
}

proof fn lemma_strip_us_step(b: Seq<u8>, a: int, i: int)
    requires 0 <= a <= i < b.len(),
    ensures strip_us(b.subrange(a, i + 1)) == (if b[i] == 0x5f { strip_us(b.subrange(a, i)) } else { strip_us(b.subrange(a, i)).push(b[i]) }),
{
    assert(b.subrange(a, i + 1).drop_last() =~= b.subrange(a, i));
    assert(b.subrange(a, i + 1).last() == b[i]);
}

/// case-insensitive keyword at a position
spec fn kw_at(b: Seq<u8>, i: int, kw: Seq<u8>) -> bool {
    i + kw.len() <= b.len() && sp_eq_ci(b.subrange(i, i + kw.len()), kw)
}

proof fn lemma_dot_inf_nan()
    ensures ".inf".spec_bytes() =~= seq![0x2eu8, 0x69, 0x6e, 0x66], ".nan".spec_bytes() =~= seq![0x2eu8, 0x6e, 0x61, 0x6e],
{
    reveal_strlit(".inf"); reveal_strlit(".nan");
    is_ascii_chars_encode_utf8(".inf"@); is_ascii_chars_encode_utf8(".nan"@);
}

// ======================= reference semantics of the expression language (relational) =======================
// r_X(b, i0, i1, mode, tag, depth, e): "the text b[i0..i1] is an X and evaluates to e = (value, used_unit, saw_plain)"
// with the standard precedence: expr = term (('+'|'-') term)*, term = unary (('*'|'/') unary)*, both LEFT-associative,
// unary = ('+'|'-')* primary, primary = '(' expr ')' | number | constant | deg(expr) | rad(expr).
// Float operations are the uninterpreted sp_f*; every recursive reference is to a strictly smaller interval (or the
// same interval at a lower rank), which is what `decreases` checks.

spec fn skip_ws_pos(b: Seq<u8>, i: int) -> int
    decreases b.len() - i,
{
    if 0 <= i < b.len() && (b[i] == 0x20 || b[i] == 0x09 || b[i] == 0x0a || b[i] == 0x0d) { skip_ws_pos(b, i + 1) } else { i }
}

proof fn lemma_skip_ws_pos(b: Seq<u8>, i: int)
    requires 0 <= i <= b.len(),
    ensures i <= skip_ws_pos(b, i) <= b.len(),
        skip_ws_pos(b, i) < b.len() ==> !({ let c = b[skip_ws_pos(b, i)]; c == 0x20 || c == 0x09 || c == 0x0a || c == 0x0d }),
        skip_ws_pos(b, skip_ws_pos(b, i)) == skip_ws_pos(b, i),
    decreases b.len() - i,
{
    if i < b.len() && (b[i] == 0x20 || b[i] == 0x09 || b[i] == 0x0a || b[i] == 0x0d) { lemma_skip_ws_pos(b, i + 1); }
}

type Ev3 = (f64, bool, bool);

/// trigger carriers for the existential witnesses below (always true; opaque so that they stay in the terms)
#[verifier::opaque] spec fn wit(j: int, e: Ev3) -> bool { true }
#[verifier::opaque] spec fn wit1(e: Ev3) -> bool { true }
#[verifier::opaque] spec fn witp(j: int) -> bool { true }

/// a number token (what parse_number_or_special guarantees)
spec fn r_number(b: Seq<u8>, i0: int, i1: int, e: Ev3) -> bool {
    ||| (kw_at(b, i0, seq![0x2eu8, 0x69, 0x6e, 0x66]) && i1 == i0 + 4 && e == (sp_inf(), false, true))
    ||| (kw_at(b, i0, seq![0x2eu8, 0x6e, 0x61, 0x6e]) && i1 == i0 + 4 && e == (sp_nan(), false, true))
    ||| (e.1 && !e.2 && i1 > i0)
    ||| (!e.1 && e.2 && i1 > i0 && sp_f64_parse(strip_us(b.subrange(i0, i1))) == Some(e.0))
}

spec fn ident_end(b: Seq<u8>, i: int) -> int
    decreases b.len() - i,
{
    if 0 <= i < b.len() && (sp_is_alpha(b[i]) || sp_is_digit(b[i]) || b[i] == 0x5f) { ident_end(b, i + 1) } else { i }
}

spec fn name_is(b: Seq<u8>, i: int, e: int, kw: Seq<u8>) -> bool { sp_eq_ci(b.subrange(i, e), kw) }

spec fn r_expr(b: Seq<u8>, i0: int, i1: int, m: bool, t: SfTag, d: int, e: Ev3) -> bool
    decreases i1 - i0, 9int,
{
    exists|j: int, e1: Ev3| #[trigger] wit(j, e1) && i0 <= j <= i1 && r_term(b, i0, j, m, t, d, e1) && r_expr_tail(b, j, i1, m, t, d, e1, e)
}

spec fn r_expr_tail(b: Seq<u8>, j: int, i1: int, m: bool, t: SfTag, d: int, acc: Ev3, e: Ev3) -> bool
    decreases i1 - j, 8int,
{
    let i = skip_ws_pos(b, j);
    if j <= i < b.len() && i < i1 && b[i] == 0x2b {
        exists|k: int, e2: Ev3| #[trigger] wit(k, e2) && i + 1 <= k <= i1 && r_term(b, i + 1, k, m, t, d, e2)
            && r_expr_tail(b, k, i1, m, t, d, (sp_fadd(acc.0, e2.0), acc.1 || e2.1, acc.2 || e2.2), e)
    } else if j <= i < b.len() && i < i1 && b[i] == 0x2d {
        exists|k: int, e2: Ev3| #[trigger] wit(k, e2) && i + 1 <= k <= i1 && r_term(b, i + 1, k, m, t, d, e2)
            && r_expr_tail(b, k, i1, m, t, d, (sp_fsub(acc.0, e2.0), acc.1 || e2.1, acc.2 || e2.2), e)
    } else {
        i1 == i && e == acc && !(i < b.len() && (b[i] == 0x2b || b[i] == 0x2d))
    }
}

spec fn r_term(b: Seq<u8>, i0: int, i1: int, m: bool, t: SfTag, d: int, e: Ev3) -> bool
    decreases i1 - i0, 7int,
{
    exists|j: int, e1: Ev3| #[trigger] wit(j, e1) && i0 <= j <= i1 && r_unary(b, i0, j, m, t, d, e1) && r_term_tail(b, j, i1, m, t, d, e1, e)
}

spec fn r_term_tail(b: Seq<u8>, j: int, i1: int, m: bool, t: SfTag, d: int, acc: Ev3, e: Ev3) -> bool
    decreases i1 - j, 6int,
{
    let i = skip_ws_pos(b, j);
    if j <= i < b.len() && i < i1 && b[i] == 0x2a {
        exists|k: int, e2: Ev3| #[trigger] wit(k, e2) && i + 1 <= k <= i1 && r_unary(b, i + 1, k, m, t, d, e2)
            && r_term_tail(b, k, i1, m, t, d, (sp_fmul(acc.0, e2.0), acc.1 || e2.1, acc.2 || e2.2), e)
    } else if j <= i < b.len() && i < i1 && b[i] == 0x2f {
        exists|k: int, e2: Ev3| #[trigger] wit(k, e2) && i + 1 <= k <= i1 && r_unary(b, i + 1, k, m, t, d, e2)
            && r_term_tail(b, k, i1, m, t, d, (sp_fdiv(acc.0, e2.0), acc.1 || e2.1, acc.2 || e2.2), e)
    } else {
        i1 == i && e == acc && !(i < b.len() && (b[i] == 0x2a || b[i] == 0x2f))
    }
}

spec fn r_unary(b: Seq<u8>, i0: int, i1: int, m: bool, t: SfTag, d: int, e: Ev3) -> bool
    decreases i1 - i0, 5int,
{
    let i = skip_ws_pos(b, i0);
    i0 <= i <= i1 && r_signs(b, i, i1, m, t, d, 1.0f64, e)
}

spec fn r_signs(b: Seq<u8>, i: int, i1: int, m: bool, t: SfTag, d: int, sign: f64, e: Ev3) -> bool
    decreases i1 - i, 4int,
{
    if 0 <= i < b.len() && i < i1 && b[i] == 0x2b { r_signs(b, i + 1, i1, m, t, d, sign, e) }
    else if 0 <= i < b.len() && i < i1 && b[i] == 0x2d { r_signs(b, i + 1, i1, m, t, d, sp_fneg(sign), e) }
    else { exists|ep: Ev3| #[trigger] wit1(ep) && r_primary(b, i, i1, m, t, d, ep) && e == (sp_fmul(sign, ep.0), ep.1, ep.2) }
}

spec fn r_primary(b: Seq<u8>, i0: int, i1: int, m: bool, t: SfTag, d: int, e: Ev3) -> bool
    decreases i1 - i0, 3int,
{
    let i = skip_ws_pos(b, i0);
    i0 <= i < b.len() && i < i1 && (
        if b[i] == 0x28 {
            d < 256 && exists|j: int| #[trigger] witp(j) && i + 1 <= j < i1 && r_expr(b, i + 1, j, m, t, d + 1, e)
                && ({ let c = skip_ws_pos(b, j); j <= c < b.len() && b[c] == 0x29 && i1 == c + 1 })
        } else if sp_is_digit(b[i]) || b[i] == 0x2e {
            r_number(b, i, i1, e)
        } else if sp_is_alpha(b[i]) || b[i] == 0x5f {
            r_ident(b, i, i1, m, t, d, e)
        } else { false })
}

spec fn r_ident(b: Seq<u8>, i: int, i1: int, m: bool, t: SfTag, d: int, e: Ev3) -> bool
    decreases i1 - i, 2int,
{
    let ie = ident_end(b, i);
    if name_is(b, i, ie, seq![0x70u8, 0x69]) { i1 == ie && e == (sp_pi(), false, true) }
    else if name_is(b, i, ie, seq![0x74u8, 0x61, 0x75]) { i1 == ie && e == (sp_fmul(2.0f64, sp_pi()), false, true) }
    else if name_is(b, i, ie, seq![0x69u8, 0x6e, 0x66]) { i1 == ie && e == (sp_inf(), false, true) }
    else if name_is(b, i, ie, seq![0x6eu8, 0x61, 0x6e]) { i1 == ie && e == (sp_nan(), false, true) }
    else if name_is(b, i, ie, seq![0x64u8, 0x65, 0x67]) || name_is(b, i, ie, seq![0x72u8, 0x61, 0x64]) {
        let p = skip_ws_pos(b, ie);
        i < ie <= p < b.len() && b[p] == 0x28 && d < 256
        && exists|j: int, ei: Ev3| #[trigger] wit(j, ei) && p + 1 <= j < i1 && r_expr(b, p + 1, j, false, t, d + 1, ei)
            && ({ let c = skip_ws_pos(b, j); j <= c < b.len() && b[c] == 0x29 && i1 == c + 1 })
            && e == (if name_is(b, i, ie, seq![0x64u8, 0x65, 0x67]) { sp_fmul(ei.0, sp_deg2rad()) } else { ei.0 }, true, false)
    } else { false }
}

proof fn lemma_ident_literals()
    ensures "pi".spec_bytes() =~= seq![0x70u8, 0x69], "tau".spec_bytes() =~= seq![0x74u8, 0x61, 0x75],
        "inf".spec_bytes() =~= seq![0x69u8, 0x6e, 0x66], "nan".spec_bytes() =~= seq![0x6eu8, 0x61, 0x6e],
        "deg".spec_bytes() =~= seq![0x64u8, 0x65, 0x67], "rad".spec_bytes() =~= seq![0x72u8, 0x61, 0x64],
{
    reveal_strlit("pi"); reveal_strlit("tau"); reveal_strlit("inf"); reveal_strlit("nan"); reveal_strlit("deg"); reveal_strlit("rad");
    is_ascii_chars_encode_utf8("pi"@); is_ascii_chars_encode_utf8("tau"@); is_ascii_chars_encode_utf8("inf"@);
    is_ascii_chars_encode_utf8("nan"@); is_ascii_chars_encode_utf8("deg"@); is_ascii_chars_encode_utf8("rad"@);
}

proof fn lemma_expr_tail_bound(b: Seq<u8>, j: int, i1: int, m: bool, t: SfTag, d: int, acc: Ev3, e: Ev3)
    requires r_expr_tail(b, j, i1, m, t, d, acc, e), 0 <= j <= b.len(),
    ensures j <= i1,
    decreases i1 - j,
{
    lemma_skip_ws_pos(b, j);
}

proof fn lemma_term_tail_bound(b: Seq<u8>, j: int, i1: int, m: bool, t: SfTag, d: int, acc: Ev3, e: Ev3)
    requires r_term_tail(b, j, i1, m, t, d, acc, e), 0 <= j <= b.len(),
    ensures j <= i1,
    decreases i1 - j,
{
    lemma_skip_ws_pos(b, j);
}

proof fn lemma_signs_bound(b: Seq<u8>, i: int, i1: int, m: bool, t: SfTag, d: int, sign: f64, e: Ev3)
    requires r_signs(b, i, i1, m, t, d, sign, e), 0 <= i <= b.len(),
    ensures i < i1,
{
    lemma_skip_ws_pos(b, i);
    if 0 <= i < b.len() && i < i1 && (b[i] == 0x2b || b[i] == 0x2d) {
    } else {
        let ep = choose|ep: Ev3| #[trigger] wit1(ep) && r_primary(b, i, i1, m, t, d, ep) && e == (sp_fmul(sign, ep.0), ep.1, ep.2);
        assert(r_primary(b, i, i1, m, t, d, ep));
    }
}

/// the tail relations only look at the text from the first non-blank position on
proof fn lemma_expr_tail_skip(b: Seq<u8>, j: int, i1: int, m: bool, t: SfTag, d: int, acc: Ev3, e: Ev3)
    requires 0 <= j <= b.len(), r_expr_tail(b, skip_ws_pos(b, j), i1, m, t, d, acc, e),
    ensures r_expr_tail(b, j, i1, m, t, d, acc, e),
{
    lemma_skip_ws_pos(b, j);
}

proof fn lemma_term_tail_skip(b: Seq<u8>, j: int, i1: int, m: bool, t: SfTag, d: int, acc: Ev3, e: Ev3)
    requires 0 <= j <= b.len(), r_term_tail(b, skip_ws_pos(b, j), i1, m, t, d, acc, e),
    ensures r_term_tail(b, j, i1, m, t, d, acc, e),
{
    lemma_skip_ws_pos(b, j);
}
