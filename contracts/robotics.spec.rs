// ===== unit `robotics`: representation invariant of the expression parser =====
impl<'a> Parser<'a> {
    /// the byte view is the text, the cursor is inside it, nesting is within the limit
    spec fn wf(&self) -> bool {
        &&& self.b@ == self.s.spec_bytes()
        &&& self.i <= self.b@.len()
        &&& self.b@.len() <= isize::MAX
        &&& self.depth <= 256
    }
    /// nothing but the cursor (and, transiently, depth / sexagesimal mode) ever changes
    spec fn same_input(&self, o: &Parser<'a>) -> bool {
        self.s == o.s && self.b == o.b && self.loc == o.loc && self.tag == o.tag
    }
    spec fn rest(&self) -> int { self.b@.len() - self.i }
}

/// the digit characters of a byte string (underscore separators dropped)
spec fn digits_only(s: Seq<u8>) -> Seq<u8>
    decreases s.len(),
{
    if s.len() == 0 { Seq::<u8>::empty() }
    else if sp_is_digit(s.last()) { digits_only(s.drop_last()).push(s.last()) }
    else { digits_only(s.drop_last()) }
}

/// value of a digit string the way the evaluator accumulates it: ((0*10 + d0)*10 + d1)...
spec fn uint_fold(ds: Seq<u8>) -> f64
    decreases ds.len(),
{
    if ds.len() == 0 { 0.0f64 } else { sp_fadd(sp_fmul(uint_fold(ds.drop_last()), 10.0f64), sp_u32_to_f64((ds.last() - 0x30) as u32)) }
}

/// `s` is a run of digits in which every `_` stands between two digits
spec fn digits_with_separators(s: Seq<u8>) -> bool {
    &&& s.len() > 0 && sp_is_digit(s[0]) && sp_is_digit(s.last())
    &&& forall|k: int| 0 <= k < s.len() ==> sp_is_digit(#[trigger] s[k]) || (s[k] == 0x5f && 0 < k && k + 1 < s.len() && sp_is_digit(s[k - 1]) && sp_is_digit(s[k + 1]))
}

proof fn lemma_digits_only_step(b: Seq<u8>, a: int, i: int)
    requires 0 <= a <= i < b.len(),
    ensures digits_only(b.subrange(a, i + 1)) == (if sp_is_digit(b[i]) { digits_only(b.subrange(a, i)).push(b[i]) } else { digits_only(b.subrange(a, i)) }),
{
    assert(b.subrange(a, i + 1).drop_last() =~= b.subrange(a, i));
    assert(b.subrange(a, i + 1).last() == b[i]);
}

proof fn lemma_digits_only_len(s: Seq<u8>)
    ensures digits_only(s).len() <= s.len(),
    decreases s.len(),
{
    if s.len() > 0 { lemma_digits_only_len(s.drop_last()); }
}

spec fn scale_fold(n: nat) -> f64
    decreases n,
{
    if n == 0 { 1.0f64 } else { sp_fmul(scale_fold((n - 1) as nat), 10.0f64) }
}

/// value of a fractional digit string: only the first 18 digits count
spec fn frac_value(ds: Seq<u8>) -> f64 {
    let n = if ds.len() < 18 { ds.len() } else { 18 };
    sp_fdiv(uint_fold(ds.take(n as int)), scale_fold(n))
}

/// a byte string with its `_` separators removed
spec fn strip_us(s: Seq<u8>) -> Seq<u8>
    decreases s.len(),
{
    if s.len() == 0 { Seq::<u8>::empty() }
    else if s.last() == 0x5f { strip_us(s.drop_last()) }
    else { strip_us(s.drop_last()).push(s.last()) }
}

proof fn lemma_strip_us_step(b: Seq<u8>, a: int, i: int)
    requires 0 <= a <= i < b.len(),
    ensures strip_us(b.subrange(a, i + 1)) == (if b[i] == 0x5f { strip_us(b.subrange(a, i)) } else { strip_us(b.subrange(a, i)).push(b[i]) }),
{
    assert(b.subrange(a, i + 1).drop_last() =~= b.subrange(a, i));
    assert(b.subrange(a, i + 1).last() == b[i]);
}

/// case-insensitive keyword at a position
spec fn kw_at(b: Seq<u8>, i: int, kw: Seq<u8>) -> bool {
    i + kw.len() <= b.len() && sp_eq_ci(b.subrange(i, i + kw.len()), kw)
}

proof fn lemma_dot_inf_nan()
    ensures ".inf".spec_bytes() =~= seq![0x2eu8, 0x69, 0x6e, 0x66], ".nan".spec_bytes() =~= seq![0x2eu8, 0x6e, 0x61, 0x6e],
{
    reveal_strlit(".inf"); reveal_strlit(".nan");
    is_ascii_chars_encode_utf8(".inf"@); is_ascii_chars_encode_utf8(".nan"@);
}
