"""Unit `reader`: src/buffered_input.rs ChunkedChars::next against a nondeterministic byte source."""
from contracts_types import *
NAME = 'reader'
FEATURES = []
USES = ['use vstd::string::*;', 'use vstd::utf8::*;']
PRELUDE = ['reader.shim.rs', 'reader.spec.rs']
SUBST = [
    (r'Rc<RefCell<Option<Error>>>', 'ErrSlot'),
]
BI = 'src/buffered_input.rs'
SAPHYR = 'dep:saphyr-parser-bw-0.0.608/src/'
ITEMS = [
    dict(src=BI, path='struct ChunkedChars',
         rewrites=[(r'ChunkedChars<R: Read>', 'ChunkedChars', 1, 'R9'), (r'reader: R,', 'reader: ByteSrc,', 1, 'R9')]),
    dict(src=BI, path='impl Iterator for ChunkedChars/fn next', id='ChunkedChars::next', impl_header='impl ChunkedChars',
         props=['C10', 'C09', 'C01'],
         rewrites=[
             (r'\bio::ErrorKind::', 'IoErrorKind::', None, 'R6'),
             (r'\bio::Error::new\(', 'IoErr::new(', None, 'R6'),
             (r'format!\("input size limit of \{limit\} bytes exceeded"\)', 'fmt_limit_msg(limit)', None, 'R8'),
             (r'std::str::from_utf8\(', 'str_from_utf8(', None, 'R8'),
             (r'\bs\.chars\(\)\.next\(\)', 'str_first_char(s)', None, 'R8'),
         ],
         proofs=[
             dict(at='start', ghost=True, text='let ghost rem0 = self.reader.remaining();'),
             dict(after='let first = buf[0];', text='lemma_masks(first); assert(rem0.take(1) =~= seq![first]);'),
             dict(before='match str_from_utf8(&buf[..needed]) {', text='''
                 let b = buf@.subrange(0, needed as int);
                 assert(b =~= rem0.take(needed as int));
                 assert(b[0] == first);
                 if valid_utf8(b) {
                     lemma_one_char(b);
                     assert forall|cs: Seq<char>| #[trigger] encode_utf8(cs) == b implies cs == decode_utf8(b) && seq![cs[0]] =~= cs by {
                         encode_utf8_decode_utf8(cs);
                     }
                 }
                 assert(self.reader.remaining() == rem0.skip(needed as int));'''),
         ],
         loops={
             1: dict(header=r'^loop$', invariant_except_break=[
                    ('unchanged', '''self.reader.remaining() == rem0 && rem0 == old(self).reader.remaining()
                        && self.err.content() == old(self).err.content() && self.total_bytes == old(self).total_bytes
                        && self.max_bytes == old(self).max_bytes''')],
                     ensures=[('first_byte_read', '''rem0.len() >= 1 && buf@[0] == rem0[0] && self.reader.remaining() == rem0.skip(1)
                        && rem0 == old(self).reader.remaining()
                        && self.err.content() == old(self).err.content() && self.total_bytes == old(self).total_bytes
                        && self.max_bytes == old(self).max_bytes''')],
                     decreases='self.reader.interrupts_left()'),
             2: dict(header=r'^while read < needed - 1$', invariant=[
                    ('assembled_prefix', '''2 <= needed as int <= 4 && read as int <= needed as int - 1 && lead_width(first) == needed as int && buf@[0] == first
                        && read as int + 1 <= rem0.len() && buf@.subrange(0, read as int + 1) =~= rem0.take(read as int + 1)
                        && self.reader.remaining() == rem0.skip(read as int + 1) && rem0 == old(self).reader.remaining()'''),
                    ('unchanged', '''self.err.content() == old(self).err.content() && self.total_bytes == old(self).total_bytes
                        && self.max_bytes == old(self).max_bytes''')],
                     decreases='needed as int - 1 - read as int'),
         },
         ensures=[
             ('C09:delivers_exactly_the_next_character_for_every_chunking', '''match r {
                Some(c) => exists|n: int| first_char_is(old(self).reader.remaining(), n, c)
                            && #[trigger] old(self).reader.remaining().skip(n) == final(self).reader.remaining()
                            && final(self).total_bytes == (if old(self).total_bytes + n > usize::MAX { usize::MAX } else { (old(self).total_bytes + n) as usize })
                            && final(self).err.content() == old(self).err.content(),
                None => true }'''),
             ('C10:end_of_input_only_when_nothing_is_left_or_an_error_is_stored', '''r is None ==>
                    final(self).err.content() is Some
                    || (old(self).reader.remaining().len() == 0 && final(self).err.content() == old(self).err.content()
                        && final(self).reader.remaining().len() == 0)'''),
             ('C10:byte_cap_never_exceeded', '''old(self).max_bytes is Some && r is Some ==>
                    final(self).total_bytes <= old(self).max_bytes.unwrap()'''),
             ('config_kept', 'final(self).max_bytes == old(self).max_bytes'),
         ],
         canaries=['C09:delivers_exactly_the_next_character_for_every_chunking',
                   'C10:end_of_input_only_when_nothing_is_left_or_an_error_is_stored']),
    # ---- how the reader input is built: the decoder in front of ChunkedChars removes a leading byte order mark (C09) ----
    dict(src=BI, path='fn buffered_input_from_reader_with_limit', id='buffered_input_from_reader_with_limit#decoder', props=['C09', 'C01'],
         fragment=r'let decoder = DecodeReaderBytesBuilder::new\(\).*?\.build\(reader\);', fragment_flags='S',
         wrapper='fn build_decoder_fragment(reader: RawReader) -> DecodeReaderBytes { {FRAG} decoder }',
         ensures=[('C09:reader_input_loses_a_leading_byte_order_mark_like_str_and_slice_input', 'r.strips_utf8_bom()'),
                  ('C09:reader_input_is_transcoded_from_the_encoding_its_byte_order_mark_announces', 'r.sniffs_encoding()')],
         canaries=['C09:reader_input_loses_a_leading_byte_order_mark_like_str_and_slice_input']),
    # ---- writer side of C10: an I/O failure of the output is never swallowed and what was written is a prefix ----
    dict(src='src/lib.rs', path='fn to_io_writer_with_options/struct Adapter',
         rewrites=[(r"struct Adapter<'a, W: std::io::Write>", "struct Adapter<'a>", 1, 'R9'), (r"output: &'a mut W,", "output: &'a mut ByteSink,", 1, 'R9'),
                   (r'Option<std::io::Error>', 'Option<IoErr>', 1, 'R6')]),
    dict(src='src/lib.rs', path='fn to_io_writer_with_options/impl std::fmt::Write for Adapter/fn write_str', id='Adapter::write_str',
         impl_header="impl<'a> Adapter<'a>", props=['C10', 'C01'],
         rewrites=[(r'-> std::fmt::Result', '-> Result<(), FmtErr>', 1, 'R6'), (r'std::fmt::Error', 'FmtErr', None, 'R6'),
                   (r's\.as_bytes\(\)', 'str_as_bytes(s)', 1, 'R8')],
         ensures=[('C10:a_failed_write_is_remembered_for_the_caller', 'r is Err ==> final(self).last_err is Some'),
                  ('C10:a_successful_write_appends_exactly_the_text', 'r is Ok ==> final(self).output.written() == old(self).output.written() + s.spec_bytes() && final(self).last_err == old(self).last_err'),
                  ('C10:after_a_failure_the_output_holds_a_prefix_of_what_was_to_be_written',
                   'r is Err ==> exists|k: int| 0 <= k <= s.spec_bytes().len() && final(self).output.written() == old(self).output.written() + #[trigger] s.spec_bytes().take(k)')],
         canaries=['C10:a_failed_write_is_remembered_for_the_caller']),
    dict(src='src/lib.rs', path='fn to_io_writer_with_options/impl std::fmt::Write for Adapter/fn write_char', id='Adapter::write_char',
         impl_header="impl<'a> Adapter<'a>", props=['C10', 'C01'],
         rewrites=[(r'-> std::fmt::Result', '-> Result<(), FmtErr>', 1, 'R6'), (r'std::fmt::Error', 'FmtErr', None, 'R6'),
                   (r'c\.encode_utf8\(&mut buf\)', 'char_encode_utf8(c, &mut buf)', 1, 'R8'),
                   (r'(\w+)\.as_bytes\(\)', r'str_as_bytes(\1)', None, 'R8')],
         ensures=[('C10:a_failed_write_is_remembered_for_the_caller', 'r is Err ==> final(self).last_err is Some'),
                  ('C10:a_successful_write_appends_exactly_the_character', 'r is Ok ==> final(self).output.written() == old(self).output.written() + encode_utf8(seq![c]) && final(self).last_err == old(self).last_err'),
                  ('C10:after_a_failure_the_output_holds_a_prefix_of_what_was_to_be_written',
                   'r is Err ==> exists|k: int| 0 <= k <= encode_utf8(seq![c]).len() && final(self).output.written() == old(self).output.written() + #[trigger] encode_utf8(seq![c]).take(k)')],
         canaries=['C10:a_failed_write_is_remembered_for_the_caller']),
    dict(src='src/lib.rs', path='fn to_io_writer_with_options', id='to_io_writer_with_options#result', props=['C10', 'C01'],
         fragment=r'match value\.serialize\(&mut ser\) \{.*\}\s*\}\s*\}', fragment_flags='S',
         wrapper="fn io_writer_result_fragment<'a>(res: Result<(), SerErr>, adapter: &mut Adapter<'a>) -> Result<(), SerErr> { {FRAG} }",
         pre_rewrites=[(r'match value\.serialize\(&mut ser\) \{', 'match res {', 1, 'R9'),
                       (r'crate::ser::Error::from\(io_error\)', 'ser_error_from_io(io_error)', 1, 'R8'),
                       (r'\}\s*\}\s*\}\s*$', '} }', 1, 'R9')],
         ensures=[('C10:a_write_failure_of_the_output_is_what_serialization_returns',
                   'res is Err && old(adapter).last_err is Some ==> r is Err && ser_err_io(r->Err_0) == old(adapter).last_err'),
                  ('C10:any_other_failure_is_passed_on', 'res is Err && old(adapter).last_err is None ==> r == res'),
                  ('success_is_passed_on', 'res is Ok ==> r is Ok')],
         canaries=['C10:a_write_failure_of_the_output_is_what_serialization_returns']),
    # ---- C01 (termination) reaches into the dependency here: the default method of saphyr-parser's `trait Input` that the
    # directive scanner uses, extracted from the dependency source and run over the padded character source that
    # BufferedInput<ChunkedChars<..>> is.  Its loop has no measure: at end of input `look_ch` yields '\0' for ever and
    # `is_yaml_non_space('\0')` holds (known finding F28: from_reader("%") never returns).
    dict(src=SAPHYR + 'input.rs', path='trait Input/fn fetch_while_is_yaml_non_space', id='saphyr::Input::fetch_while_is_yaml_non_space', props=['C01'],
         pre_rewrites=[(r'fn fetch_while_is_yaml_non_space\(&mut self, out: &mut String\) -> usize', 'fn fetch_while_is_yaml_non_space(this: &mut PaddedChars, out: &mut String) -> usize', 1, 'R9'),
                       (r'\bself\b', 'this', None, 'R9'), (r'crate::char_traits::is_yaml_non_space', 'is_yaml_non_space', 1, 'R9'),
                       (r'c\.len_utf8\(\)', 'char_len_utf8(c)', 1, 'R8'), (r'out\.push\(c\);', 'string_push_char(out, c);', 1, 'R8')],
         impl_header='',
         requires=[('a_text_shorter_than_the_address_space', 'old(this).rest().len() * 4 < usize::MAX')],
         loops={1: dict(decreases='this.rest().len()')}),
]
