// ===== fingerprint / KeyNode specs of unit `events` (node grammar is in evnodes.spec.rs) =====

/// view of the code's KeyFingerprint (only scalars are interpreted in this revision)
spec fn fp_of(k: KeyFingerprint) -> Fp {
    match k {
        KeyFingerprint::Scalar { value, tag } => Fp::Scalar(value@, tag),
        KeyFingerprint::Sequence(v) => Fp::Sequence(Seq::new(v@.len(), |i: int| fp_opaque(v@[i]))),
        KeyFingerprint::Mapping(v) => Fp::Mapping(Seq::new(v@.len(), |i: int| (fp_opaque(v@[i].0), fp_opaque(v@[i].1)))),
        KeyFingerprint::Default => Fp::Default,
    }
}
uninterp spec fn fp_opaque(k: KeyFingerprint) -> Fp;

/// representation invariant of KeyNode: the `Scalar` form holds exactly one scalar event
spec fn keynode_wf(n: KeyNode<'_>) -> bool {
    match n {
        KeyNode::Scalar { events, .. } => events@.len() == 1 && events@[0] is Scalar,
        KeyNode::Fingerprinted { .. } => true,
    }
}

spec fn keynode_events(n: KeyNode<'_>) -> Seq<Ev<'_>> {
    match n {
        KeyNode::Scalar { events, .. } => events@,
        KeyNode::Fingerprinted { events, .. } => events@,
    }
}

spec fn keynode_location(n: KeyNode<'_>) -> Location {
    match n {
        KeyNode::Scalar { location, .. } => location,
        KeyNode::Fingerprinted { location, .. } => location,
    }
}

/// deep view of the code's fingerprint value
spec fn fp_deep(k: KeyFingerprint) -> Fp
    decreases k
{
    match k {
        KeyFingerprint::Scalar { value, tag } => Fp::Scalar(value@, tag),
        KeyFingerprint::Sequence(v) => Fp::Sequence(Seq::new(v@.len(), |i: int| if 0 <= i < v@.len() { fp_deep(v@[i]) } else { Fp::Default })),
        KeyFingerprint::Mapping(v) => Fp::Mapping(Seq::new(v@.len(), |i: int|
            if 0 <= i < v@.len() { (fp_deep(v@[i].0), fp_deep(v@[i].1)) } else { (Fp::Default, Fp::Default) })),
        KeyFingerprint::Default => Fp::Default,
    }
}

spec fn fps_deep(v: Seq<KeyFingerprint>) -> Seq<Fp> {
    Seq::new(v.len(), |i: int| if 0 <= i < v.len() { fp_deep(v[i]) } else { Fp::Default })
}
spec fn fp_pairs_deep(v: Seq<(KeyFingerprint, KeyFingerprint)>) -> Seq<(Fp, Fp)> {
    Seq::new(v.len(), |i: int| if 0 <= i < v.len() { (fp_deep(v[i].0), fp_deep(v[i].1)) } else { (Fp::Default, Fp::Default) })
}

/// the fingerprint a KeyNode stands for (the Scalar form computes it on demand from its event)
spec fn keynode_fp(n: KeyNode<'_>) -> Fp {
    match n {
        KeyNode::Fingerprinted { fingerprint, .. } => fp_deep(fingerprint),
        KeyNode::Scalar { events, .. } => if events@.len() > 0 { fp_node(events@, 0) } else { Fp::Default },
    }
}

proof fn lemma_fp_deep_seq(v: Vec<KeyFingerprint>)
    ensures fp_deep(KeyFingerprint::Sequence(v)) == Fp::Sequence(fps_deep(v@)),
{
    let f = fp_deep(KeyFingerprint::Sequence(v));
    assert(f is Sequence);
    assert(f->Sequence_0 =~= fps_deep(v@));
}

proof fn lemma_fp_deep_map(v: Vec<(KeyFingerprint, KeyFingerprint)>)
    ensures fp_deep(KeyFingerprint::Mapping(v)) == Fp::Mapping(fp_pairs_deep(v@)),
{
    let f = fp_deep(KeyFingerprint::Mapping(v));
    assert(f is Mapping);
    assert(f->Mapping_0 =~= fp_pairs_deep(v@));
}

// ---- merge expansion order (C03) ----

/// what a pending entry stands for: the events of its key and of its value
struct AEnt<'a> { k: Seq<Ev<'a>>, v: Seq<Ev<'a>> }

spec fn abs_entries<'a>(v: Seq<PendingEntry<'a>>) -> Seq<AEnt<'a>> {
    Seq::new(v.len(), |i: int| AEnt { k: keynode_events(v[i].key), v: keynode_events(v[i].value) })
}

/// batches of merge sources flattened from the LAST one to the first (a later `<<` entry, and a
/// later element of a merge sequence, comes first and therefore wins at flush time)
spec fn concat_rev<'a>(batches: Seq<Vec<PendingEntry<'a>>>) -> Seq<AEnt<'a>>
    decreases batches.len()
{
    if batches.len() == 0 { Seq::empty() } else { abs_entries(batches.last()@) + concat_rev(batches.drop_last()) }
}

proof fn lemma_abs_entries_append<'a>(a: Seq<PendingEntry<'a>>, b: Seq<PendingEntry<'a>>)
    ensures abs_entries(a + b) =~= abs_entries(a) + abs_entries(b),
{
}

/// scalar_is_nullish as a function of text and style (its table is std string comparison, not interpreted here)
uninterp spec fn spec_nullish(value: Seq<char>, style: ScalarStyle) -> bool;

// ---- streaming map access (MA): representation invariant and merge flush order ----

spec fn pending_ok(p: Seq<PendingEntry<'_>>) -> bool {
    forall|i: int| 0 <= i < p.len() ==> keynode_wf((#[trigger] p[i]).key) && keynode_events(p[i].key).len() <= i32::MAX
}

spec fn batches_ok(b: Seq<Vec<PendingEntry<'_>>>) -> bool {
    forall|j: int| 0 <= j < b.len() ==> pending_ok((#[trigger] b[j])@)
}

/// index of the newest (last) non-empty merge batch, or -1
spec fn newest_nonempty(b: Seq<Vec<PendingEntry<'_>>>) -> int
    decreases b.len()
{
    if b.len() == 0 { -1 } else if b.last()@.len() > 0 { b.len() - 1 } else { newest_nonempty(b.drop_last()) }
}

spec fn ma_inv_parts(pending: Seq<PendingEntry<'_>>, merge_stack: Seq<Vec<PendingEntry<'_>>>, rest: Seq<Ev<'_>>) -> bool {
    pending_ok(pending) && batches_ok(merge_stack) && rest.len() <= i32::MAX
}

proof fn lemma_pending_concat(a: Seq<PendingEntry<'_>>, b: Seq<PendingEntry<'_>>)
    requires pending_ok(a), pending_ok(b),
    ensures pending_ok(a + b),
{
    assert forall|i: int| 0 <= i < (a + b).len() implies keynode_wf((#[trigger] (a + b)[i]).key) && keynode_events((a + b)[i].key).len() <= i32::MAX by {
        if i < a.len() { assert((a + b)[i] == a[i]); } else { assert((a + b)[i] == b[i - a.len()]); }
    }
}

proof fn lemma_newest_nonempty(b: Seq<Vec<PendingEntry<'_>>>)
    ensures -1 <= newest_nonempty(b) < b.len(), newest_nonempty(b) >= 0 ==> b[newest_nonempty(b)]@.len() > 0,
    decreases b.len(),
{
    if b.len() > 0 && b.last()@.len() == 0 { lemma_newest_nonempty(b.drop_last()); }
}

proof fn lemma_flush_step(ms0: Seq<Vec<PendingEntry<'_>>>, p0: Seq<PendingEntry<'_>>)
    requires batches_ok(ms0), pending_ok(p0), newest_nonempty(ms0) >= 0,
    ensures pending_ok(ms0[newest_nonempty(ms0)]@ + p0), batches_ok(ms0.take(newest_nonempty(ms0))),
{
    lemma_newest_nonempty(ms0);
    let k = newest_nonempty(ms0);
    lemma_pending_concat(ms0[k]@, p0);
    assert forall|j: int| 0 <= j < ms0.take(k).len() implies pending_ok((#[trigger] ms0.take(k)[j])@) by {
        assert(ms0.take(k)[j] == ms0[j]);
    }
}

proof fn lemma_pending_ok_append<'a>(a: Seq<PendingEntry<'a>>, b: Seq<PendingEntry<'a>>)
    requires pending_ok(a), pending_ok(b),
    ensures pending_ok(a + b),
{
    assert forall|i: int| 0 <= i < (a + b).len() implies keynode_wf((#[trigger] (a + b)[i]).key) && keynode_events((a + b)[i].key).len() <= i32::MAX by {
        if i < a.len() { assert((a + b)[i] == a[i]); } else { assert((a + b)[i] == b[i - a.len()]); }
    }
}
