// ===== spec library for unit `events`: nodes in an event sequence =====

impl Ev<'_> {
    spec fn spec_location(&self) -> Location {
        match *self {
            Ev::Scalar { location, .. } => location,
            Ev::SeqStart { location, .. } => location,
            Ev::SeqEnd { location } => location,
            Ev::MapStart { location, .. } => location,
            Ev::MapEnd { location } => location,
            Ev::Taken { location } => location,
        }
    }
}

spec fn is_start(e: Ev<'_>) -> bool { e is SeqStart || e is MapStart }
spec fn is_end(e: Ev<'_>) -> bool { e is SeqEnd || e is MapEnd }

/// Index just after the point where `depth` open containers have been closed, scanning from `i`.
/// (Container kinds are not matched here: this is the depth-counting notion of "one node" that
/// the skipping helpers implement.)  None: a Taken marker or the end of the sequence comes first.
spec fn scan(s: Seq<Ev<'_>>, i: int, depth: int) -> Option<int>
    decreases s.len() - i
{
    if depth <= 0 { Some(i) }
    else if i < 0 || i >= s.len() { None }
    else if is_start(s[i]) { scan(s, i + 1, depth + 1) }
    else if is_end(s[i]) { scan(s, i + 1, depth - 1) }
    else if s[i] is Scalar { scan(s, i + 1, depth) }
    else { None }
}

/// Length of the complete node that starts at index `i`.
spec fn node_len_at(s: Seq<Ev<'_>>, i: int) -> Option<int> {
    if i < 0 || i >= s.len() { None }
    else if s[i] is Scalar { Some(1) }
    else if is_start(s[i]) { match scan(s, i + 1, 1) { Some(j) => Some(j - i), None => None } }
    else { None }
}

spec fn node_len(s: Seq<Ev<'_>>) -> Option<int> { node_len_at(s, 0) }

proof fn lemma_scan_bounds(s: Seq<Ev<'_>>, i: int, depth: int)
    requires 0 <= i <= s.len(), depth >= 0,
    ensures scan(s, i, depth) is Some ==> i + depth <= scan(s, i, depth).unwrap() <= s.len(),
    decreases s.len() - i,
{
    if depth > 0 && i < s.len() {
        if is_start(s[i]) { lemma_scan_bounds(s, i + 1, depth + 1); }
        else if is_end(s[i]) { lemma_scan_bounds(s, i + 1, depth - 1); }
        else if s[i] is Scalar { lemma_scan_bounds(s, i + 1, depth); }
    }
}

/// scanning a suffix is scanning the whole sequence at an offset
proof fn lemma_scan_skip(s: Seq<Ev<'_>>, k: int, i: int, depth: int)
    requires 0 <= k, 0 <= i, k + i <= s.len(),
    ensures scan(s.skip(k), i, depth) == match scan(s, k + i, depth) { Some(j) => Some(j - k), None => None },
    decreases s.len() - k - i,
{
    let t = s.skip(k);
    if depth > 0 && i < t.len() {
        assert(t[i] == s[k + i]);
        if is_start(t[i]) { lemma_scan_skip(s, k, i + 1, depth + 1); }
        else if is_end(t[i]) { lemma_scan_skip(s, k, i + 1, depth - 1); }
        else if t[i] is Scalar { lemma_scan_skip(s, k, i + 1, depth); }
    }
}

/// The merge key of the statement: an untagged plain scalar `<<` standing alone as a node.
spec fn is_merge_events(evs: Seq<Ev<'_>>) -> bool {
    evs.len() == 1 && match evs[0] {
        Ev::Scalar { value, tag, style, .. } => style is Plain && tag is None && value@ == "<<"@,
        _ => false,
    }
}

/// the end event at `j` closes a container of the kind opened at `i`
spec fn kind_ok(s: Seq<Ev<'_>>, i: int, j: int) -> bool {
    (s[i] is SeqStart && s[j] is SeqEnd) || (s[i] is MapStart && s[j] is MapEnd)
}

/// the depth-counting scan of the container starting at `i` ends on an end event of the wrong kind
spec fn closing_kind_mismatch(s: Seq<Ev<'_>>, i: int) -> bool {
    match scan(s, i + 1, 1) { Some(j) => !kind_ok(s, i, j - 1), None => false }
}

proof fn lemma_scan_step(s: Seq<Ev<'_>>, i: int, depth: int)
    requires 0 <= i < s.len(), depth >= 1,
    ensures
        is_start(s[i]) ==> scan(s, i, depth) == scan(s, i + 1, depth + 1),
        is_end(s[i]) ==> scan(s, i, depth) == scan(s, i + 1, depth - 1),
        s[i] is Scalar ==> scan(s, i, depth) == scan(s, i + 1, depth),
        s[i] is Taken ==> scan(s, i, depth) is None,
        scan(s, i + 1, 0) == Some(i + 1),
{
}

proof fn lemma_scan_end(s: Seq<Ev<'_>>, i: int, depth: int)
    requires i >= s.len(), depth >= 1,
    ensures scan(s, i, depth) is None,
{
}

// ---- structural fingerprints (C04: same structure, scalar text and tag <=> same key) ----

/// Abstract fingerprint: what "the same key node" means in the statement.
enum Fp {
    Scalar(Seq<char>, SfTag),
    Sequence(Seq<Fp>),
    Mapping(Seq<(Fp, Fp)>),
    Default,
}

/// view of the code's KeyFingerprint (only scalars are interpreted in this revision)
spec fn fp_of(k: KeyFingerprint) -> Fp {
    match k {
        KeyFingerprint::Scalar { value, tag } => Fp::Scalar(value@, tag),
        KeyFingerprint::Sequence(v) => Fp::Sequence(Seq::new(v@.len(), |i: int| fp_opaque(v@[i]))),
        KeyFingerprint::Mapping(v) => Fp::Mapping(Seq::new(v@.len(), |i: int| (fp_opaque(v@[i].0), fp_opaque(v@[i].1)))),
        KeyFingerprint::Default => Fp::Default,
    }
}
uninterp spec fn fp_opaque(k: KeyFingerprint) -> Fp;

/// representation invariant of KeyNode: the `Scalar` form holds exactly one scalar event
spec fn keynode_wf(n: KeyNode<'_>) -> bool {
    match n {
        KeyNode::Scalar { events, .. } => events@.len() == 1 && events@[0] is Scalar,
        KeyNode::Fingerprinted { .. } => true,
    }
}

spec fn keynode_events(n: KeyNode<'_>) -> Seq<Ev<'_>> {
    match n {
        KeyNode::Scalar { events, .. } => events@,
        KeyNode::Fingerprinted { events, .. } => events@,
    }
}

spec fn keynode_location(n: KeyNode<'_>) -> Location {
    match n {
        KeyNode::Scalar { location, .. } => location,
        KeyNode::Fingerprinted { location, .. } => location,
    }
}

/// `idx.saturating_sub(1)`
spec fn prev_idx(idx: usize) -> int { if idx == 0 { 0 } else { idx - 1 } }
