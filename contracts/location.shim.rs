// ===== unit `location`: std string operations of Error::from_scan_error =====
/// `info.to_ascii_lowercase().contains("unknown anchor")`
#[verifier::external_body]
fn str_mentions_unknown_anchor(info: &str) -> bool { unimplemented!() }
/// `info.to_owned()`
#[verifier::external_body]
fn str_to_owned_string(s: &str) -> (r: String) ensures r@ == s@, { s.to_owned() }
