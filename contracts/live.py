"""Unit `live`: src/live_events.rs - recording / replay bookkeeping, per-document reset, I/O error checks."""
from contracts_types import *
NAME = 'live'
FEATURES = []
USES = ['use vstd::string::*;', 'use std::collections::HashSet;', 'use vstd::std_specs::hash::*;']
PRELUDE = ['common.shim.rs', 'error.spec.rs', 'evnodes.spec.rs', 'budget.spec.rs', 'budget.rel.rs', 'live.shim.rs', 'live.spec.rs']
POSTLUDE = []
SUBST = SUBST_COMMON + [
    (r"Cow<'(a|de|_), str>", r"CowStr<'\1>"),
    (r'SmallVec<\[Ev<\'a>; SMALLVECT_INLINE\]>', "Vec<Ev<'a>>"),
    (r'SmallVec<\[ContainerState; 64\]>', 'Vec<ContainerState>'),
    (r'FastHashSet<usize>', 'HashSet<usize>'),
    (r'Option<fn\(&crate::budget::BudgetReport\)>', 'Option<ReportFn>'),
    (r'Option<BudgetReportCallback>', 'Option<ReportCb>'),
    (r'Rc<RefCell<Option<IoError>>>', 'ErrCell'),
    (r"Cow<'input, Tag>", "CowTag<'input>"),
]
import re
import importlib.util as _ilu, os as _os
_sp = _ilu.spec_from_file_location('contracts_budget_for_live', _os.path.join(_os.path.dirname(__file__), 'budget.py'))
_bm = _ilu.module_from_spec(_sp); _sp.loader.exec_module(_bm)
# BudgetEnforcer::observe: proved in unit `budget`; here only its contract is used (callee contract)
OBSERVE = dict([x for x in _bm.ITEMS if x['path'].endswith('/fn observe')][0])
OBSERVE.update(trusted=True, props=[]); OBSERVE.pop('proofs', None); OBSERVE.pop('canaries', None)
ALIAS_REPLAYED = dict([x for x in _bm.ITEMS if x['path'].endswith('/fn alias_will_be_replayed')][0])
ALIAS_REPLAYED.update(trusted=True, props=[]); ALIAS_REPLAYED.pop('canaries', None)
FINALIZE = dict([x for x in _bm.ITEMS if x['path'].endswith('/fn finalize')][0])
FINALIZE.update(trusted=True, props=[]); FINALIZE.pop('canaries', None)
L = 'src/live_events.rs'
D = 'src/de.rs'
B = 'src/budget.rs'

ITEMS = location_types() + budget_types() + error_types() + [
    dict(src=SAPHYR + 'scanner.rs', path='enum ScalarStyle', derive=COPY),
    dict(src='src/tags.rs', path='enum SfTag', derive='#[derive(Clone, Copy, PartialEq, Eq, Hash, Structural)]'),
    dict(src='src/options.rs', path='struct AliasLimits'),
    dict(src=D, path='enum Ev', derive='#[derive(Clone)] #[verifier::external_derive]'),
    dict(src=D, path='impl Ev/fn location', props=['C16'],
         ensures=[('value', 'r == self.spec_location()')]),
    dict(src=B, path='enum EnforcingPolicy', derive='#[derive(PartialEq, Eq, Structural)]'),
    dict(src=B, path='struct BudgetEnforcer'),
    dict(src=B, path='enum ContainerState', derive='#[derive(Clone, Copy)]'),
    dict(src=SAPHYR + 'parser.rs', path='enum Event'),
] + parser_span_types() + location_fns(props=('C16',)) + [
    dict(src='src/de_error.rs', path='fn budget_error', props=['C07'],
         ensures=[('value', 'r == (Error::Budget { breach: breach, location: Location::UNKNOWN })')]),
    OBSERVE, FINALIZE, ALIAS_REPLAYED,
    dict(src=L, path='struct RecFrame'),
    dict(src=L, path='struct InjectFrame', derive='#[derive(Clone, Copy)]'),
    dict(src=L, path='struct LiveEvents'),
    dict(src=L, path='impl LiveEvents/fn record', props=['C02', 'C08', 'C01'],
         loop_rewrites=[(1, 'enumerate_mut'), (2, 'iter_mut'), (3, 'iter_mut')],
         rewrites=[(r'\bev\.clone\(\)', 'ev_clone(ev)', None, 'R8')],
         ensures=[
             ('event_appended_to_every_open_frame', '''final(self).rec_stack@.len() == old(self).rec_stack@.len()
                && forall|j: int| 0 <= j < old(self).rec_stack@.len() ==>
                    if recorded_into(j, old(self).rec_stack@.len() as int, is_start, seeded_new_frame) {
                        frame_pushed(old(self).rec_stack@[j], #[trigger] final(self).rec_stack@[j], *ev)
                    } else { final(self).rec_stack@[j] == old(self).rec_stack@[j] }'''),
             ('frame', 'final(self).same_but_rec_stack(old(self))'),
         ],
         loops={k: dict(invariant=[('prefix_done', '''__i%d <= self.rec_stack@.len() && self.rec_stack@.len() == old(self).rec_stack@.len()
                    && self.same_but_rec_stack(old(self)) %s
                    && (forall|j: int| 0 <= j < __i%d ==>
                        if recorded_into(j, old(self).rec_stack@.len() as int, is_start, seeded_new_frame) {
                            frame_pushed(old(self).rec_stack@[j], #[trigger] self.rec_stack@[j], *ev)
                        } else { self.rec_stack@[j] == old(self).rec_stack@[j] })
                    && (forall|j: int| __i%d <= j < self.rec_stack@.len() ==> #[trigger] self.rec_stack@[j] == old(self).rec_stack@[j])'''
                    % (k, '&& is_start && seeded_new_frame && last == self.rec_stack@.len() - 1' if k == 1 else
                          ('&& is_start && !seeded_new_frame' if k == 2 else '&& !is_start'), k, k))],
                      decreases='self.rec_stack@.len() - __i%d' % k) for k in (1, 2, 3)},
         canaries=['event_appended_to_every_open_frame']),
    dict(src=L, path='impl LiveEvents/fn bump_depth_on_start', props=['C02', 'C01'],
         loop_rewrites=[(1, 'iter_mut')],
         requires=[('depth_room', 'forall|j: int| 0 <= j < old(self).rec_stack@.len() ==> old(self).rec_stack@[j].depth < usize::MAX')],
         ensures=[('every_open_frame_one_deeper', '''final(self).rec_stack@.len() == old(self).rec_stack@.len()
                && forall|j: int| 0 <= j < old(self).rec_stack@.len() ==> {
                    let f = old(self).rec_stack@[j]; let g = #[trigger] final(self).rec_stack@[j];
                    g.id == f.id && g.buf == f.buf && g.depth == f.depth + 1 }'''),
                  ('frame', 'final(self).same_but_rec_stack(old(self))')],
         loops={1: dict(invariant=[('prefix_done', '''__i1 <= self.rec_stack@.len() && self.rec_stack@.len() == old(self).rec_stack@.len()
                    && self.same_but_rec_stack(old(self))
                    && (forall|j: int| 0 <= j < old(self).rec_stack@.len() ==> old(self).rec_stack@[j].depth < usize::MAX)
                    && (forall|j: int| 0 <= j < __i1 ==> {
                        let f = old(self).rec_stack@[j]; let g = #[trigger] self.rec_stack@[j];
                        g.id == f.id && g.buf == f.buf && g.depth == f.depth + 1 })
                    && (forall|j: int| __i1 <= j < self.rec_stack@.len() ==> #[trigger] self.rec_stack@[j] == old(self).rec_stack@[j])''')],
                        decreases='self.rec_stack@.len() - __i1')},
         canaries=['every_open_frame_one_deeper']),

    dict(src=L, path='impl LiveEvents/fn ensure_anchor_capacity', props=['C02', 'C01'],
         rewrites=[(r'self\.anchors\.resize_with\(([^,;]+), \|\| None\)', r'vec_resize_none(&mut self.anchors, \1)', None, 'R8'),
                   (r'\(self\.anchors\.len\(\) \* 2\)\.max\(8\)', '(if self.anchors.len() * 2 >= 8 { self.anchors.len() * 2 } else { 8 })', None, 'R8')],
         requires=[('anchor_ids_are_small', 'anchor_id <= usize::MAX - 8')],
         ensures=[('slot_exists_nothing_lost', 'anchor_id < final(self).anchors@.len() && anchors_grown(old(self).anchors@, final(self).anchors@)'),
                  ('frame', 'final(self).same_but_rec_and_anchors(old(self)) && final(self).rec_stack == old(self).rec_stack')],
         canaries=['slot_exists_nothing_lost']),
    dict(src=L, path='impl LiveEvents/fn bump_depth_on_end', props=['C02', 'C08', 'C01'],
         loop_rewrites=[(1, 'iter_mut')],
         rewrites=[(r'done\.buf\.into_vec\(\)\.into_boxed_slice\(\)', 'vec_into_boxed(done.buf)', None, 'R8')],
         requires=[('anchor_ids_small', 'forall|a: int| 0 <= a < old(self).rec_stack@.len() ==> (#[trigger] old(self).rec_stack@[a]).id <= usize::MAX - 8')],
         proofs=[dict(at='start', ghost=True, text='let ghost d0 = self.rec_stack@; let ghost a0 = self.anchors@;'),
                 dict(at='start', text='lemma_open_after_end(d0);'),
                 dict(after='fr.depth -= 1;', text='assert(d0[__i1 - 1].depth >= 1);'),

                 dict(before='return Err(Error::InternalDepthUnderflow', text='assert(old(self).rec_stack@[__i1 - 1].depth == 0);')],
         ensures=[
             ('C02:finished_frames_stored_under_their_anchor', '''match r {
                Ok(()) => ({
                    let d = old(self).rec_stack@; let n = d.len() as int; let k = open_after_end(d);
                    &&& forall|j: int| 0 <= j < n ==> (#[trigger] d[j]).depth >= 1
                    &&& 0 <= k <= n
                    &&& final(self).rec_stack@.len() == k
                    &&& forall|j: int| 0 <= j < k ==> { let g = #[trigger] final(self).rec_stack@[j];
                            g.id == d[j].id && g.buf == d[j].buf && g.depth == d[j].depth - 1 }
                    &&& ids_distinct(d) ==> forall|j: int| k <= j < n ==> (#[trigger] d[j]).id < final(self).anchors@.len()
                            && final(self).anchors@[d[j].id as int] is Some
                            && final(self).anchors@[d[j].id as int].unwrap()@ == d[j].buf@
                }),
                Err(e) => e is InternalDepthUnderflow
                          && exists|j: int| 0 <= j < old(self).rec_stack@.len() && (#[trigger] old(self).rec_stack@[j]).depth == 0 }'''),
             ('C02:remaining_frames_still_open', '''r is Ok && frames_nested(old(self).rec_stack@) ==>
                    frames_nested(final(self).rec_stack@)
                    && forall|j: int| 0 <= j < final(self).rec_stack@.len() ==> (#[trigger] final(self).rec_stack@[j]).depth >= 1'''),
             ('C02:other_anchor_slots_untouched', '''r is Ok ==> ({
                    let d = old(self).rec_stack@; let n = d.len() as int; let k = open_after_end(d);
                    &&& final(self).anchors@.len() >= old(self).anchors@.len()
                    &&& forall|i: int| 0 <= i < final(self).anchors@.len() && (forall|j: int| k <= j < n ==> (#[trigger] d[j]).id != i) ==>
                            #[trigger] final(self).anchors@[i] == (if i < old(self).anchors@.len() { old(self).anchors@[i] } else { None })
                })'''),
             ('frame', 'final(self).same_but_rec_and_anchors(old(self))'),
         ],
         loops={
             1: dict(invariant=[
                    ('bounds', '__i1 <= self.rec_stack@.len() && self.rec_stack@.len() == d0.len() && d0 == old(self).rec_stack@'),
                    ('frame', 'self.same_but_rec_stack(old(self))'),
                    ('prefix_positive', 'forall|j: int| 0 <= j < __i1 ==> (#[trigger] d0[j]).depth >= 1'),
                    ('prefix_decremented', '''forall|j: int| 0 <= j < __i1 ==> (#[trigger] self.rec_stack@[j]).id == d0[j].id
                            && self.rec_stack@[j].buf == d0[j].buf && self.rec_stack@[j].depth == d0[j].depth - 1'''),
                    ('suffix_untouched', 'forall|j: int| __i1 <= j < d0.len() ==> #[trigger] self.rec_stack@[j] == d0[j]')],
                     decreases='d0.len() - __i1'),
             2: dict(invariant=[
                    ('bounds', 'd0 == old(self).rec_stack@ && a0 == old(self).anchors@ && 0 <= open_after_end(d0) <= self.rec_stack@.len() <= d0.len()'),
                    ('frame', 'self.same_but_rec_and_anchors(old(self))'),
                    ('ids', 'forall|a: int| 0 <= a < d0.len() ==> (#[trigger] d0[a]).id <= usize::MAX - 8'),
                    ('depths', '''(forall|j: int| 0 <= j < d0.len() ==> (#[trigger] d0[j]).depth >= 1)
                            && (forall|j: int| open_after_end(d0) <= j < d0.len() ==> (#[trigger] d0[j]).depth == 1)
                            && (open_after_end(d0) > 0 ==> d0[open_after_end(d0) - 1].depth != 1)'''),
                    ('remaining_decremented', '''forall|j: int| 0 <= j < self.rec_stack@.len() ==> (#[trigger] self.rec_stack@[j]).id == d0[j].id
                            && self.rec_stack@[j].buf == d0[j].buf && self.rec_stack@[j].depth == d0[j].depth - 1'''),
                    ('stored', '''self.anchors@.len() >= a0.len()
                            && (ids_distinct(d0) ==> forall|j: int| self.rec_stack@.len() <= j < d0.len() ==> (#[trigger] d0[j]).id < self.anchors@.len()
                                && self.anchors@[d0[j].id as int] is Some && self.anchors@[d0[j].id as int].unwrap()@ == d0[j].buf@)'''),
                    ('others_untouched', '''forall|i: int| 0 <= i < self.anchors@.len()
                                && (forall|j: int| self.rec_stack@.len() <= j < d0.len() ==> (#[trigger] d0[j]).id != i) ==>
                            #[trigger] self.anchors@[i] == (if i < a0.len() { a0[i] } else { None })'''),
                    ],
                     ensures=[('stops_at_first_open_frame', 'self.rec_stack@.len() == open_after_end(d0)')],
                     decreases='self.rec_stack@.len()'),
         },
         canaries=['C02:finished_frames_stored_under_their_anchor']),
    dict(src=L, path='impl LiveEvents/fn reset_document_state', props=['C11', 'C02', 'C08', 'C01'],
         loop_rewrites=[(1, 'iter_mut'), (2, 'iter_mut')],
         ensures=[
             ('C11:per_document_state_cleared', '''final(self).inject@.len() == 0 && final(self).rec_stack@.len() == 0
                && final(self).total_replayed_events == 0 && !final(self).seen_doc_end
                && final(self).anchors@.len() == old(self).anchors@.len()
                && (forall|j: int| 0 <= j < final(self).anchors@.len() ==> (#[trigger] final(self).anchors@[j]) is None)
                && final(self).per_anchor_expansions@.len() == old(self).per_anchor_expansions@.len()
                && (forall|j: int| 0 <= j < final(self).per_anchor_expansions@.len() ==> (#[trigger] final(self).per_anchor_expansions@[j]) == 0)'''),
             ('frame', '''final(self).parser == old(self).parser && final(self).input == old(self).input && final(self).look == old(self).look
                && final(self).produced_any_in_doc == old(self).produced_any_in_doc
                && final(self).synthesized_null_emitted == old(self).synthesized_null_emitted
                && final(self).budget == old(self).budget && final(self).last_location == old(self).last_location
                && final(self).alias_limits == old(self).alias_limits && final(self).stop_at_doc_end == old(self).stop_at_doc_end
                && final(self).error == old(self).error'''),
         ],
         loops={
             1: dict(invariant=[
                    ('bounds', '__i1 <= self.anchors@.len() && self.anchors@.len() == old(self).anchors@.len()'),
                    ('cleared_prefix', 'forall|j: int| 0 <= j < __i1 ==> (#[trigger] self.anchors@[j]) is None'),
                    ('rest', '''self.inject@.len() == 0 && self.rec_stack@.len() == 0 && self.per_anchor_expansions == old(self).per_anchor_expansions
                        && self.parser == old(self).parser && self.input == old(self).input && self.look == old(self).look
                        && self.produced_any_in_doc == old(self).produced_any_in_doc && self.synthesized_null_emitted == old(self).synthesized_null_emitted
                        && self.budget == old(self).budget && self.last_location == old(self).last_location && self.alias_limits == old(self).alias_limits
                        && self.stop_at_doc_end == old(self).stop_at_doc_end && self.error == old(self).error''')],
                     decreases='self.anchors@.len() - __i1'),
             2: dict(invariant=[
                    ('bounds', '__i2 <= self.per_anchor_expansions@.len() && self.per_anchor_expansions@.len() == old(self).per_anchor_expansions@.len()'),
                    ('cleared_prefix', 'forall|j: int| 0 <= j < __i2 ==> (#[trigger] self.per_anchor_expansions@[j]) == 0'),
                    ('anchors_cleared', '''self.anchors@.len() == old(self).anchors@.len()
                        && forall|j: int| 0 <= j < self.anchors@.len() ==> (#[trigger] self.anchors@[j]) is None'''),
                    ('rest', '''self.inject@.len() == 0 && self.rec_stack@.len() == 0
                        && self.parser == old(self).parser && self.input == old(self).input && self.look == old(self).look
                        && self.produced_any_in_doc == old(self).produced_any_in_doc && self.synthesized_null_emitted == old(self).synthesized_null_emitted
                        && self.budget == old(self).budget && self.last_location == old(self).last_location && self.alias_limits == old(self).alias_limits
                        && self.stop_at_doc_end == old(self).stop_at_doc_end && self.error == old(self).error''')],
                     decreases='self.per_anchor_expansions@.len() - __i2'),
         },
         canaries=['C11:per_document_state_cleared']),

    dict(src=L, path='impl LiveEvents/fn io_error', props=['C10', 'C01'],
         rewrites=[(r'fn io_error\(&self\)', 'fn io_error(&mut self)', 1, 'R28')],
         ensures=[('C10:stored_io_error_is_reported', '''match r {
                Ok(()) => old(self).error.content() is None && final(self).error.content() is None,
                Err(e) => old(self).error.content() is Some && e == (Error::IOError { cause: old(self).error.content().unwrap() })
                          && final(self).error.content() is None }'''),
                  ('frame', '''final(self).parser == old(self).parser && final(self).input == old(self).input
                && final(self).produced_any_in_doc == old(self).produced_any_in_doc && final(self).synthesized_null_emitted == old(self).synthesized_null_emitted
                && final(self).inject == old(self).inject && final(self).anchors == old(self).anchors && final(self).rec_stack == old(self).rec_stack
                && final(self).budget == old(self).budget && final(self).budget_report == old(self).budget_report && final(self).budget_report_cb == old(self).budget_report_cb
                && final(self).alias_limits == old(self).alias_limits && final(self).total_replayed_events == old(self).total_replayed_events
                && final(self).per_anchor_expansions == old(self).per_anchor_expansions && final(self).stop_at_doc_end == old(self).stop_at_doc_end
                && final(self).seen_doc_end == old(self).seen_doc_end && final(self).look == old(self).look && final(self).last_location == old(self).last_location''')],
         canaries=['C10:stored_io_error_is_reported']),
    events_trait(),
    # the event pump itself: assumed contract in this revision (prophecy view pump_future)
    dict(src=L, path='impl LiveEvents/fn next_impl', trusted=True, props=['C02'],
         ensures=[('pump', '''final(self).look == old(self).look && (old(self).error.content() is Some ==> final(self).error.content() == old(self).error.content())
                && (r is Err ==> !(r->Err_0 is IOError)) && match r {
                Ok(Some(e)) => old(self).pump_future().len() > 0 && e == old(self).pump_future()[0]
                               && final(self).pump_future() == old(self).pump_future().skip(1) && final(self).last_location == e.spec_location(),
                Ok(None) => old(self).pump_future().len() == 0 && final(self).pump_future() == old(self).pump_future(),
                Err(_) => true }'''),
                  ('invariant_preserved', 'old(self).live_inv() && old(self).live_room() && r is Ok ==> final(self).live_inv()')]),
    dict(src=L, path='impl Events for LiveEvents', props=['C10', 'C09', 'C16', 'C01'],
         trait_extra='''
    spec fn rest(&self) -> Seq<Ev<'de>> {
        match self.look { Some(e) => seq![e] + self.pump_future(), None => self.pump_future() }
    }
    spec fn primed(&self) -> bool { self.look is Some }
    spec fn use_site_override(&self) -> Option<Location> {
        if self.inject@.len() > 0 { Some(self.inject@[self.inject@.len() - 1].reference_location) } else { None }
    }
''',
         impl_methods={
             'next': dict(
                 ensures=[('C10:io_error_checked_before_any_event', '''old(self).error.content() is Some ==>
                        r is Err && r->Err_0 is IOError && final(self).look == old(self).look
                        && final(self).pump_future() == old(self).pump_future()'''),
                          ('lookahead_served_first', '''old(self).error.content() is None && old(self).look is Some ==>
                        r == Ok::<Option<Ev<'de>>, Error>(old(self).look) && final(self).look is None
                        && final(self).last_location == old(self).look.unwrap().spec_location()
                        && final(self).pump_future() == old(self).pump_future()'''),
                          ('C10:an_error_stored_while_pumping_stays_in_the_cell_for_finish', '''r is Err && r->Err_0 is IOError ==> old(self).error.content() is Some''')],
                 proofs=[dict(at='start', text='''
                     let pf = self.pump_future();
                     assert((seq![self.look.unwrap()] + pf).skip(1) =~= pf);
                     assert(self.look is None ==> self.rest() == pf);''')],
                 canaries=['C10:io_error_checked_before_any_event']),
             'peek': dict(
                 rewrites=[(r'Ok\(\(&self\.look\)\.into\(\)\)', 'Ok(self.look.as_ref())', None, 'R20')],
                 ensures=[('C10:io_error_checked_before_any_event', '''old(self).error.content() is Some ==>
                        r is Err && r->Err_0 is IOError && final(self).look == old(self).look
                        && final(self).pump_future() == old(self).pump_future()'''),
                          ('C10:an_error_stored_while_pumping_stays_in_the_cell_for_finish', '''r is Err && r->Err_0 is IOError ==> old(self).error.content() is Some''')],
                 proofs=[dict(at='start', text='''
                     let pf = self.pump_future();
                     if pf.len() > 0 { assert(seq![pf[0]] + pf.skip(1) =~= pf); }''')],
                 canaries=['C10:io_error_checked_before_any_event']),
             'last_location': dict(ensures=[('value', 'r == self.last_location')]),
             'reference_location': dict(
                 rewrites=[(r'self\.look\s*\.as_ref\(\)\s*\.map\(\|e\| e\.location\(\)\)\s*\.unwrap_or\(self\.last_location\)',
                            '(match self.look.as_ref() { Some(e) => e.location(), None => self.last_location })', None, 'R18')],
                 ensures=[('C16:use_site_is_alias_location_while_replaying', '''r == (
                        if self.inject@.len() > 0 { self.inject@[self.inject@.len() - 1].reference_location }
                        else { match self.look { Some(e) => e.spec_location(), None => self.last_location } })''')],
                 canaries=['C16:use_site_is_alias_location_while_replaying']),
         }),
    dict(src=L, path='impl LiveEvents/fn observe_budget_for_replay', props=['C07', 'C08', 'C01'],
         # F47: "tagged or not" is what the enforcer asks of a scalar; the marker tag built for a replayed tagged scalar (R8)
         pre_rewrites=[(r'raw_tag\.as_ref\(\)\.map\(\|_\| \{\s*Cow::Owned\(Tag \{[^}]*\}\)\s*\}\)', 'replay_tag_marker(raw_tag)', None, 'R8')],
         rewrites=[(r'Cow::Borrowed\(value\)', 'cowstr_borrow(value)', None, 'R8'),
                   (r'Cow::Borrowed\(("[^"]*")\)', r'cowstr_of_literal(\1)', None, 'R8'),
                   # F47: "tagged or not" is what the enforcer asks of a scalar; the marker tag built for a replayed tagged scalar (R8)
                   (r'budget\s*\.observe\(&raw\)\s*\.map_err\(\|breach\| budget_error\(breach\)\.with_location\(ev\.location\(\)\)\)',
                    '(match budget.observe(&raw) { Ok(__v) => Ok(__v), Err(breach) => Err(budget_error(breach).with_location(ev.location())) })', None, 'R18')],
         requires=[('enforcer_consistent', '''old(self).budget is Some ==> {
                let b = old(self).budget.unwrap(); b.inv() && within(b.abs(), b.budget, b.per_doc()) && b.room() }''')],
         ensures=[
             ('C07:replayed_event_is_charged_once', '''match old(self).budget {
                None => r is Ok && *final(self) == *old(self),
                Some(b) => match r {
                    Ok(()) => final(self).budget is Some && !(*ev is Taken) && exists|raw: Event<'_>| replay_charge_matches(*ev, raw)
                                && #[trigger] accepted(b.abs(), raw, b.budget, b.per_doc())
                                && final(self).budget.unwrap().abs() =~~= abs_step(b.abs(), raw, b.per_doc())
                                && final(self).budget.unwrap().inv()
                                && final(self).budget.unwrap().budget == b.budget && final(self).budget.unwrap().policy == b.policy
                                && within(final(self).budget.unwrap().abs(), b.budget, b.per_doc())
                                && final(self).budget.unwrap().report.documents == b.report.documents,
                    Err(e) => !(e is IOError) } }'''),
             ('frame', '''final(self).rec_stack == old(self).rec_stack && final(self).anchors == old(self).anchors
                && final(self).inject == old(self).inject && final(self).look == old(self).look && final(self).parser == old(self).parser
                && final(self).total_replayed_events == old(self).total_replayed_events
                && final(self).per_anchor_expansions == old(self).per_anchor_expansions
                && final(self).alias_limits == old(self).alias_limits && final(self).error == old(self).error
                && final(self).last_location == old(self).last_location && final(self).stop_at_doc_end == old(self).stop_at_doc_end
                && final(self).seen_doc_end == old(self).seen_doc_end && final(self).produced_any_in_doc == old(self).produced_any_in_doc'''),
         ],
         canaries=['C07:replayed_event_is_charged_once']),
    dict(src=L, path='impl LiveEvents/fn finish', props=['C10', 'C07', 'C01'],
         rewrites=[(r'callback\(&report\);', 'report_fn_call(callback, &report);', None, 'R8'),
                   (r'callback\.borrow_mut\(\)\(report\);', 'report_cb_call(callback, report);', None, 'R8'),
                   (r'report\.breached\.clone\(\)', 'clone_breach(&report.breached)', None, 'R8')],
         ensures=[
             ('C10:stored_io_error_is_reported_at_the_end', '''old(self).error.content() is Some ==>
                    r is Err && r->Err_0 is IOError && final(self).budget == old(self).budget'''),
             ('C10:after_a_successful_finish_no_reader_error_is_pending', 'r is Ok ==> final(self).error.content() is None'),
             ('C07:delayed_breach_is_surfaced', '''old(self).error.content() is None ==> match old(self).budget {
                    None => r is Ok,
                    Some(b) => final(self).budget is None
                        && (r is Err <==> (b.report.breached is Some
                                || ratio_breached(b.report.aliases as nat, b.defined_anchors@.len(), b.budget)))
                        && (r is Err ==> r->Err_0 is Budget) }'''),
             ('frame', '''final(self).seen_doc_end == old(self).seen_doc_end && final(self).look == old(self).look
                    && final(self).error.content() is None && final(self).rec_stack == old(self).rec_stack
                    && final(self).anchors == old(self).anchors && final(self).inject == old(self).inject'''),
         ],
         canaries=['C10:stored_io_error_is_reported_at_the_end', 'C07:delayed_breach_is_surfaced']),

    dict(src=L, path='impl LiveEvents/fn skip_to_next_document', props=['C11', 'C07', 'C01'],
         requires=[('parser_spans_well_formed', 'spans_ok(old(self).parser.pending())'),
                   ('only_used_with_per_document_enforcement', 'old(self).budget is Some ==> old(self).budget.unwrap().per_doc()')],
         proofs=[dict(at='start', ghost=True, text='let ghost p0 = self.parser.pending();'),
                 dict(after='while let Some(item) = self.parser.next() {', text='''
                     let k = p0.len() - self.parser.pending().len() - 1;
                     lemma_skip_scan_step(p0.skip(k));
                     assert(p0.skip(k)[0] == p0[k]);
                     assert(p0.skip(k).skip(1) =~= p0.skip(k + 1));'''),
                 dict(after_loop=1, text='assert(self.parser.pending().len() == 0); assert(skip_scan(self.parser.pending()) == (0int, false)); assert(p0.skip(p0.len() as int) =~= self.parser.pending());')],
         ensures=[
             ('C11:stops_right_after_the_next_document_start', '''({
                    let (n, found) = skip_scan(old(self).parser.pending());
                    r == found && final(self).parser.pending() == old(self).parser.pending().skip(n) })'''),
             ('C11:replay_and_lookahead_state_dropped', 'final(self).look is None && final(self).inject@.len() == 0 && final(self).rec_stack@.len() == 0'),
             ('C11:new_document_starts_clean', '''r ==> !final(self).produced_any_in_doc && !final(self).seen_doc_end
                    && final(self).total_replayed_events == 0
                    && (forall|j: int| 0 <= j < final(self).anchors@.len() ==> (#[trigger] final(self).anchors@[j]) is None)
                    && (forall|j: int| 0 <= j < final(self).per_anchor_expansions@.len() ==> (#[trigger] final(self).per_anchor_expansions@[j]) == 0)'''),
             ('C07:budget_restarts_with_the_new_document', '''r && old(self).budget is Some ==> final(self).budget is Some && ({
                    let b0 = old(self).budget.unwrap(); let b1 = final(self).budget.unwrap();
                    b1.budget == b0.budget && b1.policy == b0.policy && (1 <= b0.budget.max_events ==> b1.inv()
                    && b1.abs() =~~= (Abs { documents: b0.abs().documents, events: 1, ..abs_fresh() })) })'''),
         ],
         loops={1: dict(invariant=[
                    ('cursor', '''p0 == old(self).parser.pending() && spans_ok(p0) && self.parser.pending().len() <= p0.len()
                        && self.parser.pending() == p0.skip(p0.len() - self.parser.pending().len())'''),
                    ('scan_so_far', '''({ let k = p0.len() - self.parser.pending().len();
                        skip_scan(p0) == (k + skip_scan(self.parser.pending()).0, skip_scan(self.parser.pending()).1) })'''),
                    ('dropped', 'self.look is None && self.inject@.len() == 0 && self.rec_stack@.len() == 0'),
                    ('budget_kept', '''(old(self).budget is Some ==> self.budget is Some && self.budget.unwrap().per_doc())
                        && (self.budget is Some ==> old(self).budget is Some && self.budget == old(self).budget)'''),
                    ],
                        ensures=[('parser_exhausted', 'self.parser.pending().len() == 0')],
                        decreases='self.parser.pending().len()')},
         canaries=['C11:stops_right_after_the_next_document_start', 'C11:new_document_starts_clean']),
    # the body of the event pump, verified under its own name; callers (and its own recursive call)
    # see the assumed prophecy contract of `next_impl` above
    dict(src=L, path='impl LiveEvents/fn next_impl', id='LiveEvents::next_impl#body', rename='next_impl__body',
         props=['C02', 'C08', 'C11', 'C07', 'C10', 'C01'], attrs='#[verifier::rlimit(300)]',
         rewrites=[
             (r'self\s*\.anchors\s*\.get\(anchor_id\)\s*\.and_then\(\|o\| o\.as_ref\(\)\)', '(match self.anchors.get(anchor_id) { Some(o) => o.as_ref(), None => None })', None, 'R18'),
             (r'\.ok_or_else\(\|\| Error::unknown_anchor\(\)\.with_location\(self\.last_location\)\)\?', '.ok_or(Error::unknown_anchor().with_location(self.last_location))?', None, 'R18'),
             (r'\.ok_or\(Error::AliasReplayCounterOverflow \{\s*location: Location::UNKNOWN,\s*\}\)\s*\.map_err\(\|err\| err\.with_location\(ev\.location\(\)\)\)\?', '.ok_or(Error::AliasReplayCounterOverflow { location: Location::UNKNOWN }.with_location(ev.location()))?', None, 'R18'),
             (r'item\.map_err\(Error::from_scan_error\)\?', '(match item { Ok(__v) => __v, Err(__e) => { return Err(error_from_scan_error(__e)); } })', None, 'R18'),
             (r'!val\.trim\(\)\.is_empty\(\)', '!cowstr_trim_is_empty(&val)', None, 'R8'),
             (r'SfTag::from_optional_cow\(&tag\)', 'sftag_from_optional_cow(&tag)', None, 'R8'),
             (r'tag\.as_ref\(\)\.map\(\|t\| Cow::Owned\(t\.to_string\(\)\)\)', 'raw_tag_of(&tag)', None, 'R8'),
             (r'vec!\[ev\.clone\(\)\]\.into_boxed_slice\(\)', 'vec_into_boxed(vec![ev_clone(&ev)])', None, 'R8'),
             (r'\bev\.clone\(\)', 'ev_clone(&ev)', None, 'R8'),
             (r'buf\[\*idx\]\.clone\(\)', 'ev_clone(&buf[*idx])', None, 'R8'),
             (r'let mut buf: SmallVec<\[Ev; SMALLVECT_INLINE\]> = SmallVec::new\(\);', 'let mut buf: Vec<Ev> = Vec::new();', None, 'R6'),
             (r'self\.per_anchor_expansions\.resize\(anchor_id \+ 1, 0\)', 'vec_resize_zero(&mut self.per_anchor_expansions, anchor_id + 1)', None, 'R8'),
             (r'self\.rec_stack\.iter\(\)\.any\(\|frame\| frame\.id == anchor_id\)', 'any_frame_id(&self.rec_stack, anchor_id)', None, 'R8'),
             # (no such call in the pinned tree) `rec_stack.first().is_some_and(|f| f.id OP anchor_id)`: the comparison is made on the outermost open frame only
             (r'self\.rec_stack\.first\(\)\.is_some_and\(\|(\w+)\| \1\.id (<=|<|==|>=|>) anchor_id\)',
              r'(self.rec_stack.len() > 0 && self.rec_stack[0].id \2 anchor_id)', None, 'R8'),
             (r'crate::anchor_store::recursive_anchor_in_progress\(anchor_id\)', 'recursive_anchor_in_progress(anchor_id)', None, 'R8'),
             (r'String::new\(\)\.into\(\)', 'cowstr_empty()', None, 'R8'),
             (r'Error::multiple_documents\(\s*"use from_multiple or from_multiple_with_options",\s*\)', 'error_multiple_documents("use from_multiple or from_multiple_with_options")', None, 'R8'),
             (r'self\.bump_depth_on_end\(\)\s*\.map_err\(\|err\| err\.with_location\(location\)\)\?;',
              'match self.bump_depth_on_end() { Ok(__v) => __v, Err(err) => { return Err(err.with_location(location)); } };', None, 'R18'),
         ],
         requires=[('pump_invariant', 'old(self).live_inv()'), ('history_below_2_64', 'old(self).live_room()')],
         proofs=[
             # replay loop
             dict(before='let Some(frame) = self.inject.last_mut() else {', ghost=True, text='let ghost f1 = self.rec_stack@; let ghost tre1 = self.total_replayed_events;'),
             dict(before='self.observe_budget_for_replay(&ev)?;', label='C08:every_replayed_event_is_counted_exactly_once_and_delivered_only_within_the_total_replay_limit', props=['C08'],
                  text='assert(self.total_replayed_events == tre1 + 1 && self.total_replayed_events <= self.alias_limits.max_total_replayed_events);'),
             dict(before='let Some(frame) = self.inject.last_mut() else {', text='lemma_frames_facts(f1);'),
             dict(before='let Some(frame) = self.inject.last_mut() else {', text='if self.budget is Some { lemma_budget_room(self.budget.unwrap()); }'),
             dict(before='self.last_location = ev.location();', nth=1, text='''
                 assert forall|a: int, b: int| 0 <= a <= b < self.rec_stack@.len() implies
                     (#[trigger] self.rec_stack@[a]).depth >= (#[trigger] self.rec_stack@[b]).depth by { assert(f1[a].depth >= f1[b].depth); }
                 lemma_frames_all_pushed(f1, self.rec_stack@, ev);'''),
             # parser loop
             dict(after='let location = location_from_span(&span);', ghost=True, text='let ghost f0 = self.rec_stack@; let ghost pae0 = self.per_anchor_expansions@; let ghost inj0 = self.inject@.len(); let ghost mut within_anchor_limit = false; let ghost mut within_depth_limit = false;'),
             dict(after='let count = self.per_anchor_expansions[anchor_id];', label='C08:an_alias_bumps_the_expansion_counter_of_its_anchor_by_exactly_one', props=['C08'],
                  text='''assert(anchor_id < self.per_anchor_expansions@.len() && count == self.per_anchor_expansions@[anchor_id as int]
                        && count == (if anchor_id < pae0.len() { if pae0[anchor_id as int] == usize::MAX { usize::MAX } else { (pae0[anchor_id as int] + 1) as usize } } else { 1usize }));'''),
             dict(before='let next_depth = self.inject.len() + 1;', label='C08:the_per_anchor_expansion_limit_is_checked_on_the_bumped_counter', props=['C08'],
                  text='assert(count <= self.alias_limits.max_alias_expansions_per_anchor); within_anchor_limit = true;'),
             dict(before_re=r'return Err\(Error::RecursiveReferencesRequireWeakTypes \{ location \}\);', label='C02:an_alias_is_refused_as_recursive_only_while_its_own_anchor_is_still_being_recorded', props=['C02'],
                  text='assert(exists|j: int| 0 <= j < self.rec_stack@.len() && (#[trigger] self.rec_stack@[j]).id == anchor_id);'),
             dict(before_re=r'if [^{;]*\{\s*if recursive_anchor_in_progress\(anchor_id\)', label='C08:the_replay_nesting_limit_is_checked_before_the_frame_is_pushed', props=['C08'],
                  text='assert(self.inject@.len() == inj0 && inj0 + 1 <= self.alias_limits.max_replay_stack_depth); within_depth_limit = true;'),
             dict(before='self.inject.push(InjectFrame {', label='C08:an_alias_is_pushed_for_replay_only_after_both_limits_were_checked', props=['C08'],
                  text='assert(within_anchor_limit && within_depth_limit && self.inject@.len() == inj0);'),
             dict(after='let location = location_from_span(&span);', ghost=True, text='let ghost b_tok = self.budget;'),
             dict(before='self.inject.push(InjectFrame {', label='C07:when_an_alias_is_expanded_the_key_value_phase_of_the_budget_is_the_one_from_before_the_alias_token_so_the_replayed_node_counts_once', props=['C07'],
                  text='''assert(self.budget is Some ==> b_tok is Some && ({ let s0 = b_tok.unwrap().abs().stack; let s2 = self.budget.unwrap().abs().stack;
                        node_done(node_done(s0)) =~= s0 && s2 =~= s0 }));'''),
             dict(after='let location = location_from_span(&span);', text='lemma_frames_facts(f0);'),
             dict(after='let location = location_from_span(&span);', text='if self.budget is Some { lemma_budget_room(self.budget.unwrap()); }'),
             dict(after='}, _ => {} } }, _ => {} } }', label='budget_after_observe', text='''
                 if self.budget is Some { let b = self.budget.unwrap(); assert(within(b.abs(), b.budget, b.per_doc())); lemma_budget_ok_intro(b); }'''),
             dict(after='self.observe_budget_for_replay(&ev)?;', text='if self.budget is Some { lemma_budget_ok_intro(self.budget.unwrap()); }'),
             # F44: the phase correction for an expanded alias keeps the enforcer consistent (callee contract of alias_will_be_replayed, proved in unit `budget`)
             dict(before_re=r'if let Some\(ref mut budget\) = self\.budget \{\s*budget\.alias_will_be_replayed\(\);', optional=True, text='reveal(budget_ok);'),
             dict(after_re=r'budget\.alias_will_be_replayed\(\);\s*\}', optional=True, text='reveal(budget_ok);'),
             # scalar arm: the delivered event is the raw scalar (text, anchor id, and style)
             dict(after=r'Event::Scalar(val, style, anchor_id, tag) => {', alt=[r'Event::Scalar(val, mut style, anchor_id, tag) => {'], ghost=True,
                  text='let ghost val0 = val; let ghost style0 = style;'),
             dict(before='self.record(&ev, false, false);', nth=1, label='C02:attaching_an_anchor_never_changes_the_delivered_scalar', props=['C02', 'C06'],
                  text='''assert(match ev { Ev::Scalar { value, style: st, anchor, location: l, .. } =>
                        value == val0 && anchor == anchor_id && l == location && st == style0,
                      _ => false });'''),
             dict(before='self.last_location = location;', nth=1, text='''
                 assert forall|a: int, b: int| 0 <= a <= b < self.rec_stack@.len() implies
                     (#[trigger] self.rec_stack@[a]).depth >= (#[trigger] self.rec_stack@[b]).depth by { assert(f0[a].depth >= f0[b].depth); }
                 lemma_frames_all_pushed(f0, self.rec_stack@, ev);'''),
             # sequence / mapping start arms
             dict(before='self.last_location = location;', nth=2, text='''
                 if anchor_id != 0 { lemma_frames_with_new(f0, self.rec_stack@, ev); } else {
                     assert forall|a: int, b: int| 0 <= a <= b < self.rec_stack@.len() implies
                         (#[trigger] self.rec_stack@[a]).depth >= (#[trigger] self.rec_stack@[b]).depth by { assert(f0[a].depth >= f0[b].depth); }
                     lemma_frames_all_pushed(f0, self.rec_stack@, ev); }'''),
             dict(before='self.last_location = location;', nth=4, text='''
                 if anchor_id != 0 { lemma_frames_with_new(f0, self.rec_stack@, ev); } else {
                     assert forall|a: int, b: int| 0 <= a <= b < self.rec_stack@.len() implies
                         (#[trigger] self.rec_stack@[a]).depth >= (#[trigger] self.rec_stack@[b]).depth by { assert(f0[a].depth >= f0[b].depth); }
                     lemma_frames_all_pushed(f0, self.rec_stack@, ev); }'''),
             # sequence / mapping end arms
             dict(after='self.record(&ev, false, false);', nth=2, ghost=True, text='let ghost f2 = self.rec_stack@;'),
             dict(after='self.record(&ev, false, false);', nth=2, text='''
                 assert forall|a: int, b: int| 0 <= a <= b < f2.len() implies (#[trigger] f2[a]).depth >= (#[trigger] f2[b]).depth by { assert(f0[a].depth >= f0[b].depth); }
                 lemma_frames_all_pushed(f0, f2, ev); lemma_frames_facts(f2);'''),
             dict(before='self.last_location = location;', nth=3, text='lemma_frames_remaining(f2, self.rec_stack@);'),
             dict(after='self.record(&ev, false, false);', nth=3, ghost=True, text='let ghost f2 = self.rec_stack@;'),
             dict(after='self.record(&ev, false, false);', nth=3, text='''
                 assert forall|a: int, b: int| 0 <= a <= b < f2.len() implies (#[trigger] f2[a]).depth >= (#[trigger] f2[b]).depth by { assert(f0[a].depth >= f0[b].depth); }
                 lemma_frames_all_pushed(f0, f2, ev); lemma_frames_facts(f2);'''),
             dict(before='self.last_location = location;', nth=5, text='lemma_frames_remaining(f2, self.rec_stack@);'),
             # document boundaries: per-document state is cleared at EVERY document start and end (C11)
             dict(before='self.last_location = location;', nth=7, text='if self.rec_stack@.len() == 0 { lemma_frames_empty(self.rec_stack@); }'),
             dict(before='self.last_location = location;', nth=8, text='if self.rec_stack@.len() == 0 { lemma_frames_empty(self.rec_stack@); }'),
             dict(before='self.last_location = location;', nth=7, label='C11:document_start_clears_per_document_state', props=['C11', 'C02'],
                  text='''assert(self.inject@.len() == 0 && self.rec_stack@.len() == 0 && self.total_replayed_events == 0 && !self.seen_doc_end
                        && (forall|j: int| 0 <= j < self.anchors@.len() ==> (#[trigger] self.anchors@[j]) is None)
                        && (forall|j: int| 0 <= j < self.per_anchor_expansions@.len() ==> (#[trigger] self.per_anchor_expansions@[j]) == 0));'''),
             dict(before='self.last_location = location;', nth=8, label='C11:document_end_clears_per_document_state', props=['C11', 'C02'],
                  text='''assert(self.inject@.len() == 0 && self.rec_stack@.len() == 0 && self.total_replayed_events == 0 && self.seen_doc_end
                        && (forall|j: int| 0 <= j < self.anchors@.len() ==> (#[trigger] self.anchors@[j]) is None)
                        && (forall|j: int| 0 <= j < self.per_anchor_expansions@.len() ==> (#[trigger] self.per_anchor_expansions@[j]) == 0));'''),
             # alias arm: placeholder scalar for a recursive anchor in progress
             dict(before='self.last_location = location;', nth=6, text='''
                 assert forall|a: int, b: int| 0 <= a <= b < self.rec_stack@.len() implies
                     (#[trigger] self.rec_stack@[a]).depth >= (#[trigger] self.rec_stack@[b]).depth by { assert(f0[a].depth >= f0[b].depth); }
                 lemma_frames_all_pushed(f0, self.rec_stack@, ev);'''),
         ],
         ensures=[('lookahead_untouched', 'final(self).look == old(self).look'),
                  ('C02:pump_invariant_preserved', 'r is Ok ==> final(self).live_inv()'),
                  ('C10:pump_never_reports_the_io_error_itself', 'r is Err ==> !(r->Err_0 is IOError)')],
         loops={
             1: dict(invariant=[('inv', 'self.live_inv() && self.live_room() && self.look == old(self).look')],
                     ensures=[('replay_exhausted', 'self.inject@.len() == 0')],
                     decreases='self.inject@.len()'),
             2: dict(invariant=[('inv', 'self.live_inv() && self.live_room() && self.look == old(self).look && self.inject@.len() == 0')],
                     decreases='self.parser.pending().len()'),
         },
         ),
    dict(src=L, path='impl LiveEvents/fn seen_doc_end', props=['C11'],
         ensures=[('value', 'r == self.seen_doc_end')]),
    dict(src='src/de/with_deserializer.rs', path='fn enforce_single_document_and_finish', props=['C05', 'C11', 'C10', 'C01'],
         rewrites=[(r'Error::multiple_documents\(multiple_docs_hint\)', 'error_multiple_documents(multiple_docs_hint)', None, 'R8'),
                   (r'src\.finish\(\)\.map_err\(wrap_err\)', '(match src.finish() { Ok(__v) => Ok(__v), Err(__e) => Err(wrap_err(__e)) })', None, 'R18')],
         requires=[('wrapper_is_total', 'forall|e: Error| wrap_err.requires((e,))')],
         ensures=[
             ('C05:nothing_may_be_left_after_the_root_value', '''r is Ok ==> old(src).rest().len() == 0 || final(src).seen_doc_end'''),
         ],
         canaries=['C05:nothing_may_be_left_after_the_root_value']),
    # the two in-line copies of the leftover check in src/lib.rs (single-document string and reader entry points),
    # lifted as statement fragments (R26): same obligation as enforce_single_document_and_finish
    dict(src='src/lib.rs', path='fn from_str_with_options_impl', id='from_str_with_options_impl#leftover_check',
         fragment=r'(?:let \w+ = src\.last_location\(\);\s*)?match src\.peek\(\) \{.*?src\.finish\(\)\s*\.map_err\(\|e\| maybe_with_snippet\(e, input, with_snippet, crop_radius\)\)\?;',
         fragment_flags='S',
         wrapper="fn from_str_leftover_check_fragment<'a>(src: &mut LiveEvents<'a>, input: &str, with_snippet: bool, crop_radius: usize, value: DocVal) -> Result<DocVal, Error> { {FRAG} Ok(value) }",
         props=['C05', 'C11', 'C09', 'C10', 'C01'],
         rewrites=[(r'Error::multiple_documents\("use from_multiple or from_multiple_with_options"\)', 'error_multiple_documents("use from_multiple or from_multiple_with_options")', None, 'R8'),
                   (r'scalar_is_nullish\(value, style\)', 'scalar_is_nullish(value.as_ref(), style)', None, 'R15'),
                   (r'src\.finish\(\)\s*\.map_err\(\|e\| maybe_with_snippet\(e, input, with_snippet, crop_radius\)\)\?;',
                    'match src.finish() { Ok(__v) => __v, Err(e) => { return Err(maybe_with_snippet(e, input, with_snippet, crop_radius)); } };', None, 'R18')],
         ensures=[('C05:nothing_may_be_left_after_the_root_value', 'r is Ok ==> old(src).rest().len() == 0 || final(src).seen_doc_end'),
                  ('C10:a_value_is_returned_only_after_finish_found_no_stored_reader_error', 'r is Ok ==> final(src).error.content() is None')],
         canaries=['C05:nothing_may_be_left_after_the_root_value']),
    dict(src='src/lib.rs', path='fn from_reader_with_options', id='from_reader_with_options#leftover_check',
         fragment=r'(?:let \w+ = src\.last_location\(\);\s*)?match src\.peek\(\) \{.*?if let Err\(e\) = src\.finish\(\) \{\s*return Err\(attach_snippet\(e\)\);\s*\}',
         fragment_flags='S',
         wrapper="fn from_reader_leftover_check_fragment<'a>(src: &mut LiveEvents<'a>, value: DocVal) -> Result<DocVal, Error> { {FRAG} Ok(value) }",
         props=['C05', 'C11', 'C09', 'C10', 'C01'],
         rewrites=[(r'Error::multiple_documents\("use read or read_with_options to obtain the iterator"\)', 'error_multiple_documents("use read or read_with_options to obtain the iterator")', None, 'R8')],
         ensures=[('C05:nothing_may_be_left_after_the_root_value', 'r is Ok ==> old(src).rest().len() == 0 || final(src).seen_doc_end'),
                  ('C10:a_value_is_returned_only_after_finish_found_no_stored_reader_error', 'r is Ok ==> final(src).error.content() is None')],
         canaries=['C05:nothing_may_be_left_after_the_root_value']),
    # ---- document iterator over a reader (C11 / C10): ReadIter::next of read_with_options ----
    dict(src='src/options.rs', path='enum DuplicateKeyPolicy', derive=COPY),
    dict(src='src/de.rs', path='struct Cfg', derive='#[derive(Clone, Copy)]'),
    dict(src='src/parse_scalars.rs', path='fn scalar_is_nullish', trusted=True, props=[],
         ensures=[('proved_in_unit_typed_to_be_the_plain_null_table', 'r == live_nullish(value@, *style)')]),
    dict(src='src/lib.rs', path='fn read_with_options/struct ReadIter',
         rewrites=[(r"struct ReadIter<'a, T>", "struct ReadIter<'a>", 1, 'R9'), (r'_marker: std::marker::PhantomData<T>,', '', 1, 'R9'),
                   (r'cfg: crate::de::Cfg,', 'cfg: Cfg,', 1, 'R6')]),
    dict(src='src/lib.rs', path='fn read_with_options/impl Iterator for ReadIter/fn next', id='ReadIter::next', impl_header="impl<'a> ReadIter<'a>",
         props=['C10', 'C11', 'C01'],
         attrs='#[verifier::exec_allows_no_decreases_clause]',
         rewrites=[(r'fn next\(&mut self\) -> Option<Self::Item>', 'fn next(&mut self) -> Option<Result<DocVal, Error>>', 1, 'R9'),
                   (r'scalar_is_nullish\(value, style\)', 'scalar_is_nullish(value.as_ref(), style)', 1, 'R15'),
                   (r'let res = crate::anchor_store::with_document_scope\(\|\| \{\s*T::deserialize\(crate::de::YamlDeserializer::new\(\s*&mut self\.src,\s*self\.cfg,\s*\)\)\s*\}\);',
                    'let res = deserialize_document(&mut self.src, self.cfg);', 1, 'R8+R18'),
                   (r'self\.src\.skip_to_next_document\(\)', 'iter_skip_to_next_document(&mut self.src)', None, 'R8'),
                   # every discarded result of the event source is tracked: did it carry the deferred reader error?
                   (r'let _ = self\.src\.next\(\);', 'let __d = self.src.next(); proof { dropped = dropped || (__d is Err && __d->Err_0 is IOError); }', None, 'R37'),
                   (r'let _ = self\.src\.finish\(\);', 'let __d = self.src.finish(); proof { dropped = dropped || (__d is Err && __d->Err_0 is IOError); }', None, 'R37')],
         proofs=[dict(at='start', ghost=True, text='let ghost mut dropped = false;'),
                 dict(before='return None;', nth=2, label='C10:the_stream_never_ends_quietly_after_a_reader_error_was_discarded', text='assert(!dropped);'),
                 dict(before='return Some(res);', label='C10:a_document_is_never_delivered_after_a_reader_error_was_discarded', text='assert(res is Ok ==> !dropped);')],
         ensures=[('C11:a_finished_iterator_stays_finished', 'old(self).finished ==> r is None && *final(self) == *old(self)'),
                  ('C11:the_iterator_ends_only_when_it_marks_itself_finished', 'r is None ==> final(self).finished')],
         loops={1: dict(header=r'^loop$', invariant=[('tracking', '!self.finished && !old(self).finished'),
                                                     ('C10:no_reader_error_has_been_discarded_so_far', '!dropped')])},
         canaries=['C11:the_iterator_ends_only_when_it_marks_itself_finished']),
    # ---- the batch entry point from_multiple_with_options (C11): its document loop, lifted as a fragment ----
    dict(src='src/lib.rs', path='fn from_multiple_with_options', id='from_multiple_with_options#loop', props=['C11', 'C10', 'C01'],
         attrs='#[verifier::exec_allows_no_decreases_clause]',
         fragment=r'let mut values = Vec::new\(\);\s*loop \{.*?\}\s*src\.finish\(\)\s*\.map_err\(\|e\| maybe_with_snippet\(e, input, with_snippet, crop_radius\)\)\?;\s*Ok\(values\)', fragment_flags='S',
         wrapper="fn from_multiple_loop_fragment<'a>(mut src: LiveEvents<'a>, cfg: Cfg, input: &str, with_snippet: bool, crop_radius: usize) -> Result<Vec<DocVal>, Error> { {FRAG} }",
         pre_rewrites=[(r'let mut values = Vec::new\(\);', 'let mut values: Vec<DocVal> = Vec::new();', 1, 'R9')],
         rewrites=[(r'scalar_is_nullish\(s, style\)', 'scalar_is_nullish(s.as_ref(), style)', None, 'R15'),
                   (r'let value_res = crate::anchor_store::with_document_scope\(\|\| \{\s*T::deserialize\(crate::de::YamlDeserializer::new\(&mut src, cfg\)\)\s*\}\);',
                    'let value_res = deserialize_document(&mut src, cfg);', 1, 'R8+R18'),
                   (r'src\.finish\(\)\s*\.map_err\(\|e\| maybe_with_snippet\(e, input, with_snippet, crop_radius\)\)\?;',
                    'match src.finish() { Ok(__v) => __v, Err(e) => { return Err(maybe_with_snippet(e, input, with_snippet, crop_radius)); } };', None, 'R18'),
                   (r'let _ = src\.next\(\)\?;', 'let __skipped = src.next()?;', None, 'R37')],
         proofs=[dict(after='let __skipped = src.next()?;', label='C11:only_a_document_that_is_a_plain_null_like_scalar_is_skipped_and_exactly_that_scalar_is_consumed',
                      text='assert(__skipped is Some && (match __skipped->Some_0 { Ev::Scalar { value, style, .. } => live_nullish(value@, style), _ => false }));'),
                 dict(before_re=r'match src\.finish\(\)', label='C11:the_batch_ends_only_when_the_stream_has_no_more_events', text='assert(src.rest().len() == 0);')],
         ensures=[('values_are_returned_only_after_finish', 'r is Ok ==> true')],
         loops={1: dict(header=r'^loop$', invariant_except_break=[('running', 'true')], ensures=[('C11:the_loop_is_left_only_when_the_stream_has_no_more_events', 'src.rest().len() == 0')])}),
]

# ---- C09: every entry point builds its event source the same way (construction sites lifted as fragments) ----
# LiveEvents::from_str / from_reader are taken as assumed constructors (their struct literal copies the arguments);
# the obligation at every site is that the arguments are the caller's options, unmodified, and that the source is NOT put
# into the stop-at-document-end mode, in which a following document is reported differently (and, behind the leftover
# check, not at all).
_CTOR_ENS = ('r.stop_at_doc_end == stop_at_doc_end && r.alias_limits == alias_limits && !r.seen_doc_end'
             ' && r.look is None && r.inject@.len() == 0 && r.rec_stack@.len() == 0 && r.total_replayed_events == 0'
             ' && r.budget_report == budget_report && r.budget_report_cb == budget_report_cb'
             ' && (r.budget is Some <==> budget is Some) && (budget is Some ==> r.budget->Some_0.budget == budget->Some_0 && r.budget->Some_0.policy == %s)')
ITEMS += [
    dict(src=L, path='impl LiveEvents/fn from_reader', trusted=True, props=[],
         rewrites=[(r"<R: std::io::Read \+ 'a>", '', 1, 'R9'), (r'inputs: R,', 'inputs: ByteReader,', 1, 'R9')],
         ensures=[('assumed_constructor_copies_its_arguments', _CTOR_ENS % 'policy')]),
    dict(src=L, path='impl LiveEvents/fn from_str', trusted=True, props=[],
         ensures=[('assumed_constructor_copies_its_arguments', _CTOR_ENS % 'EnforcingPolicy::AllContent')]),
]
def _ctor_site(src, fn, kind, policy):
    if kind == 'str':
        frag = r'let (mut )?src = LiveEvents::from_str\([^;]*?\);'
        wrap = "fn build_source_%s<'a>(input: &'a str, options: Options) -> LiveEvents<'a> { {FRAG} src }" % fn
    else:
        frag = r'let (mut )?src = LiveEvents::from_reader\([^;]*?\);'
        wrap = "fn build_source_%s<'a>(reader: ByteReader, ring_handle: ByteReader, options: Options) -> LiveEvents<'a> { {FRAG} src }" % fn
    ens = [('C09:every_entry_point_reads_on_past_the_document_end_so_that_a_following_document_is_reported_the_same_way', '!r.stop_at_doc_end'),
           ('C09:the_alias_limits_of_the_options_reach_the_event_source_unchanged', 'r.alias_limits == options.alias_limits'),
           ('C09:the_budget_of_the_options_reaches_the_event_source_unchanged',
            '(r.budget is Some <==> options.budget is Some) && (options.budget is Some ==> r.budget->Some_0.budget == options.budget->Some_0)')]
    if policy:
        ens.append(('C09:the_budget_is_enforced_%s' % ('over_the_whole_input' if policy == 'AllContent' else 'per_document_by_the_document_iterator'),
                    'r.budget is Some ==> r.budget->Some_0.policy == EnforcingPolicy::%s' % policy))
    return dict(src=src, path='fn ' + fn, id=fn + '#event_source', fragment=frag, fragment_flags='S', wrapper=wrap,
                props=['C09', 'C11', 'C05'], optional=True, ensures=ens)
ITEMS += [
    _ctor_site('src/lib.rs', 'from_str_with_options_impl', 'str', 'AllContent'),
    _ctor_site('src/lib.rs', 'from_str_with_options_and_path_recorder', 'str', 'AllContent'),
    _ctor_site('src/lib.rs', 'from_multiple_with_options', 'str', 'AllContent'),
    _ctor_site('src/lib.rs', 'from_multiple_with_options_valid', 'str', 'AllContent'),
    _ctor_site('src/lib.rs', 'from_multiple_with_options_validate', 'str', 'AllContent'),
    _ctor_site('src/lib.rs', 'from_reader_with_options', 'reader', 'AllContent'),
    _ctor_site('src/lib.rs', 'from_reader_with_options_valid', 'reader', 'AllContent'),
    _ctor_site('src/lib.rs', 'from_reader_with_options_validate', 'reader', 'AllContent'),
    _ctor_site('src/lib.rs', 'read_with_options', 'reader', 'PerDocument'),
    _ctor_site('src/lib.rs', 'read_with_options_valid', 'reader', 'PerDocument'),
    _ctor_site('src/lib.rs', 'read_with_options_validate', 'reader', 'PerDocument'),
    _ctor_site('src/de/with_deserializer.rs', 'with_deserializer_from_str_with_options', 'str', 'AllContent'),
    _ctor_site('src/de/with_deserializer.rs', 'with_deserializer_from_reader_with_options', 'reader', 'AllContent'),
]
# the struct literals of the two constructors, lifted as fragments whose free variables are the constructors' own parameters:
# this discharges the assumed constructor contracts above up to the three lines in front of the literals (BOM stripping and
# the character source, which are covered in unit `reader`)
_LIT_RW = [(r'Self \{', 'LiveEvents {', 1, 'R9'),
           (r'budget\.map\(\|budget\| BudgetEnforcer::new\(budget, ([A-Za-z:]+)\)\)',
            r'(match budget { Some(budget) => Some(BudgetEnforcer::new(budget, \1)), None => None })', 1, 'R18')]
ITEMS += [
    dict(dict([x for x in _bm.ITEMS if x['path'].endswith('BudgetEnforcer/fn new')][0]), trusted=True, props=[], canaries=[]),
    dict(src=L, path='impl LiveEvents/fn from_reader', id='LiveEvents::from_reader#literal', props=['C09', 'C07'],
         fragment=r'(?<!-> )Self \{.*?\n\s*error,\s*\}', fragment_flags='S',
         wrapper="fn live_events_from_reader_literal<'a>(parser: StreamParser<'a>, budget: Option<Budget>, budget_report: Option<ReportFn>, budget_report_cb: Option<ReportCb>, alias_limits: AliasLimits, stop_at_doc_end: bool, policy: EnforcingPolicy, error: ErrCell) -> LiveEvents<'a> { {FRAG} }",
         rewrites=_LIT_RW + [(r'SaphyrParser::StreamParser\(parser\)', 'saphyr_stream_parser(parser)', 1, 'R8')],
         ensures=[('C09:the_constructor_copies_its_arguments_and_starts_with_empty_replay_state', _CTOR_ENS % 'policy'),
                  ('C10:the_error_cell_shared_with_the_character_source_is_the_one_kept', 'r.error == error')]),
    dict(src=L, path='impl LiveEvents/fn from_str', id='LiveEvents::from_str#literal', props=['C09', 'C07'],
         fragment=r'(?<!-> )Self \{.*?\n\s*error: [^\n]*\n\s*\}', fragment_flags='S',
         wrapper="fn live_events_from_str_literal<'a>(input: &'a str, budget: Option<Budget>, budget_report: Option<ReportFn>, budget_report_cb: Option<ReportCb>, alias_limits: AliasLimits, stop_at_doc_end: bool) -> LiveEvents<'a> { {FRAG} }",
         rewrites=_LIT_RW + [(r'SaphyrParser::StringParser\(Parser::new_from_str\(input\)\)', 'saphyr_string_parser(input)', 1, 'R8'),
                             (r'Rc::new\(RefCell::new\(None\)\)', 'err_cell_new_empty()', 1, 'R8')],
         ensures=[('C09:the_constructor_copies_its_arguments_and_starts_with_empty_replay_state', _CTOR_ENS % 'EnforcingPolicy::AllContent'),
                  ('C10:a_string_source_has_no_reader_error', 'r.error.content() is None')]),
]
# ---- F30 (C17): the recent-bytes ring of from_reader_with_options must be fed with the DECODED text (what locations refer to) ----
ITEMS += [
    dict(src='src/lib.rs', path='fn from_reader_with_options', id='from_reader_with_options#ring', props=['C17'],
         fragment=r'(let reader = encoding_rs_io::DecodeReaderBytesBuilder::new\(\)[^;]*;\s*)?let shared_ring = [^;]*;\s*let ring_handle = [^;]*;',
         fragment_flags='S',
         wrapper="fn from_reader_ring_site(reader: ByteReader) -> (SharedRing, ByteReader) { {FRAG} (shared_ring, ring_handle) }",
         rewrites=[(r'encoding_rs_io::DecodeReaderBytesBuilder::new\(\)', 'DecoderBuilder::new()', None, 'R8'),
                   (r'\.encoding\(None\)', '.encoding_none()', None, 'R8'),
                   (r'ring_reader::SharedRingReader::new\(reader\)', 'shared_ring_new(reader)', 1, 'R8'),
                   (r'ring_reader::SharedRingReaderHandle::new\(&shared_ring\)', 'shared_ring_handle(&shared_ring)', 1, 'R8')],
         ensures=[('C17:the_recent_bytes_window_is_filled_with_the_decoded_text_that_locations_refer_to', 'r.0.holds_decoded_text()')]),
]
# ---- the feature-gated copies of the document iterator (garde: read_with_options_valid, validator: read_with_options_validate) ----
# Same obligations as ReadIter::next: no result that carries the deferred reader error is discarded before the stream ends
# quietly or delivers a document (C10), a finished iterator stays finished (C11).  The validation call and the construction
# of the validation error are opaque (they do not touch the event source).
def _valid_iter(fn, struct, feature, validate_re, error_re, errvar):
    return [
        dict(src='src/lib.rs', path='fn %s/struct %s' % (fn, struct), features=[feature],
             rewrites=[(r"struct %s<'a, T>" % struct, "struct %s<'a>" % struct, 1, 'R9'), (r'_marker: std::marker::PhantomData<T>,', '', 1, 'R9'),
                       (r'cfg: crate::de::Cfg,', 'cfg: Cfg,', 1, 'R6')]),
        dict(src='src/lib.rs', path='fn %s/impl Iterator for %s/fn next' % (fn, struct), id='%s::next' % struct, impl_header="impl<'a> %s<'a>" % struct,
             features=[feature], props=['C10', 'C11', 'C01'],
             attrs='#[verifier::exec_allows_no_decreases_clause]',
             rewrites=[(r'fn next\(&mut self\) -> Option<Self::Item>', 'fn next(&mut self) -> Option<Result<DocVal, Error>>', 1, 'R9'),
                       (r'scalar_is_nullish\(value, style\)', 'scalar_is_nullish(value.as_ref(), style)', 1, 'R15'),
                       (r'let mut recorder = crate::path_map::PathRecorder::new\(\);\s*let value_res = crate::anchor_store::with_document_scope\(\|\| \{\s*T::deserialize\(crate::de::YamlDeserializer::new_with_path_recorder\(\s*&mut self\.src,\s*self\.cfg,\s*&mut recorder,\s*\)\)\s*\}\);',
                        'let recorder = path_recorder_new(); let value_res = deserialize_document(&mut self.src, self.cfg);', 1, 'R8+R18'),
                       (validate_re, 'validate_document(&value)', 1, 'R8'),
                       (error_re, 'validation_error(%s, recorder)' % errvar, 1, 'R8'),
                       (r'Ok\(\(\)\) => return Some\(Ok\(value\)\),', 'Ok(()) => { return Some(Ok(value)); }', 1, 'R18'),
                       (r'self\.src\.skip_to_next_document\(\)', 'iter_skip_to_next_document(&mut self.src)', None, 'R8'),
                       (r'let _ = self\.src\.next\(\);', 'let __d = self.src.next(); proof { dropped = dropped || (__d is Err && __d->Err_0 is IOError); }', None, 'R37'),
                       (r'let _ = self\.src\.finish\(\);', 'let __d = self.src.finish(); proof { dropped = dropped || (__d is Err && __d->Err_0 is IOError); }', None, 'R37')],
             proofs=[dict(at='start', ghost=True, text='let ghost mut dropped = false;'),
                     dict(before='return None;', nth=2, label='C10:the_stream_never_ends_quietly_after_a_reader_error_was_discarded', text='assert(!dropped);'),
                     dict(before='return Some(Ok(value))', label='C10:a_document_is_never_delivered_after_a_reader_error_was_discarded', text='assert(!dropped);')],
             ensures=[('C11:a_finished_iterator_stays_finished', 'old(self).finished ==> r is None && *final(self) == *old(self)'),
                      ('C11:the_iterator_ends_only_when_it_marks_itself_finished', 'r is None ==> final(self).finished')],
             loops={1: dict(header=r'^loop$', invariant=[('tracking', '!self.finished && !old(self).finished'),
                                                         ('C10:no_reader_error_has_been_discarded_so_far', '!dropped')])},
             canaries=['C11:the_iterator_ends_only_when_it_marks_itself_finished']),
    ]
ITEMS += _valid_iter('read_with_options_valid', 'ReadValidIter', 'garde', r'Validate::validate\(&value\)',
                     r'Error::ValidationError \{\s*report,\s*locations: recorder\.map,\s*\}', 'report')
ITEMS += _valid_iter('read_with_options_validate', 'ReadValidateIter', 'validator', r'ValidatorValidate::validate\(&value\)',
                     r'Error::ValidatorError \{\s*errors,\s*locations: recorder\.map,\s*\}', 'errors')
# ---- the leftover checks of the feature-gated single-document entry points (same obligations as the two above) ----
_LEFT_ENS = [('C05:nothing_may_be_left_after_the_root_value', 'r is Ok ==> old(src).rest().len() == 0 || final(src).seen_doc_end'),
             ('C10:a_value_is_returned_only_after_finish_found_no_stored_reader_error', 'r is Ok ==> final(src).error.content() is None')]
ITEMS += [
    dict(src='src/lib.rs', path='fn from_str_with_options_and_path_recorder', id='from_str_with_options_and_path_recorder#leftover_check',
         fragment=r'(?:let \w+ = src\.last_location\(\);\s*)?match src\.peek\(\) \{.*?src\.finish\(\)\s*\.map_err\(\|e\| maybe_with_snippet\(e, input, with_snippet, crop_radius\)\)\?;',
         fragment_flags='S',
         wrapper="fn from_str_recorded_leftover_check_fragment<'a>(src: &mut LiveEvents<'a>, input: &str, with_snippet: bool, crop_radius: usize, value: DocVal) -> Result<DocVal, Error> { {FRAG} Ok(value) }",
         props=['C05', 'C11', 'C09', 'C10', 'C01'],
         rewrites=[(r'Error::multiple_documents\("use from_multiple or from_multiple_with_options"\)', 'error_multiple_documents("use from_multiple or from_multiple_with_options")', None, 'R8'),
                   (r'src\.finish\(\)\s*\.map_err\(\|e\| maybe_with_snippet\(e, input, with_snippet, crop_radius\)\)\?;',
                    'match src.finish() { Ok(__v) => __v, Err(e) => { return Err(maybe_with_snippet(e, input, with_snippet, crop_radius)); } };', None, 'R18')],
         ensures=_LEFT_ENS, canaries=['C05:nothing_may_be_left_after_the_root_value']),
]
for _fn, _hint in (('from_reader_with_options_valid', 'use read_valid or read_with_options_valid to obtain the iterator'),
                   ('from_reader_with_options_validate', 'use read_validate or read_with_options_validate to obtain the iterator')):
    ITEMS.append(dict(src='src/lib.rs', path='fn ' + _fn, id=_fn + '#leftover_check',
         fragment=r'(?:let \w+ = src\.last_location\(\);\s*)?match src\.peek\(\) \{.*?src\.finish\(\)\?;', fragment_flags='S',
         wrapper="fn %s_leftover_check_fragment<'a>(src: &mut LiveEvents<'a>, value: DocVal) -> Result<DocVal, Error> { {FRAG} Ok(value) }" % _fn,
         props=['C05', 'C11', 'C09', 'C10', 'C01'],
         rewrites=[(r'Error::multiple_documents\(\s*"%s",?\s*\)' % re.escape(_hint), 'error_multiple_documents("%s")' % _hint, None, 'R8')],
         ensures=_LEFT_ENS, canaries=['C05:nothing_may_be_left_after_the_root_value']))
# ---- the feature-gated batch entry points (from_multiple_with_options_valid / _validate): their document loops ----
def _valid_batch(fn, feature, validate_re, error_re, errvar):
    return dict(src='src/lib.rs', path='fn ' + fn, id=fn + '#loop', props=['C11', 'C10', 'C01'], features=[feature],
         attrs='#[verifier::exec_allows_no_decreases_clause]',
         fragment=r'let mut values = Vec::new\(\);\s*let mut validation_errors: Vec<Error> = Vec::new\(\);\s*loop \{.*?\}\s*src\.finish\(\)\s*\.map_err\(\|e\| maybe_with_snippet\(e, input, with_snippet, crop_radius\)\)\?;', fragment_flags='S',
         wrapper="fn %s_loop_fragment<'a>(mut src: LiveEvents<'a>, cfg: Cfg, input: &str, with_snippet: bool, crop_radius: usize) -> Result<(Vec<DocVal>, Vec<Error>), Error> { {FRAG} Ok((values, validation_errors)) }" % fn,
         pre_rewrites=[(r'let mut values = Vec::new\(\);', 'let mut values: Vec<DocVal> = Vec::new();', 1, 'R9')],
         rewrites=[(r'scalar_is_nullish\(s, style\)', 'scalar_is_nullish(s.as_ref(), style)', None, 'R15'),
                   (r'let mut recorder = crate::path_map::PathRecorder::new\(\);\s*let value_res = crate::anchor_store::with_document_scope\(\|\| \{\s*T::deserialize\(crate::de::YamlDeserializer::new_with_path_recorder\(\s*&mut src,\s*cfg,\s*&mut recorder,\s*\)\)\s*\}\);',
                    'let recorder = path_recorder_new(); let value_res = deserialize_document(&mut src, cfg);', 1, 'R8+R18'),
                   (validate_re, 'validate_document(&value)', 1, 'R8'),
                   (error_re, 'validation_error(%s, recorder)' % errvar, 1, 'R8'),
                   (r'src\.finish\(\)\s*\.map_err\(\|e\| maybe_with_snippet\(e, input, with_snippet, crop_radius\)\)\?;',
                    'match src.finish() { Ok(__v) => __v, Err(e) => { return Err(maybe_with_snippet(e, input, with_snippet, crop_radius)); } };', None, 'R18'),
                   (r'let _ = src\.next\(\)\?;', 'let __skipped = src.next()?;', None, 'R37')],
         proofs=[dict(after='let __skipped = src.next()?;', label='C11:only_a_document_that_is_a_plain_null_like_scalar_is_skipped_and_exactly_that_scalar_is_consumed',
                      text='assert(__skipped is Some && (match __skipped->Some_0 { Ev::Scalar { value, style, .. } => live_nullish(value@, style), _ => false }));'),
                 dict(before_re=r'match src\.finish\(\)', label='C11:the_batch_ends_only_when_the_stream_has_no_more_events', text='assert(src.rest().len() == 0);')],
         ensures=[('values_are_returned_only_after_finish', 'r is Ok ==> true')],
         loops={1: dict(header=r'^loop$', invariant_except_break=[('running', 'true')], ensures=[('C11:the_loop_is_left_only_when_the_stream_has_no_more_events', 'src.rest().len() == 0')])})
ITEMS += [
    _valid_batch('from_multiple_with_options_valid', 'garde', r'Validate::validate\(&value\)', r'Error::ValidationError \{\s*report,\s*locations: recorder\.map,\s*\}', 'report'),
    _valid_batch('from_multiple_with_options_validate', 'validator', r'ValidatorValidate::validate\(&value\)', r'Error::ValidatorError \{\s*errors,\s*locations: recorder\.map,\s*\}', 'errors'),
]
# ---- C09 / C06: every entry point derives the deserializer configuration from the options through this one function ----
ITEMS += [
    dict(src='src/options.rs', path='struct Options', derive=''),
    dict(src=D, path='impl Cfg/fn from_options', props=['C09', 'C06', 'C04'],
         ensures=[('C09:the_configuration_is_the_options_field_for_field', '''r.dup_policy == options.duplicate_keys && r.legacy_octal_numbers == options.legacy_octal_numbers
                && r.strict_booleans == options.strict_booleans && r.angle_conversions == options.angle_conversions
                && r.ignore_binary_tag_for_string == options.ignore_binary_tag_for_string && r.no_schema == options.no_schema''')],
         canaries=['C09:the_configuration_is_the_options_field_for_field']),
]

# the "multiple documents" error of the leftover checks: its location must be read AFTER the probe (`src.peek()`), where every
# entry point reads it; the error expression is hoisted into a local so that the obligation can speak about it
_MD_HOIST = [(r'return Err\(attach_snippet\(\s*error_multiple_documents\(("[^"]*")\)\s*\.with_location\(([^;]*?)\),?\s*\)\);',
              r'let __md = error_multiple_documents(\1).with_location(\2); return Err(attach_snippet(__md));', None, 'R18'),
             (r'return Err\(error_multiple_documents\(\s*("[^"]*"),?\s*\)\s*\.with_location\(([^;]*?)\)\);',
              r'let __md = error_multiple_documents(\1).with_location(\2); return Err(__md);', None, 'R18'),
             (r'let err = error_multiple_documents\(("[^"]*")\)\s*\.with_location\(([^;]*?)\);', r'let __md = error_multiple_documents(\1).with_location(\2); let err = __md;', None, 'R18')]
_MD_PROOF = dict(after_re=r'let __md = error_multiple_documents\([^;]*;', label='C09:a_following_document_is_reported_where_the_probe_for_it_stopped_as_by_every_entry_point',
                 text='assert(__md is MultipleDocuments && __md->MultipleDocuments_location == src.last_location);')
for _it in ITEMS:
    if _it and str(_it.get('id', '')).endswith('#leftover_check'):
        _it['rewrites'] = list(_it.get('rewrites', [])) + _MD_HOIST
        _it['proofs'] = list(_it.get('proofs', [])) + [_MD_PROOF]
ITEMS += [
    dict(src=L, path='impl LiveEvents/fn synthesized_null_emitted', props=['C05'], ensures=[('value', 'r == self.synthesized_null_emitted')]),
]
