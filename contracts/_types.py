"""Shared, mechanically extracted type definitions (no hand-written mirrors of crate types)."""
SAPHYR = 'dep:saphyr-parser-bw-0.0.608/src/'
COPY = '#[derive(Clone, Copy, PartialEq, Eq, Structural)]'

SUBST_COMMON = [
    (r"Cow<'input, str>", "CowStr<'input>"),
    (r"Cow<'input, Tag>", "CowTag<'input>"),
    (r"std::io::Error", "IoError"),
]

def saphyr_events():
    return [
        dict(src=SAPHYR + 'scanner.rs', path='enum ScalarStyle', derive=COPY),
        dict(src=SAPHYR + 'parser.rs', path='enum Event'),
    ]

def location_types():
    return [
        dict(src='src/location.rs', path='type SpanIndex#1'),
        dict(src='src/location.rs', path='struct Span', derive=COPY),
        dict(src='src/location.rs', path='struct Location', derive=COPY),
        dict(src='src/location.rs', path='struct Locations', derive=COPY),
        dict(src='src/location.rs', path='impl Span/const UNKNOWN'),
        dict(src='src/location.rs', path='impl Location/const UNKNOWN'),
    ]

def budget_types():
    B = 'src/budget.rs'
    return [
        dict(src=B, path='struct Budget'),
        dict(src=B, path='enum BudgetBreach'),
        dict(src=B, path='struct BudgetReport'),
    ]

def error_types():
    return [
        dict(src='src/localizer.rs', path='enum ExternalMessageSource'),
        dict(src='src/de_error.rs', path='enum TransformReason'),
        dict(src='src/de_error.rs', path='struct CroppedRegion'),
        dict(src='src/de_error.rs', path='enum Error'),
        dict(src='src/de_error.rs', path='impl Error/fn eof',
             ensures=[('value', 'r == (Error::Eof { location: Location::UNKNOWN })')], vacuity=False),
        dict(src='src/de_error.rs', path='impl Error/fn unexpected',
             ensures=[('value', 'r == (Error::Unexpected { expected: what, location: Location::UNKNOWN })')], vacuity=False),
        dict(src='src/de_error.rs', path='impl Error/fn unknown_anchor',
             ensures=[('value', 'r == (Error::UnknownAnchor { location: Location::UNKNOWN })')], vacuity=False),
        # with_location: or-patterns binding `&mut` fields are outside Verus; assumed: the error kind is kept
        dict(src='src/de_error.rs', path='impl Error/fn with_location', trusted=True,
             ensures=[('keeps_kind', 'error_kind_same(self, r)'),
                      ('sets_the_location_of_a_multiple_documents_error', 'self is MultipleDocuments ==> r->MultipleDocuments_location == set_location')]),
    ]


PSPAN = [(r'\bSpan\b', 'ParserSpan', None, 'R6')]

def parser_span_types():
    """saphyr-parser's Marker / Span, extracted from the dependency source (Span renamed ParserSpan, as
    src/location.rs imports it)."""
    sc = SAPHYR + 'scanner.rs'
    return [
        dict(src=sc, path='struct MarkerOffsets', derive='#[derive(Clone, Copy)]'),
        dict(src=sc, path='struct Marker', derive='#[derive(Clone, Copy)]'),
        dict(src=sc, path='struct Span', id='ParserSpan', rewrites=PSPAN, derive='#[derive(Clone, Copy)]'),
        dict(src=sc, path='impl Marker/fn index', ensures=[('value', 'r == self.offsets.chars')], vacuity=False),
        dict(src=sc, path='impl Marker/fn byte_offset', ensures=[('value', 'r == self.offsets.bytes')], vacuity=False),
        dict(src=sc, path='impl Marker/fn line', ensures=[('value', 'r == self.line')], vacuity=False),
        dict(src=sc, path='impl Marker/fn col', ensures=[('value', 'r == self.col')], vacuity=False),
        dict(src=sc, path='impl Span/fn len', id='ParserSpan::len', impl_header='impl ParserSpan',
             requires=[('marks_ordered', 'self.start.offsets.chars <= self.end.offsets.chars')],
             ensures=[('value', 'r == self.end.offsets.chars - self.start.offsets.chars')], vacuity=False),
    ]

def location_fns(props=('C16', 'C01')):
    P = list(props)
    return [
        dict(src='src/location.rs', path='impl Location/fn new', props=P,
             requires=[('below_4g', 'line <= u32::MAX && column <= u32::MAX')],
             ensures=[('value', 'r == (Location { line: line as u32, column: column as u32, span: Span::UNKNOWN })')],
             canaries=['value']),
        dict(src='src/location.rs', path='impl Location/fn with_span', props=P,
             ensures=[('value', 'r == (Location { span: span, ..self })')], canaries=['value']),
        dict(src='src/location.rs', path='fn location_from_span', props=P,
             requires=[('marks_ordered_and_below_4g', '''span.start.offsets.chars <= span.end.offsets.chars
                    && span.end.offsets.chars <= u32::MAX && span.start.line <= u32::MAX && span.start.col < u32::MAX''')],
             ensures=[('C16:one_based_column_char_and_byte_offsets', '''
                    r.line == span.start.line && r.column == span.start.col + 1
                    && r.span.offset == span.start.offsets.chars
                    && r.span.len == span.end.offsets.chars - span.start.offsets.chars
                    && r.span.byte_info == (match (span.start.offsets.bytes, span.end.offsets.bytes) {
                        (Some(sb), Some(eb)) => { let len = if eb >= sb { eb - sb } else { 0 };
                            if sb > u32::MAX || len > u32::MAX { (0u32, 0u32) } else { (sb as u32, len as u32) } },
                        _ => (0u32, 0u32) })''')],
             canaries=['C16:one_based_column_char_and_byte_offsets']),
    ]


def events_trait():
    """`trait Events` of src/de.rs with the cursor contract every event source has to meet."""
    return dict(src='src/de.rs', path='trait Events',
        trait_extra='''
    /// ghost: the events this source will still deliver (if no error intervenes)
    spec fn rest(&self) -> Seq<Ev<'de>>;
    /// ghost: the next event has been looked at (a successful `peek`), so `reference_location` speaks about IT
    spec fn primed(&self) -> bool;
    /// ghost: while an alias is being replayed, the location of the alias token (the use site)
    spec fn use_site_override(&self) -> Option<Location>;
''',
        trait_methods={
            'next': dict(ensures=[('cursor', '''match r {
                Ok(Some(e)) => old(self).rest().len() > 0 && e == old(self).rest()[0] && final(self).rest() == old(self).rest().skip(1),
                Ok(None) => old(self).rest().len() == 0 && final(self).rest() == old(self).rest(),
                Err(_) => true }''')]),
            'peek': dict(ensures=[('cursor', '''match r {
                Ok(Some(e)) => final(self).rest() == old(self).rest() && old(self).rest().len() > 0 && *e == old(self).rest()[0],
                Ok(None) => final(self).rest() == old(self).rest() && old(self).rest().len() == 0,
                Err(_) => true }'''),
                                  ('C16:a_peeked_event_is_what_reference_location_speaks_about', 'r is Ok && r->Ok_0 is Some ==> final(self).primed()')]),
            'reference_location': dict(ensures=[('C16:use_site_is_the_alias_token_while_replaying_else_the_peeked_event', '''self.primed() && self.rest().len() > 0 ==>
                r == spec_use_site(self.use_site_override(), self.rest()[0])''')]),
        })
