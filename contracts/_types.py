"""Shared, mechanically extracted type definitions (no hand-written mirrors of crate types)."""
SAPHYR = 'dep:saphyr-parser-bw-0.0.608/src/'
COPY = '#[derive(Clone, Copy, PartialEq, Eq, Structural)]'

SUBST_COMMON = [
    (r"Cow<'input, str>", "CowStr<'input>"),
    (r"Cow<'input, Tag>", "CowTag<'input>"),
    (r"std::io::Error", "IoError"),
]

def saphyr_events():
    return [
        dict(src=SAPHYR + 'scanner.rs', path='enum ScalarStyle', derive=COPY),
        dict(src=SAPHYR + 'parser.rs', path='enum Event'),
    ]

def location_types():
    return [
        dict(src='src/location.rs', path='type SpanIndex#1'),
        dict(src='src/location.rs', path='struct Span', derive=COPY),
        dict(src='src/location.rs', path='struct Location', derive=COPY),
        dict(src='src/location.rs', path='struct Locations', derive=COPY),
        dict(src='src/location.rs', path='impl Span/const UNKNOWN'),
        dict(src='src/location.rs', path='impl Location/const UNKNOWN'),
    ]

def budget_types():
    B = 'src/budget.rs'
    return [
        dict(src=B, path='struct Budget'),
        dict(src=B, path='enum BudgetBreach'),
        dict(src=B, path='struct BudgetReport'),
    ]

def error_types():
    return [
        dict(src='src/localizer.rs', path='enum ExternalMessageSource'),
        dict(src='src/de_error.rs', path='enum TransformReason'),
        dict(src='src/de_error.rs', path='struct CroppedRegion'),
        dict(src='src/de_error.rs', path='enum Error'),
        dict(src='src/de_error.rs', path='impl Error/fn eof',
             ensures=[('value', 'r == (Error::Eof { location: Location::UNKNOWN })')], vacuity=False),
        dict(src='src/de_error.rs', path='impl Error/fn unexpected',
             ensures=[('value', 'r == (Error::Unexpected { expected: what, location: Location::UNKNOWN })')], vacuity=False),
        dict(src='src/de_error.rs', path='impl Error/fn unknown_anchor',
             ensures=[('value', 'r == (Error::UnknownAnchor { location: Location::UNKNOWN })')], vacuity=False),
        # with_location: or-patterns binding `&mut` fields are outside Verus; assumed: the error kind is kept
        dict(src='src/de_error.rs', path='impl Error/fn with_location', trusted=True,
             ensures=[('keeps_kind', 'error_kind_same(self, r)')]),
    ]
