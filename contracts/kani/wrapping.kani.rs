// Bounded stand-in (Kani) for src/wrapping.rs::first_line_leading_spaces  -- appended to the file under #[cfg(kani)]
#[cfg(kani)]
mod verif_kani {
    use super::*;

    // oracle, written from the doc comment: leading spaces of the first NON-EMPTY line (a line made of
    // spaces only is not empty), 0 if every line is empty
    fn oracle(b: &[u8]) -> usize {
        let mut i = 0;
        // skip empty lines
        while i < b.len() && b[i] == b'\n' { i += 1; }
        let mut n = 0;
        while i < b.len() && b[i] == b' ' { n += 1; i += 1; }
        n
    }

    #[kani::proof]
    #[kani::unwind(8)]
    fn first_line_leading_spaces_matches_oracle() {
        const N: usize = 6;
        let len: usize = kani::any();
        kani::assume(len <= N);
        let mut buf = [b'x'; N];
        for i in 0..N {
            if i < len {
                let k: u8 = kani::any();
                kani::assume(k < 3);
                buf[i] = if k == 0 { b' ' } else if k == 1 { b'\n' } else { b'x' };
            }
        }
        let s = core::str::from_utf8(&buf[..len]).unwrap();
        let got = first_line_leading_spaces(s);
        kani::cover!(got == 2);
        assert!(got == oracle(&buf[..len]));
    }
}
