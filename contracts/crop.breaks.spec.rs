// ---- F29: line breaks as the YAML scanner (and Location::line) counts them ----
/// byte i is a carriage return that is not the first half of CR LF: a line break for the scanner, not for code that splits at LF
pub open spec fn lone_cr_at(b: Seq<u8>, i: int) -> bool { b[i] == 0x0Du8 && !(i + 1 < b.len() && b[i + 1] == 0x0Au8) }
pub open spec fn has_lone_cr_spec(b: Seq<u8>) -> bool { exists|i: int| 0 <= i < b.len() && lone_cr_at(b, i) }
