// ---- F29: line breaks as the YAML scanner (and Location::line) counts them ----
/// byte i is a carriage return that is not the first half of CR LF: a line break for the scanner, not for code that splits at LF
pub open spec fn lone_cr_at(b: Seq<u8>, i: int) -> bool { b[i] == 0x0Du8 && !(i + 1 < b.len() && b[i + 1] == 0x0Au8) }
pub open spec fn has_lone_cr_spec(b: Seq<u8>) -> bool { exists|i: int| 0 <= i < b.len() && lone_cr_at(b, i) }

/// character offsets inside a slice taken between two char boundaries are those of the whole text, shifted
proof fn lemma_slice_char_offs(cs: Seq<char>, a: int, b: int)
    requires boundary(cs, a), boundary(cs, b), a <= b,
    ensures
        0 <= char_index(cs, a) <= char_index(cs, b) <= cs.len(),
        char_off(cs, char_index(cs, a)) == a, char_off(cs, char_index(cs, b)) == b,
        forall|k: int| 0 <= k <= char_index(cs, b) - char_index(cs, a) ==>
            a + #[trigger] char_off(cs.subrange(char_index(cs, a), char_index(cs, b)), k) == char_off(cs, char_index(cs, a) + k),
{
    reveal(boundary); reveal(char_index);
    let ia = char_index(cs, a); let ib = char_index(cs, b);
    assert(0 <= ia <= cs.len() && char_off(cs, ia) == a);
    assert(0 <= ib <= cs.len() && char_off(cs, ib) == b);
    if ib < ia { lemma_char_off_monotonic(cs, ib, ia); }
    let sub = cs.subrange(ia, ib);
    assert forall|k: int| 0 <= k <= ib - ia implies a + #[trigger] char_off(sub, k) == char_off(cs, ia + k) by {
        assert(cs.take(ia + k) =~= cs.take(ia) + sub.take(k));
        encode_utf8_concat(cs.take(ia), sub.take(k));
    }
}

proof fn lemma_line_start_follows_lf(b: Seq<u8>, cs: Seq<char>, r: Seq<usize>, j: int)
    requires line_starts_ok(b, cs, r), 1 <= j < r.len(),
    ensures r[j] >= 1, r[j] <= b.len(), b[r[j] - 1] == 0x0a, r[j - 1] < r[j],
{
    reveal(line_starts_ok);
}

/// THE line table of a text (what `line_starts` returns): determined by `line_starts_ok`
spec fn line_starts_of(s: &str) -> Seq<usize> { choose|r: Seq<usize>| line_starts_ok(s.spec_bytes(), s@, r) }

/// boundaries are ordered like the characters they stand in front of
proof fn lemma_boundary_order(cs: Seq<char>, a: int, b: int)
    requires boundary(cs, a), boundary(cs, b),
    ensures (a < b) == (char_index(cs, a) < char_index(cs, b)), (a == b) == (char_index(cs, a) == char_index(cs, b)),
{
    reveal(boundary); reveal(char_index);
    let ia = char_index(cs, a); let ib = char_index(cs, b);
    assert(0 <= ia <= cs.len() && char_off(cs, ia) == a);
    assert(0 <= ib <= cs.len() && char_off(cs, ib) == b);
    if ia < ib { lemma_char_off_monotonic(cs, ia, ib); }
    if ib < ia { lemma_char_off_monotonic(cs, ib, ia); }
}

/// byte offsets inside `pre + mid.subrange(a, b) + post` of the characters taken from `mid`
proof fn lemma_char_off_in_framed_subrange(pre: Seq<char>, mid: Seq<char>, a: int, b: int, post: Seq<char>, j: int)
    requires 0 <= a <= j <= b <= mid.len(),
    ensures
        char_off(pre + mid.subrange(a, b) + post, pre.len() + (j - a)) == encode_utf8(pre).len() + char_off(mid, j) - char_off(mid, a),
        j < b ==> (pre + mid.subrange(a, b) + post)[pre.len() + (j - a)] == mid[j],
{
    let whole = pre + mid.subrange(a, b) + post;
    assert(whole.take(pre.len() + (j - a)) =~= pre + mid.subrange(a, j));
    encode_utf8_concat(pre, mid.subrange(a, j));
    assert(mid.take(j) =~= mid.take(a) + mid.subrange(a, j));
    encode_utf8_concat(mid.take(a), mid.subrange(a, j));
}

/// offset just behind the last line feed in front of `end` (0 if there is none)
spec fn line_start_before(b: Seq<u8>, end: int) -> int
    decreases end,
{
    if end <= 0 { 0 } else if b[end - 1] == 0x0au8 { end } else { line_start_before(b, end - 1) }
}

/// `s[..end].rfind('\n').map(|i| i + 1).unwrap_or(0)`: the start of the line that `end` lies in
#[verifier::external_body]
fn str_line_start_before(s: &str, end: usize) -> (r: usize)
    requires end <= s.spec_bytes().len(), boundary(s@, end as int),
    ensures r == line_start_before(s.spec_bytes(), end as int), r <= end, boundary(s@, r as int),
{ s[..end].rfind('\n').map(|i| i + 1).unwrap_or(0) }

// ---- F45: the gutter of the lines of the secondary ("defined here") window.  `Fmt` stands for `fmt::Formatter`; what is recorded of every line
// written is the column of its gutter bar `|` (R12: a `writeln!` with a `{..:>W$} | ..` format becomes a call that names W) ----
#[verifier::external_body]
pub struct Fmt { _p: () }
#[verifier::external_body]
pub struct FmtErrorC { _p: () }
impl Fmt { pub uninterp spec fn bars(&self) -> Seq<int>; }
/// `writeln!(f, "{x:>W$} | ...")`: a line whose gutter is W columns wide
#[verifier::external_body]
fn fmt_gutter_line(f: &mut Fmt, gutter: usize) -> (r: Result<(), FmtErrorC>)
    ensures r is Ok ==> final(f).bars() == old(f).bars().push(gutter as int + 1),
{ unimplemented!() }
#[verifier::external_body]
fn str_is_empty_c(s: &str) -> (r: bool) ensures r == (s@.len() == 0), { unimplemented!() }

// ---- F46: the annotation label ----
/// "contains no C0 control other than \n / \t, no DEL, no C1 control" (term_clean over the bytes, proved for the sanitiser in unit `snippet`)
pub uninterp spec fn sanitized(s: Seq<char>) -> bool;
/// `sanitize_terminal_snippet_preserve_len(msg.to_string())`
#[verifier::external_body]
fn sanitize_label(msg: &str) -> (r: String) ensures sanitized(r@), { unimplemented!() }
/// `AnnotationKind::Primary.span(a..b).label(text)` (annotate-snippets): the label is printed as it is
#[verifier::external_body]
fn primary_annotation(a: usize, b: usize, text: &str)
    requires sanitized(text@),
{ unimplemented!() }
