// ===== unit `robotics`: floating point is UNINTERPRETED; every float operation of src/robotics.rs is routed (R8) =====
// ===== through one of these shims, so that the contracts can say WHICH operations are applied to WHAT, in what order =====
uninterp spec fn sp_fadd(a: f64, b: f64) -> f64;
uninterp spec fn sp_fsub(a: f64, b: f64) -> f64;
uninterp spec fn sp_fmul(a: f64, b: f64) -> f64;
uninterp spec fn sp_fdiv(a: f64, b: f64) -> f64;
uninterp spec fn sp_fneg(a: f64) -> f64;
uninterp spec fn sp_fgt(a: f64, b: f64) -> bool;
uninterp spec fn sp_u32_to_f64(a: u32) -> f64;
uninterp spec fn sp_f64_to_u32(a: f64) -> u32;
uninterp spec fn sp_f64_to_f32(a: f64) -> f32;
uninterp spec fn sp_pi() -> f64;
uninterp spec fn sp_deg2rad() -> f64;
uninterp spec fn sp_inf() -> f64;
uninterp spec fn sp_nan() -> f64;
/// `f64::from_str` on a byte string (None: rejected)
uninterp spec fn sp_f64_parse(b: Seq<u8>) -> Option<f64>;

#[verifier::external_body] fn fadd(a: f64, b: f64) -> (r: f64) ensures r == sp_fadd(a, b) { a + b }
#[verifier::external_body] fn fsub(a: f64, b: f64) -> (r: f64) ensures r == sp_fsub(a, b) { a - b }
#[verifier::external_body] fn fmul(a: f64, b: f64) -> (r: f64) ensures r == sp_fmul(a, b) { a * b }
#[verifier::external_body] fn fdiv(a: f64, b: f64) -> (r: f64) ensures r == sp_fdiv(a, b) { a / b }
#[verifier::external_body] fn fneg(a: f64) -> (r: f64) ensures r == sp_fneg(a) { -a }
#[verifier::external_body] fn fgt(a: f64, b: f64) -> (r: bool) ensures r == sp_fgt(a, b) { a > b }
#[verifier::external_body] fn u32_to_f64(a: u32) -> (r: f64) ensures r == sp_u32_to_f64(a) { a as f64 }
#[verifier::external_body] fn u8_to_f64(a: u8) -> (r: f64) ensures r == sp_u32_to_f64(a as u32) { a as f64 }
#[verifier::external_body] fn f64_to_u32(a: f64) -> (r: u32) ensures r == sp_f64_to_u32(a) { a as u32 }
#[verifier::external_body] fn f64_to_f32(a: f64) -> (r: f32) ensures r == sp_f64_to_f32(a) { a as f32 }
#[verifier::external_body] fn f64_pi() -> (r: f64) ensures r == sp_pi() { core::f64::consts::PI }
#[verifier::external_body] fn f64_deg2rad() -> (r: f64) ensures r == sp_deg2rad() { core::f64::consts::PI / 180.0 }
#[verifier::external_body] fn f64_infinity() -> (r: f64) ensures r == sp_inf() { f64::INFINITY }
#[verifier::external_body] fn f64_nan() -> (r: f64) ensures r == sp_nan() { f64::NAN }
#[verifier::external_body] fn f64_lit(x: f64) -> (r: f64) ensures r == x { x }

/// `f64::from_str(s)`
#[verifier::external_body]
fn f64_from_str(s: &str) -> (r: Result<f64, ()>)
    ensures match r { Ok(v) => sp_f64_parse(s.spec_bytes()) == Some(v), Err(_) => sp_f64_parse(s.spec_bytes()) is None },
{ <f64 as core::str::FromStr>::from_str(s).map_err(|_| ()) }

/// `core::str::from_utf8(&buf)` followed by `f64::from_str`
#[verifier::external_body]
fn f64_from_utf8_bytes(buf: &Vec<u8>) -> (r: Result<f64, ()>)
    ensures match r { Ok(v) => sp_f64_parse(buf@) == Some(v), Err(_) => sp_f64_parse(buf@) is None },
{ core::str::from_utf8(buf).map_err(|_| ()).and_then(|s| <f64 as core::str::FromStr>::from_str(s).map_err(|_| ())) }

// ---- byte helpers ----
spec fn sp_is_digit(c: u8) -> bool { 0x30 <= c <= 0x39 }
spec fn sp_is_alpha(c: u8) -> bool { (0x41 <= c <= 0x5a) || (0x61 <= c <= 0x7a) }
spec fn sp_lower(c: u8) -> u8 { if 0x41 <= c <= 0x5a { (c + 32) as u8 } else { c } }
/// `eq_ignore_ascii_case` on byte strings
spec fn sp_eq_ci(a: Seq<u8>, b: Seq<u8>) -> bool { a.len() == b.len() && forall|i: int| 0 <= i < a.len() ==> sp_lower(#[trigger] a[i]) == sp_lower(b[i]) }

#[verifier::external_body] fn u8_is_ascii_digit(c: u8) -> (r: bool) ensures r == sp_is_digit(c) { c.is_ascii_digit() }
#[verifier::external_body] fn u8_is_ascii_alphabetic(c: u8) -> (r: bool) ensures r == sp_is_alpha(c) { (c as char).is_ascii_alphabetic() }
#[verifier::external_body] fn u8_is_ascii_alphanumeric(c: u8) -> (r: bool) ensures r == (sp_is_alpha(c) || sp_is_digit(c)) { (c as char).is_ascii_alphanumeric() }

/// `slice.get(i).copied()`
#[verifier::external_body]
fn bytes_get(b: &[u8], i: usize) -> (r: Option<u8>)
    ensures r == (if i < b@.len() { Some(b@[i as int]) } else { None::<u8> }),
{ b.get(i).copied() }

#[verifier::external_body]
fn str_eq_ignore_ascii_case(a: &str, b: &str) -> (r: bool)
    ensures r == sp_eq_ci(a.spec_bytes(), b.spec_bytes()),
{ a.eq_ignore_ascii_case(b) }

#[verifier::external_body]
fn str_as_bytes<'a>(s: &'a str) -> (r: &'a [u8])
    ensures r@ == s.spec_bytes(),
{ s.as_bytes() }

/// `Error::HookError { msg: msg.to_string(), location }`
#[verifier::external_body]
fn hook_error(msg: &str, location: Location) -> (r: Error)
    ensures r is HookError,
{ unimplemented!() }

/// `a.eq_ignore_ascii_case(b)` on byte slices
#[verifier::external_body]
fn bytes_eq_ignore_ascii_case(a: &[u8], b: &[u8]) -> (r: bool)
    ensures r == sp_eq_ci(a@, b@),
{ a.eq_ignore_ascii_case(b) }
