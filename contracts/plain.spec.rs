// ===== unit `plain`: when may a string be emitted as a PLAIN scalar and still be read back as that string? =====
// Necessary conditions taken from YAML 1.2.2 (7.3.3 plain style, 5.3 indicators, 6.* white space / comments, 5.2 BOM),
// written over the UTF-8 bytes; NOT derived from the code.

spec fn yb_blank(b: u8) -> bool { b == 0x20 || b == 0x09 }
/// c-indicator characters that may not start a plain scalar (`-`, `?`, `:` are allowed when followed by a safe char)
spec fn yb_indicator_first(b: u8) -> bool {
    b == 0x2c || b == 0x5b || b == 0x5d || b == 0x7b || b == 0x7d || b == 0x23 || b == 0x26 || b == 0x2a || b == 0x21
    || b == 0x7c || b == 0x3e || b == 0x27 || b == 0x22 || b == 0x25 || b == 0x40 || b == 0x60
}
spec fn yb_flow_indicator(b: u8) -> bool { b == 0x2c || b == 0x5b || b == 0x5d || b == 0x7b || b == 0x7d }
spec fn yb_starts_with_bom(b: Seq<u8>) -> bool { b.len() >= 3 && b[0] == 0xef && b[1] == 0xbb && b[2] == 0xbf }

spec fn plain_reads_back(b: Seq<u8>, in_flow: bool) -> bool {
    &&& b.len() > 0
    // surrounding white space is not part of a plain scalar's content: the reader drops it
    &&& !yb_blank(b[0]) && !yb_blank(b.last())
    // a byte order mark at the start of a stream / document is not content
    &&& !yb_starts_with_bom(b)
    &&& !yb_indicator_first(b[0])
    &&& ((b[0] == 0x2d || b[0] == 0x3f || b[0] == 0x3a) ==> b.len() > 1 && !yb_blank(b[1]))
    // no line breaks or other C0 controls / DEL inside
    &&& (forall|i: int| 0 <= i < b.len() ==> !(#[trigger] b[i] < 0x20 && b[i] != 0x09) && b[i] != 0x7f)
    // ": " (or a trailing ':') ends a key, " #" starts a comment
    &&& (forall|i: int| 0 <= i < b.len() ==> !(#[trigger] b[i] == 0x3a && (i + 1 == b.len() || yb_blank(b[i + 1]))))
    &&& (forall|i: int| 0 < i < b.len() ==> !(#[trigger] b[i] == 0x23 && yb_blank(b[i - 1])))
    &&& (in_flow ==> forall|i: int| 0 <= i < b.len() ==> !yb_flow_indicator(#[trigger] b[i]))
    // reader behaviour, not a YAML rule: inside a flow collection this crate's reader (saphyr-parser) takes a `-` that
    // follows a blank and is followed by `,` `]` `}` for the start of a new token and rejects the document
    // ("plain scalar cannot start with '-' followed by ,[]{}"), so a flow entry must not END in blank + `-`
    &&& (in_flow ==> !(b.len() >= 2 && b.last() == 0x2d && yb_blank(b[b.len() - 2])))
}

spec fn pl_is_cc(c: char) -> bool { (c as u32) <= 0x1F || (0x7F <= (c as u32) && (c as u32) <= 0x9F) }
spec fn pl_lower(c: u8) -> u8 { if 0x41 <= c <= 0x5a { (c + 32) as u8 } else { c } }
spec fn pl_eq_ci(a: Seq<u8>, b: Seq<u8>) -> bool { a.len() == b.len() && forall|i: int| 0 <= i < a.len() ==> pl_lower(#[trigger] a[i]) == pl_lower(b[i]) }
/// the regex of is_numeric_looking is outside the verifier: uninterpreted
uninterp spec fn sp_numeric_looking(b: Seq<u8>) -> bool;
/// `char::is_whitespace` is std's table; only three facts are used
uninterp spec fn sp_is_ws_char(c: char) -> bool;
#[verifier::external_body]
proof fn axiom_ws_table() ensures sp_is_ws_char(' '), sp_is_ws_char('\t'), !sp_is_ws_char(':') {}
/// the last character that is not white space
spec fn last_non_ws(cs: Seq<char>) -> Option<char>
    decreases cs.len(),
{
    if cs.len() == 0 { None } else if sp_is_ws_char(cs.last()) { last_non_ws(cs.drop_last()) } else { Some(cs.last()) }
}

spec fn sp_doc_marker(b: Seq<u8>) -> bool {
    b.len() >= 3 && ((b[0] == 0x2d && b[1] == 0x2d && b[2] == 0x2d) || (b[0] == 0x2e && b[1] == 0x2e && b[2] == 0x2e))
    && (b.len() == 3 || b[3] == 0x20 || b[3] == 0x09)
}
/// [+-]? '.' (nan|inf), letters in any case
spec fn sp_special_float(b: Seq<u8>) -> bool {
    let i: int = if b.len() > 0 && (b[0] == 0x2b || b[0] == 0x2d) { 1 } else { 0 };
    i < b.len() && b[i] == 0x2e && b.len() == i + 4
    && ((pl_lower(b[i + 1]) == 0x6e && pl_lower(b[i + 2]) == 0x61 && pl_lower(b[i + 3]) == 0x6e)
        || (pl_lower(b[i + 1]) == 0x69 && pl_lower(b[i + 2]) == 0x6e && pl_lower(b[i + 3]) == 0x66))
}
/// what the predicate must treat as "would not read back as a string" (numbers via the uninterpreted regex)
spec fn sp_ambiguous(b: Seq<u8>) -> bool {
    b.len() == 0 || b =~= seq![0x7eu8]
    || pl_eq_ci(b, seq![0x6eu8, 0x75, 0x6c, 0x6c]) || pl_eq_ci(b, seq![0x74u8, 0x72, 0x75, 0x65]) || pl_eq_ci(b, seq![0x66u8, 0x61, 0x6c, 0x73, 0x65])
    || b =~= seq![0x3cu8, 0x3c] || sp_doc_marker(b) || sp_special_float(b) || sp_numeric_looking(b)
}

proof fn lemma_or20(x: u8)
    ensures ((x | 0x20) == 0x6e) == (pl_lower(x) == 0x6e), ((x | 0x20) == 0x61) == (pl_lower(x) == 0x61),
            ((x | 0x20) == 0x69) == (pl_lower(x) == 0x69), ((x | 0x20) == 0x66) == (pl_lower(x) == 0x66),
{
    assert(((x | 0x20) == 0x6e) == (x == 0x4e || x == 0x6e)) by(bit_vector);
    assert(((x | 0x20) == 0x61) == (x == 0x41 || x == 0x61)) by(bit_vector);
    assert(((x | 0x20) == 0x69) == (x == 0x49 || x == 0x69)) by(bit_vector);
    assert(((x | 0x20) == 0x66) == (x == 0x46 || x == 0x66)) by(bit_vector);
}

proof fn lemma_plain_literals()
    ensures "~".spec_bytes() =~= seq![0x7eu8], "null".spec_bytes() =~= seq![0x6eu8, 0x75, 0x6c, 0x6c], "true".spec_bytes() =~= seq![0x74u8, 0x72, 0x75, 0x65],
        "false".spec_bytes() =~= seq![0x66u8, 0x61, 0x6c, 0x73, 0x65], "<<".spec_bytes() =~= seq![0x3cu8, 0x3c],
        "---".spec_bytes() =~= seq![0x2du8, 0x2d, 0x2d], "...".spec_bytes() =~= seq![0x2eu8, 0x2e, 0x2e],
{
    reveal_strlit("~"); reveal_strlit("null"); reveal_strlit("true"); reveal_strlit("false"); reveal_strlit("<<"); reveal_strlit("---"); reveal_strlit("...");
    is_ascii_chars_encode_utf8("~"@); is_ascii_chars_encode_utf8("null"@); is_ascii_chars_encode_utf8("true"@); is_ascii_chars_encode_utf8("false"@);
    is_ascii_chars_encode_utf8("<<"@); is_ascii_chars_encode_utf8("---"@); is_ascii_chars_encode_utf8("..."@);
}

/// every ASCII byte of a text is one of its characters (from the assumed UTF-8 self-synchronisation axiom)
proof fn lemma_ascii_bytes_are_chars(cs: Seq<char>)
    ensures forall|i: int| 0 <= i < encode_utf8(cs).len() && (#[trigger] encode_utf8(cs)[i]) < 0x80
                ==> exists|k: int| 0 <= k < cs.len() && (#[trigger] cs[k]) as u32 == encode_utf8(cs)[i] as u32,
{
    assert forall|i: int| 0 <= i < encode_utf8(cs).len() && (#[trigger] encode_utf8(cs)[i]) < 0x80
        implies exists|k: int| 0 <= k < cs.len() && (#[trigger] cs[k]) as u32 == encode_utf8(cs)[i] as u32 by {
        axiom_ascii_byte_is_a_char(cs, i);
        let k = char_index(cs, i);
        assert(cs[k] as u32 == encode_utf8(cs)[i] as u32);
    }
}

spec fn no_char_of(cs: Seq<char>, vals: Seq<char>) -> bool {
    forall|k: int| 0 <= k < cs.len() ==> !vals.contains(#[trigger] cs[k]) && !pl_is_cc(cs[k])
}

/// if no character is `c` (ASCII) or a control, no byte is `c` or a C0 control / DEL
proof fn lemma_absent_char_absent_byte(cs: Seq<char>, vals: Seq<char>)
    requires no_char_of(cs, vals),
    ensures forall|i: int| 0 <= i < encode_utf8(cs).len() ==> !((#[trigger] encode_utf8(cs)[i]) < 0x20) && encode_utf8(cs)[i] != 0x7f
                && (forall|c: char| vals.contains(c) && (c as u32) < 0x80 ==> encode_utf8(cs)[i] as u32 != c as u32),
{
    lemma_ascii_bytes_are_chars(cs);
    assert forall|i: int| 0 <= i < encode_utf8(cs).len() implies !((#[trigger] encode_utf8(cs)[i]) < 0x20) && encode_utf8(cs)[i] != 0x7f
                && (forall|c: char| vals.contains(c) && (c as u32) < 0x80 ==> encode_utf8(cs)[i] as u32 != c as u32) by {
        let x = encode_utf8(cs)[i];
        if x < 0x80 {
            let k = choose|k: int| 0 <= k < cs.len() && (#[trigger] cs[k]) as u32 == x as u32;
            assert(!vals.contains(cs[k]) && !pl_is_cc(cs[k]));
            assert forall|c: char| vals.contains(c) && (c as u32) < 0x80 implies x as u32 != c as u32 by {
                if x as u32 == c as u32 { assert(cs[k] == c); }
            }
        }
    }
}

/// if the text ends with the byte ':' then ':' is its last character, hence its last non-white-space character
proof fn lemma_last_non_ws_colon(cs: Seq<char>)
    ensures encode_utf8(cs).len() > 0 && encode_utf8(cs).last() == 0x3a ==> last_non_ws(cs) == Some(':'),
{
    axiom_ws_table();
    let b = encode_utf8(cs);
    if b.len() > 0 && b.last() == 0x3a {
        axiom_ascii_byte_is_a_char(cs, b.len() - 1);
        lemma_char_off_ends(cs);
        lemma_char_index_of_off(cs, cs.len() as int);
        let k = char_index(cs, b.len() - 1);
        assert(k + 1 == cs.len());
        assert(cs.last() as u32 == 0x3a);
        assert(cs.last() == ':');
    }
}

/// the null spellings: empty, `~`, `null` in any letter case
spec fn sp_null_text(b: Seq<u8>) -> bool { b.len() == 0 || b =~= seq![0x7eu8] || pl_eq_ci(b, seq![0x6eu8, 0x75, 0x6c, 0x6c]) }
