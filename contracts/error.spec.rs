// what `Error::with_location` is assumed to preserve (it only rewrites the location field); only the
// kinds some contract distinguishes are listed, to keep the solver's work small
spec fn error_kind_same(a: Error, b: Error) -> bool {
    &&& (a is IOError <==> b is IOError)
    &&& (a is Budget <==> b is Budget)
    &&& (a is MultipleDocuments <==> b is MultipleDocuments)
}
