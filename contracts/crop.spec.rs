// ===== unit `crop`: byte offsets of characters and lines =====

/// byte offset of the k-th character (0-based) of a text; k == len gives the byte length
spec fn char_off(cs: Seq<char>, k: int) -> int { encode_utf8(cs.take(k)).len() as int }

/// `i` is a char boundary of the text: the offset of some character, or the end
#[verifier::opaque]
spec fn boundary(cs: Seq<char>, i: int) -> bool { exists|k: int| 0 <= k <= cs.len() && #[trigger] char_off(cs, k) == i }

/// the character index a boundary belongs to
#[verifier::opaque]
spec fn char_index(cs: Seq<char>, i: int) -> int { choose|k: int| 0 <= k <= cs.len() && #[trigger] char_off(cs, k) == i }

proof fn lemma_char_off_monotonic(cs: Seq<char>, a: int, b: int)
    requires 0 <= a <= b <= cs.len(),
    ensures char_off(cs, a) <= char_off(cs, b), a < b ==> char_off(cs, a) < char_off(cs, b),
{
    assert(cs.take(b) =~= cs.take(a) + cs.subrange(a, b));
    encode_utf8_concat(cs.take(a), cs.subrange(a, b));
    if a < b {
        let t = cs.subrange(a, b);
        assert(t =~= seq![t[0]] + t.skip(1));
        encode_utf8_concat(seq![t[0]], t.skip(1));
        lemma_one_char_nonempty(t[0]);
    }
}

proof fn lemma_one_char_nonempty(c: char)
    ensures encode_utf8(seq![c]).len() >= 1,
{
    reveal_with_fuel(encode_utf8, 2);
}

proof fn lemma_char_off_ends(cs: Seq<char>)
    ensures char_off(cs, 0) == 0, char_off(cs, cs.len() as int) == encode_utf8(cs).len(), boundary(cs, 0), boundary(cs, encode_utf8(cs).len() as int),
{
    reveal(boundary);
    assert(cs.take(0) =~= Seq::<char>::empty());
    reveal_with_fuel(encode_utf8, 1);
    assert(cs.take(cs.len() as int) =~= cs);
    assert(char_off(cs, 0) == 0);
    assert(char_off(cs, cs.len() as int) == encode_utf8(cs).len());
}

proof fn lemma_char_index_of_off(cs: Seq<char>, k: int)
    requires 0 <= k <= cs.len(),
    ensures boundary(cs, char_off(cs, k)), char_index(cs, char_off(cs, k)) == k,
{
    reveal(boundary); reveal(char_index);
    let i = char_off(cs, k);
    let k2 = char_index(cs, i);
    assert(0 <= k2 <= cs.len() && char_off(cs, k2) == i);
    if k2 < k { lemma_char_off_monotonic(cs, k2, k); }
    if k < k2 { lemma_char_off_monotonic(cs, k, k2); }
}

proof fn lemma_char_offs_are_boundaries(cs: Seq<char>)
    ensures forall|k: int| 0 <= k <= cs.len() ==> boundary(cs, #[trigger] char_off(cs, k)) && char_index(cs, char_off(cs, k)) == k,
{
    assert forall|k: int| 0 <= k <= cs.len() implies boundary(cs, #[trigger] char_off(cs, k)) && char_index(cs, char_off(cs, k)) == k by {
        lemma_char_index_of_off(cs, k);
    }
}

/// one scalar value below 0x80 is encoded as that one byte
proof fn lemma_scalar_ascii(c: u32)
    requires c < 0x80,
    ensures encode_scalar(c) =~= seq![c as u8],
{
    assert((c & 0x7f) == c) by(bit_vector) requires c < 0x80;
}

/// every byte of the encoding of a scalar value from 0x80 on is >= 0x80
proof fn lemma_scalar_high(c: u32)
    requires 0x80 <= c,
    ensures encode_scalar(c).len() >= 2, forall|j: int| 0 <= j < encode_scalar(c).len() ==> (#[trigger] encode_scalar(c)[j]) >= 0x80,
{
    let l2 = leading_byte_width_2(c); let l3 = leading_byte_width_3(c); let l4 = leading_byte_width_4(c);
    let c1 = last_continuation_byte(c); let c2 = second_last_continuation_byte(c); let c3 = third_last_continuation_byte(c);
    assert(forall|y: u8| #![auto] (0xC0u8 | y) >= 0x80 && (0xE0u8 | y) >= 0x80 && (0xF0u8 | y) >= 0x80 && (0x80u8 | y) >= 0x80) by(bit_vector);
    assert(l2 >= 0x80 && l3 >= 0x80 && l4 >= 0x80 && c1 >= 0x80 && c2 >= 0x80 && c3 >= 0x80);
}

/// UTF-8 self-synchronisation, PROVED from vstd's definition of the encoding: an ASCII byte of a text's encoding is a
/// whole character of the text, at a character offset
proof fn lemma_ascii_byte_char(cs: Seq<char>, i: int)
    requires 0 <= i < encode_utf8(cs).len(), encode_utf8(cs)[i] < 0x80,
    ensures exists|k: int| 0 <= k < cs.len() && #[trigger] char_off(cs, k) == i && char_off(cs, k + 1) == i + 1 && cs[k] as u32 == encode_utf8(cs)[i] as u32,
    decreases cs.len(),
{
    if cs.len() == 0 {
        reveal_with_fuel(encode_utf8, 1);
        assert(encode_utf8(cs).len() == 0);
    } else {
        let init = cs.drop_last();
        let c = cs.last();
        assert(cs =~= init.push(c));
        encode_utf8_push(init, c);
        let es = encode_scalar(c as u32);
        assert(encode_utf8(cs) =~= encode_utf8(init) + es);
        let n = encode_utf8(init).len() as int;
        if i < n {
            lemma_ascii_byte_char(init, i);
            let k = choose|k: int| 0 <= k < init.len() && #[trigger] char_off(init, k) == i && char_off(init, k + 1) == i + 1 && init[k] as u32 == encode_utf8(init)[i] as u32;
            assert(cs.take(k) =~= init.take(k));
            assert(cs.take(k + 1) =~= init.take(k + 1));
            assert(char_off(cs, k) == i && char_off(cs, k + 1) == i + 1);
            assert(cs[k] == init[k]);
        } else {
            let j = i - n;
            assert(es[j] == encode_utf8(cs)[i]);
            if c as u32 >= 0x80 { lemma_scalar_high(c as u32); assert(es[j] >= 0x80); }
            lemma_scalar_ascii(c as u32);
            assert(j == 0);
            let k = cs.len() - 1;
            assert(cs.take(k) =~= init);
            assert(cs.take(k + 1) =~= cs);
            assert(char_off(cs, k) == i && char_off(cs, k + 1) == i + 1);
        }
    }
}

/// (historically an assumed axiom; now a consequence of lemma_ascii_byte_char)
proof fn axiom_ascii_byte_is_a_char(cs: Seq<char>, i: int)
    requires 0 <= i < encode_utf8(cs).len(), encode_utf8(cs)[i] < 0x80,
    ensures boundary(cs, i), boundary(cs, i + 1),
        char_index(cs, i + 1) == char_index(cs, i) + 1,
        0 <= char_index(cs, i) < cs.len(),
        cs[char_index(cs, i)] as u32 == encode_utf8(cs)[i] as u32,
{
    lemma_ascii_byte_char(cs, i);
    let k = choose|k: int| 0 <= k < cs.len() && #[trigger] char_off(cs, k) == i && char_off(cs, k + 1) == i + 1 && cs[k] as u32 == encode_utf8(cs)[i] as u32;
    lemma_char_index_of_off(cs, k);
    lemma_char_index_of_off(cs, k + 1);
}

proof fn lemma_increasing(s: Seq<usize>, a: int, c: int)
    requires forall|j: int| 1 <= j < s.len() ==> s[j - 1] < #[trigger] s[j], 0 <= a <= c < s.len(),
    ensures s[a] <= s[c], a < c ==> s[a] < s[c],
    decreases c - a,
{
    if a < c { lemma_increasing(s, a, c - 1); }
}

/// what `line_starts` returns: 0 and the offset after every line feed, in order (and nothing else)
#[verifier::opaque]
spec fn line_starts_ok(b: Seq<u8>, cs: Seq<char>, r: Seq<usize>) -> bool {
    &&& (b.len() == 0 ==> r.len() == 0)
    &&& (b.len() > 0 ==> r.len() >= 1 && r[0] == 0)
    &&& (forall|j: int| 0 <= j < r.len() ==> #[trigger] r[j] <= b.len() && boundary(cs, r[j] as int))
    &&& (forall|j: int| 1 <= j < r.len() ==> r[j - 1] < #[trigger] r[j] && b[r[j] - 1] == 0x0a)
    &&& (forall|j: int, p: int| 0 <= j && j + 1 < r.len() && #[trigger] r[j] <= p && p + 1 < r[j + 1] ==> #[trigger] b[p] != 0x0a)
    &&& (forall|p: int| r.len() > 0 && r[r.len() - 1] <= p < b.len() ==> #[trigger] b[p] != 0x0a)
}

proof fn lemma_line_starts_facts(b: Seq<u8>, cs: Seq<char>, r: Seq<usize>, a: int, c: int)
    requires line_starts_ok(b, cs, r), 0 <= a <= c < r.len(),
    ensures r[a] <= r[c], a < c ==> r[a] < r[c], r[c] <= b.len(), boundary(cs, r[a] as int), boundary(cs, r[c] as int),
        b.len() > 0, r[0] == 0,
{
    reveal(line_starts_ok);
    lemma_increasing(r, a, c);
}

proof fn lemma_line_starts_nonempty(b: Seq<u8>, cs: Seq<char>, r: Seq<usize>)
    requires line_starts_ok(b, cs, r),
    ensures (b.len() == 0) == (r.len() == 0),
{
    reveal(line_starts_ok);
}

/// U+2026 HORIZONTAL ELLIPSIS is three bytes in UTF-8
proof fn lemma_ellipsis_is_three_bytes()
    ensures encode_utf8(seq!['…']).len() == 3,
{
    assert(seq!['…'] =~= Seq::<char>::empty().push('…'));
    encode_utf8_push(Seq::<char>::empty(), '…');
    reveal_with_fuel(encode_utf8, 1);
    assert(encode_utf8(Seq::<char>::empty()).len() == 0);
    assert('…' as u32 == 0x2026);
    assert(encode_scalar(0x2026u32).len() == 3);
}

proof fn lemma_subrange_len(cs: Seq<char>, a: int, b: int)
    requires 0 <= a <= b <= cs.len(),
    ensures encode_utf8(cs.subrange(a, b)).len() == char_off(cs, b) - char_off(cs, a), char_off(cs, b) <= encode_utf8(cs).len(), 0 <= char_off(cs, a),
{
    assert(cs.take(b) =~= cs.take(a) + cs.subrange(a, b));
    encode_utf8_concat(cs.take(a), cs.subrange(a, b));
    lemma_char_off_ends(cs);
    lemma_char_off_monotonic(cs, b, cs.len() as int);
}

/// the cropped rendering `[…] + window + […]` of a line is at most 6 bytes longer than the line
proof fn lemma_cropped_len(cs: Seq<char>, a: int, b: int)
    requires 0 <= a <= cs.len(), 
    ensures a <= b <= cs.len() ==> ({ let ell = seq!['…']; let w = cs.subrange(a, b);
        &&& encode_utf8(w).len() <= encode_utf8(cs).len()
        &&& encode_utf8(ell + w).len() <= encode_utf8(cs).len() + 3
        &&& encode_utf8(w + ell).len() <= encode_utf8(cs).len() + 3
        &&& encode_utf8(ell + w + ell).len() <= encode_utf8(cs).len() + 6
        &&& encode_utf8(Seq::<char>::empty() + w + Seq::<char>::empty()).len() <= encode_utf8(cs).len()
        &&& encode_utf8(Seq::<char>::empty() + w + ell).len() <= encode_utf8(cs).len() + 3
        &&& encode_utf8(ell + w + Seq::<char>::empty()).len() <= encode_utf8(cs).len() + 3 }),
{
    if a <= b <= cs.len() {
        let ell = seq!['…']; let w = cs.subrange(a, b); let e = Seq::<char>::empty();
        lemma_ellipsis_is_three_bytes();
        lemma_subrange_len(cs, a, b);
        encode_utf8_concat(ell, w); encode_utf8_concat(w, ell); encode_utf8_concat(ell + w, ell);
        assert(e + w =~= w); assert(w + e =~= w); assert(e + w + e =~= w); assert(e + w + ell =~= w + ell); assert(ell + w + e =~= ell + w);
    }
}

proof fn lemma_push_lf_len(a: Seq<char>)
    ensures encode_utf8(a.push('\n')).len() == encode_utf8(a).len() + 1,
{
    encode_utf8_push(a, '\n');
    lemma_scalar_ascii('\n' as u32);
}

/// dropping a trailing '\r' does not make the text longer
proof fn lemma_strip_cr_len(cs: Seq<char>)
    ensures cs.len() > 0 ==> encode_utf8(cs.drop_last()).len() <= encode_utf8(cs).len(),
{
    if cs.len() > 0 {
        assert(cs =~= cs.drop_last().push(cs.last()));
        encode_utf8_push(cs.drop_last(), cs.last());
    }
}
