// ===== unit `crop`: byte offsets of characters and lines =====

/// byte offset of the k-th character (0-based) of a text; k == len gives the byte length
spec fn char_off(cs: Seq<char>, k: int) -> int { encode_utf8(cs.take(k)).len() as int }

/// `i` is a char boundary of the text: the offset of some character, or the end
#[verifier::opaque]
spec fn boundary(cs: Seq<char>, i: int) -> bool { exists|k: int| 0 <= k <= cs.len() && #[trigger] char_off(cs, k) == i }

/// the character index a boundary belongs to
#[verifier::opaque]
spec fn char_index(cs: Seq<char>, i: int) -> int { choose|k: int| 0 <= k <= cs.len() && #[trigger] char_off(cs, k) == i }

proof fn lemma_char_off_monotonic(cs: Seq<char>, a: int, b: int)
    requires 0 <= a <= b <= cs.len(),
    ensures char_off(cs, a) <= char_off(cs, b), a < b ==> char_off(cs, a) < char_off(cs, b),
{
    assert(cs.take(b) =~= cs.take(a) + cs.subrange(a, b));
    encode_utf8_concat(cs.take(a), cs.subrange(a, b));
    if a < b {
        let t = cs.subrange(a, b);
        assert(t =~= seq![t[0]] + t.skip(1));
        encode_utf8_concat(seq![t[0]], t.skip(1));
        lemma_one_char_nonempty(t[0]);
    }
}

proof fn lemma_one_char_nonempty(c: char)
    ensures encode_utf8(seq![c]).len() >= 1,
{
    reveal_with_fuel(encode_utf8, 2);
}

proof fn lemma_char_off_ends(cs: Seq<char>)
    ensures char_off(cs, 0) == 0, char_off(cs, cs.len() as int) == encode_utf8(cs).len(), boundary(cs, 0), boundary(cs, encode_utf8(cs).len() as int),
{
    reveal(boundary);
    assert(cs.take(0) =~= Seq::<char>::empty());
    reveal_with_fuel(encode_utf8, 1);
    assert(cs.take(cs.len() as int) =~= cs);
    assert(char_off(cs, 0) == 0);
    assert(char_off(cs, cs.len() as int) == encode_utf8(cs).len());
}

proof fn lemma_char_index_of_off(cs: Seq<char>, k: int)
    requires 0 <= k <= cs.len(),
    ensures boundary(cs, char_off(cs, k)), char_index(cs, char_off(cs, k)) == k,
{
    reveal(boundary); reveal(char_index);
    let i = char_off(cs, k);
    let k2 = char_index(cs, i);
    assert(0 <= k2 <= cs.len() && char_off(cs, k2) == i);
    if k2 < k { lemma_char_off_monotonic(cs, k2, k); }
    if k < k2 { lemma_char_off_monotonic(cs, k, k2); }
}

proof fn lemma_char_offs_are_boundaries(cs: Seq<char>)
    ensures forall|k: int| 0 <= k <= cs.len() ==> boundary(cs, #[trigger] char_off(cs, k)) && char_index(cs, char_off(cs, k)) == k,
{
    assert forall|k: int| 0 <= k <= cs.len() implies boundary(cs, #[trigger] char_off(cs, k)) && char_index(cs, char_off(cs, k)) == k by {
        lemma_char_index_of_off(cs, k);
    }
}

/// ASSUMED (UTF-8 self-synchronisation, not proved here): an ASCII byte in the encoding of a text is a whole
/// character, so the offsets before and after it are char boundaries.
#[verifier::external_body]
proof fn axiom_ascii_byte_is_a_char(cs: Seq<char>, i: int)
    requires 0 <= i < encode_utf8(cs).len(), encode_utf8(cs)[i] < 0x80,
    ensures boundary(cs, i), boundary(cs, i + 1),
        char_index(cs, i + 1) == char_index(cs, i) + 1,
        0 <= char_index(cs, i) < cs.len(),
        cs[char_index(cs, i)] as u32 == encode_utf8(cs)[i] as u32,
{}

proof fn lemma_increasing(s: Seq<usize>, a: int, c: int)
    requires forall|j: int| 1 <= j < s.len() ==> s[j - 1] < #[trigger] s[j], 0 <= a <= c < s.len(),
    ensures s[a] <= s[c], a < c ==> s[a] < s[c],
    decreases c - a,
{
    if a < c { lemma_increasing(s, a, c - 1); }
}

/// what `line_starts` returns: 0 and the offset after every line feed, in order (and nothing else)
#[verifier::opaque]
spec fn line_starts_ok(b: Seq<u8>, cs: Seq<char>, r: Seq<usize>) -> bool {
    &&& (b.len() == 0 ==> r.len() == 0)
    &&& (b.len() > 0 ==> r.len() >= 1 && r[0] == 0)
    &&& (forall|j: int| 0 <= j < r.len() ==> #[trigger] r[j] <= b.len() && boundary(cs, r[j] as int))
    &&& (forall|j: int| 1 <= j < r.len() ==> r[j - 1] < #[trigger] r[j] && b[r[j] - 1] == 0x0a)
    &&& (forall|j: int, p: int| 0 <= j && j + 1 < r.len() && #[trigger] r[j] <= p && p + 1 < r[j + 1] ==> #[trigger] b[p] != 0x0a)
    &&& (forall|p: int| r.len() > 0 && r[r.len() - 1] <= p < b.len() ==> #[trigger] b[p] != 0x0a)
}

proof fn lemma_line_starts_facts(b: Seq<u8>, cs: Seq<char>, r: Seq<usize>, a: int, c: int)
    requires line_starts_ok(b, cs, r), 0 <= a <= c < r.len(),
    ensures r[a] <= r[c], a < c ==> r[a] < r[c], r[c] <= b.len(), boundary(cs, r[a] as int), boundary(cs, r[c] as int),
        b.len() > 0, r[0] == 0,
{
    reveal(line_starts_ok);
    lemma_increasing(r, a, c);
}

proof fn lemma_line_starts_nonempty(b: Seq<u8>, cs: Seq<char>, r: Seq<usize>)
    requires line_starts_ok(b, cs, r),
    ensures (b.len() == 0) == (r.len() == 0),
{
    reveal(line_starts_ok);
}
