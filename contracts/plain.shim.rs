// ===== assumed contracts for the std string / slice operations used by src/ser_quoting.rs (call-site shims) =====
#[verifier::external_body] fn pl_str_is_empty(s: &str) -> (r: bool) ensures r == (s.spec_bytes().len() == 0) { s.is_empty() }
#[verifier::external_body] fn pl_str_eq(a: &str, b: &str) -> (r: bool) ensures r == (a.spec_bytes() == b.spec_bytes()) { a == b }
#[verifier::external_body] fn pl_str_eq_ci(a: &str, b: &str) -> (r: bool) ensures r == pl_eq_ci(a.spec_bytes(), b.spec_bytes()) { a.eq_ignore_ascii_case(b) }
#[verifier::external_body] fn pl_str_as_bytes<'a>(s: &'a str) -> (r: &'a [u8]) ensures r@ == s.spec_bytes() { s.as_bytes() }
#[verifier::external_body] fn pl_bytes_first(b: &[u8]) -> (r: Option<u8>) ensures r == (if b@.len() > 0 { Some(b@[0]) } else { None::<u8> }) { b.first().copied() }
#[verifier::external_body] fn pl_bytes_get(b: &[u8], i: usize) -> (r: Option<u8>) ensures r == (if i < b@.len() { Some(b@[i as int]) } else { None::<u8> }) { b.get(i).copied() }
#[verifier::external_body] fn pl_u8_is_ascii_whitespace(c: u8) -> (r: bool) ensures r == (c == 0x20 || c == 0x09 || c == 0x0a || c == 0x0c || c == 0x0d) { c.is_ascii_whitespace() }
/// `s.contains(": ")`
#[verifier::external_body]
fn pl_str_contains_colon_space(s: &str) -> (r: bool)
    ensures r == (exists|i: int| 0 <= i && i + 1 < s.spec_bytes().len() && #[trigger] s.spec_bytes()[i] == 0x3a && s.spec_bytes()[i + 1] == 0x20),
{ s.contains(": ") }
/// `s.trim().ends_with(':')`
#[verifier::external_body]
fn pl_str_trim_ends_with_colon(s: &str) -> (r: bool)
    ensures r == (last_non_ws(s@) == Some(':')),
{ s.trim().ends_with(':') }
/// `s.strip_prefix(p)` for an ASCII literal p
#[verifier::external_body]
fn pl_str_strip_prefix<'a>(s: &'a str, p: &str) -> (r: Option<&'a str>)
    ensures match r {
        Some(rest) => p.spec_bytes().is_prefix_of(s.spec_bytes()) && rest.spec_bytes() == s.spec_bytes().skip(p.spec_bytes().len() as int),
        None => !p.spec_bytes().is_prefix_of(s.spec_bytes()) },
{ s.strip_prefix(p) }
#[verifier::external_body]
fn pl_str_starts_with_char(s: &str, c: char) -> (r: bool)
    requires (c as u32) < 128,
    ensures r == (s.spec_bytes().len() > 0 && s.spec_bytes()[0] == c as u8),
{ s.starts_with(c) }
/// `parse_yaml11_bool(s).is_ok()`: string comparisons after trim (std); uninterpreted
uninterp spec fn sp_yaml11_bool(b: Seq<u8>) -> bool;
#[verifier::external_body] fn pl_is_yaml11_bool(s: &str) -> (r: bool) ensures r == sp_yaml11_bool(s.spec_bytes()) { unimplemented!() }
/// `s.ends_with([' ', '\t'])`
#[verifier::external_body]
fn pl_str_ends_with_blank(s: &str) -> (r: bool)
    ensures r == (s.spec_bytes().len() > 0 && yb_blank(s.spec_bytes().last())),
{ s.ends_with([' ', '\t']) }
/// `s.starts_with('\u{FEFF}')`
#[verifier::external_body]
fn pl_str_starts_with_bom(s: &str) -> (r: bool)
    ensures r == yb_starts_with_bom(s.spec_bytes()),
{ s.starts_with('\u{FEFF}') }
/// `s.ends_with(c)` for an ASCII char
#[verifier::external_body]
fn pl_str_ends_with_char(s: &str, c: char) -> (r: bool)
    requires (c as u32) < 128,
    ensures r == (s.spec_bytes().len() > 0 && s.spec_bytes().last() == c as u8),
{ s.ends_with(c) }
