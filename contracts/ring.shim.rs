// ===== unit `ring`: abstraction of the ring buffer =====
impl<const N: usize> FixedRingBuffer<N> {
    /// head / count are inside the array, and `head + count` cannot overflow
    spec fn wf(&self) -> bool { 0 < N && N <= usize::MAX / 2 && self.head < N && self.count <= N }
    /// the retained bytes, oldest first
    spec fn view(&self) -> Seq<u8> { Seq::new(self.count as nat, |i: int| self.data@[(self.head + i) % (N as int)]) }
}
/// `buf.get(..n)`
#[verifier::external_body]
fn slice_get_to<'a>(buf: &'a [u8], n: usize) -> (r: Option<&'a [u8]>)
    ensures match r { Some(s) => n <= buf@.len() && s@ == buf@.take(n as int), None => n > buf@.len() },
{ buf.get(..n) }
/// `src.read(&mut scratch[..want])`: std::io::Read::read on the first `want` cells of a fixed scratch array
#[verifier::external_body]
fn bytesrc_read_prefix<const S: usize>(src: &mut ByteSrc, scratch: &mut [u8; S], want: usize) -> (r: Result<usize, IoErr>)
    requires want <= S,
    ensures
        final(src).errors_returned() == old(src).errors_returned() + (if r is Err { 1nat } else { 0nat }),
        match r {
            Ok(n) => n <= want && n <= old(src).remaining().len()
                && (n == 0 ==> want == 0 || old(src).remaining().len() == 0)
                && final(scratch)@.take(n as int) =~= old(src).remaining().take(n as int)
                && final(src).remaining() == old(src).remaining().skip(n as int),
            // std::io::Read::read: "If an error is returned then it must be guaranteed that no bytes were read."
            Err(e) => final(src).remaining() == old(src).remaining(),
        },
{ unimplemented!() }
/// `&scratch[..n]`
#[verifier::external_body]
fn array_prefix<'a, const S: usize>(a: &'a [u8; S], n: usize) -> (r: &'a [u8])
    requires n <= S,
    ensures r@ == a@.take(n as int),
{ &a[..n] }

impl<R> RingReader<R> {
    /// the window ends where reading from the source stopped (returned bytes + read-ahead), and its first line number
    /// cannot have outrun its first offset
    spec fn window_ok(&self) -> bool {
        &&& self.ring@.len() > 0 ==> self.ring_start_offset + self.ring@.len() == self.returned_total + self.stash@.len()
        &&& self.ring_start_line <= 1 + self.ring_start_offset
        &&& self.ring@.len() == 0 ==> self.ring_start_offset == 0
    }
}
/// `iter.collect::<Vec<u8>>()`: calls `next` until it answers None (FixedRingBufferIter::next is under contract)
#[verifier::external_body]
fn ring_iter_collect<'a, const N: usize>(it: FixedRingBufferIter<'a, N>) -> (r: Vec<u8>)
    requires it.buffer.wf(), it.pos <= it.buffer@.len(),
    ensures r@ == it.buffer@.skip(it.pos as int),
{ unimplemented!() }
