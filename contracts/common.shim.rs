// ===== assumed contracts shared by all units (trusted base; scanned and listed per run) =====
// CowStr stands for `Cow<'a, str>`: an immutable string token. Only its character view is modelled.
#[verifier::external_body]
#[verifier::reject_recursive_types_in_ground_variants]
pub struct CowStr<'a> { inner: std::borrow::Cow<'a, str> }

impl<'a> View for CowStr<'a> {
    type V = Seq<char>;
    uninterp spec fn view(&self) -> Seq<char>;
}

impl<'a> CowStr<'a> {
    /// utf-8 byte length of the text (what `str::len` returns)
    pub uninterp spec fn byte_len(&self) -> nat;
    pub uninterp spec fn is_borrowed(&self) -> bool;

    #[verifier::external_body]
    pub fn len(&self) -> (n: usize)
        ensures n == self.byte_len(), (n == 0) == (self@.len() == 0),
    { self.inner.len() }

    #[verifier::external_body]
    pub fn is_empty(&self) -> (b: bool)
        ensures b == (self@.len() == 0), b == (self.byte_len() == 0),
    { self.inner.is_empty() }

    // explicit form of the deref coercion `&Cow<str> -> &str`
    #[verifier::external_body]
    pub fn as_str(&self) -> (s: &str)
        ensures s@ == self@,
    { self.inner.as_ref() }

}

impl<'a> Clone for CowStr<'a> {
    #[verifier::external_body]
    fn clone(&self) -> (c: CowStr<'a>)
        ensures c == *self,
    { CowStr { inner: self.inner.clone() } }
}

pub broadcast axiom fn axiom_cowstr_byte_len_zero(s: &CowStr<'_>)
    ensures #[trigger] s.byte_len() == 0 <==> s@.len() == 0;

// CowTag stands for `Cow<'a, saphyr_parser::Tag>`; opaque.
#[verifier::external_body]
#[verifier::reject_recursive_types_in_ground_variants]
pub struct CowTag<'a> { inner: std::borrow::Cow<'a, str> }

// IoError stands for std::io::Error (opaque; only its presence matters).
#[verifier::external_body]
pub struct IoError { inner: std::io::Error }

impl<'a> CowStr<'a> {
    // explicit form of `Cow::as_ref()` / deref: the text itself
    #[verifier::external_body]
    pub fn as_ref(&self) -> (s: &str)
        ensures s@ == self@,
    { self.inner.as_ref() }
}

// RAII guard around a thread-local fallback location (src/de_error.rs); opaque here.
#[verifier::external_body]
pub struct MissingFieldLocationGuard { _p: () }
