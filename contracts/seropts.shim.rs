// ===== unit `seropts`: the opaque pieces of YamlSerializer (same shapes as in contracts/quoting.shim.rs) =====
/// The output `W: fmt::Write`: an append-only character sink
#[verifier::external_body]
pub struct Sink { _p: () }
impl Sink { pub uninterp spec fn text(&self) -> Seq<char>; }
/// ser_error::Error, opaque
#[verifier::external_body]
pub struct SerError { _p: () }
#[verifier::external_body]
pub struct AnchorMap { _p: () }
#[verifier::external_body]
pub struct AnchorGen { _p: () }
/// `HashMap::with_hasher(BuildNoHashHasher::default())`
#[verifier::external_body]
fn anchor_map_new() -> AnchorMap { unimplemented!() }
/// `Error::InvalidOptions(text.to_string())`
#[verifier::external_body]
fn ser_error_invalid_options(text: &str) -> SerError { unimplemented!() }
