// ===== unit `seropts`: the opaque pieces of YamlSerializer (same shapes as in contracts/quoting.shim.rs) =====
/// The output `W: fmt::Write`: an append-only character sink
#[verifier::external_body]
pub struct Sink { _p: () }
impl Sink { pub uninterp spec fn text(&self) -> Seq<char>; }
/// ser_error::Error, opaque
#[verifier::external_body]
pub struct SerError { _p: () }
#[verifier::external_body]
pub struct AnchorMap { _p: () }
#[verifier::external_body]
pub struct AnchorGen { _p: () }
/// `HashMap::with_hasher(BuildNoHashHasher::default())`
#[verifier::external_body]
fn anchor_map_new() -> AnchorMap { unimplemented!() }
/// `Error::InvalidOptions(text.to_string())`
#[verifier::external_body]
fn ser_error_invalid_options(text: &str) -> SerError { unimplemented!() }
#[verifier::external_body]
pub struct FmtError { _p: () }
impl std::convert::From<FmtError> for SerError {
    #[verifier::external_body]
    fn from(e: FmtError) -> SerError { unimplemented!() }
}
/// the decimal text `Display` writes for an integer (std; uninterpreted)
pub uninterp spec fn decimal_text(v: int) -> Seq<char>;
/// the token `write_plain_or_quoted` writes for `s` (plain or quoted; specified in unit `quoting`)
pub uninterp spec fn pq_text(quote_all: bool, yaml_12: bool, in_flow: usize, s: Seq<char>) -> Seq<char>;
spec fn t0_of(ser: &YamlSerializer) -> Seq<char> { ser.out.text() }
spec fn pq_of(ser: &YamlSerializer, s: Seq<char>) -> Seq<char> { pq_text(ser.quote_all, ser.yaml_12, ser.in_flow, s) }
/// the text `scalar_key_to_string` gives for a string key (KeyScalarSink::serialize_str, under contract in unit `quoting`)
pub uninterp spec fn key_text(s: Seq<char>, yaml_12: bool) -> Seq<char>;
#[verifier::external_body]
fn key_text_of(key: &str, yaml_12: bool) -> (r: Result<String, SerError>) ensures r is Ok ==> r->Ok_0@ == key_text(key@, yaml_12), { unimplemented!() }
/// `n` spaces
pub open spec fn spaces(n: int) -> Seq<char> { Seq::new(n as nat, |i: int| ' ') }
/// the word written for None / unit
pub open spec fn null_word() -> Seq<char> { "null"@ }
impl Sink {
    /// fmt::Write::write_str
    #[verifier::external_body]
    pub fn write_str(&mut self, s: &str) -> (r: Result<(), FmtError>)
        ensures r is Ok ==> final(self).text() == old(self).text() + s@,
    { unimplemented!() }
    /// fmt::Write::write_char
    #[verifier::external_body]
    pub fn write_char(&mut self, c: char) -> (r: Result<(), FmtError>)
        ensures r is Ok ==> final(self).text() == old(self).text().push(c),
    { unimplemented!() }
    /// `write!(out, "{}", v)` for an integer
    #[verifier::external_body]
    pub fn write_decimal(&mut self, v: Ghost<int>) -> (r: Result<(), FmtError>)
        ensures r is Ok ==> final(self).text() == old(self).text() + decimal_text(v@),
    { unimplemented!() }
}
/// a value to serialize (`&T where T: Serialize`), opaque
#[verifier::external_body]
pub struct SerVal { _p: () }
/// `self.serialize_seq(len)` (its block prologue is under contract as `YamlSerializer::serialize_seq#block_open`)
#[verifier::external_body]
fn seq_open<'a, 'b>(ser: &'a mut YamlSerializer<'b>, len: Option<usize>) -> (r: Result<SeqSer<'a, 'b>, SerError>)
{ unimplemented!() }
/// `SerializeSeq::serialize_element(&mut seq, value)` (generic over `T: Serialize`; outside this unit)
#[verifier::external_body]
fn seq_element<'a, 'b>(seq: &mut SeqSer<'a, 'b>, value: SerVal) -> (r: Result<(), SerError>)
{ unimplemented!() }
/// `value.serialize(&mut *ser)` for a `T: Serialize` (generic; may do anything to the serializer)
#[verifier::external_body]
fn ser_value<'b>(value: &SerVal, ser: &mut YamlSerializer<'b>) -> (r: Result<(), SerError>)
{ unimplemented!() }
/// `ser.with_in_flow(|s| value.serialize(s))`
#[verifier::external_body]
fn ser_value_in_flow<'b>(value: &SerVal, ser: &mut YamlSerializer<'b>) -> (r: Result<(), SerError>)
{ unimplemented!() }
/// std: `Option::replace` (not specified by the installed vstd; assumed as documented)
pub assume_specification<T>[ Option::<T>::replace ](opt: &mut Option<T>, value: T) -> (r: Option<T>)
    ensures r == *old(opt), *final(opt) == Some(value);
pub open spec fn break_free(s: Seq<char>) -> bool { forall|i: int| 0 <= i < s.len() ==> s[i] != '\n' && s[i] != '\r' }
/// `self.comment_text.take().unwrap_or_default()`
#[verifier::external_body]
fn take_comment(c: &mut Option<String>) -> (r: String) ensures *final(c) == None::<String>, { unimplemented!() }
#[verifier::external_body]
fn string_is_empty(s: &String) -> (r: bool) ensures r == (s@.len() == 0), { unimplemented!() }
/// `comment.replace(['\n', '\r'], " ")`: proved break-free in unit `quoting` (TupleSer::serialize_field#stage_comment)
#[verifier::external_body]
fn sanitize_comment(s: &String) -> (r: String) ensures break_free(r@), { unimplemented!() }
