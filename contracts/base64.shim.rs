// ===== assumed contracts for the std iterator chains in src/base64.rs (call-site shims; the body IS the original chain) =====
#[verifier::external_body]
fn bytes_without_ascii_whitespace(s: &str) -> (r: Vec<u8>)
    ensures r@ == b64_strip_ws(s.spec_bytes()),
{ s.bytes().filter(|b| !b.is_ascii_whitespace()).collect() }

#[verifier::external_body]
fn trailing_eq_count(chunk: &[u8], x: u8) -> (r: usize)
    ensures r == trailing_count(chunk@, x),
{ chunk.iter().rev().take_while(|&&c| c == x).count() }
