// ===== assumed contracts for std `str` methods (call-site shims; the body IS the original call) =====
// Verus cannot attach a specification to the generic-Pattern methods of `str`, so each call site that
// matters is routed (rewrite rule R8) through one of these functions.  Specs speak about UTF-8 bytes.

/// `str::trim`: only "the result is a function of the input bytes" is assumed; what is trimmed is std's business.
pub uninterp spec fn spec_trim(s: Seq<u8>) -> Seq<u8>;

#[verifier::external_body]
fn str_trim<'a>(s: &'a str) -> (t: &'a str)
    ensures t.spec_bytes() == spec_trim(s.spec_bytes()),
{ s.trim() }

#[verifier::external_body]
fn str_strip_prefix_char<'a>(s: &'a str, c: char) -> (r: Option<&'a str>)
    requires (c as u32) < 128,
    ensures match r {
        Some(rest) => s.spec_bytes().len() > 0 && s.spec_bytes()[0] == c as u8 && rest.spec_bytes() == s.spec_bytes().skip(1),
        None => s.spec_bytes().len() == 0 || s.spec_bytes()[0] != c as u8 },
{ s.strip_prefix(c) }

#[verifier::external_body]
fn str_starts_with_char(s: &str, c: char) -> (r: bool)
    requires (c as u32) < 128,
    ensures r == (s.spec_bytes().len() > 0 && s.spec_bytes()[0] == c as u8),
{ s.starts_with(c) }

#[verifier::external_body]
fn str_strip_prefix_str<'a>(s: &'a str, p: &str) -> (r: Option<&'a str>)
    ensures match r {
        Some(rest) => p.spec_bytes().is_prefix_of(s.spec_bytes()) && rest.spec_bytes() == s.spec_bytes().skip(p.spec_bytes().len() as int),
        None => !p.spec_bytes().is_prefix_of(s.spec_bytes()) },
{ s.strip_prefix(p) }

#[verifier::external_body]
fn str_starts_with_str(s: &str, p: &str) -> (r: bool)
    ensures r == p.spec_bytes().is_prefix_of(s.spec_bytes()),
{ s.starts_with(p) }

/// `&s[k..]` -- panics unless k is in range and on a char boundary: that is the precondition.
#[verifier::external_body]
fn str_slice_from<'a>(s: &'a str, k: usize) -> (r: &'a str)
    requires k <= s.spec_bytes().len(), is_char_boundary(s.spec_bytes(), k as int),
    ensures r.spec_bytes() == s.spec_bytes().skip(k as int),
{ &s[k..] }

/// Every `&str` holds valid UTF-8 whose bytes are the encoding of its characters (vstd states
/// the second half; the first follows from vstd's `encode_utf8_valid_utf8`).
proof fn lemma_str_valid_utf8(s: &str)
    ensures valid_utf8(s.spec_bytes()), s.spec_bytes() == encode_utf8(s@),
{
    encode_utf8_valid_utf8(s@);
}

/// Two strings with the same bytes have the same characters.
proof fn lemma_str_bytes_inj(a: &str, b: &str)
    ensures (a.spec_bytes() == b.spec_bytes()) == (a@ == b@),
{
    encode_utf8_decode_utf8(a@);
    encode_utf8_decode_utf8(b@);
}

// std integer helpers without a vstd specification (exact mathematical meaning)
pub assume_specification[<i128>::checked_neg](x: i128) -> (r: Option<i128>)
    ensures r == (if x == i128::MIN { None::<i128> } else { Some((-x) as i128) });

pub assume_specification[<i128 as TryFrom<u128>>::try_from](x: u128) -> (r: Result<i128, <i128 as TryFrom<u128>>::Error>)
    ensures r is Ok <==> x <= i128::MAX, r is Ok ==> r->Ok_0 == x as i128;

// identity conversions go through core's blanket `impl<T, U: Into<T>> TryFrom<U> for T` (never fails)
#[verifier::external_body]
fn i128_try_from_i128(x: i128) -> (r: Result<i128, std::convert::Infallible>)
    ensures r == Ok::<i128, std::convert::Infallible>(x),
{ i128::try_from(x) }

#[verifier::external_body]
fn u128_try_from_u128(x: u128) -> (r: Result<u128, std::convert::Infallible>)
    ensures r == Ok::<u128, std::convert::Infallible>(x),
{ u128::try_from(x) }
