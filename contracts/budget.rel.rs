// ===== abstraction relation between BudgetEnforcer (code) and Abs (spec) =====

spec fn from_mv(c: ContainerState) -> bool {
    match c {
        ContainerState::Sequence { from_mapping_value } => from_mapping_value,
        ContainerState::Mapping { from_mapping_value, .. } => from_mapping_value,
    }
}

spec fn ctx_at(cs: Seq<ContainerState>, i: int) -> Ctx {
    match cs[i] {
        ContainerState::Sequence { .. } => Ctx::InSeq,
        ContainerState::Mapping { expecting_key, .. } => Ctx::InMap {
            // innermost: the flag itself; otherwise the child container tells whether it is the key or the value
            next_is_key: if i == cs.len() - 1 { expecting_key } else { !from_mv(cs[i + 1]) },
        },
    }
}

spec fn abs_stack(cs: Seq<ContainerState>) -> Seq<Ctx> {
    Seq::new(cs.len(), |i: int| ctx_at(cs, i))
}

spec fn stack_inv(cs: Seq<ContainerState>) -> bool {
    &&& cs.len() > 0 ==> !from_mv(cs[0])
    &&& forall|i: int| 0 <= i < cs.len() - 1 ==> match #[trigger] cs[i] {
            ContainerState::Sequence { .. } => !from_mv(cs[i + 1]),
            ContainerState::Mapping { expecting_key, .. } => !expecting_key,
        }
}

impl BudgetEnforcer {
    spec fn per_doc(&self) -> bool { self.policy == EnforcingPolicy::PerDocument }

    spec fn abs(&self) -> Abs {
        Abs {
            events: self.report.events as nat,
            aliases: self.report.aliases as nat,
            nodes: self.report.nodes as nat,
            scalar_bytes: self.report.total_scalar_bytes as nat,
            merge_keys: self.report.merge_keys as nat,
            documents: self.report.documents as nat,
            max_depth: self.report.max_depth as nat,
            anchors: self.defined_anchors@,
            stack: abs_stack(self.containers@),
        }
    }

    spec fn inv(&self) -> bool {
        &&& self.depth == self.containers@.len()
        &&& self.report.max_depth >= self.depth
        &&& self.report.anchors == self.defined_anchors@.len()
        &&& !self.defined_anchors@.contains(0)
        &&& stack_inv(self.containers@)
    }

    /// the "history shorter than 2^64" assumption, stated instead of hidden
    spec fn room(&self) -> bool {
        &&& self.report.events < usize::MAX
        &&& self.report.aliases < usize::MAX
        &&& self.report.nodes < usize::MAX
        &&& self.report.merge_keys < usize::MAX
        &&& (self.per_doc() || self.report.documents < usize::MAX)
        &&& self.depth < usize::MAX
    }
}

// ---- exact (concrete-level) effects of the small helpers ----

spec fn set_top_expecting(cs: Seq<ContainerState>, v: bool) -> Seq<ContainerState> {
    if cs.len() > 0 {
        match cs.last() {
            ContainerState::Mapping { from_mapping_value, .. } =>
                cs.update(cs.len() - 1, ContainerState::Mapping { expecting_key: v, from_mapping_value }),
            _ => cs,
        }
    } else { cs }
}

/// a scalar / alias node completes in the innermost container
spec fn toggle_top(cs: Seq<ContainerState>) -> Seq<ContainerState> {
    if cs.len() > 0 {
        match cs.last() {
            ContainerState::Mapping { expecting_key, .. } => set_top_expecting(cs, !expecting_key),
            _ => cs,
        }
    } else { cs }
}

spec fn top_expecting_key(cs: Seq<ContainerState>) -> bool {
    cs.len() > 0 && match cs.last() { ContainerState::Mapping { expecting_key, .. } => expecting_key, _ => false }
}

spec fn top_is_map(cs: Seq<ContainerState>) -> bool {
    cs.len() > 0 && cs.last() is Mapping
}

/// effect of `entering_container` on the stack and its result
spec fn enter_stack(cs: Seq<ContainerState>) -> Seq<ContainerState> {
    if top_expecting_key(cs) { set_top_expecting(cs, false) } else { cs }
}
spec fn enter_result(cs: Seq<ContainerState>) -> bool {
    top_is_map(cs) && !top_expecting_key(cs)
}

/// effect of a successful leave_* on the stack
spec fn leave_stack(cs: Seq<ContainerState>) -> Seq<ContainerState>
    recommends cs.len() > 0
{
    if from_mv(cs.last()) { set_top_expecting(cs.drop_last(), true) } else { cs.drop_last() }
}

// ---- lemmas: concrete effects refine the abstract stack operations ----

proof fn lemma_toggle(cs: Seq<ContainerState>)
    requires stack_inv(cs),
    ensures
        stack_inv(toggle_top(cs)),
        abs_stack(toggle_top(cs)) =~= node_done(abs_stack(cs)),
        in_key_position(abs_stack(cs)) == top_expecting_key(cs),
{
    let t = toggle_top(cs);
    assert(t.len() == cs.len());
    if cs.len() > 0 {
        assert forall|i: int| 0 <= i < cs.len() - 1 implies t[i] == cs[i] by {}
        assert forall|i: int| 0 <= i < cs.len() - 1 implies ctx_at(t, i) == ctx_at(cs, i) by {
            if i + 1 == cs.len() - 1 {
                assert(from_mv(t[i + 1]) == from_mv(cs[i + 1]));
            }
        }
        assert(abs_stack(cs).last() == ctx_at(cs, cs.len() - 1));
    }
}

proof fn lemma_push(cs: Seq<ContainerState>, is_map: bool)
    requires stack_inv(cs),
    ensures
        ({
            let child = if is_map {
                ContainerState::Mapping { expecting_key: true, from_mapping_value: enter_result(cs) }
            } else {
                ContainerState::Sequence { from_mapping_value: enter_result(cs) }
            };
            let n = enter_stack(cs).push(child);
            &&& stack_inv(n)
            &&& abs_stack(n) =~= abs_stack(cs).push(if is_map { Ctx::InMap { next_is_key: true } } else { Ctx::InSeq })
        }),
{
    let child = if is_map {
        ContainerState::Mapping { expecting_key: true, from_mapping_value: enter_result(cs) }
    } else {
        ContainerState::Sequence { from_mapping_value: enter_result(cs) }
    };
    let e = enter_stack(cs);
    let n = e.push(child);
    assert(e.len() == cs.len());
    assert forall|i: int| 0 <= i < cs.len() - 1 implies e[i] == cs[i] by {}
    assert forall|i: int| 0 <= i < n.len() - 1 implies match #[trigger] n[i] {
        ContainerState::Sequence { .. } => !from_mv(n[i + 1]),
        ContainerState::Mapping { expecting_key, .. } => !expecting_key,
    } by {
        if i < cs.len() - 1 { assert(n[i] == cs[i]); assert(from_mv(n[i + 1]) == from_mv(cs[i + 1])); }
    }
    assert forall|i: int| 0 <= i < cs.len() implies ctx_at(n, i) == ctx_at(cs, i) by {
        if i < cs.len() - 1 { assert(n[i] == cs[i]); assert(from_mv(n[i + 1]) == from_mv(cs[i + 1])); }
    }
    if cs.len() > 0 { assert(!from_mv(n[0])) by { assert(from_mv(e[0]) == from_mv(cs[0])); } }
}

proof fn lemma_pop(cs: Seq<ContainerState>)
    requires stack_inv(cs), cs.len() > 0,
    ensures
        stack_inv(leave_stack(cs)),
        abs_stack(leave_stack(cs)) =~= node_done(abs_stack(cs).drop_last()),
        abs_stack(cs).last() is InSeq == cs.last() is Sequence,
        abs_stack(cs).last() is InMap == cs.last() is Mapping,
{
    let rest = cs.drop_last();
    let l = leave_stack(cs);
    assert(l.len() == rest.len());
    assert forall|i: int| 0 <= i < rest.len() - 1 implies l[i] == cs[i] by {}
    assert forall|i: int| 0 <= i < rest.len() - 1 implies ctx_at(l, i) == ctx_at(cs, i) by {
        if i + 1 == rest.len() - 1 { assert(from_mv(l[i + 1]) == from_mv(cs[i + 1])); }
    }
    assert forall|i: int| 0 <= i < l.len() - 1 implies match #[trigger] l[i] {
        ContainerState::Sequence { .. } => !from_mv(l[i + 1]),
        ContainerState::Mapping { expecting_key, .. } => !expecting_key,
    } by {
        assert(l[i] == cs[i]);
        if i + 1 == rest.len() - 1 { assert(from_mv(l[i + 1]) == from_mv(cs[i + 1])); } else { assert(l[i + 1] == cs[i + 1]); }
    }
    assert(abs_stack(cs).drop_last() =~= Seq::new(rest.len() as nat, |i: int| ctx_at(cs, i)));
    if rest.len() > 0 {
        let k = rest.len() - 1;
        assert(cs[k] == rest[k]);
        assert(l.len() > 0 ==> from_mv(l[0]) == from_mv(cs[0]));
    }
    assert(abs_stack(cs).last() == ctx_at(cs, cs.len() - 1));
}

spec fn same_but_containers(a: &BudgetEnforcer, b: &BudgetEnforcer) -> bool {
    a.budget == b.budget && a.report == b.report && a.depth == b.depth
        && a.defined_anchors == b.defined_anchors && a.policy == b.policy
}

impl BudgetEnforcer {
    /// Precondition of `observe`: the history so far was accepted (so the state is consistent and
    /// within limits) -- except at a document start under per-document enforcement, which must
    /// work from *any* state (the previous document may have been abandoned after an error).
    spec fn observe_pre(&self, ev: Event<'_>) -> bool {
        ||| (ev is DocumentStart && self.per_doc())
        ||| (self.inv() && within(self.abs(), self.budget, self.per_doc()) && self.room())
    }
}

// ---- constructor helpers (assumed: std / derive behaviour) ----
/// `#[derive(Default)]` on BudgetReport: every counter zero, no breach
#[verifier::external_body]
fn budget_report_default() -> (r: BudgetReport)
    ensures r == (BudgetReport { breached: None, events: 0, aliases: 0, anchors: 0, documents: 0, nodes: 0, max_depth: 0, total_scalar_bytes: 0, merge_keys: 0 }),
{ unimplemented!() }
/// `HashSet::with_capacity(n)`: an empty set
#[verifier::external_body]
fn anchor_set_with_capacity(n: usize) -> (r: HashSet<usize>)
    ensures r@ == Set::<usize>::empty(),
{ unimplemented!() }

// ---- the parser as check_yaml_budget sees it: a source of events (with spans dropped) or scan errors ----
#[verifier::external_body]
pub struct ScanErr { _p: () }
#[verifier::external_body]
pub struct EventParser<'a> { _p: std::marker::PhantomData<&'a ()> }
/// the events the parser produces for a text (uninterpreted: the parser is outside this effort)
uninterp spec fn parsed_events<'a>(text: Seq<char>) -> Seq<Result<Event<'a>, ScanErr>>;
impl<'a> EventParser<'a> {
    uninterp spec fn pending(&self) -> Seq<Result<Event<'a>, ScanErr>>;
    /// `Iterator::next` of the parser (the span of the item is dropped)
    #[verifier::external_body]
    fn next_item(&mut self) -> (r: Option<Result<Event<'a>, ScanErr>>)
        ensures match r {
            Some(it) => old(self).pending().len() > 0 && it == old(self).pending()[0] && final(self).pending() == old(self).pending().skip(1),
            None => old(self).pending().len() == 0 && final(self).pending() == old(self).pending() },
    { unimplemented!() }
}
/// `Parser::new_from_str(input)`
#[verifier::external_body]
fn event_parser_from_str<'a>(input: &'a str) -> (r: EventParser<'a>) ensures r.pending() == parsed_events::<'a>(input@), { unimplemented!() }

/// the independent count after the first `k` events (all assumed Ok)
spec fn count_of(evs: Seq<Result<Event<'_>, ScanErr>>, k: int, per: bool) -> Abs
    decreases k,
{
    if k <= 0 { abs_fresh() } else { abs_step(count_of(evs, k - 1, per), evs[k - 1]->Ok_0, per) }
}
