"""Unit `snippet`: terminal sanitising of snippet text (src/de/snippet.rs)."""
from contracts_types import *
NAME = 'snippet'
FEATURES = []
USES = ['use vstd::string::*;', 'use vstd::utf8::*;']
PRELUDE = ['snippet.shim.rs', 'snippet.spec.rs']
SUBST = []
SN = 'src/de/snippet.rs'
RANGE = (r'\(0x80\.\.=0x9F\)\.contains\(&(\w+)\[i \+ 1\]\)', r'(0x80 <= \1[i + 1] && \1[i + 1] <= 0x9F)', None, 'R24')
ITEMS = [
    dict(src=SN, path='fn is_terminal_snippet_clean', props=['C17', 'C01'],
         bounded=dict(harness='bounded/snippet.rs', items=[('src/de/snippet.rs', 'fn is_terminal_snippet_clean')], cfgs=['has_clean']),
         loop_rewrites=[(1, 'slice')], rewrites=[RANGE],
         proofs=[dict(before='return false;', nth=1, text='assert(bad_ascii(b@[__i1 - 1]));'),
                 dict(before='return false;', nth=2, text='assert(c1_at(b@, i as int));')],
         ensures=[('C17:decides_terminal_safety_exactly', 'r == term_clean(text.spec_bytes())')],
         loops={
             1: dict(invariant=[('prefix_has_no_bad_ascii', '''b@ == text.spec_bytes() && __i1 <= b@.len()
                        && forall|j: int| 0 <= j < __i1 ==> !bad_ascii(#[trigger] b@[j])''')],
                     decreases='b@.len() - __i1'),
             2: dict(invariant=[('prefix_has_no_c1', '''b@ == text.spec_bytes() && (i == 0 || i < b@.len())
                        && (forall|j: int| 0 <= j < b@.len() ==> !bad_ascii(#[trigger] b@[j]))
                        && forall|j: int| 0 <= j < i ==> !#[trigger] c1_at(b@, j)''')],
                     decreases='b@.len() - i'),
         },
         canaries=['C17:decides_terminal_safety_exactly']),
    dict(src=SN, path='fn sanitize_terminal_snippet_preserve_len', props=['C17', 'C01'],
         bounded=dict(harness='bounded/snippet.rs', items=[('src/de/snippet.rs', 'fn sanitize_terminal_snippet_preserve_len')], cfgs=['has_sanitize']),
         loop_rewrites=[(1, 'iter_mut')],
         rewrites=[RANGE,
                   (r's\.into_bytes\(\)', 'string_into_bytes(s)', None, 'R8'),
                   (r'match String::from_utf8\(bytes\) \{\s*Ok\(out\) => out,\s*Err\(e\) => String::from_utf8_lossy\(&e\.into_bytes\(\)\)\.into_owned\(\),\s*\}',
                    'string_from_utf8_or_lossy(bytes)', None, 'R8')],
         proofs=[dict(after='let mut bytes = string_into_bytes(s);', ghost=True, text='let ghost b0 = bytes@;'),
                 dict(before='bytes[i + 1] = 0xA0;', ghost=True, text='let ghost pb = bytes@;'),
                 dict(before='continue;', text='''
                     assert forall|j: int| 0 <= j < i && j + 1 < bytes@.len() implies !#[trigger] c1_at(bytes@, j) by {
                         if j < i - 2 { assert(!c1_at(pb, j)); assert(bytes@[j] == pb[j] && bytes@[j + 1] == pb[j + 1]); }
                     }'''),
                 dict(after_loop=2, text='''
                     assert forall|j: int| 0 <= j && j + 1 < bytes@.len() implies !#[trigger] c1_at(bytes@, j) by { }
                     assert(term_clean(bytes@));''')],
         ensures=[('C17:bytes_are_terminal_safe_same_length_rest_untouched', '''exists|out: Seq<u8>| out.len() == encode_utf8(s@).len() && term_clean(out)
                && (forall|j: int| 0 <= j < out.len() ==> (#[trigger] out[j] == encode_utf8(s@)[j]
                        || bad_ascii(encode_utf8(s@)[j]) || (j > 0 && c1_at(encode_utf8(s@), j - 1))))
                && (valid_utf8(out) ==> encode_utf8(r@) == out)''')],
         loops={
             1: dict(invariant=[('prefix_sanitised', '''bytes@.len() == b0.len() && __i1 <= bytes@.len() && bytes@.len() <= isize::MAX
                        && (forall|j: int| 0 <= j < __i1 ==> #[trigger] bytes@[j] == san1(b0[j]))
                        && (forall|j: int| __i1 <= j < bytes@.len() ==> #[trigger] bytes@[j] == b0[j])''')],
                     decreases='bytes@.len() - __i1'),
             2: dict(invariant=[
                    ('bounds', 'bytes@.len() == b0.len() && i <= bytes@.len() && bytes@.len() <= isize::MAX'),
                    ('no_bad_ascii', 'forall|j: int| 0 <= j < bytes@.len() ==> !bad_ascii(#[trigger] bytes@[j])'),
                    ('prefix_has_no_c1', 'forall|j: int| 0 <= j < i && j + 1 < bytes@.len() ==> !#[trigger] c1_at(bytes@, j)'),
                    ('changed_only_offenders', '''forall|j: int| 0 <= j < bytes@.len() ==>
                            (#[trigger] bytes@[j] == b0[j] || bad_ascii(b0[j]) || (j > 0 && c1_at(b0, j - 1)))'''),
                    ('suffix_is_first_pass', 'forall|j: int| i <= j < bytes@.len() ==> #[trigger] bytes@[j] == san1(b0[j])'),
                    ],
                     decreases='bytes@.len() - i'),
         },
         canaries=['C17:bytes_are_terminal_safe_same_length_rest_untouched']),
    # ---- ring reader window trimmed to UTF-8 boundaries (C17: reader snippets) ----
    dict(src='src/ring_reader.rs', path='fn is_utf8_continuation', props=['C17', 'C01'],
         bounded=dict(harness='bounded/utf8_trim.rs', items=[('src/ring_reader.rs', 'fn is_utf8_continuation'), ('src/ring_reader.rs', 'fn utf8_expected_len'), ('src/ring_reader.rs', 'fn trim_to_utf8_boundaries_with_line'), ('src/ring_reader.rs', 'fn trim_incomplete_utf8_tail')]),
         proofs=[dict(at='start', text='lemma_cont_bits(b);')],
         ensures=[('continuation_bytes_are_10xxxxxx', 'r == is_cont(b)')], canaries=['continuation_bytes_are_10xxxxxx']),
    dict(src='src/ring_reader.rs', path='fn utf8_expected_len', props=['C17', 'C01'],
         bounded=dict(harness='bounded/utf8_trim.rs', items=[('src/ring_reader.rs', 'fn is_utf8_continuation'), ('src/ring_reader.rs', 'fn utf8_expected_len'), ('src/ring_reader.rs', 'fn trim_to_utf8_boundaries_with_line'), ('src/ring_reader.rs', 'fn trim_incomplete_utf8_tail')]),
         rewrites=[(r'\(0x([0-9A-F]{2})\.\.=0x([0-9A-F]{2})\)\.contains\(&lead\)', r'(0x\1 <= lead && lead <= 0x\2)', 3, 'R24')],
         ensures=[('lead_byte_table', 'r == (match expected_len(lead) { Some(n) => Some(n as usize), None => None::<usize> })')], canaries=['lead_byte_table']),
    dict(src='src/ring_reader.rs', path='fn trim_incomplete_utf8_tail', props=['C17', 'C01'],
         bounded=dict(harness='bounded/utf8_trim.rs', items=[('src/ring_reader.rs', 'fn is_utf8_continuation'), ('src/ring_reader.rs', 'fn utf8_expected_len'), ('src/ring_reader.rs', 'fn trim_to_utf8_boundaries_with_line'), ('src/ring_reader.rs', 'fn trim_incomplete_utf8_tail')]),
         ensures=[('C17:only_an_incomplete_last_code_point_is_dropped', 'final(bytes)@.len() <= old(bytes)@.len() && final(bytes)@ == old(bytes)@.take(final(bytes)@.len() as int)'),
                  ('C17:the_window_no_longer_stops_inside_a_code_point', 'tail_settled(final(bytes)@)')],
         proofs=[dict(before='let expected = match utf8_expected_len(lead) {', text='assert(settled_at(bytes@, lead_idx as int) == (match expected_len(lead) { Some(n) => bytes@.len() - lead_idx >= n, None => true }));'),
                 dict(before='bytes.truncate(lead_idx);', ghost=True, text='let ghost bt = bytes@;'),
                 dict(after='bytes.truncate(lead_idx);', text='assert(bytes@ =~= bt.take(lead_idx as int));')],
         loops={1: dict(header=r'^loop$', invariant=[('prefix', 'bytes@.len() <= old(bytes)@.len() && bytes@ == old(bytes)@.take(bytes@.len() as int)')],
                        decreases='bytes@.len()'),
                2: dict(invariant=[('looking_back', '''i <= bytes@.len() && cont <= 3 && cont == bytes@.len() - i && bytes@.len() > 0
                            && (forall|j: int| i <= j < bytes@.len() ==> is_cont(#[trigger] bytes@[j]))''')],
                        ensures=[('stopped', 'i == 0 || cont == 3 || !is_cont(bytes@[i - 1])')],
                        decreases='i')},
         canaries=['C17:the_window_no_longer_stops_inside_a_code_point']),
    dict(src='src/ring_reader.rs', path='fn trim_to_utf8_boundaries_with_line', props=['C17', 'C01'],
         bounded=dict(harness='bounded/utf8_trim.rs', items=[('src/ring_reader.rs', 'fn is_utf8_continuation'), ('src/ring_reader.rs', 'fn utf8_expected_len'), ('src/ring_reader.rs', 'fn trim_to_utf8_boundaries_with_line'), ('src/ring_reader.rs', 'fn trim_incomplete_utf8_tail')]),
         rewrites=[(r'bytes\.drain\(\.\.cut\);', 'vec_drain_prefix(&mut bytes, cut);', 1, 'R8')],
         proofs=[dict(at='start', ghost=True, text='let ghost b0 = bytes@; let ghost l0 = start_line;'),
                 dict(before='let mut cut = 0usize;', text='assert(b0.skip(0) =~= b0);'),
                 dict(before="if bytes[cut] == b'\\n' {", text='lemma_cont_bits(bytes@[cut as int]); assert(b0.skip(cut as int).skip(1) =~= b0.skip(cut + 1)); assert(b0.skip(cut as int)[0] == b0[cut as int]);'),
                 dict(after_loop=1, text='if cut < b0.len() { assert(b0.skip(cut as int)[0] == b0[cut as int]); } else { assert(b0.skip(cut as int).len() == 0); }')],
         ensures=[('C17:leading_continuation_bytes_are_dropped_and_counted', '''({ let cut = lead_conts(bytes@);
                    r.2@.len() <= bytes@.len() - cut && r.2@ == bytes@.subrange(cut as int, (cut + r.2@.len()) as int)
                    && (r.2@.len() > 0 ==> !is_cont(r.2@[0]))
                    && r.0 == (if start_offset + cut > u64::MAX { u64::MAX } else { (start_offset + cut) as u64 })
                    && r.1 == start_line })'''),
                  ('C17:the_window_no_longer_stops_inside_a_code_point', 'tail_settled(r.2@)')],
         loops={1: dict(invariant=[('leading', '''cut <= bytes@.len() && bytes@ == b0 && start_line == l0 && (forall|j: int| 0 <= j < cut ==> is_cont(#[trigger] b0[j]))
                            && lead_conts(b0) == cut + lead_conts(b0.skip(cut as int))''')],
                        ensures=[('first_kept_byte', 'cut == bytes@.len() || !is_cont(bytes@[cut as int])')],
                        decreases='bytes@.len() - cut')},
         canaries=['C17:leading_continuation_bytes_are_dropped_and_counted']),
]
