"""Unit `snippet`: terminal sanitising of snippet text (src/de/snippet.rs)."""
from contracts_types import *
NAME = 'snippet'
FEATURES = []
USES = ['use vstd::string::*;', 'use vstd::utf8::*;']
PRELUDE = ['snippet.shim.rs', 'snippet.spec.rs']
SUBST = []
SN = 'src/de/snippet.rs'
RANGE = (r'\(0x80\.\.=0x9F\)\.contains\(&(\w+)\[i \+ 1\]\)', r'(0x80 <= \1[i + 1] && \1[i + 1] <= 0x9F)', None, 'R24')
ITEMS = [
    dict(src=SN, path='fn is_terminal_snippet_clean', props=['C17', 'C01'],
         loop_rewrites=[(1, 'slice')], rewrites=[RANGE],
         proofs=[dict(before='return false;', nth=1, text='assert(bad_ascii(b@[__i1 - 1]));'),
                 dict(before='return false;', nth=2, text='assert(c1_at(b@, i as int));')],
         ensures=[('C17:decides_terminal_safety_exactly', 'r == term_clean(text.spec_bytes())')],
         loops={
             1: dict(invariant=[('prefix_has_no_bad_ascii', '''b@ == text.spec_bytes() && __i1 <= b@.len()
                        && forall|j: int| 0 <= j < __i1 ==> !bad_ascii(#[trigger] b@[j])''')],
                     decreases='b@.len() - __i1'),
             2: dict(invariant=[('prefix_has_no_c1', '''b@ == text.spec_bytes() && (i == 0 || i < b@.len())
                        && (forall|j: int| 0 <= j < b@.len() ==> !bad_ascii(#[trigger] b@[j]))
                        && forall|j: int| 0 <= j < i ==> !#[trigger] c1_at(b@, j)''')],
                     decreases='b@.len() - i'),
         },
         canaries=['C17:decides_terminal_safety_exactly']),
    dict(src=SN, path='fn sanitize_terminal_snippet_preserve_len', props=['C17', 'C01'],
         loop_rewrites=[(1, 'iter_mut')],
         rewrites=[RANGE,
                   (r's\.into_bytes\(\)', 'string_into_bytes(s)', None, 'R8'),
                   (r'match String::from_utf8\(bytes\) \{\s*Ok\(out\) => out,\s*Err\(e\) => String::from_utf8_lossy\(&e\.into_bytes\(\)\)\.into_owned\(\),\s*\}',
                    'string_from_utf8_or_lossy(bytes)', None, 'R8')],
         proofs=[dict(after='let mut bytes = string_into_bytes(s);', ghost=True, text='let ghost b0 = bytes@;'),
                 dict(before='bytes[i + 1] = 0xA0;', ghost=True, text='let ghost pb = bytes@;'),
                 dict(before='continue;', text='''
                     assert forall|j: int| 0 <= j < i && j + 1 < bytes@.len() implies !#[trigger] c1_at(bytes@, j) by {
                         if j < i - 2 { assert(!c1_at(pb, j)); assert(bytes@[j] == pb[j] && bytes@[j + 1] == pb[j + 1]); }
                     }'''),
                 dict(after_loop=2, text='''
                     assert forall|j: int| 0 <= j && j + 1 < bytes@.len() implies !#[trigger] c1_at(bytes@, j) by { }
                     assert(term_clean(bytes@));''')],
         ensures=[('C17:bytes_are_terminal_safe_same_length_rest_untouched', '''exists|out: Seq<u8>| out.len() == encode_utf8(s@).len() && term_clean(out)
                && (forall|j: int| 0 <= j < out.len() ==> (#[trigger] out[j] == encode_utf8(s@)[j]
                        || bad_ascii(encode_utf8(s@)[j]) || (j > 0 && c1_at(encode_utf8(s@), j - 1))))
                && (valid_utf8(out) ==> encode_utf8(r@) == out)''')],
         loops={
             1: dict(invariant=[('prefix_sanitised', '''bytes@.len() == b0.len() && __i1 <= bytes@.len() && bytes@.len() <= isize::MAX
                        && (forall|j: int| 0 <= j < __i1 ==> #[trigger] bytes@[j] == san1(b0[j]))
                        && (forall|j: int| __i1 <= j < bytes@.len() ==> #[trigger] bytes@[j] == b0[j])''')],
                     decreases='bytes@.len() - __i1'),
             2: dict(invariant=[
                    ('bounds', 'bytes@.len() == b0.len() && i <= bytes@.len() && bytes@.len() <= isize::MAX'),
                    ('no_bad_ascii', 'forall|j: int| 0 <= j < bytes@.len() ==> !bad_ascii(#[trigger] bytes@[j])'),
                    ('prefix_has_no_c1', 'forall|j: int| 0 <= j < i && j + 1 < bytes@.len() ==> !#[trigger] c1_at(bytes@, j)'),
                    ('changed_only_offenders', '''forall|j: int| 0 <= j < bytes@.len() ==>
                            (#[trigger] bytes@[j] == b0[j] || bad_ascii(b0[j]) || (j > 0 && c1_at(b0, j - 1)))'''),
                    ('suffix_is_first_pass', 'forall|j: int| i <= j < bytes@.len() ==> #[trigger] bytes@[j] == san1(b0[j])'),
                    ],
                     decreases='bytes@.len() - i'),
         },
         canaries=['C17:bytes_are_terminal_safe_same_length_rest_untouched']),
]
