"""Unit `seropts`: how a serializer is set up from the user's options (src/ser.rs YamlSerializer::new / with_indent /
with_options, src/serializer_options.rs consistent): every option reaches the field the emitter reads, nothing else is
set, and the one validity rule the emitter relies on (`indent_step >= 1`) is what `consistent` enforces (C20; discharges the
`assumed:valid_options` precondition of the block-scalar fragments for the entry points that call `consistent`)."""
from contracts_types import *
NAME = 'seropts'
FEATURES = []
USES = ['use vstd::string::*;', 'use vstd::utf8::*;']
PRELUDE = ['seropts.shim.rs']
SUBST = [
    (r"YamlSerializer<'a, W: Write>", "YamlSerializer<'a>"),
    (r"impl<'a, W: Write> YamlSerializer<'a, W>", "impl<'a> YamlSerializer<'a>"),
    (r"out: &'a mut W\b", "out: &'a mut Sink"),
    (r'HashMap<usize, AnchorId, BuildNoHashHasher<usize>>', 'AnchorMap'),
    (r'Option<fn\(usize\) -> String>', 'Option<AnchorGen>'),
]
SR = 'src/ser.rs'
SO = 'src/serializer_options.rs'
_FRESH = ('''r.depth == 0 && r.at_line_start && r.next_anchor_id == 1 && r.pending_anchor_id is None && r.custom_anchor_names is None
            && r.pending_flow is None && r.in_flow == 0 && r.pending_str_style is None && !r.pending_str_from_auto && r.pending_inline_comment is None
            && !r.pending_inline_map && !r.pending_space_after_colon && !r.inline_map_after_dash && !r.last_value_was_block && !r.last_scalar_kept_breaks
            && r.after_dash_depth is None && r.current_map_depth is None && !r.doc_started && r.out.text() == old(out).text()''')
ITEMS = [
    dict(src=SR, path='enum PendingFlow', derive='#[derive(Clone, Copy, PartialEq, Eq)]'),
    dict(src=SR, path='enum StrStyle', derive='#[derive(Clone, Copy, PartialEq, Eq)]'),
    dict(src=SR, path='type AnchorId'),
    dict(src=SR, path='struct YamlSerializer'),
    dict(src=SO, path='const MIN_FOLD_CHARS'),
    dict(src=SO, path='const FOLDED_WRAP_CHARS'),
    dict(src=SO, path='struct SerializerOptions', derive=''),
    dict(src=SO, path='impl SerializerOptions/fn consistent', props=['C20', 'C12', 'C01'],
         rewrites=[(r'Result<\(\), Error>', 'Result<(), SerError>', 1, 'R6'),
                   (r'Error::InvalidOptions\(\s*"Invalid indent step must be positive"\.to_string\(\),\s*\)', 'ser_error_invalid_options("Invalid indent step must be positive")', 1, 'R8')],
         ensures=[('C20:options_are_accepted_exactly_when_the_indentation_step_is_positive', '(r is Ok) == (self.indent_step >= 1)')],
         canaries=['C20:options_are_accepted_exactly_when_the_indentation_step_is_positive']),
    dict(src=SR, path='impl YamlSerializer/fn new', props=['C20', 'C12'],
         rewrites=[(r'HashMap::with_hasher\(BuildNoHashHasher::default\(\)\)', 'anchor_map_new()', 1, 'R8')],
         ensures=[('C20:a_new_serializer_starts_at_a_line_start_outside_every_collection_with_nothing_pending', _FRESH),
                  ('C20:the_default_layout', '''r.indent_step == 2 && r.min_fold_chars == MIN_FOLD_CHARS && r.folded_wrap_col == FOLDED_WRAP_CHARS && r.anchor_gen is None
                        && !r.tagged_enums && r.empty_as_braces && !r.compact_list_indent && r.prefer_block_scalars && !r.quote_all && !r.yaml_12''')],
         canaries=['C20:the_default_layout']),
    dict(src=SR, path='impl YamlSerializer/fn with_indent', props=['C20'],
         ensures=[('C20:only_the_indentation_step_differs_from_a_default_serializer', '''r.indent_step == indent_step && r.min_fold_chars == MIN_FOLD_CHARS && r.folded_wrap_col == FOLDED_WRAP_CHARS
                        && r.anchor_gen is None && !r.tagged_enums && r.empty_as_braces && !r.compact_list_indent && r.prefer_block_scalars && !r.quote_all && !r.yaml_12'''),
                  ('fresh', _FRESH)]),
    dict(src=SR, path='impl YamlSerializer/fn with_options', props=['C20', 'C12'],
         ensures=[('C20:every_option_reaches_the_field_the_emitter_reads_and_nothing_else_is_set', '''r.indent_step == old(options).indent_step && r.min_fold_chars == old(options).min_fold_chars
                        && r.folded_wrap_col == old(options).folded_wrap_chars && r.anchor_gen == old(options).anchor_generator
                        && r.tagged_enums == old(options).tagged_enums && r.empty_as_braces == old(options).empty_as_braces
                        && r.compact_list_indent == old(options).compact_list_indent && r.prefer_block_scalars == old(options).prefer_block_scalars
                        && r.quote_all == old(options).quote_all && r.yaml_12 == old(options).yaml_12'''),
                  ('fresh', _FRESH)],
         canaries=['C20:every_option_reaches_the_field_the_emitter_reads_and_nothing_else_is_set']),
]
# ---- the scalar entry points of the emitter (C12): which token is written for a boolean, an integer, None and unit.  The helpers around the
# token (space after a colon, anchor prefix, indentation, end of scalar) are under contract in unit `quoting`; here they are bare declarations. ----
_SER = 'impl Serializer for &mut YamlSerializer/'
def _helper(name, sig_extra=''):
    return dict(src=SR, path='impl YamlSerializer/fn ' + name, trusted=True, props=[],
                rewrites=[(r'-> Result<\(\)>', '-> Result<(), SerError>', 1, 'R6')])
def _scalar_entry(name, sig_re, new_sig, token_stmt_re, label, token_spec, extra_rw=()):
    return dict(src=SR, path=_SER + 'fn ' + name, id='YamlSerializer::' + name, impl_header="impl<'a> YamlSerializer<'a>", props=['C12', 'C01'],
         pre_rewrites=[(sig_re, new_sig, 1, 'R9')],
         rewrites=list(extra_rw),
         proofs=[dict(before_re=token_stmt_re, ghost=True, text='let ghost t_before = self.out.text();'),
                 dict(after_re=token_stmt_re, label=label, text='assert(self.out.text() =~= t_before + %s);' % token_spec)],
         ensures=[('writes_one_scalar', 'true')])
ITEMS += [_helper('write_space_if_pending'), _helper('write_scalar_prefix_if_anchor'), _helper('write_indent'), _helper('write_end_of_scalar'),
    _scalar_entry('serialize_bool', r'fn serialize_bool\(self, v: bool\) -> Result<\(\)>', 'fn serialize_bool(&mut self, v: bool) -> Result<(), SerError>',
                  r'self\.out\.write_str\(if v \{ "[^"]*" \} else \{ "[^"]*" \}\)\?;', 'C12:a_boolean_is_written_as_the_core_schema_word_true_or_false',
                  '(if v { "true"@ } else { "false"@ })'),
    _scalar_entry('serialize_none', r'fn serialize_none\(self\) -> Result<\(\)>', 'fn serialize_none(&mut self) -> Result<(), SerError>',
                  r'self\.out\.write_str\("[^"]*"\)\?;', 'C12:none_is_written_as_a_plain_word_that_reads_back_as_null', 'null_word()'),
    _scalar_entry('serialize_unit', r'fn serialize_unit\(self\) -> Result<\(\)>', 'fn serialize_unit(&mut self) -> Result<(), SerError>',
                  r'self\.out\.write_str\("[^"]*"\)\?;', 'C12:unit_is_written_as_a_plain_word_that_reads_back_as_null', 'null_word()'),
]
for _n, _t in (('serialize_i64', 'i64'), ('serialize_u64', 'u64'), ('serialize_i128', 'i128'), ('serialize_u128', 'u128')):
    ITEMS.append(_scalar_entry(_n, r'fn %s\(self, v: %s\) -> Result<\(\)>' % (_n, _t), 'fn %s(&mut self, v: %s) -> Result<(), SerError>' % (_n, _t),
                  r'self\.out\.write_decimal\(Ghost\(v as int\)\)\?;', 'C12:an_integer_is_written_as_its_decimal_digits_and_nothing_else', 'decimal_text(v as int)',
                  extra_rw=[(r'write!\(self\.out, "\{\}", v\)\?;', 'self.out.write_decimal(Ghost(v as int))?;', 1, 'R12')]))
