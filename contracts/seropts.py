"""Unit `seropts`: how a serializer is set up from the user's options (src/ser.rs YamlSerializer::new / with_indent /
with_options, src/serializer_options.rs consistent): every option reaches the field the emitter reads, nothing else is
set, and the one validity rule the emitter relies on (`indent_step >= 1`) is what `consistent` enforces (C20; discharges the
`assumed:valid_options` precondition of the block-scalar fragments for the entry points that call `consistent`)."""
from contracts_types import *
NAME = 'seropts'
FEATURES = []
USES = ['use vstd::string::*;', 'use vstd::utf8::*;']
PRELUDE = ['seropts.shim.rs']
SUBST = [
    (r"YamlSerializer<'a, W: Write>", "YamlSerializer<'a>"),
    (r"impl<'a, W: Write> YamlSerializer<'a, W>", "impl<'a> YamlSerializer<'a>"),
    (r"out: &'a mut W\b", "out: &'a mut Sink"),
    (r'HashMap<usize, AnchorId, BuildNoHashHasher<usize>>', 'AnchorMap'),
    (r'Option<fn\(usize\) -> String>', 'Option<AnchorGen>'),
]
SR = 'src/ser.rs'
SO = 'src/serializer_options.rs'
_FRESH = ('''r.depth == 0 && r.at_line_start && r.next_anchor_id == 1 && r.pending_anchor_id is None && r.custom_anchor_names is None
            && r.pending_flow is None && r.in_flow == 0 && r.pending_str_style is None && !r.pending_str_from_auto && r.pending_inline_comment is None
            && !r.pending_inline_map && !r.pending_space_after_colon && !r.inline_map_after_dash && !r.last_value_was_block && !r.last_scalar_kept_breaks
            && r.after_dash_depth is None && r.current_map_depth is None && !r.doc_started && r.out.text() == old(out).text()''')
ITEMS = [
    dict(src=SR, path='enum PendingFlow', derive='#[derive(Clone, Copy, PartialEq, Eq)]'),
    dict(src=SR, path='enum StrStyle', derive='#[derive(Clone, Copy, PartialEq, Eq)]'),
    dict(src=SR, path='type AnchorId'),
    dict(src=SR, path='struct YamlSerializer'),
    dict(src=SO, path='const MIN_FOLD_CHARS'),
    dict(src=SO, path='const FOLDED_WRAP_CHARS'),
    dict(src=SO, path='struct SerializerOptions', derive=''),
    dict(src=SO, path='impl SerializerOptions/fn consistent', props=['C20', 'C12', 'C01'],
         rewrites=[(r'Result<\(\), Error>', 'Result<(), SerError>', 1, 'R6'),
                   (r'Error::InvalidOptions\(\s*"Invalid indent step must be positive"\.to_string\(\),\s*\)', 'ser_error_invalid_options("Invalid indent step must be positive")', 1, 'R8')],
         ensures=[('C20:options_are_accepted_exactly_when_the_indentation_step_is_positive', '(r is Ok) == (self.indent_step >= 1)')],
         canaries=['C20:options_are_accepted_exactly_when_the_indentation_step_is_positive']),
    dict(src=SR, path='impl YamlSerializer/fn new', props=['C20', 'C12'],
         rewrites=[(r'HashMap::with_hasher\(BuildNoHashHasher::default\(\)\)', 'anchor_map_new()', 1, 'R8')],
         ensures=[('C20:a_new_serializer_starts_at_a_line_start_outside_every_collection_with_nothing_pending', _FRESH),
                  ('C20:the_default_layout', '''r.indent_step == 2 && r.min_fold_chars == MIN_FOLD_CHARS && r.folded_wrap_col == FOLDED_WRAP_CHARS && r.anchor_gen is None
                        && !r.tagged_enums && r.empty_as_braces && !r.compact_list_indent && r.prefer_block_scalars && !r.quote_all && !r.yaml_12''')],
         canaries=['C20:the_default_layout']),
    dict(src=SR, path='impl YamlSerializer/fn with_indent', props=['C20'],
         ensures=[('C20:only_the_indentation_step_differs_from_a_default_serializer', '''r.indent_step == indent_step && r.min_fold_chars == MIN_FOLD_CHARS && r.folded_wrap_col == FOLDED_WRAP_CHARS
                        && r.anchor_gen is None && !r.tagged_enums && r.empty_as_braces && !r.compact_list_indent && r.prefer_block_scalars && !r.quote_all && !r.yaml_12'''),
                  ('fresh', _FRESH)]),
    dict(src=SR, path='impl YamlSerializer/fn with_options', props=['C20', 'C12'],
         ensures=[('C20:every_option_reaches_the_field_the_emitter_reads_and_nothing_else_is_set', '''r.indent_step == old(options).indent_step && r.min_fold_chars == old(options).min_fold_chars
                        && r.folded_wrap_col == old(options).folded_wrap_chars && r.anchor_gen == old(options).anchor_generator
                        && r.tagged_enums == old(options).tagged_enums && r.empty_as_braces == old(options).empty_as_braces
                        && r.compact_list_indent == old(options).compact_list_indent && r.prefer_block_scalars == old(options).prefer_block_scalars
                        && r.quote_all == old(options).quote_all && r.yaml_12 == old(options).yaml_12'''),
                  ('fresh', _FRESH)],
         canaries=['C20:every_option_reaches_the_field_the_emitter_reads_and_nothing_else_is_set']),
]
# ---- the scalar entry points of the emitter (C12): which token is written for a boolean, an integer, None and unit.  The helpers around the
# token (space after a colon, anchor prefix, indentation, end of scalar) are under contract in unit `quoting`; here they are bare declarations. ----
_SER = 'impl Serializer for &mut YamlSerializer/'
def _helper(name, sig_extra=''):
    return dict(src=SR, path='impl YamlSerializer/fn ' + name, trusted=True, props=[],
                rewrites=[(r'-> Result<\(\)>', '-> Result<(), SerError>', 1, 'R6')])
def _scalar_entry(name, sig_re, new_sig, token_stmt_re, label, token_spec, extra_rw=()):
    return dict(src=SR, path=_SER + 'fn ' + name, id='YamlSerializer::' + name, impl_header="impl<'a> YamlSerializer<'a>", props=['C12', 'C01'],
         pre_rewrites=[(sig_re, new_sig, 1, 'R9')],
         rewrites=list(extra_rw),
         proofs=[dict(before_re=token_stmt_re, ghost=True, text='let ghost t_before = self.out.text();'),
                 dict(after_re=token_stmt_re, label=label, text='assert(self.out.text() =~= t_before + %s);' % token_spec)],
         ensures=[('writes_one_scalar', 'true')])
ITEMS += [_helper('write_space_if_pending'), _helper('write_scalar_prefix_if_anchor'), _helper('write_indent'), _helper('write_end_of_scalar'),
    _scalar_entry('serialize_bool', r'fn serialize_bool\(self, v: bool\) -> Result<\(\)>', 'fn serialize_bool(&mut self, v: bool) -> Result<(), SerError>',
                  r'self\.out\.write_str\(if v \{ "[^"]*" \} else \{ "[^"]*" \}\)\?;', 'C12:a_boolean_is_written_as_the_core_schema_word_true_or_false',
                  '(if v { "true"@ } else { "false"@ })'),
    _scalar_entry('serialize_none', r'fn serialize_none\(self\) -> Result<\(\)>', 'fn serialize_none(&mut self) -> Result<(), SerError>',
                  r'self\.out\.write_str\("[^"]*"\)\?;', 'C12:none_is_written_as_a_plain_word_that_reads_back_as_null', 'null_word()'),
    _scalar_entry('serialize_unit', r'fn serialize_unit\(self\) -> Result<\(\)>', 'fn serialize_unit(&mut self) -> Result<(), SerError>',
                  r'self\.out\.write_str\("[^"]*"\)\?;', 'C12:unit_is_written_as_a_plain_word_that_reads_back_as_null', 'null_word()'),
]
for _n, _t in (('serialize_i64', 'i64'), ('serialize_u64', 'u64'), ('serialize_i128', 'i128'), ('serialize_u128', 'u128')):
    ITEMS.append(_scalar_entry(_n, r'fn %s\(self, v: %s\) -> Result<\(\)>' % (_n, _t), 'fn %s(&mut self, v: %s) -> Result<(), SerError>' % (_n, _t),
                  r'self\.out\.write_decimal\(Ghost\(v as int\)\)\?;', 'C12:an_integer_is_written_as_its_decimal_digits_and_nothing_else', 'decimal_text(v as int)',
                  extra_rw=[(r'write!\(self\.out, "\{\}", v\)\?;', 'self.out.write_decimal(Ghost(v as int))?;', 1, 'R12')]))

# ---- sequences and ordinary tuple structs (F35 / F36 / F37): a tuple struct is the sequence `serialize_seq` opens for it — same depth, same flow
# flag, "first" exactly for field 0 — and opening a block sequence writes no line break of its own (so an empty one stays `key: []` under every
# option), except after an anchor, where the first dash then starts an indented line of its own.  SeqSer / TupleSer / TupleKind are the real types. ----
SUBST += [
    (r"SeqSer<'a, 'b, W: Write>", "SeqSer<'a, 'b>"), (r"TupleSer<'a, 'b, W: Write>", "TupleSer<'a, 'b>"),
    (r"impl<'a, 'b, W: Write> TupleSer<'a, 'b, W>", "impl<'a, 'b> TupleSer<'a, 'b>"),
    (r"SeqSer<'a, 'b, W>", "SeqSer<'a, 'b>"), (r"YamlSerializer<'b, W>", "YamlSerializer<'b>"),
]
_ANCHOR_HELPER = dict(src=SR, path='impl YamlSerializer/fn write_anchor_for_complex_node', trusted=True, props=[],
    rewrites=[(r'-> Result<\(\)>', '-> Result<(), SerError>', 1, 'R6')],
    # assumed (read off its body: `if let Some(id) = self.pending_anchor_id.take() { … self.newline()?; }`): without a staged anchor it is a no-op;
    # with one it ends the line after `&name` and touches none of the layout hints
    ensures=[('assumed:without_a_staged_anchor_nothing_is_written', '''old(self).pending_anchor_id is None ==> r is Ok && final(self).out.text() == old(self).out.text()
                    && final(self).pending_space_after_colon == old(self).pending_space_after_colon && final(self).at_line_start == old(self).at_line_start'''),
             ('assumed:after_a_staged_anchor_the_line_is_ended', 'old(self).pending_anchor_id is Some && r is Ok ==> final(self).at_line_start'),
             ('assumed:layout_hints_are_not_touched', '''final(self).pending_anchor_id is None && final(self).pending_inline_map == old(self).pending_inline_map
                    && final(self).after_dash_depth == old(self).after_dash_depth && final(self).current_map_depth == old(self).current_map_depth
                    && final(self).depth == old(self).depth && final(self).compact_list_indent == old(self).compact_list_indent
                    && final(self).last_value_was_block == old(self).last_value_was_block''')])
ITEMS += [
    _ANCHOR_HELPER,
    dict(src=SR, path='impl YamlSerializer/fn newline', props=['C20', 'C01'],
         rewrites=[(r'-> Result<\(\)>', '-> Result<(), SerError>', 1, 'R6')],
         ensures=[('value', "r is Ok ==> final(self).out.text() == old(self).out.text().push('\\n') && final(self).at_line_start"),
                  ('frame', '''final(self).pending_space_after_colon == old(self).pending_space_after_colon && final(self).pending_anchor_id == old(self).pending_anchor_id
                        && final(self).pending_inline_map == old(self).pending_inline_map && final(self).after_dash_depth == old(self).after_dash_depth
                        && final(self).current_map_depth == old(self).current_map_depth && final(self).depth == old(self).depth
                        && final(self).compact_list_indent == old(self).compact_list_indent && final(self).last_value_was_block == old(self).last_value_was_block''')],
         canaries=['value']),
    dict(src=SR, path='struct SeqSer'),
    dict(src=SR, path='enum TupleKind', derive='#[derive(Clone, Copy, PartialEq, Eq)]'),
    dict(src=SR, path='struct TupleSer'),
    dict(src=SR, path='impl TupleSer/fn normal', props=['C12', 'C20', 'C01'],
         ensures=[('C12:an_ordinary_tuple_struct_takes_depth_and_flow_from_the_sequence_opened_for_it_and_starts_at_field_0',
                   'r.kind == (TupleKind::Normal { flow: seq.flow }) && r.idx == 0 && r.depth_for_normal == seq.depth')],
         canaries=['C12:an_ordinary_tuple_struct_takes_depth_and_flow_from_the_sequence_opened_for_it_and_starts_at_field_0']),
    dict(src=SR, path='impl Serializer for &mut YamlSerializer/fn serialize_tuple_struct', id='YamlSerializer::serialize_tuple_struct#normal', props=['C12', 'C20', 'C01'],
         impl_header="impl<'b> YamlSerializer<'b>",
         fragment=r'(?<=\} else \{)(?:\s*//[^\n]*)*\s*let seq = [^;]*;\s*Ok\(TupleSer::normal\(seq\)\)', fragment_flags='S',
         wrapper="fn tuple_struct_normal_open<'a>(&'a mut self) -> Result<TupleSer<'a, 'b>, SerError> { {FRAG} }",
         pre_rewrites=[(r'let seq = self\.serialize_seq\(([^()]*)\)\?;', r'let seq = seq_open(self, \1)?;', 1, 'R8')],
         ensures=[('C12:an_ordinary_tuple_struct_is_opened_as_a_sequence', 'r is Ok ==> r->Ok_0.kind is Normal && r->Ok_0.idx == 0')],
         canaries=['C12:an_ordinary_tuple_struct_is_opened_as_a_sequence']),
    dict(src=SR, path='impl SerializeTupleStruct for TupleSer/fn serialize_field', id='TupleSer::serialize_field#normal', props=['C12', 'C20', 'C01'],
         impl_header="impl<'a, 'b> TupleSer<'a, 'b>",
         fragment=r'(?<=TupleKind::Normal \{ flow \} => \{).*?SerializeSeq::serialize_element\([^;]*;', fragment_flags='S',
         wrapper='fn tuple_field_normal(&mut self, flow: bool, value: SerVal) -> Result<(), SerError> { {FRAG} Ok(()) }',
         pre_rewrites=[(r'SerializeSeq::serialize_element\(&mut (\w+), value\)\?;', r'seq_element(&mut \1, value)?;', 1, 'R8')],
         proofs=[dict(before_re=r'seq_element\(&mut \w+, value\)\?;', label='C12:a_field_of_a_tuple_struct_is_written_as_an_element_of_the_sequence_opened_for_it_the_first_one_for_field_0',
                      text='assert(seq.depth == self.depth_for_normal && seq.flow == flow && seq.first == (self.idx == 0));')],
         ensures=[('the_result_of_the_element_is_passed_on', 'true')]),
    dict(src=SR, path='impl Serializer for &mut YamlSerializer/fn serialize_seq', id='YamlSerializer::serialize_seq#block_open', props=['C20', 'C12', 'C01'],
         impl_header="impl<'b> YamlSerializer<'b>",
         fragment=r'let was_inline_value = !self\.at_line_start;.*Ok\(SeqSer \{[^}]*\}\)', fragment_flags='S',
         wrapper="fn seq_open_block<'a>(&'a mut self) -> Result<SeqSer<'a, 'b>, SerError> { {FRAG} }",
         requires=[('assumed:nesting_depth_below_usize_max', '''old(self).depth < usize::MAX && (old(self).after_dash_depth is Some ==> old(self).after_dash_depth->0 < usize::MAX)
                        && (old(self).current_map_depth is Some ==> old(self).current_map_depth->0 < usize::MAX)''')],
         ensures=[('C20:opening_a_block_sequence_writes_no_line_break_of_its_own_so_an_empty_one_stays_on_the_line_of_its_key', '''r is Ok && old(self).pending_anchor_id is None ==> ({ let q = r->Ok_0;
                        q.ser.out.text() == old(self).out.text() && q.ser.pending_space_after_colon == old(self).pending_space_after_colon
                        && q.first && !q.flow })'''),
                  ('C12:the_first_item_of_an_anchored_block_sequence_starts_a_line_of_its_own', '''r is Ok && old(self).pending_anchor_id is Some ==> ({ let q = r->Ok_0;
                        q.ser.at_line_start && !q.ser.pending_inline_map && q.first && !q.flow })'''),
                  ('C12:items_under_a_dash_are_indented_one_level_deeper_than_that_dash', '''r is Ok && !old(self).at_line_start && old(self).after_dash_depth is Some && !old(self).pending_space_after_colon
                        ==> r->Ok_0.depth == old(self).after_dash_depth->0 + 1''')],
         canaries=['C20:opening_a_block_sequence_writes_no_line_break_of_its_own_so_an_empty_one_stays_on_the_line_of_its_key']),
]
