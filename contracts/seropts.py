"""Unit `seropts`: how a serializer is set up from the user's options (src/ser.rs YamlSerializer::new / with_indent /
with_options, src/serializer_options.rs consistent): every option reaches the field the emitter reads, nothing else is
set, and the one validity rule the emitter relies on (`indent_step >= 1`) is what `consistent` enforces (C20; discharges the
`assumed:valid_options` precondition of the block-scalar fragments for the entry points that call `consistent`)."""
from contracts_types import *
NAME = 'seropts'
FEATURES = []
USES = ['use vstd::string::*;', 'use vstd::utf8::*;']
PRELUDE = ['seropts.shim.rs']
SUBST = [
    (r"YamlSerializer<'a, W: Write>", "YamlSerializer<'a>"),
    (r"impl<'a, W: Write> YamlSerializer<'a, W>", "impl<'a> YamlSerializer<'a>"),
    (r"out: &'a mut W\b", "out: &'a mut Sink"),
    (r'HashMap<usize, AnchorId, BuildNoHashHasher<usize>>', 'AnchorMap'),
    (r'Option<fn\(usize\) -> String>', 'Option<AnchorGen>'),
]
SR = 'src/ser.rs'
SO = 'src/serializer_options.rs'
_FRESH = ('''r.depth == 0 && r.at_line_start && r.next_anchor_id == 1 && r.pending_anchor_id is None && r.custom_anchor_names is None
            && r.pending_flow is None && r.in_flow == 0 && r.pending_str_style is None && !r.pending_str_from_auto && r.pending_inline_comment is None
            && !r.pending_inline_map && !r.pending_space_after_colon && !r.inline_map_after_dash && !r.last_value_was_block && !r.last_scalar_kept_breaks
            && r.after_dash_depth is None && r.current_map_depth is None && !r.doc_started && r.out.text() == old(out).text()''')
ITEMS = [
    dict(src=SR, path='enum PendingFlow', derive='#[derive(Clone, Copy, PartialEq, Eq)]'),
    dict(src=SR, path='enum StrStyle', derive='#[derive(Clone, Copy, PartialEq, Eq)]'),
    dict(src=SR, path='type AnchorId'),
    dict(src=SR, path='struct YamlSerializer'),
    dict(src=SO, path='const MIN_FOLD_CHARS'),
    dict(src=SO, path='const FOLDED_WRAP_CHARS'),
    dict(src=SO, path='struct SerializerOptions', derive=''),
    dict(src=SO, path='impl SerializerOptions/fn consistent', props=['C20', 'C12', 'C01'],
         rewrites=[(r'Result<\(\), Error>', 'Result<(), SerError>', 1, 'R6'),
                   (r'Error::InvalidOptions\(\s*"Invalid indent step must be positive"\.to_string\(\),\s*\)', 'ser_error_invalid_options("Invalid indent step must be positive")', 1, 'R8')],
         ensures=[('C20:options_are_accepted_exactly_when_the_indentation_step_is_positive', '(r is Ok) == (self.indent_step >= 1)')],
         canaries=['C20:options_are_accepted_exactly_when_the_indentation_step_is_positive']),
    dict(src=SR, path='impl YamlSerializer/fn new', props=['C20', 'C12'],
         rewrites=[(r'HashMap::with_hasher\(BuildNoHashHasher::default\(\)\)', 'anchor_map_new()', 1, 'R8')],
         ensures=[('C20:a_new_serializer_starts_at_a_line_start_outside_every_collection_with_nothing_pending', _FRESH),
                  ('C20:the_default_layout', '''r.indent_step == 2 && r.min_fold_chars == MIN_FOLD_CHARS && r.folded_wrap_col == FOLDED_WRAP_CHARS && r.anchor_gen is None
                        && !r.tagged_enums && r.empty_as_braces && !r.compact_list_indent && r.prefer_block_scalars && !r.quote_all && !r.yaml_12''')],
         canaries=['C20:the_default_layout']),
    dict(src=SR, path='impl YamlSerializer/fn with_indent', props=['C20'],
         ensures=[('C20:only_the_indentation_step_differs_from_a_default_serializer', '''r.indent_step == indent_step && r.min_fold_chars == MIN_FOLD_CHARS && r.folded_wrap_col == FOLDED_WRAP_CHARS
                        && r.anchor_gen is None && !r.tagged_enums && r.empty_as_braces && !r.compact_list_indent && r.prefer_block_scalars && !r.quote_all && !r.yaml_12'''),
                  ('fresh', _FRESH)]),
    dict(src=SR, path='impl YamlSerializer/fn with_options', props=['C20', 'C12'],
         ensures=[('C20:every_option_reaches_the_field_the_emitter_reads_and_nothing_else_is_set', '''r.indent_step == old(options).indent_step && r.min_fold_chars == old(options).min_fold_chars
                        && r.folded_wrap_col == old(options).folded_wrap_chars && r.anchor_gen == old(options).anchor_generator
                        && r.tagged_enums == old(options).tagged_enums && r.empty_as_braces == old(options).empty_as_braces
                        && r.compact_list_indent == old(options).compact_list_indent && r.prefer_block_scalars == old(options).prefer_block_scalars
                        && r.quote_all == old(options).quote_all && r.yaml_12 == old(options).yaml_12'''),
                  ('fresh', _FRESH)],
         canaries=['C20:every_option_reaches_the_field_the_emitter_reads_and_nothing_else_is_set']),
]
