"""Unit `seropts`: how a serializer is set up from the user's options (src/ser.rs YamlSerializer::new / with_indent /
with_options, src/serializer_options.rs consistent): every option reaches the field the emitter reads, nothing else is
set, and the one validity rule the emitter relies on (`indent_step >= 1`) is what `consistent` enforces (C20; discharges the
`assumed:valid_options` precondition of the block-scalar fragments for the entry points that call `consistent`)."""
from contracts_types import *
NAME = 'seropts'
FEATURES = []
USES = ['use vstd::string::*;', 'use vstd::utf8::*;']
PRELUDE = ['seropts.shim.rs']
SUBST = [
    (r"YamlSerializer<'a, W: Write>", "YamlSerializer<'a>"),
    (r"impl<'a, W: Write> YamlSerializer<'a, W>", "impl<'a> YamlSerializer<'a>"),
    (r"out: &'a mut W\b", "out: &'a mut Sink"),
    (r'HashMap<usize, AnchorId, BuildNoHashHasher<usize>>', 'AnchorMap'),
    (r'Option<fn\(usize\) -> String>', 'Option<AnchorGen>'),
]
SR = 'src/ser.rs'
SO = 'src/serializer_options.rs'
_FRESH = ('''r.depth == 0 && r.at_line_start && r.next_anchor_id == 1 && r.pending_anchor_id is None && r.custom_anchor_names is None
            && r.pending_flow is None && r.in_flow == 0 && r.pending_str_style is None && !r.pending_str_from_auto && r.pending_inline_comment is None
            && !r.pending_inline_map && !r.pending_space_after_colon && !r.inline_map_after_dash && !r.last_value_was_block && !r.last_scalar_kept_breaks
            && r.after_dash_depth is None && r.current_map_depth is None && !r.doc_started && r.out.text() == old(out).text()''')
ITEMS = [
    dict(src=SR, path='enum PendingFlow', derive='#[derive(Clone, Copy, PartialEq, Eq)]'),
    dict(src=SR, path='enum StrStyle', derive='#[derive(Clone, Copy, PartialEq, Eq)]'),
    dict(src=SR, path='type AnchorId'),
    dict(src=SR, path='struct YamlSerializer'),
    dict(src=SO, path='const MIN_FOLD_CHARS'),
    dict(src=SO, path='const FOLDED_WRAP_CHARS'),
    dict(src=SO, path='struct SerializerOptions', derive=''),
    dict(src=SO, path='impl SerializerOptions/fn consistent', props=['C20', 'C12', 'C01'],
         rewrites=[(r'Result<\(\), Error>', 'Result<(), SerError>', 1, 'R6'),
                   (r'Error::InvalidOptions\(\s*"Invalid indent step must be positive"\.to_string\(\),\s*\)', 'ser_error_invalid_options("Invalid indent step must be positive")', 1, 'R8')],
         ensures=[('C20:options_are_accepted_exactly_when_the_indentation_step_is_positive', '(r is Ok) == (self.indent_step >= 1)')],
         canaries=['C20:options_are_accepted_exactly_when_the_indentation_step_is_positive']),
    dict(src=SR, path='impl YamlSerializer/fn new', props=['C20', 'C12'],
         rewrites=[(r'HashMap::with_hasher\(BuildNoHashHasher::default\(\)\)', 'anchor_map_new()', 1, 'R8')],
         ensures=[('C20:a_new_serializer_starts_at_a_line_start_outside_every_collection_with_nothing_pending', _FRESH),
                  ('C20:the_default_layout', '''r.indent_step == 2 && r.min_fold_chars == MIN_FOLD_CHARS && r.folded_wrap_col == FOLDED_WRAP_CHARS && r.anchor_gen is None
                        && !r.tagged_enums && r.empty_as_braces && !r.compact_list_indent && r.prefer_block_scalars && !r.quote_all && !r.yaml_12''')],
         canaries=['C20:the_default_layout']),
    dict(src=SR, path='impl YamlSerializer/fn with_indent', props=['C20'],
         ensures=[('C20:only_the_indentation_step_differs_from_a_default_serializer', '''r.indent_step == indent_step && r.min_fold_chars == MIN_FOLD_CHARS && r.folded_wrap_col == FOLDED_WRAP_CHARS
                        && r.anchor_gen is None && !r.tagged_enums && r.empty_as_braces && !r.compact_list_indent && r.prefer_block_scalars && !r.quote_all && !r.yaml_12'''),
                  ('fresh', _FRESH)]),
    dict(src=SR, path='impl YamlSerializer/fn with_options', props=['C20', 'C12'],
         ensures=[('C20:every_option_reaches_the_field_the_emitter_reads_and_nothing_else_is_set', '''r.indent_step == old(options).indent_step && r.min_fold_chars == old(options).min_fold_chars
                        && r.folded_wrap_col == old(options).folded_wrap_chars && r.anchor_gen == old(options).anchor_generator
                        && r.tagged_enums == old(options).tagged_enums && r.empty_as_braces == old(options).empty_as_braces
                        && r.compact_list_indent == old(options).compact_list_indent && r.prefer_block_scalars == old(options).prefer_block_scalars
                        && r.quote_all == old(options).quote_all && r.yaml_12 == old(options).yaml_12'''),
                  ('fresh', _FRESH)],
         canaries=['C20:every_option_reaches_the_field_the_emitter_reads_and_nothing_else_is_set']),
]
# ---- the scalar entry points of the emitter (C12): which token is written for a boolean, an integer, None and unit.  The helpers around the
# token (space after a colon, anchor prefix, indentation, end of scalar) are under contract in unit `quoting`; here they are bare declarations. ----
_SER = 'impl Serializer for &mut YamlSerializer/'
def _helper(name, sig_extra=''):
    return dict(src=SR, path='impl YamlSerializer/fn ' + name, trusted=True, props=[],
                rewrites=[(r'-> Result<\(\)>', '-> Result<(), SerError>', 1, 'R6')])
def _scalar_entry(name, sig_re, new_sig, token_stmt_re, label, token_spec, extra_rw=()):
    return dict(src=SR, path=_SER + 'fn ' + name, id='YamlSerializer::' + name, impl_header="impl<'a> YamlSerializer<'a>", props=['C12', 'C01'],
         pre_rewrites=[(sig_re, new_sig, 1, 'R9')],
         rewrites=list(extra_rw),
         proofs=[dict(before_re=token_stmt_re, ghost=True, text='let ghost t_before = self.out.text();'),
                 dict(after_re=token_stmt_re, label=label, text='assert(self.out.text() =~= t_before + %s);' % token_spec)],
         requires=[('indent_fits', 'old(self).indent_step * old(self).depth <= usize::MAX')],
         ensures=[('writes_one_scalar', 'true')])
ITEMS += [_helper('write_space_if_pending'), _helper('write_scalar_prefix_if_anchor'), _helper('write_indent'), _helper('write_end_of_scalar'),
    _scalar_entry('serialize_bool', r'fn serialize_bool\(self, v: bool\) -> Result<\(\)>', 'fn serialize_bool(&mut self, v: bool) -> Result<(), SerError>',
                  r'self\.out\.write_str\(if v \{ "[^"]*" \} else \{ "[^"]*" \}\)\?;', 'C12:a_boolean_is_written_as_the_core_schema_word_true_or_false',
                  '(if v { "true"@ } else { "false"@ })'),
    _scalar_entry('serialize_none', r'fn serialize_none\(self\) -> Result<\(\)>', 'fn serialize_none(&mut self) -> Result<(), SerError>',
                  r'self\.out\.write_str\("[^"]*"\)\?;', 'C12:none_is_written_as_a_plain_word_that_reads_back_as_null', 'null_word()'),
    _scalar_entry('serialize_unit', r'fn serialize_unit\(self\) -> Result<\(\)>', 'fn serialize_unit(&mut self) -> Result<(), SerError>',
                  r'self\.out\.write_str\("[^"]*"\)\?;', 'C12:unit_is_written_as_a_plain_word_that_reads_back_as_null', 'null_word()'),
]
for _n, _t in (('serialize_i64', 'i64'), ('serialize_u64', 'u64'), ('serialize_i128', 'i128'), ('serialize_u128', 'u128')):
    ITEMS.append(_scalar_entry(_n, r'fn %s\(self, v: %s\) -> Result<\(\)>' % (_n, _t), 'fn %s(&mut self, v: %s) -> Result<(), SerError>' % (_n, _t),
                  r'self\.out\.write_decimal\(Ghost\(v as int\)\)\?;', 'C12:an_integer_is_written_as_its_decimal_digits_and_nothing_else', 'decimal_text(v as int)',
                  extra_rw=[(r'write!\(self\.out, "\{\}", v\)\?;', 'self.out.write_decimal(Ghost(v as int))?;', 1, 'R12')]))

# ---- sequences and ordinary tuple structs (F35 / F36 / F37): a tuple struct is the sequence `serialize_seq` opens for it — same depth, same flow
# flag, "first" exactly for field 0 — and opening a block sequence writes no line break of its own (so an empty one stays `key: []` under every
# option), except after an anchor, where the first dash then starts an indented line of its own.  SeqSer / TupleSer / TupleKind are the real types. ----
SUBST += [
    (r"SeqSer<'a, 'b, W: Write>", "SeqSer<'a, 'b>"), (r"TupleSer<'a, 'b, W: Write>", "TupleSer<'a, 'b>"),
    (r"impl<'a, 'b, W: Write> TupleSer<'a, 'b, W>", "impl<'a, 'b> TupleSer<'a, 'b>"),
    (r"SeqSer<'a, 'b, W>", "SeqSer<'a, 'b>"), (r"YamlSerializer<'b, W>", "YamlSerializer<'b>"),
]
_ANCHOR_HELPER = dict(src=SR, path='impl YamlSerializer/fn write_anchor_for_complex_node', trusted=True, props=[],
    rewrites=[(r'-> Result<\(\)>', '-> Result<(), SerError>', 1, 'R6')],
    # assumed (read off its body: `if let Some(id) = self.pending_anchor_id.take() { … self.newline()?; }`): without a staged anchor it is a no-op;
    # with one it ends the line after `&name` and touches none of the layout hints
    ensures=[('assumed:without_a_staged_anchor_nothing_is_written', '''old(self).pending_anchor_id is None ==> r is Ok && final(self).out.text() == old(self).out.text()
                    && final(self).pending_space_after_colon == old(self).pending_space_after_colon && final(self).at_line_start == old(self).at_line_start'''),
             ('assumed:after_a_staged_anchor_the_line_is_ended', 'old(self).pending_anchor_id is Some && r is Ok ==> final(self).at_line_start'),
             ('assumed:layout_hints_are_not_touched', '''final(self).pending_anchor_id is None && final(self).pending_inline_map == old(self).pending_inline_map
                    && final(self).after_dash_depth == old(self).after_dash_depth && final(self).current_map_depth == old(self).current_map_depth
                    && final(self).depth == old(self).depth && final(self).compact_list_indent == old(self).compact_list_indent
                    && final(self).last_value_was_block == old(self).last_value_was_block && final(self).indent_step == old(self).indent_step''')])
ITEMS += [
    _ANCHOR_HELPER,
    dict(src=SR, path='impl YamlSerializer/fn newline', props=['C20', 'C01'],
         rewrites=[(r'-> Result<\(\)>', '-> Result<(), SerError>', 1, 'R6')],
         ensures=[('value', "r is Ok ==> final(self).out.text() == old(self).out.text().push('\\n') && final(self).at_line_start"),
                  ('frame', '''final(self).pending_space_after_colon == old(self).pending_space_after_colon && final(self).pending_anchor_id == old(self).pending_anchor_id
                        && final(self).pending_inline_map == old(self).pending_inline_map && final(self).after_dash_depth == old(self).after_dash_depth
                        && final(self).current_map_depth == old(self).current_map_depth && final(self).depth == old(self).depth
                        && final(self).compact_list_indent == old(self).compact_list_indent && final(self).last_value_was_block == old(self).last_value_was_block
                        && final(self).indent_step == old(self).indent_step && final(self).doc_started == old(self).doc_started && final(self).in_flow == old(self).in_flow
                        && final(self).inline_map_after_dash == old(self).inline_map_after_dash && final(self).quote_all == old(self).quote_all && final(self).yaml_12 == old(self).yaml_12''')],
         canaries=['value']),
    dict(src=SR, path='struct SeqSer'),
    dict(src=SR, path='enum TupleKind', derive='#[derive(Clone, Copy, PartialEq, Eq)]'),
    dict(src=SR, path='struct TupleSer'),
    dict(src=SR, path='impl TupleSer/fn normal', props=['C12', 'C20', 'C01'],
         ensures=[('C12:an_ordinary_tuple_struct_takes_depth_and_flow_from_the_sequence_opened_for_it_and_starts_at_field_0',
                   'r.kind == (TupleKind::Normal { flow: seq.flow }) && r.idx == 0 && r.depth_for_normal == seq.depth')],
         canaries=['C12:an_ordinary_tuple_struct_takes_depth_and_flow_from_the_sequence_opened_for_it_and_starts_at_field_0']),
    dict(src=SR, path='impl Serializer for &mut YamlSerializer/fn serialize_tuple_struct', id='YamlSerializer::serialize_tuple_struct#normal', props=['C12', 'C20', 'C01'],
         impl_header="impl<'b> YamlSerializer<'b>",
         fragment=r'(?<=\} else \{)(?:\s*//[^\n]*)*\s*let seq = [^;]*;\s*Ok\(TupleSer::normal\(seq\)\)', fragment_flags='S',
         wrapper="fn tuple_struct_normal_open<'a>(&'a mut self) -> Result<TupleSer<'a, 'b>, SerError> { {FRAG} }",
         pre_rewrites=[(r'let seq = self\.serialize_seq\(([^()]*)\)\?;', r'let seq = seq_open(self, \1)?;', 1, 'R8')],
         ensures=[('C12:an_ordinary_tuple_struct_is_opened_as_a_sequence', 'r is Ok ==> r->Ok_0.kind is Normal && r->Ok_0.idx == 0')],
         canaries=['C12:an_ordinary_tuple_struct_is_opened_as_a_sequence']),
    dict(src=SR, path='impl SerializeTupleStruct for TupleSer/fn serialize_field', id='TupleSer::serialize_field#normal', props=['C12', 'C20', 'C01'],
         impl_header="impl<'a, 'b> TupleSer<'a, 'b>",
         fragment=r'(?<=TupleKind::Normal \{ flow \} => \{).*?SerializeSeq::serialize_element\([^;]*;', fragment_flags='S',
         wrapper='fn tuple_field_normal(&mut self, flow: bool, value: SerVal) -> Result<(), SerError> { {FRAG} Ok(()) }',
         pre_rewrites=[(r'SerializeSeq::serialize_element\(&mut (\w+), value\)\?;', r'seq_element(&mut \1, value)?;', 1, 'R8')],
         proofs=[dict(before_re=r'seq_element\(&mut \w+, value\)\?;', label='C12:a_field_of_a_tuple_struct_is_written_as_an_element_of_the_sequence_opened_for_it_the_first_one_for_field_0',
                      text='assert(seq.depth == self.depth_for_normal && seq.flow == flow && seq.first == (self.idx == 0));')],
         ensures=[('the_result_of_the_element_is_passed_on', 'true')]),
    dict(src=SR, path='impl Serializer for &mut YamlSerializer/fn serialize_seq', id='YamlSerializer::serialize_seq#block_open', props=['C20', 'C12', 'C01'],
         impl_header="impl<'b> YamlSerializer<'b>",
         fragment=r'let was_inline_value = !self\.at_line_start;.*Ok\(SeqSer \{[^}]*\}\)', fragment_flags='S',
         wrapper="fn seq_open_block<'a>(&'a mut self, _len: Option<usize>) -> Result<SeqSer<'a, 'b>, SerError> { {FRAG} }",
         requires=[('assumed:nesting_depth_below_usize_max', '''old(self).depth < usize::MAX && (old(self).after_dash_depth is Some ==> old(self).after_dash_depth->0 < usize::MAX)
                        && (old(self).current_map_depth is Some ==> old(self).current_map_depth->0 < usize::MAX)''')],
         proofs=[dict(before_re=r'Ok\(SeqSer \{', text='''if self.indent_step == 2 { assert(self.indent_step * depth_next == 2 * depth_next) by(nonlinear_arith) requires self.indent_step == 2;
                      if self.after_dash_depth is Some { let d = self.after_dash_depth->0; assert(self.indent_step * d == 2 * d) by(nonlinear_arith) requires self.indent_step == 2; } }''')],
         ensures=[('C20:opening_a_block_sequence_writes_no_line_break_of_its_own_so_an_empty_one_stays_on_the_line_of_its_key', '''r is Ok && old(self).pending_anchor_id is None && old(self).pending_space_after_colon ==> ({ let q = r->Ok_0;
                        q.ser.out.text() == old(self).out.text() && q.ser.pending_space_after_colon == old(self).pending_space_after_colon
                        && q.first && !q.flow })'''),
                  ('C12:the_first_item_of_an_anchored_block_sequence_starts_a_line_of_its_own', '''r is Ok && old(self).pending_anchor_id is Some ==> ({ let q = r->Ok_0;
                        q.ser.at_line_start && !q.ser.pending_inline_map && q.first && !q.flow })'''),
                  # F38: the first dash may stay on the line of an outer dash (two columns right of it) only if that is the column of the following dashes
                  ('C20:all_dashes_of_a_block_sequence_stand_in_one_column_whatever_the_indent_step',
                   '''r is Ok && !old(self).at_line_start && old(self).after_dash_depth is Some && !old(self).pending_space_after_colon && old(self).pending_anchor_id is None
                        ==> ({ let q = r->Ok_0; q.first && (q.ser.at_line_start && !q.ser.pending_inline_map
                               || old(self).indent_step * q.depth == old(self).indent_step * old(self).after_dash_depth->0 + 2) })'''),
                  ('C12:items_under_a_dash_are_indented_one_level_deeper_than_that_dash', '''r is Ok && !old(self).at_line_start && old(self).after_dash_depth is Some && !old(self).pending_space_after_colon
                        ==> r->Ok_0.depth == old(self).after_dash_depth->0 + 1''')],
         canaries=['C20:opening_a_block_sequence_writes_no_line_break_of_its_own_so_an_empty_one_stays_on_the_line_of_its_key']),
]

# ---- the dash / comma in front of a sequence item (C12 "sequence item", C20), the flow opening of serialize_seq and the two flow-hint readers.
# `write_indent` is verified in unit `quoting` (YamlSerializer::write_indent); here the part of that contract the dash needs is assumed. ----
def _replace_item(path, new):
    for i, x in enumerate(ITEMS):
        if x.get('path') == path and x.get('trusted'):
            ITEMS[i] = new; return
    raise KeyError(path)
_LAYOUT_FRAME = '''final(self).pending_anchor_id == old(self).pending_anchor_id && final(self).pending_inline_map == old(self).pending_inline_map
                        && final(self).after_dash_depth == old(self).after_dash_depth && final(self).current_map_depth == old(self).current_map_depth
                        && final(self).depth == old(self).depth && final(self).indent_step == old(self).indent_step && final(self).in_flow == old(self).in_flow
                        && final(self).inline_map_after_dash == old(self).inline_map_after_dash && final(self).quote_all == old(self).quote_all && final(self).yaml_12 == old(self).yaml_12'''
_replace_item('impl YamlSerializer/fn write_space_if_pending',
    dict(src=SR, path='impl YamlSerializer/fn write_space_if_pending', props=['C12', 'C20', 'C01'],
         rewrites=[(r'-> Result<\(\)>', '-> Result<(), SerError>', 1, 'R6')],
         ensures=[('C12:the_space_after_a_colon_is_written_once_when_the_value_arrives',
                   "r is Ok ==> final(self).out.text() == (if old(self).pending_space_after_colon { old(self).out.text().push(' ') } else { old(self).out.text() }) && !final(self).pending_space_after_colon"),
                  ('frame', 'final(self).at_line_start == old(self).at_line_start && (r is Ok ==> !final(self).last_value_was_block) && final(self).doc_started == old(self).doc_started && ' + _LAYOUT_FRAME)],
         canaries=['C12:the_space_after_a_colon_is_written_once_when_the_value_arrives']))
_replace_item('impl YamlSerializer/fn write_indent',
    dict(src=SR, path='impl YamlSerializer/fn write_indent', trusted=True, props=[],
         rewrites=[(r'-> Result<\(\)>', '-> Result<(), SerError>', 1, 'R6')],
         requires=[('indent_fits', 'old(self).indent_step * depth <= usize::MAX')],
         # assumed here, PROVED in unit `quoting` (item YamlSerializer::write_indent: frame, nothing_is_written_in_the_middle_of_a_line,
         # C20:the_yaml_directive_is_followed_by_a_document_start_marker_and_then_only_the_indentation)
         ensures=[('assumed:proved_in_unit_quoting', '''r is Ok ==> !final(self).at_line_start && final(self).pending_space_after_colon == old(self).pending_space_after_colon
                        && (!old(self).at_line_start ==> final(self).out.text() == old(self).out.text())
                        && (old(self).at_line_start && old(self).doc_started ==> final(self).out.text() == old(self).out.text() + spaces(old(self).indent_step * depth))'''),
                  ('assumed:frame', _LAYOUT_FRAME)]))
_replace_item('impl YamlSerializer/fn write_scalar_prefix_if_anchor',
    dict(src=SR, path='impl YamlSerializer/fn write_scalar_prefix_if_anchor', trusted=True, props=[],
         rewrites=[(r'-> Result<\(\)>', '-> Result<(), SerError>', 1, 'R6')],
         # assumed (its body writes `&name ` in front of a scalar when an anchor is staged): the layout hints are not touched
         ensures=[('assumed:frame', '''final(self).depth == old(self).depth && final(self).indent_step == old(self).indent_step && final(self).in_flow == old(self).in_flow
                        && final(self).pending_space_after_colon == old(self).pending_space_after_colon && final(self).pending_anchor_id is None'''),
                  ('assumed:without_a_staged_anchor_nothing_is_written', 'old(self).pending_anchor_id is None ==> r is Ok && final(self).out.text() == old(self).out.text() && final(self).at_line_start == old(self).at_line_start'),
                  ('assumed:a_staged_anchor_is_written_as_ampersand_name_space_in_the_middle_of_a_line', '''old(self).pending_anchor_id is Some && r is Ok && !old(self).at_line_start ==> ({ let t0 = old(self).out.text(); let t1 = final(self).out.text();
                        t1.len() > t0.len() && t1.subrange(0, t0.len() as int) == t0 && t1[t0.len() as int] == '&' && !final(self).at_line_start })''')]))
ITEMS += [
    dict(src=SR, path='impl YamlSerializer/fn take_flow_for_seq', props=['C20', 'C01'],
         ensures=[('C20:a_sequence_is_flow_inside_a_flow_collection_and_otherwise_exactly_when_the_flow_sequence_wrapper_staged_it',
                   'r == (old(self).in_flow > 0 || old(self).pending_flow == Some(PendingFlow::AnySeq))'),
                  ('C20:a_staged_flow_hint_is_used_once', 'old(self).in_flow == 0 ==> final(self).pending_flow is None'),
                  ('frame', 'final(self).in_flow == old(self).in_flow && final(self).out.text() == old(self).out.text()')],
         canaries=['C20:a_sequence_is_flow_inside_a_flow_collection_and_otherwise_exactly_when_the_flow_sequence_wrapper_staged_it']),
    dict(src=SR, path='impl YamlSerializer/fn take_flow_for_map', props=['C20', 'C01'],
         ensures=[('C20:a_mapping_is_flow_inside_a_flow_collection_and_otherwise_exactly_when_the_flow_mapping_wrapper_staged_it',
                   'r == (old(self).in_flow > 0 || old(self).pending_flow == Some(PendingFlow::AnyMap))'),
                  ('C20:a_staged_flow_hint_is_used_once', 'old(self).in_flow == 0 ==> final(self).pending_flow is None'),
                  ('frame', 'final(self).in_flow == old(self).in_flow && final(self).out.text() == old(self).out.text()')],
         canaries=['C20:a_mapping_is_flow_inside_a_flow_collection_and_otherwise_exactly_when_the_flow_mapping_wrapper_staged_it']),
    dict(src=SR, path='impl Serializer for &mut YamlSerializer/fn serialize_seq', id='YamlSerializer::serialize_seq#flow_open', props=['C20', 'C12', 'C01'],
         impl_header="impl<'b> YamlSerializer<'b>",
         fragment=r'(?<=if flow \{).*?Ok\(SeqSer \{[^}]*\}\)', fragment_flags='S',
         wrapper="fn seq_open_flow<'a>(&'a mut self, _len: Option<usize>) -> Result<SeqSer<'a, 'b>, SerError> { {FRAG} }",
         requires=[('indent_fits', 'old(self).indent_step * old(self).depth <= usize::MAX')],
         proofs=[dict(at='start', text='reveal_strlit("[");'), dict(at='start', ghost=True, text='let ghost t0 = self.out.text();'),
                 dict(after_re=r'self\.write_space_if_pending\(\)\?;', ghost=True, text='let ghost t_mid = self.out.text();'),
                 dict(before_re=r'self\.out\.write_str\("\["\)\?;', text='''if old(self).pending_space_after_colon && !old(self).at_line_start && t_mid == t0.push(' ') {
                      let t2 = self.out.text(); if t2 != t_mid { assert(t2.subrange(0, t_mid.len() as int)[t0.len() as int] == t2[t0.len() as int]); } }''')],
         ensures=[('C20:a_flow_sequence_opens_with_its_bracket_in_the_middle_of_a_line_and_expects_its_first_item',
                   '''r is Ok ==> ({ let q = r->Ok_0; let t = q.ser.out.text(); t.len() > 0 && t.last() == '[' && q.flow && q.first && !q.ser.at_line_start
                        && !q.ser.pending_space_after_colon })'''),
                  ('C20:the_space_after_the_colon_of_the_enclosing_key_comes_before_everything_a_flow_sequence_writes_anchor_included',
                   '''r is Ok && old(self).pending_space_after_colon && !old(self).at_line_start ==> ({ let t0 = old(self).out.text(); let t1 = r->Ok_0.ser.out.text();
                        t1.len() > t0.len() && t1[t0.len() as int] == ' ' })''')],
         canaries=['C20:a_flow_sequence_opens_with_its_bracket_in_the_middle_of_a_line_and_expects_its_first_item']),
    dict(src=SR, path='impl SerializeSeq for SeqSer/fn serialize_element', id='SeqSer::serialize_element#flow_comma', props=['C20', 'C12', 'C01'],
         impl_header="impl<'a, 'b> SeqSer<'a, 'b>",
         fragment=r'(?<=if self\.flow \{)\s*if !self\.first \{[^}]*\}', fragment_flags='S',
         wrapper='fn seq_element_flow_comma(&mut self) -> Result<(), SerError> { {FRAG} Ok(()) }',
         proofs=[dict(at='start', text='reveal_strlit(", ");')],
         ensures=[('C20:items_of_a_flow_sequence_are_separated_by_a_comma_and_a_space_and_the_first_follows_the_bracket',
                   "r is Ok ==> final(self).ser.out.text() =~= (if old(self).first { old(self).ser.out.text() } else { old(self).ser.out.text().push(',').push(' ') })")],
         canaries=['C20:items_of_a_flow_sequence_are_separated_by_a_comma_and_a_space_and_the_first_follows_the_bracket']),
    dict(src=SR, path='impl SerializeSeq for SeqSer/fn serialize_element', id='SeqSer::serialize_element#block_dash', props=['C12', 'C20', 'C01'],
         impl_header="impl<'a, 'b> SeqSer<'a, 'b>",
         fragment=r'if self\.first && self\.ser\.pending_space_after_colon \{.*?self\.ser\.pending_inline_map = true;', fragment_flags='S',
         wrapper='fn seq_element_block_dash(&mut self) -> Result<(), SerError> { {FRAG} Ok(()) }',
         requires=[('indent_fits', 'old(self).ser.indent_step * old(self).depth <= usize::MAX')],
         proofs=[dict(at='start', text='reveal_strlit("- ");')],
         ensures=[('C12:the_first_dash_of_a_sequence_in_mapping_value_position_starts_a_line_of_its_own',
                   '''r is Ok && old(self).first && old(self).ser.pending_space_after_colon && !old(self).ser.at_line_start && old(self).ser.doc_started
                        ==> final(self).ser.out.text() =~= old(self).ser.out.text().push('\\n') + spaces(old(self).ser.indent_step * old(self).depth) + seq!['-', ' ']'''),
                  ('C12:every_later_dash_starts_at_the_column_of_the_sequence',
                   '''r is Ok && !old(self).first && old(self).ser.at_line_start && old(self).ser.doc_started
                        ==> final(self).ser.out.text() =~= old(self).ser.out.text() + spaces(old(self).ser.indent_step * old(self).depth) + seq!['-', ' ']'''),
                  ('C12:after_a_dash_the_item_continues_on_the_same_line_and_knows_the_column_of_its_dash',
                   '''r is Ok ==> !final(self).ser.at_line_start && final(self).ser.after_dash_depth == Some(old(self).depth) && final(self).ser.pending_inline_map
                        && (old(self).first ==> !final(self).ser.pending_space_after_colon) && final(self).depth == old(self).depth && final(self).first == old(self).first''')],
         canaries=['C12:every_later_dash_starts_at_the_column_of_the_sequence']),
]

# ---- mappings: the opening (`serialize_map`, flow and block prologue over the real `MapSer`), a scalar key of a block mapping, the commas of a flow
# mapping, and the whole of `MapSer::serialize_value` with the generic `value.serialize(..)` as an opaque call (C12 "mapping value" / "mapping key", C20) ----
SUBST += [(r"MapSer<'a, 'b, W: Write>", "MapSer<'a, 'b>"), (r"MapSer<'a, 'b, W>", "MapSer<'a, 'b>")]
_MAP = 'impl SerializeMap for MapSer/'
ITEMS += [
    dict(src=SR, path='struct MapSer'),
    dict(src=SR, path='impl Serializer for &mut YamlSerializer/fn serialize_map', id='YamlSerializer::serialize_map#flow_open', props=['C20', 'C12', 'C01'],
         impl_header="impl<'b> YamlSerializer<'b>",
         fragment=r'(?<=if flow \{).*?Ok\(MapSer \{[^}]*\}\)', fragment_flags='S',
         wrapper="fn map_open_flow<'a>(&'a mut self, _len: Option<usize>) -> Result<MapSer<'a, 'b>, SerError> { {FRAG} }",
         requires=[('indent_fits', 'old(self).indent_step * old(self).depth <= usize::MAX')],
         proofs=[dict(at='start', text='reveal_strlit("{");'), dict(at='start', ghost=True, text='let ghost t0 = self.out.text();'),
                 dict(after_re=r'self\.write_space_if_pending\(\)\?;', ghost=True, text='let ghost t_mid = self.out.text();'),
                 dict(before_re=r'self\.out\.write_str\("\{"\)\?;', text='''if old(self).pending_space_after_colon && !old(self).at_line_start && t_mid == t0.push(' ') {
                      let t2 = self.out.text(); if t2 != t_mid { assert(t2.subrange(0, t_mid.len() as int)[t0.len() as int] == t2[t0.len() as int]); } }''')],
         ensures=[('C20:a_flow_mapping_opens_with_its_brace_in_the_middle_of_a_line_and_expects_its_first_entry',
                   '''r is Ok ==> ({ let q = r->Ok_0; let t = q.ser.out.text(); t.len() > 0 && t.last() == '{' && q.flow && q.first && !q.ser.at_line_start
                        && !q.ser.pending_space_after_colon && !q.inline_value_start && !q.align_after_dash })'''),
                  ('C20:the_space_after_the_colon_of_the_enclosing_key_comes_before_everything_a_flow_mapping_writes_anchor_included',
                   '''r is Ok && old(self).pending_space_after_colon && !old(self).at_line_start ==> ({ let t0 = old(self).out.text(); let t1 = r->Ok_0.ser.out.text();
                        t1.len() > t0.len() && t1[t0.len() as int] == ' ' })''')],
         canaries=['C20:a_flow_mapping_opens_with_its_brace_in_the_middle_of_a_line_and_expects_its_first_entry']),
    dict(src=SR, path='impl Serializer for &mut YamlSerializer/fn serialize_map', id='YamlSerializer::serialize_map#block_open', props=['C12', 'C20', 'C01'],
         impl_header="impl<'b> YamlSerializer<'b>",
         fragment=r'let inline_first = self\.pending_inline_map;.*Ok\(MapSer \{[^}]*\}\)', fragment_flags='S',
         wrapper="fn map_open_block<'a>(&'a mut self, _len: Option<usize>) -> Result<MapSer<'a, 'b>, SerError> { {FRAG} }",
         requires=[('assumed:nesting_depth_below_usize_max', '''old(self).depth < usize::MAX && (old(self).after_dash_depth is Some ==> old(self).after_dash_depth->0 < usize::MAX)
                        && (old(self).current_map_depth is Some ==> old(self).current_map_depth->0 < usize::MAX)''')],
         ensures=[('C12:a_mapping_known_to_have_entries_never_starts_on_the_line_of_the_key_it_is_the_value_of',
                   '''r is Ok && old(self).pending_space_after_colon && !old(self).pending_inline_map && (_len is Some && _len->0 > 0)
                        ==> ({ let q = r->Ok_0; q.ser.at_line_start && !q.ser.pending_space_after_colon && !q.inline_value_start })'''),
                  ('C12:a_mapping_of_unknown_size_in_value_position_breaks_the_line_at_its_first_key_or_at_once',
                   '''r is Ok && old(self).pending_space_after_colon && !old(self).pending_inline_map && _len is None
                        ==> ({ let q = r->Ok_0; q.inline_value_start || (q.ser.at_line_start && !q.ser.pending_space_after_colon) })'''),
                  ('C12:the_first_key_of_a_mapping_under_a_dash_stays_on_the_line_of_the_dash_and_later_keys_align_under_it',
                   '''r is Ok && old(self).pending_inline_map ==> ({ let q = r->Ok_0; q.align_after_dash && q.ser.inline_map_after_dash && !q.ser.pending_inline_map
                        && q.depth == (match old(self).after_dash_depth { Some(d) => d, None => old(self).depth }) + 1 })'''),
                  ('C12:keys_of_a_mapping_in_value_position_are_one_level_deeper_than_the_mapping_it_belongs_to',
                   '''r is Ok && !old(self).pending_inline_map ==> r->Ok_0.depth == (if old(self).pending_space_after_colon {
                            (match old(self).current_map_depth { Some(d) => d, None => old(self).depth }) + 1 } else { old(self).depth as int }) && !r->Ok_0.align_after_dash'''),
                  ('shape', 'r is Ok ==> !r->Ok_0.flow && r->Ok_0.first && !r->Ok_0.last_key_complex')],
         canaries=['C12:a_mapping_known_to_have_entries_never_starts_on_the_line_of_the_key_it_is_the_value_of']),
    dict(src=SR, path=_MAP + 'fn serialize_key', id='MapSer::serialize_key#flow_comma', props=['C20', 'C12', 'C01'],
         impl_header="impl<'a, 'b> MapSer<'a, 'b>",
         fragment=r'(?<=if self\.flow \{)\s*if !self\.first \{[^}]*\}', fragment_flags='S',
         wrapper='fn map_key_flow_comma(&mut self) -> Result<(), SerError> { {FRAG} Ok(()) }',
         proofs=[dict(at='start', text='reveal_strlit(", ");')],
         ensures=[('C20:entries_of_a_flow_mapping_are_separated_by_a_comma_and_a_space_and_the_first_follows_the_brace',
                   "r is Ok ==> final(self).ser.out.text() =~= (if old(self).first { old(self).ser.out.text() } else { old(self).ser.out.text().push(',').push(' ') })")],
         canaries=['C20:entries_of_a_flow_mapping_are_separated_by_a_comma_and_a_space_and_the_first_follows_the_brace']),
    dict(src=SR, path=_MAP + 'fn serialize_key', id='MapSer::serialize_key#block_before_key', props=['C12', 'C20', 'C01'],
         impl_header="impl<'a, 'b> MapSer<'a, 'b>",
         fragment=r'if self\.inline_value_start \{.*?self\.ser\.pending_inline_map = false;', fragment_flags='S',
         wrapper='fn map_key_block_before(&mut self) -> Result<(), SerError> { {FRAG} Ok(()) }',
         ensures=[('C12:the_first_key_of_a_mapping_that_waited_on_the_line_of_its_parent_key_moves_to_a_new_line',
                   '''r is Ok && old(self).inline_value_start ==> final(self).ser.at_line_start && !final(self).ser.pending_space_after_colon && !final(self).inline_value_start
                        && final(self).ser.out.text() == (if old(self).ser.at_line_start { old(self).ser.out.text() } else { old(self).ser.out.text().push('\\n') })'''),
                  ('C12:a_new_key_forgets_the_inline_hints_of_the_previous_entry', 'r is Ok ==> final(self).ser.after_dash_depth is None && !final(self).ser.pending_inline_map'),
                  ('frame', 'final(self).depth == old(self).depth && final(self).align_after_dash == old(self).align_after_dash && final(self).ser.indent_step == old(self).ser.indent_step')],
         canaries=['C12:the_first_key_of_a_mapping_that_waited_on_the_line_of_its_parent_key_moves_to_a_new_line']),
    dict(src=SR, path=_MAP + 'fn serialize_key', id='MapSer::serialize_key#block_scalar_key', props=['C12', 'C20', 'C01'],
         impl_header="impl<'a, 'b> MapSer<'a, 'b>",
         fragment=r'(?<=Ok\(text\) => \{).*?self\.last_key_complex = false;', fragment_flags='S',
         wrapper='fn map_key_block_scalar(&mut self, text: String) -> Result<(), SerError> { {FRAG} Ok(()) }',
         pre_rewrites=[(r'write_str\(&text\)', 'write_str(text.as_str())', None, 'R8')],
         loop_rewrites=[(1, 'range')],
         requires=[('indent_fits', 'old(self).ser.indent_step * old(self).depth <= usize::MAX')],
         proofs=[dict(at='start', ghost=True, text='let ghost t0 = self.ser.out.text();'),
                 dict(at='start', text='''reveal_strlit("  "); reveal_strlit(":"); assert(spaces(0) =~= Seq::<char>::empty());
                      let st = self.ser.indent_step as int; let d0 = self.depth as int; let b0 = if d0 >= 1 { d0 - 1 } else { 0int };
                      assert(st * b0 <= st * d0) by(nonlinear_arith) requires 0 <= b0 <= d0, st >= 0;'''),
                 dict(after_re=r'let _\w* = __i1; __i1 \+= 1;', text="assert(spaces(__i1 as int) =~= spaces(__i1 as int - 1).push(' '));")],
         loops={1: dict(invariant=[('spaces_so_far', '''__i1 <= __n1 && __n1 == old(self).ser.indent_step * (if old(self).depth >= 1 { old(self).depth - 1 } else { 0 })
                        && self.ser.out.text() =~= t0 + spaces(__i1 as int) && self.depth == old(self).depth && self.ser.indent_step == old(self).ser.indent_step''')],
                        decreases='__n1 - __i1')},
         ensures=[('C12:a_key_of_a_block_mapping_starts_at_the_column_of_its_mapping_and_is_followed_by_a_colon',
                   '''r is Ok && old(self).ser.at_line_start && !old(self).align_after_dash && old(self).ser.doc_started
                        ==> final(self).ser.out.text() =~= old(self).ser.out.text() + spaces(old(self).ser.indent_step * old(self).depth) + text@ + seq![':']'''),
                  ('C12:later_keys_of_a_mapping_that_started_after_a_dash_are_aligned_two_columns_right_of_that_dash',
                   '''r is Ok && old(self).ser.at_line_start && old(self).align_after_dash
                        ==> final(self).ser.out.text() =~= old(self).ser.out.text() + spaces(old(self).ser.indent_step * (if old(self).depth >= 1 { old(self).depth - 1 } else { 0 })) + seq![' ', ' '] + text@ + seq![':']'''),
                  ('C12:a_key_in_the_middle_of_a_line_is_written_where_the_line_stands',
                   'r is Ok && !old(self).ser.at_line_start ==> final(self).ser.out.text() =~= old(self).ser.out.text() + text@ + seq![\':\']'),
                  ('C12:the_space_after_the_colon_is_deferred_until_the_value_is_known',
                   'r is Ok ==> final(self).ser.pending_space_after_colon && !final(self).ser.at_line_start && !final(self).last_key_complex')],
         canaries=['C12:a_key_of_a_block_mapping_starts_at_the_column_of_its_mapping_and_is_followed_by_a_colon']),
]
ITEMS += [
    dict(src=SR, path=_MAP + 'fn serialize_value', id='MapSer::serialize_value#whole', props=['C12', 'C20', 'C01'],
         impl_header="impl<'a, 'b> MapSer<'a, 'b>",
         fragment=r'(?<=fn serialize_value<T: \?Sized \+ Serialize>\(&mut self, value: &T\) -> Result<\(\)> \{).*(?=\}\s*$)', fragment_flags='S',
         wrapper='fn map_value_whole(&mut self, value: &SerVal) -> Result<(), SerError> { {FRAG} }',
         # the generic calls `value.serialize(..)` become opaque calls that may do anything to the serializer (R8)
         pre_rewrites=[(r'self\.ser\.with_in_flow\(\|s\| value\.serialize\(s\)\)\?;', 'ser_value_in_flow(value, &mut *self.ser)?;', 1, 'R8'),
                       (r'value\.serialize\(&mut \*self\.ser\)', 'ser_value(value, &mut *self.ser)', 1, 'R8')],
         loop_rewrites=[(1, 'range')],
         requires=[('indent_fits', 'old(self).ser.indent_step * old(self).depth <= usize::MAX')],
         proofs=[dict(at='start', text='''reveal_strlit("  "); reveal_strlit(":");
                      let st = self.ser.indent_step as int; let d0 = self.depth as int; let b0 = if d0 >= 1 { d0 - 1 } else { 0int };
                      assert(st * b0 <= st * d0) by(nonlinear_arith) requires 0 <= b0 <= d0, st >= 0;'''),
                 dict(before_re=r'let result = ser_value\(value, &mut \*self\.ser\);', label='C12:while_a_value_is_written_the_serializer_knows_the_depth_of_the_mapping_the_value_belongs_to',
                      text='assert(self.ser.current_map_depth == Some(self.depth) && self.depth == old(self).depth);')],
         loops={1: dict(invariant=[('frame', '''__i1 <= __n1 && self.depth == old(self).depth && self.ser.indent_step == old(self).ser.indent_step && self.flow == old(self).flow
                        && self.last_key_complex == old(self).last_key_complex && self.ser.current_map_depth == old(self).ser.current_map_depth
                        && self.ser.pending_inline_map == old(self).ser.pending_inline_map && self.ser.depth == old(self).ser.depth
                        && saved_depth == old(self).ser.depth && saved_pending_inline_map == old(self).ser.pending_inline_map''')],
                        decreases='__n1 - __i1')},
         ensures=[('C12:after_a_value_the_layout_hints_of_the_enclosing_mapping_are_restored',
                   '''!old(self).flow ==> final(self).ser.current_map_depth == old(self).ser.current_map_depth && final(self).ser.pending_inline_map == old(self).ser.pending_inline_map
                        && (r is Ok && old(self).last_key_complex ==> final(self).ser.depth == old(self).ser.depth && !final(self).last_key_complex)'''),
                  ('C12:after_its_first_value_a_mapping_is_no_longer_empty', 'r is Ok ==> !final(self).first && final(self).depth == old(self).depth && final(self).flow == old(self).flow')],
         canaries=['C12:after_a_value_the_layout_hints_of_the_enclosing_mapping_are_restored']),
]

# ---- struct variants: a field after its key text has been computed (the generic `value.serialize(..)` is an opaque call), and the end ----
SUBST += [(r"StructVariantSer<'a, 'b, W: Write>", "StructVariantSer<'a, 'b>")]
ITEMS += [
    dict(src=SR, path='struct StructVariantSer'),
    dict(src=SR, path='impl SerializeStructVariant for StructVariantSer/fn serialize_field', id='StructVariantSer::serialize_field#after_key', props=['C12', 'C20', 'C01'],
         impl_header="impl<'a, 'b> StructVariantSer<'a, 'b>",
         fragment=r'if self\.flow \{.*(?=\}\s*$)', fragment_flags='S',
         wrapper='fn struct_variant_field_after_key(&mut self, text: String, value: &SerVal) -> Result<(), SerError> { {FRAG} }',
         pre_rewrites=[(r'write_str\(&text\)', 'write_str(text.as_str())', None, 'R8'),
                       (r'value\.serialize\(&mut \*self\.ser\)', 'ser_value(value, &mut *self.ser)', None, 'R8')],
         requires=[('indent_fits', 'old(self).ser.indent_step * old(self).depth <= usize::MAX')],
         proofs=[dict(at='start', ghost=True, text='let ghost t0 = self.ser.out.text(); let ghost first0 = self.first;'),
                 dict(at='start', text='reveal_strlit(", "); reveal_strlit(": "); reveal_strlit(":");'),
                 dict(before_re=r'return ser_value\(value, &mut \*self\.ser\);', label='C20:a_field_of_a_flow_struct_variant_is_written_as_key_colon_space_after_a_comma_unless_it_is_the_first',
                      text="assert(self.ser.out.text() =~= t0 + (if first0 { Seq::<char>::empty() } else { seq![',', ' '] }) + text@ + seq![':', ' '] && !self.first);"),
                 dict(before_re=r'let result = ser_value\(value, &mut \*self\.ser\);', label='C12:a_field_of_a_block_struct_variant_starts_at_the_column_of_the_variant_body_and_defers_the_space_after_its_colon',
                      text='''assert(old(self).ser.at_line_start && old(self).ser.doc_started ==> self.ser.out.text() =~= t0 + spaces(old(self).ser.indent_step * old(self).depth) + text@ + seq![':']);
                              assert(self.ser.pending_space_after_colon && !self.ser.at_line_start && self.ser.current_map_depth == Some(self.depth) && self.depth == old(self).depth);''')],
         ensures=[('C12:after_a_field_the_enclosing_mapping_depth_is_restored', '!old(self).flow ==> final(self).ser.current_map_depth == old(self).ser.current_map_depth')],
         canaries=['C12:after_a_field_the_enclosing_mapping_depth_is_restored']),
    dict(src=SR, path='impl SerializeStructVariant for StructVariantSer/fn end', id='StructVariantSer::end#whole', props=['C20', 'C01'],
         fragment=r'(?<=fn end\(self\) -> Result<\(\)> \{).*(?=\}\s*$)', fragment_flags='S',
         wrapper="fn struct_variant_end_whole<'b>(ser: &mut YamlSerializer<'b>, flow: bool) -> Result<(), SerError> { {FRAG} }",
         pre_rewrites=[(r'\bself\.ser\.', 'ser.', None, 'R9'), (r'\bself\.flow\b', 'flow', None, 'R9')],
         proofs=[dict(at='start', text='reveal_strlit("}}");')],
         ensures=[('C20:a_flow_struct_variant_closes_both_of_its_braces_and_a_block_one_writes_nothing_at_its_end',
                   "r is Ok ==> final(ser).out.text() =~= (if flow { old(ser).out.text().push('}').push('}') } else { old(ser).out.text() })")],
         canaries=['C20:a_flow_struct_variant_closes_both_of_its_braces_and_a_block_one_writes_nothing_at_its_end']),
]

# ---- F39: the fields of a struct variant that follows a dash start right of the variant name, for every valid indent step ----
ITEMS += [
    dict(src=SR, path='impl Serializer for &mut YamlSerializer/fn serialize_struct_variant', id='YamlSerializer::serialize_struct_variant#after_name', props=['C20', 'C12', 'C01'],
         impl_header="impl<'b> YamlSerializer<'b>",
         fragment=r'let mut depth_next = self\.depth \+ 1;.*Ok\(StructVariantSer \{[^}]*\}\)', fragment_flags='S',
         wrapper="fn struct_variant_after_name<'a>(&'a mut self) -> Result<StructVariantSer<'a, 'b>, SerError> { {FRAG} }",
         requires=[('assumed:valid_options', 'old(self).indent_step >= 1'),
                   ('assumed:nesting_depth_below_usize_max', 'old(self).depth < usize::MAX - 3 && (old(self).after_dash_depth is Some ==> old(self).after_dash_depth->0 < usize::MAX - 3)')],
         proofs=[dict(at='start', text="""if self.after_dash_depth is Some { let d = self.after_dash_depth->0 as int; let st = self.indent_step as int;
                      assert(st * (d + 2) == st * d + 2 * st) by(nonlinear_arith); assert(st * (d + 3) == st * d + 3 * st) by(nonlinear_arith); }""")],
         ensures=[('C20:fields_of_a_struct_variant_below_a_dash_start_right_of_the_variant_name_for_every_indent_step',
                   'r is Ok && old(self).after_dash_depth is Some ==> old(self).indent_step * r->Ok_0.depth > old(self).indent_step * old(self).after_dash_depth->0 + 2'),
                  ('shape', 'r is Ok ==> !r->Ok_0.flow && r->Ok_0.first && r->Ok_0.ser.after_dash_depth is None')],
         canaries=['C20:fields_of_a_struct_variant_below_a_dash_start_right_of_the_variant_name_for_every_indent_step']),
]

# ---- the WHOLE of serialize_newtype_variant (C12 "enum payload", C20 flow): `value.serialize(&mut *self)` is an opaque call that may do anything
# to the serializer; `write_plain_or_quoted` (proved in unit `quoting`) appends a token that depends on the options and the name only ----
_ALL_HINTS = '''final(self).pending_space_after_colon == old(self).pending_space_after_colon && final(self).at_line_start == old(self).at_line_start
                        && final(self).doc_started == old(self).doc_started && ''' + _LAYOUT_FRAME
ITEMS += [
    dict(src=SR, path='impl YamlSerializer/fn write_plain_or_quoted', trusted=True, props=[],
         rewrites=[(r'-> Result<\(\)>', '-> Result<(), SerError>', 1, 'R6')],
         # assumed here; in unit `quoting` the token itself is under contract (write_plain_or_quoted: C12 clauses, frame same_pos)
         ensures=[('assumed:a_token_determined_by_the_options_and_the_text_is_appended', 'r is Ok ==> final(self).out.text() == old(self).out.text() + pq_text(old(self).quote_all, old(self).yaml_12, old(self).in_flow, s@)'),
                  ('assumed:frame', _ALL_HINTS)]),
    dict(src=SR, path='impl Serializer for &mut YamlSerializer/fn serialize_newtype_variant', id='YamlSerializer::serialize_newtype_variant#whole', props=['C12', 'C20', 'C01'],
         impl_header="impl<'b> YamlSerializer<'b>",
         fragment=r'(?<=value: &T,\n    \) -> Result<\(\)> \{).*(?=\}\s*$)', fragment_flags='S',
         wrapper="fn newtype_variant_whole(&mut self, variant: &'static str, value: &SerVal) -> Result<(), SerError> { {FRAG} }",
         pre_rewrites=[(r'value\.serialize\(&mut \*self\)', 'ser_value(value, self)', None, 'R8'),
                       (r'scalar_key_to_string\(variant, self\.yaml_12\)\?', 'key_text_of(variant, self.yaml_12)?', None, 'R8'),
                       (r'write_str\(&name\)', 'write_str(name.as_str())', None, 'R8')],
         requires=[('assumed:nesting_depth_below_usize_max', '''old(self).depth < usize::MAX - 1 && (old(self).after_dash_depth is Some ==> old(self).after_dash_depth->0 < usize::MAX - 1)
                        && (old(self).current_map_depth is Some ==> old(self).current_map_depth->0 < usize::MAX - 1)'''),
                   ('indent_fits', '''old(self).indent_step * (old(self).depth + 1) <= usize::MAX
                        && (old(self).current_map_depth is Some ==> old(self).indent_step * (old(self).current_map_depth->0 + 1) <= usize::MAX)''')],
         proofs=[dict(at='start', ghost=True, text='let ghost t0 = self.out.text(); let ghost pq = pq_text(self.quote_all, self.yaml_12, self.in_flow, variant@);'),
                 dict(at='start', text='''reveal_strlit("{"); reveal_strlit("}"); reveal_strlit(": "); reveal_strlit(":");
                      let st = self.indent_step as int; let d0 = self.depth as int; assert(st * d0 <= st * (d0 + 1)) by(nonlinear_arith) requires st >= 0, d0 >= 0;'''),
                 dict(before_re=r'ser_value\(value, self\)\?;', label='C20:a_newtype_variant_inside_a_flow_collection_is_a_flow_mapping_of_one_entry_brace_name_by_the_key_rules_colon_space',
                      text="assert(self.out.text() =~= (if old(self).pending_space_after_colon { t0.push(' ') } else { t0 }).push('{') + key_text(variant@, old(self).yaml_12) + seq![':', ' ']);"),
                 dict(after_re=r'ser_value\(value, self\)\?;', ghost=True, text='let ghost t_mid = self.out.text();'),
                 dict(before_re=r'return Ok\(\(\)\);', label='C20:the_flow_mapping_of_a_newtype_variant_is_closed_right_after_its_value',
                      text="assert(self.out.text() =~= t_mid.push('}'));"),
                 dict(before_re=r'let res = ser_value\(value, self\);', nth=1, label='C12:a_variant_name_in_value_position_starts_a_line_of_its_own_one_level_below_the_mapping_it_belongs_to',
                      text='''assert(old(self).doc_started ==> self.out.text() =~= t0.push('\\n') + spaces(old(self).indent_step * ((match old(self).current_map_depth { Some(d) => d, None => old(self).depth }) + 1)) + pq + seq![':']);
                              assert(self.pending_space_after_colon && !self.at_line_start && !self.pending_inline_map
                                     && self.current_map_depth == Some(((match old(self).current_map_depth { Some(d) => d, None => old(self).depth }) + 1) as usize));'''),
                 dict(before_re=r'let res = ser_value\(value, self\);', nth=2, label='C12:the_payload_of_a_variant_below_a_dash_is_laid_out_below_the_variant_name_not_below_the_dash',
                      text='''assert(self.pending_space_after_colon && !self.at_line_start && !self.pending_inline_map && self.after_dash_depth is None
                                     && self.current_map_depth == Some((old(self).after_dash_depth->0 + 1) as usize));
                              assert(!old(self).at_line_start ==> self.out.text() =~= t0 + pq + seq![':']);''')],
         ensures=[('C12:after_the_payload_the_mapping_depth_of_the_enclosing_node_is_restored',
                   'old(self).in_flow == 0 && (old(self).pending_space_after_colon || old(self).after_dash_depth is Some) ==> final(self).current_map_depth == old(self).current_map_depth')],
         canaries=['C12:after_the_payload_the_mapping_depth_of_the_enclosing_node_is_restored']),
]

# ---- the WHOLE of serialize_struct_variant over the real StructVariantSer (F33 flow form, value position, below a dash / top level) ----
ITEMS += [
    dict(src=SR, path='impl Serializer for &mut YamlSerializer/fn serialize_struct_variant', id='YamlSerializer::serialize_struct_variant#whole', props=['C12', 'C20', 'C01'],
         impl_header="impl<'b> YamlSerializer<'b>",
         fragment=r'(?<=_len: usize,\n    \) -> Result<Self::SerializeStructVariant> \{).*(?=\}\s*$)', fragment_flags='S',
         wrapper="fn struct_variant_whole<'a>(&'a mut self, variant: &'static str, _len: usize) -> Result<StructVariantSer<'a, 'b>, SerError> { {FRAG} }",
         pre_rewrites=[(r'scalar_key_to_string\(variant, self\.yaml_12\)\?', 'key_text_of(variant, self.yaml_12)?', None, 'R8'),
                       (r'write_str\(&name\)', 'write_str(name.as_str())', None, 'R8')],
         requires=[('assumed:valid_options', 'old(self).indent_step >= 1'),
                   ('assumed:nesting_depth_below_usize_max', '''old(self).depth < usize::MAX - 3 && (old(self).after_dash_depth is Some ==> old(self).after_dash_depth->0 < usize::MAX - 3)
                        && (old(self).current_map_depth is Some ==> old(self).current_map_depth->0 < usize::MAX - 3)'''),
                   ('indent_fits', '''old(self).indent_step * (old(self).depth + 1) <= usize::MAX
                        && (old(self).current_map_depth is Some ==> old(self).indent_step * (old(self).current_map_depth->0 + 1) <= usize::MAX)''')],
         proofs=[dict(at='start', ghost=True, text='let ghost t0 = self.out.text(); let ghost pq = pq_text(self.quote_all, self.yaml_12, self.in_flow, variant@);'),
                 dict(at='start', text='''reveal_strlit("{"); reveal_strlit(": {"); reveal_strlit(":\\n");
                      let st = self.indent_step as int; let d0 = self.depth as int; assert(st * d0 <= st * (d0 + 1)) by(nonlinear_arith) requires st >= 0, d0 >= 0;''')],
         ensures=[('C20:a_struct_variant_inside_a_flow_collection_opens_a_flow_mapping_named_by_the_key_rules_whose_one_value_is_a_flow_mapping',
                   '''r is Ok && old(self).in_flow > 0 ==> ({ let q = r->Ok_0; q.flow && q.first
                        && q.ser.out.text() =~= (if old(self).pending_space_after_colon { t0_of(old(self)).push(' ') } else { t0_of(old(self)) }).push('{') + key_text(variant@, old(self).yaml_12) + seq![':', ' ', '{'] })'''),
                  ('C12:a_struct_variant_in_value_position_starts_a_line_of_its_own_and_its_fields_are_one_level_deeper_than_its_name',
                   '''r is Ok && old(self).in_flow == 0 && old(self).pending_space_after_colon ==> ({ let q = r->Ok_0; let cm = (match old(self).current_map_depth { Some(d) => d, None => old(self).depth });
                        !q.flow && q.first && q.depth == cm + 2 && q.ser.at_line_start && !q.ser.pending_space_after_colon
                        && (old(self).doc_started ==> q.ser.out.text() =~= t0_of(old(self)).push('\\n') + spaces(old(self).indent_step * (cm + 1)) + pq_of(old(self), variant@) + seq![':', '\\n']) })'''),
                  ('C12:at_the_top_level_the_fields_are_one_level_deeper_than_the_variant_name',
                   '''r is Ok && old(self).in_flow == 0 && !old(self).pending_space_after_colon && old(self).after_dash_depth is None
                        ==> r->Ok_0.depth == old(self).depth + 1 && r->Ok_0.ser.at_line_start && !r->Ok_0.flow''')],
         canaries=['C12:a_struct_variant_in_value_position_starts_a_line_of_its_own_and_its_fields_are_one_level_deeper_than_its_name']),
]

# ---- tuple variants: each field (whole body, `value.serialize(..)` opaque) and the end, over the real TupleVariantSer ----
SUBST += [(r"TupleVariantSer<'a, 'b, W: Write>", "TupleVariantSer<'a, 'b>")]
ITEMS += [
    dict(src=SR, path='struct TupleVariantSer'),
    dict(src=SR, path='impl SerializeTupleVariant for TupleVariantSer/fn serialize_field', id='TupleVariantSer::serialize_field#whole', props=['C12', 'C20', 'C01'],
         impl_header="impl<'a, 'b> TupleVariantSer<'a, 'b>",
         fragment=r'(?<=fn serialize_field<T: \?Sized \+ Serialize>\(&mut self, value: &T\) -> Result<\(\)> \{).*(?=\}\s*$)', fragment_flags='S',
         wrapper='fn tuple_variant_field_whole(&mut self, value: &SerVal) -> Result<(), SerError> { {FRAG} }',
         pre_rewrites=[(r'value\.serialize\(&mut \*self\.ser\)', 'ser_value(value, &mut *self.ser)', None, 'R8')],
         requires=[('indent_fits', 'old(self).ser.indent_step * old(self).depth <= usize::MAX')],
         proofs=[dict(at='start', ghost=True, text='let ghost t0 = self.ser.out.text(); let ghost first0 = self.first;'),
                 dict(at='start', text='reveal_strlit(", "); reveal_strlit("- ");'),
                 dict(before_re=r'return ser_value\(value, &mut \*self\.ser\);', label='C20:fields_of_a_flow_tuple_variant_are_separated_by_a_comma_and_a_space_and_the_first_follows_the_bracket',
                      text="assert(self.ser.out.text() =~= (if first0 { t0 } else { t0.push(',').push(' ') }) && !self.first);"),
                 dict(before_re=r'ser_value\(value, &mut \*self\.ser\)\s*\}', label='C12:every_field_of_a_block_tuple_variant_gets_its_dash_at_the_depth_of_the_variant_body_and_continues_on_that_line',
                      text='''assert(old(self).ser.at_line_start && old(self).ser.doc_started ==> self.ser.out.text() =~= t0 + spaces(old(self).ser.indent_step * old(self).depth) + seq!['-', ' ']);
                              assert(!self.ser.at_line_start && self.ser.after_dash_depth == Some(self.depth) && self.ser.pending_inline_map && self.depth == old(self).depth);''')],
         ensures=[('the_result_of_the_value_is_passed_on', 'true')]),
    dict(src=SR, path='impl SerializeTupleVariant for TupleVariantSer/fn end', id='TupleVariantSer::end#whole', props=['C20', 'C12', 'C01'],
         fragment=r'(?<=fn end\(self\) -> Result<\(\)> \{).*(?=\}\s*$)', fragment_flags='S',
         wrapper="fn tuple_variant_end_whole<'b>(ser: &mut YamlSerializer<'b>, flow: bool) -> Result<(), SerError> { {FRAG} }",
         pre_rewrites=[(r'\bself\.ser\.', 'ser.', None, 'R9'), (r'\bself\.flow\b', 'flow', None, 'R9')],
         proofs=[dict(at='start', text='reveal_strlit("]}");')],
         ensures=[('C20:a_flow_tuple_variant_closes_its_bracket_and_its_brace_and_a_block_one_writes_nothing_at_its_end',
                   "r is Ok ==> final(ser).out.text() =~= (if flow { old(ser).out.text().push(']').push('}') } else { old(ser).out.text() })"),
                  ('C12:after_a_block_tuple_variant_no_dash_hint_is_left_for_the_next_sibling',
                   'r is Ok && !flow ==> final(ser).last_value_was_block && !final(ser).pending_inline_map && final(ser).after_dash_depth is None && !final(ser).inline_map_after_dash')],
         canaries=['C20:a_flow_tuple_variant_closes_its_bracket_and_its_brace_and_a_block_one_writes_nothing_at_its_end']),
]

# ---- the Commented wrapper (C20): the arm of TupleSer::serialize_field that stages the comment around the value.  The sanitising statement itself
# is under contract in unit `quoting` (TupleSer::serialize_field#stage_comment, proved + bounded harness); here its result is assumed break-free. ----
ITEMS += [
    dict(src=SR, path='impl SerializeTupleStruct for TupleSer/fn serialize_field', id='TupleSer::serialize_field#commented_value', props=['C20', 'C01'],
         impl_header="impl<'a, 'b> TupleSer<'a, 'b>",
         fragment=r'let comment = self\.comment_text\.take\(\)\.unwrap_or_default\(\);\s*if self\.ser\.in_flow == 0 \{.*?\} else \{.*?\}', fragment_flags='S',
         wrapper='fn commented_value(&mut self, value: &SerVal) -> Result<(), SerError> { {FRAG} Ok(()) }',
         pre_rewrites=[(r'self\.comment_text\.take\(\)\.unwrap_or_default\(\)', 'take_comment(&mut self.comment_text)', 1, 'R8'),
                       (r'!comment\.is_empty\(\)', '!string_is_empty(&comment)', 1, 'R8'),
                       (r"comment\.replace\(\[[^\]]*\], \" \"\)", 'sanitize_comment(&comment)', 1, 'R8'),
                       (r'value\.serialize\(&mut \*self\.ser\)', 'ser_value(value, &mut *self.ser)', None, 'R8')],
         proofs=[dict(before_re=r'ser_value\(value, &mut \*self\.ser\)\?;', nth=1, label='C20:a_comment_is_staged_for_the_value_only_after_every_line_break_in_it_has_been_neutralised',
                      text='assert(self.ser.pending_inline_comment is Some ==> break_free(self.ser.pending_inline_comment->0@));'),
                 dict(before_re=r'ser_value\(value, &mut \*self\.ser\)\?;', nth=2, label='C20:inside_a_flow_collection_no_comment_is_staged',
                      text='assert(self.ser.pending_inline_comment == old(self).ser.pending_inline_comment);')],
         requires=[('nothing_staged_before', 'old(self).ser.pending_inline_comment is None')],
         ensures=[('C20:a_staged_comment_never_outlives_the_value_it_belongs_to', 'r is Ok && old(self).ser.in_flow == 0 ==> final(self).ser.pending_inline_comment is None')],
         canaries=['C20:a_staged_comment_never_outlives_the_value_it_belongs_to']),
]

# ---- F42: the null written for a dangling weak reference (TupleSer, AnchorWeak kind, field 1) ----
ITEMS += [
    dict(src=SR, path='impl SerializeTupleStruct for TupleSer/fn serialize_field', id='TupleSer::serialize_field#dangling_weak_null', props=['C12', 'C01'],
         impl_header="impl<'a, 'b> TupleSer<'a, 'b>",
         fragment=r'(?<=if !self\.weak_present \{).*?self\.skip_third = true;', fragment_flags='S',
         wrapper='fn dangling_weak_null(&mut self) -> Result<(), SerError> { {FRAG} Ok(()) }',
         requires=[('indent_fits', 'old(self).ser.indent_step * old(self).ser.depth <= usize::MAX')],
         proofs=[dict(at='start', ghost=True, text='let ghost t0 = self.ser.out.text();'),
                 dict(at='start', text='reveal_strlit("null");'),
                 dict(before_re=r'self\.ser\.write_end_of_scalar\(\)\?;', label='C12:the_null_of_a_dangling_weak_reference_in_value_position_is_separated_from_the_colon_by_a_space',
                      text='''assert(!old(self).ser.at_line_start ==> self.ser.out.text() =~= (if old(self).ser.pending_space_after_colon { t0.push(' ') } else { t0 }) + null_word());
                              assert(!self.ser.pending_space_after_colon);''')],
         ensures=[('the_value_field_is_skipped', 'r is Ok ==> final(self).skip_third')]),
]
