// ===== assumed contracts specific to unit `live` =====

// The underlying saphyr-parser event pump (both input kinds), opaque.  Its ghost view is the
// finite sequence of raw items it will still yield (the parser contract of DESIGN.md 3.3).
#[verifier::external_body]
#[verifier::reject_recursive_types_in_ground_variants]
pub struct SaphyrParser<'a> { _p: std::marker::PhantomData<&'a ()> }

// fn-pointer and Rc<RefCell<dyn FnMut>> report callbacks, opaque
#[verifier::external_body]
#[derive(Clone, Copy)]
pub struct ReportFn { _p: () }
#[verifier::external_body]
pub struct ReportCb { _p: () }

// user callbacks: arbitrary code, but they only receive the report (by reference / by value)
#[verifier::external_body]
fn report_fn_call(f: ReportFn, report: &BudgetReport) { unimplemented!() }
#[verifier::external_body]
fn report_cb_call(f: &ReportCb, report: BudgetReport) { unimplemented!() }

// derived Clone of Option<BudgetBreach>
#[verifier::external_body]
fn clone_breach(b: &Option<BudgetBreach>) -> (r: Option<BudgetBreach>)
    ensures r == *b,
{ unimplemented!() }

// Rc<RefCell<Option<io::Error>>> shared with the char iterator (its only writer, hidden inside the
// parser).  Interior mutability is made explicit (rule R28): `take` needs `&mut self` here, which every
// caller has.  The hidden writer is modelled in `next_impl`'s contract: pumping the parser may FILL an
// empty cell, nothing but `take` empties it.
#[verifier::external_body]
pub struct ErrCell { inner: std::rc::Rc<std::cell::RefCell<Option<std::io::Error>>> }

impl ErrCell {
    pub uninterp spec fn content(&self) -> Option<IoError>;

    #[verifier::external_body]
    pub fn take(&mut self) -> (r: Option<IoError>)
        ensures r == old(self).content(), final(self).content() is None,
    { unimplemented!() }
}

// derived `Clone` of Ev (assumed lawful)
#[verifier::external_body]
fn ev_clone<'a>(e: &Ev<'a>) -> (r: Ev<'a>)
    ensures r == *e,
{ e.clone() }

// `Vec::resize_with(n, || None)` growing only (call site guarantees n > len)
#[verifier::external_body]
fn vec_resize_none<'a>(v: &mut Vec<Option<Box<[Ev<'a>]>>>, n: usize)
    ensures
        final(v)@.len() == n,
        forall|j: int| 0 <= j < old(v)@.len() && j < n ==> final(v)@[j] == old(v)@[j],
        forall|j: int| old(v)@.len() <= j < n ==> final(v)@[j] is None,
{ v.resize_with(n, || None) }

// `SmallVec::into_vec().into_boxed_slice()`: same elements
#[verifier::external_body]
fn vec_into_boxed<'a>(v: Vec<Ev<'a>>) -> (r: Box<[Ev<'a>]>)
    ensures r@ == v@,
{ v.into_boxed_slice() }

// saphyr-parser's ScanError, opaque
#[verifier::external_body]
pub struct ScanError { _p: () }

impl<'a> SaphyrParser<'a> {
    /// ghost view: the raw items the parser will still yield (finite: the parser terminates)
    pub uninterp spec fn pending(&self) -> Seq<Result<(Event<'a>, ParserSpan), ScanError>>;

    // SaphyrParser::next dispatches to saphyr_parser::Parser::next for either input kind
    #[verifier::external_body]
    fn next(&mut self) -> (r: Option<Result<(Event<'a>, ParserSpan), ScanError>>)
        ensures match r {
            Some(x) => old(self).pending().len() > 0 && x == old(self).pending()[0] && final(self).pending() == old(self).pending().skip(1),
            None => old(self).pending().len() == 0 && final(self).pending() == old(self).pending(),
        },
    { unimplemented!() }
}

// Error::from_scan_error (message formatting); only the kind matters here
#[verifier::external_body]
fn error_from_scan_error(e: ScanError) -> (r: Error)
    ensures !(r is IOError) && !(r is Budget),
{ unimplemented!() }

// `Cow::Borrowed(&**value)`: a borrowed view of the same text
#[verifier::external_body]
fn cowstr_borrow<'b, 'a>(v: &'b CowStr<'a>) -> (r: CowStr<'b>)
    ensures r@ == v@, r.byte_len() == v.byte_len(),
{ CowStr { inner: std::borrow::Cow::Borrowed(v.inner.as_ref()) } }

// ---- call-site shims used by next_impl ----

// `Error::from_scan_error` as a map_err argument
// (declared above as error_from_scan_error)

// `SfTag::from_optional_cow(&tag)`: table lookup in a lazily built BTreeMap
#[verifier::external_body]
fn sftag_from_optional_cow(tag: &Option<CowTag<'_>>) -> (r: SfTag)
    ensures (tag is None) == (r is None),
{ unimplemented!() }

// `tag.as_ref().map(|t| Cow::Owned(t.to_string()))`
#[verifier::external_body]
fn raw_tag_of<'a>(tag: &Option<CowTag<'_>>) -> (r: Option<CowStr<'a>>)
    ensures (tag is None) == (r is None),
{ unimplemented!() }

// `!val.trim().is_empty()`
#[verifier::external_body]
fn cowstr_trim_is_empty(v: &CowStr<'_>) -> (r: bool)
    ensures v@.len() == 0 ==> r,
{ unimplemented!() }

// `String::new().into()`
#[verifier::external_body]
fn cowstr_empty<'a>() -> (r: CowStr<'a>)
    ensures r@.len() == 0, r.byte_len() == 0,
{ unimplemented!() }

// `Vec::resize(n, 0)` growing only
#[verifier::external_body]
fn vec_resize_zero(v: &mut Vec<usize>, n: usize)
    requires n >= old(v)@.len(),
    ensures
        final(v)@.len() == n,
        forall|j: int| 0 <= j < old(v)@.len() ==> final(v)@[j] == old(v)@[j],
        forall|j: int| old(v)@.len() <= j < n ==> final(v)@[j] == 0,
{ unimplemented!() }

// `self.rec_stack.iter().any(|frame| frame.id == anchor_id)`
#[verifier::external_body]
fn any_frame_id(fs: &Vec<RecFrame<'_>>, id: usize) -> (r: bool)
    ensures r == exists|j: int| 0 <= j < fs@.len() && (#[trigger] fs@[j]).id == id,
{ unimplemented!() }

// `crate::anchor_store::recursive_anchor_in_progress(id)`: thread-local state of the anchor store (C14), opaque
#[verifier::external_body]
fn recursive_anchor_in_progress(id: usize) -> bool { unimplemented!() }

// `Error::multiple_documents(hint)`
#[verifier::external_body]
fn error_multiple_documents(hint: &'static str) -> (r: Error)
    ensures r is MultipleDocuments,
{ unimplemented!() }

// the snippet-attaching wrappers used by the entry points of src/lib.rs (local closures / helper); opaque: they only decorate the error
/// where a "multiple documents" error says the next document starts, also when a snippet has been wrapped around it
uninterp spec fn wrapped_multi_doc_loc(e: Error) -> Option<Location>;
spec fn multi_doc_loc(e: Error) -> Option<Location> {
    if e is MultipleDocuments { Some(e->MultipleDocuments_location) } else { wrapped_multi_doc_loc(e) }
}
#[verifier::external_body] fn attach_snippet(e: Error) -> (r: Error) ensures multi_doc_loc(r) == multi_doc_loc(e), { unimplemented!() }
#[verifier::external_body] fn maybe_with_snippet(e: Error, input: &str, with_snippet: bool, crop_radius: usize) -> (r: Error) ensures multi_doc_loc(r) == multi_doc_loc(e), { unimplemented!() }

// ---- the document iterator of read_with_options (src/lib.rs ReadIter): the target type is opaque ----
#[verifier::external_body] pub struct DocVal { _p: () }       // stands for `T`
/// `with_document_scope(|| T::deserialize(YamlDeserializer::new(&mut src, cfg)))`: drives the event source through the
/// Events interface only; what it consumes and returns is unknown here
#[verifier::external_body]
fn deserialize_document<'a>(src: &mut LiveEvents<'a>, cfg: Cfg) -> (r: Result<DocVal, Error>)
    ensures spans_ok(old(src).parser.pending()) ==> spans_ok(final(src).parser.pending()),
        (old(src).budget is Some ==> old(src).budget.unwrap().per_doc()) ==> (final(src).budget is Some ==> final(src).budget.unwrap().per_doc()),
{ unimplemented!() }

/// `src.skip_to_next_document()` as called by the iterator.  The function itself is verified in this unit under two
/// preconditions that are facts about the environment (well-formed parser spans) and about how `read_with_options`
/// builds the source (per-document enforcement); they are NOT re-checked at this call site.
#[verifier::external_body]
fn iter_skip_to_next_document<'a>(src: &mut LiveEvents<'a>) -> (r: bool)
    ensures final(src).look is None,
{ unimplemented!() }

/// what `scalar_is_nullish(text, style)` returns (proved in unit typed: plain style and the text is empty, `~` or `null` in any case)
pub uninterp spec fn live_nullish(text: Seq<char>, style: ScalarStyle) -> bool;

// ---- construction sites of the event source (C09) ----
/// the user's `R: std::io::Read` (or the ring-buffer handle around it), opaque
#[verifier::external_body]
pub struct ByteReader { _p: () }
/// saphyr-parser's `Parser<BufferedInput<ChunkedChars<..>>>`, opaque
#[verifier::external_body]
pub struct StreamParser<'a> { _p: std::marker::PhantomData<&'a ()> }
/// `SaphyrParser::StreamParser(parser)`
#[verifier::external_body]
fn saphyr_stream_parser<'a>(parser: StreamParser<'a>) -> SaphyrParser<'a> { unimplemented!() }
/// `SaphyrParser::StringParser(Parser::new_from_str(input))`
#[verifier::external_body]
fn saphyr_string_parser<'a>(input: &'a str) -> SaphyrParser<'a> { unimplemented!() }
/// `Rc::new(RefCell::new(None))`
#[verifier::external_body]
fn err_cell_new_empty() -> (r: ErrCell) ensures r.content() is None, { unimplemented!() }

// ---- F30: where the recent-bytes ring sits relative to the decoder (from_reader_with_options) ----
impl ByteReader {
    /// does this reader deliver the UTF-8 text that the parser's locations refer to (encoding sniffed and transcoded, byte order
    /// mark removed)?  Unknown for the user's reader; true behind encoding_rs_io's decoder with sniffing on and no forced encoding
    pub uninterp spec fn yields_decoded_text(&self) -> bool;
}
/// encoding_rs_io::DecodeReaderBytesBuilder as far as this site uses it (assumed, from its documentation; the full builder
/// contract is in contracts/reader.shim.rs)
pub struct DecoderBuilder { pub ghost forced: bool }
impl DecoderBuilder {
    #[verifier::external_body]
    pub fn new() -> (r: DecoderBuilder) ensures !r.forced, { unimplemented!() }
    /// `.encoding(None)`: sniff the byte order mark
    #[verifier::external_body]
    pub fn encoding_none(self) -> (r: DecoderBuilder) ensures !r.forced, { unimplemented!() }
    /// the built decoder is itself a reader; decoding text that is already UTF-8 without a mark changes nothing
    #[verifier::external_body]
    pub fn build(self, reader: ByteReader) -> (r: ByteReader) ensures r.yields_decoded_text() == (!self.forced || reader.yields_decoded_text()), { unimplemented!() }
}
/// `ring_reader::SharedRingReader<R>`: what it holds is what its inner reader delivers (unit `ring`: the window is the last
/// bytes read from the source)
#[verifier::external_body]
pub struct SharedRing { _p: () }
impl SharedRing { pub uninterp spec fn holds_decoded_text(&self) -> bool; }
#[verifier::external_body]
fn shared_ring_new(reader: ByteReader) -> (r: SharedRing) ensures r.holds_decoded_text() == reader.yields_decoded_text(), { unimplemented!() }
/// `SharedRingReaderHandle::new(&shared)`: a reader that delegates to the ring reader, which is transparent (unit `ring`, C09 clauses of `read`)
#[verifier::external_body]
fn shared_ring_handle(shared: &SharedRing) -> (r: ByteReader) ensures r.yields_decoded_text() == shared.holds_decoded_text(), { unimplemented!() }

// ---- validating document iterators (features garde / validator): the parts that do not touch the event source ----
#[verifier::external_body] pub struct PathRec { _p: () }
#[verifier::external_body] pub struct ValidationReport { _p: () }
#[verifier::external_body]
fn path_recorder_new() -> PathRec { unimplemented!() }
/// `Validate::validate(&value)` / `ValidatorValidate::validate(&value)`
#[verifier::external_body]
fn validate_document(v: &DocVal) -> Result<(), ValidationReport> { unimplemented!() }
/// `Error::ValidationError { report, locations: recorder.map }` / `Error::ValidatorError { errors, locations: recorder.map }`
#[verifier::external_body]
fn validation_error(report: ValidationReport, recorder: PathRec) -> (r: Error) ensures !(r is IOError), { unimplemented!() }
/// `Cow::Borrowed("literal")` (no such call exists in the pinned tree; a change may introduce one)
#[verifier::external_body]
fn cowstr_of_literal<'b>(s: &'static str) -> (r: CowStr<'b>)
    ensures r@ == s@, r.byte_len() == s.spec_bytes().len(),
{ unimplemented!() }
/// `raw_tag.as_ref().map(|_| Cow::Owned(Tag { .. }))`: a marker tag for a replayed scalar that was tagged (F47)
#[verifier::external_body]
fn replay_tag_marker<'a, 'b>(raw_tag: &Option<CowStr<'a>>) -> (r: Option<CowTag<'b>>)
    ensures (r is Some) == (*raw_tag is Some),
{ unimplemented!() }
