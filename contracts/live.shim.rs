// ===== assumed contracts specific to unit `live` =====

// The underlying saphyr-parser event pump (both input kinds), opaque.  Its ghost view is the
// finite sequence of raw items it will still yield (the parser contract of DESIGN.md 3.3).
#[verifier::external_body]
#[verifier::reject_recursive_types_in_ground_variants]
pub struct SaphyrParser<'a> { _p: std::marker::PhantomData<&'a ()> }

// fn-pointer and Rc<RefCell<dyn FnMut>> report callbacks, opaque
#[verifier::external_body]
pub struct ReportFn { _p: () }
#[verifier::external_body]
pub struct ReportCb { _p: () }

// Rc<RefCell<Option<io::Error>>> shared with the char iterator.  `content()` is what a read of the
// cell at the beginning of the current call yields (interior mutability is outside Verus: the model
// is only used for "checked once at the start of next/peek/finish").
#[verifier::external_body]
pub struct ErrCell { inner: std::rc::Rc<std::cell::RefCell<Option<std::io::Error>>> }

impl ErrCell {
    pub uninterp spec fn content(&self) -> Option<IoError>;

    #[verifier::external_body]
    pub fn take(&self) -> (r: Option<IoError>)
        ensures r == self.content(),
    { self.inner.take().map(|e| IoError { inner: e }) }
}

// derived `Clone` of Ev (assumed lawful)
#[verifier::external_body]
fn ev_clone<'a>(e: &Ev<'a>) -> (r: Ev<'a>)
    ensures r == *e,
{ e.clone() }

// `Vec::resize_with(n, || None)` growing only (call site guarantees n > len)
#[verifier::external_body]
fn vec_resize_none<'a>(v: &mut Vec<Option<Box<[Ev<'a>]>>>, n: usize)
    ensures
        final(v)@.len() == n,
        forall|j: int| 0 <= j < old(v)@.len() && j < n ==> final(v)@[j] == old(v)@[j],
        forall|j: int| old(v)@.len() <= j < n ==> final(v)@[j] is None,
{ v.resize_with(n, || None) }

// `SmallVec::into_vec().into_boxed_slice()`: same elements
#[verifier::external_body]
fn vec_into_boxed<'a>(v: Vec<Ev<'a>>) -> (r: Box<[Ev<'a>]>)
    ensures r@ == v@,
{ v.into_boxed_slice() }
