"""Which units exist, and what each claimed property covers / does not cover (copied into evidence)."""
UNITS = ['budget']

GLOBAL_ASSUMPTIONS = [
    'Verus 0.2026.09.13 and its bundled Z3 are sound; the extractor rewrite rules R0..R17 preserve meaning (DESIGN.md 3.2)',
    'assumed contracts (external_body / assume_specification / axioms) listed in coverage.trusted_base',
    'derived Hash/Eq/Clone impls are lawful; SmallVec behaves as Vec and ahash sets as HashSet for the methods used',
    'no unsafe code in the crate (#![forbid(unsafe_code)], checked by rustc)',
]

PROPS = {
    'C07': dict(
        covered=[
            'BudgetEnforcer::observe: one step over all enforcer states and all events equals the independent count '
            'abs_step (events, nodes, aliases, distinct anchors, scalar bytes, merge keys in key position, depth '
            'high-water mark, documents); Ok iff every counted quantity is within its limit and the structure is '
            'balanced; Err names a quantity that really exceeds its limit, with its value',
            'per-document enforcement: a document start restores the fresh state from ANY prior state',
            'finalize: the documented alias/anchor ratio rule, exactly, without overflow',
        ],
        not_covered=[
            'that saphyr-parser produces the event stream the YAML text denotes',
            'report callbacks (Options::with_budget_report) being invoked',
        ],
        assumptions=['history shorter than 2^64 events (counter room is a stated precondition of observe)'],
    ),
    'C01': dict(
        covered=['absence of arithmetic overflow, out-of-range indexing, unwrap-on-None and reachable unreachable!() '
                 'and termination of every loop, for every function under contract (Verus implicit obligations)'],
        not_covered=['entry points as wholes; saphyr-parser; serde-generated visitors; stack exhaustion; allocation failure'],
        assumptions=[],
    ),
    'C08': dict(covered=['budget counters bound the number of observed events/nodes (BudgetEnforcer::observe accept_only_within_limits)'],
                not_covered=['heap bytes (no allocator model)'], assumptions=[]),
}
