"""Which units exist, and what each claimed property covers / does not cover (copied into evidence)."""
UNITS = ['budget', 'scalars', 'events', 'location', 'live', 'reader', 'snippet', 'ring', 'seropts', 'quoting', 'typed', 'base64', 'crop', 'robotics', 'plain']

GLOBAL_ASSUMPTIONS = [
    'Verus 0.2026.09.13 and its bundled Z3 are sound; the extractor rewrite rules R0..R37 preserve meaning; the bounded stand-in (vc/bounded.py) is only ever used to FIND failing inputs for functions Verus cannot take and is never counted as proof (DESIGN.md 3.2 and section 0)',
    'assumed contracts (external_body / assume_specification / axioms) listed in coverage.trusted_base',
    'derived Hash/Eq/Clone impls are lawful; SmallVec behaves as Vec and ahash sets as HashSet for the methods used',
    'no unsafe code in the crate (#![forbid(unsafe_code)], checked by rustc)',
]

PROPS = {
    'C19': dict(
        covered=[
            'the whole expression evaluator of src/robotics.rs (feature robotics; text extracted with the feature on): Parser::new, eof, peek, bump, is_ws, skip_ws, enter, exit, expr, term, unary, primary, parse_number_or_special, parse_ident_or_special, starts_ci, try_parse_sexagesimal, read_uint_unders_to_f64/u32, read_frac_part_unders, is_ident_start/cont and parse_yaml12_float_angle_converting::<f64>/<f32>',
            'totality for every text: no reachable panic (index, str slice on a char boundary, overflow, debug assertions), every loop terminates and the mutual recursion expr -> term -> unary -> primary -> expr terminates (measure: remaining input, then rank)',
            'nesting: depth is counted by enter/exit, never exceeds MAX_EXPR_DEPTH and is restored by every function on Ok and on Err',
            'cursor discipline: the cursor only moves forward, never past the end; a text that is not sexagesimal leaves it untouched',
            'number tokens: an integer field is exactly its digits (single `_` only between digits), value folded digit by digit; a fraction uses its first 18 digits; a number literal is handed to f64::from_str as exactly its characters minus `_` separators; `.inf` / `.nan` case-insensitively; at most MAX_NUM_DIGITS digits',
            'unit flags: a sexagesimal value always carries a unit; at the top a Degrees tag converts a unitless value exactly once and a Degrees tag on an expression mixing unitised and plain terms is rejected',
            'standard precedence: a relational REFERENCE SEMANTICS of the expression language is written as spec functions (contracts/robotics.spec.rs: expr = term ((+|-) term)*, term = unary ((*|/) unary)*, both left-associative, unary = sign* primary, primary = (expr) | number | pi | tau | inf | nan | deg(expr) | rad(expr), blanks skipped where the grammar allows) and expr / term / unary / primary / parse_ident_or_special are proved to return exactly a value the reference relates to the text they consumed; the top-level entry returns the reference value of the WHOLE text with the tag applied once (deg() converts once, rad() not at all, tau = 2*pi, nesting depth counted)',
        ],
        not_covered=[
            'IEEE-754 arithmetic itself: + - * / neg, casts and f64::from_str are uninterpreted functions here, so exactness of the numeric result is relative to them',
            'the value formulas of sexagesimal literals (hh:mm:ss vs degrees) are only constrained to carry a unit; completeness (every text the reference accepts is accepted) is not stated, only soundness of accepted results',
            'that ordinary float literals evaluate to the same value with the option on and off (needs f64::from_str semantics); the dispatch in parse_scalars::parse_yaml12_float; the deserialize_f32/f64 entry points',
        ],
        assumptions=['float operations, casts and f64::from_str are opaque (contracts/robotics.shim.rs)',
                     'the optional feature is not built by the baseline suite; the text is extracted with cfg(feature = "robotics") evaluated to true'],
    ),
    'C07': dict(
        covered=[
            'BudgetEnforcer::observe: one step over all enforcer states and all events equals the independent count '
            'abs_step (events, nodes, aliases, distinct anchors, scalar bytes, merge keys in key position, depth '
            'high-water mark, documents); Ok iff every counted quantity is within its limit and the structure is '
            'balanced; Err names a quantity that really exceeds its limit, with its value',
            'per-document enforcement: a document start restores the fresh state from ANY prior state',
            'finalize: the documented alias/anchor ratio rule, exactly, without overflow',
            'budget::check_yaml_budget (the public stand-alone check): loop invariant - the enforcer state equals the independent count of the events read so far and is within the limits; a report without breach is that count over EVERY event of the text (events, nodes, aliases, anchors, scalar bytes, merge keys, documents, depth high-water mark); a breach is reported at the first event the independent count rejects, with a justified breach value; a scan error is passed on (the parser is an assumed source of events)',
            'BudgetEnforcer::new: a new enforcer has counted nothing (every counter zero, no anchor, no open container, no breach) and holds the limits and the policy it was given; every construction site of the event source hands it the options\' budget unchanged',
        ],
        not_covered=[
            'that saphyr-parser produces the event stream the YAML text denotes',
            'report callbacks (Options::with_budget_report) being invoked',
        ],
        assumptions=['history shorter than 2^64 events (counter room is a stated precondition of observe)'],
    ),
    'C09': dict(
        covered=['ChunkedChars::next against an adversarial byte source that hands out ANY non-empty prefix per read (every chunking, including splits inside a code point): Some(c) means c is exactly the next UTF-8 character of the remaining bytes and exactly its bytes were consumed',
                 'LiveEvents implements the Events cursor contract for both input kinds through the same pump (look-ahead served first, peek does not consume)',
                 'deserialize_str (borrowed targets) up to the point where the text is lent: a borrowed target is handed exactly what an owned one is handed (tags, !!binary decoding through the owned path, null forms, the no_schema quoting rule), or an error; the owned fallback after it (visit_string and the conversion of the serde message) is a shim',
                 'the decoder that buffered_input_from_reader_with_limit puts in front of ChunkedChars removes a leading byte order mark and sniffs the encoding (statement fragment against the assumed encoding_rs_io builder contract)',
                 'from_slice_with_options / from_slice_multiple_with_options: on valid UTF-8 exactly the result of the string entry point on the decoded text with the same options, otherwise Error::InvalidUtf8Input (target type and Options opaque)',
                 'every one of the 13 places in src/lib.rs and src/de/with_deserializer.rs that build the event source (statement fragments, the feature-gated _valid / _validate entry points included): never in the stop-at-document-end mode (in which a following document is reported differently, and behind the leftover check not at all), the alias limits and the budget of the options passed on unchanged, budget policy AllContent for single-document and batch entry points and PerDocument for the document iterators; the struct literals of LiveEvents::from_str / from_reader copy their arguments and start with empty replay state; BudgetEnforcer::new starts from zero with the limits and policy given',
                 'the Read wrapper the reader entry points put around the user\'s reader (unit ring: RingReader::read, drain_stash_into, read_ahead_at_most, get_recent) is transparent: the consumer receives exactly the next bytes of the source, read-ahead first, nothing lost or reordered even when the source fails half way through a read-ahead; at most MAX_READ_AHEAD bytes are held back'],
        not_covered=['equality of saphyr-parser StrInput / BufferedInput front ends; encoding_rs_io decoding itself; BOM stripping of the str / slice entry points; borrowed vs owned strings'],
        assumptions=['ASSUMED contract of the external crate encoding_rs_io (contracts/reader.shim.rs, from its documentation): DecodeReaderBytesBuilder::new() has sniffing on, passthru and strip_bom off; build() yields a decoder that removes a leading UTF-8 BOM iff sniffing && (!utf8_passthru || strip_bom)',
                     'std::io::Read::read as documented: an error means no bytes were read (contracts/ring.shim.rs bytesrc_read_prefix); the three statements in front of the constructor literals (BOM stripping of the text, the character source) are not part of the literal fragments; that nothing between construction and the leftover check changes stop_at_doc_end follows from the frame clauses of the pump but is not re-stated at the entry points',
                     'overflow: fewer than 2^64 bytes and lines are read through one RingReader (stated as preconditions history_shorter_than_2_64)'],
    ),
    'C01': dict(
        covered=['absence of arithmetic overflow, out-of-range indexing, unwrap-on-None and reachable unreachable!() '
                 'and termination of every loop, for every function under contract (Verus implicit obligations)'],
        not_covered=['entry points as wholes; saphyr-parser other than the one looping Input method extracted for F28; serde-generated visitors; stack exhaustion; allocation failure',
                     'KNOWN FINDING F28: the reader entry points never return on input that ends inside a directive line (the dependency\'s default method Input::fetch_while_is_yaml_non_space loops for ever over the end-of-input padding of BufferedInput); its termination obligation fails, is listed in known_findings.txt and printed as KNOWN-FINDING'],
        assumptions=['saphyr-parser BufferedInput as seen by the extracted method (contracts/reader.shim.rs PaddedChars): once the character iterator is exhausted look_ch answers NUL for ever'],
    ),
    'C06': dict(
        covered=[
            'the tag table (SfTag::from_optional_cow; bounded-only harness on the whole of src/tags.rs, run with the real parser in every check, NOT a proof): each of the nine core schema tags has its kind in all five spellings (!!x, !x, verbatim URI, declared handle, verbatim local), the custom tags and the non-specific tag theirs, untagged None, foreign tags Other (F32)',
            'parse_int_signed / parse_int_unsigned for all 10 integer widths (monomorphised text of the generic functions): '
            'Ok(v) iff the trimmed token denotes the mathematical integer v (sign, decimal, 0x/0o/0b, `_` separators, legacy '
            'octal) and v fits the width; otherwise Err - never wrapped, saturated or truncated; unsigned rejects any `-`',
            'parse_digits_u128 / parse_decimal_*: value of a digit string of any length, None on overflow, non-digit, '
            'digit >= radix or no digit at all',
            'radix_and_digits: the prefix table incl. legacy "00"; the `&rest[2..]` slice is in range and on a char boundary',
            'decode_val: RFC 4648 alphabet; SfTag::can_parse_into_string table',
            'deserialize_any (untyped targets): null forms -> unit; quoted, block, !!str-, !-tagged scalars stay strings; an untagged PLAIN scalar is inferred in exactly the order bool (strict or YAML 1.1 table as configured), integer (u64, then i64; a leading `-` goes to i64 unless the token has a redundant leading zero), float (non-finite values as their canonical strings), string; a dangling container end is an error',
            'deserialize_bool (strict vs YAML 1.1 table), parse_yaml11_bool (the table itself), leading_zero_decimal, maybe_not_string (only PLAIN scalars can look like numbers / booleans / null), deserialize_string and take_string_scalar (scalar text, or the strict base64 payload as UTF-8 for !!binary; null forms refused unless tagged !!str; no_schema refuses number-like plain text; only a !!null tag or a plain null-like scalar is ever refused as null), deserialize_f64 (parsed from exactly the scalar text with its tag and the angle option)',
            'scalar_is_nullish / scalar_is_nullish_for_option: exactly the documented null tables (plain empty / ~ / null in any case; for Option also an empty literal or folded scalar); quoted scalars are never null-like',
            'decode_base64_yaml (unit base64): Ok(v) iff the text with ASCII whitespace removed is STRICT CANONICAL RFC 4648 base64 '
            '(length a multiple of 4, alphabet only, `=` padding only in the last quantum, unused low bits zero) and v is exactly its '
            'decoding; otherwise InvalidBinaryBase64 - for texts of any length',
            'typed entry points deserialize_i8..i128 / u8..u128 (unit typed): consume exactly one scalar, parse it with the signed / '
            'unsigned parser of exactly that width and with cfg.legacy_octal_numbers, and hand exactly that value to the visitor',
            'deserialize_bytes (unit typed): `!!binary` scalar -> its strict base64 decoding; sequence -> each element the exact u8 '
            'value of its integer scalar under the configured options, up to and including the closing SeqEnd; anything else is an error',
        ],
        not_covered=[
            'float values (str::parse::<f64> is std), the YAML 1.1 / 1.2 bool tables (string comparisons are std; only uninterpreted here)',
            'what str::trim removes (uninterpreted spec_trim); the float parser itself (uninterpreted sp_float; with the robotics feature see C19); deserialize_f32 / char / str (borrowing diagnostics)',
        ],
        assumptions=['str::trim / strip_prefix / starts_with / slicing behave as their shim contracts say (contracts/str.shim.rs)',
                     'iterator chains in decode_base64_yaml (bytes().filter(non-whitespace).collect(), rev().take_while(==b\'=\').count()) behave as their shims say (contracts/base64.shim.rs)',
                     'serde\'s `impl Deserialize for u8` calls deserialize_u8 with a visitor returning its argument (contracts/typed.shim.rs serde_u8_via_yaml_deserializer)',
                     'the serde Visitor is opaque: its result is an uninterpreted function of the value it is given'],
    ),
    'C04': dict(
        covered=[
            'MA::skip_one_node (FirstWins discards the later value): on Ok the cursor advanced by exactly the length of the first node of the remaining events, for any node shape and any stream length; nothing else of the map-access state changes',
            'skip_one_node_len / one_entry_map_spans equal the node-length spec and stay in bounds',
            'KeyNode::fingerprint / take_fingerprint: a scalar key is fingerprinted by its text and tag (style, anchor, location blind); the unreachable!() needs and gets the representation invariant',
            'ReplayEvents implements the Events cursor contract (events replayed in order, peek never moves)',
            'MA::next_key_seed (real body, K monomorphised to an opaque seed): no reachable panic, callee preconditions, map-access invariant preserved; in-body obligations: a DuplicateMappingKey error is located at the repeated key (both the buffered and the live path), FirstWins discards exactly the value node of the repeated key',
            'capture_node: the fingerprint of a key equals the structural fingerprint of its events (kind, scalar text and tag; blind to style, anchors, locations)',
        ],
        not_covered=['a history-level statement of the three policies (a ghost trace of delivered keys); termination of MA::next_key_seed; serde-side overwriting', 'HashSet<KeyFingerprint> lookup (derived Hash/Eq assumed lawful)'],
        assumptions=['event buffers and streams shorter than 2^31 events (i32 depth counters; stated as preconditions)'],
    ),
    'C03': dict(
        covered=['is_merge_key: exactly an untagged plain scalar `<<` standing alone (quoted or tagged `<<` is an ordinary key)',
                 'KeyNode accessors used by merge expansion',
                 'collect_entries_from_map: own fields first, then the collected merge sources flattened from the last to the first',
                 'MA::enqueue_next_merge_batch: the newest non-empty merge batch is flushed next, in front of the queue',
                 'pending_entries_from_events / pending_entries_from_live_events / collect_entries_from_map (the mutually recursive merge expansion) are verified together: they terminate for every input (measure: events still to read, then rank), accept ONLY null-like scalars, mappings and sequences as merge values (anything else is an error), flatten a merge sequence from its last element to its first, and return only captured, well-formed nodes'],
        not_covered=['a single spec function giving the fully merged mapping for a node (the pieces above are stated per function, over the local batches); the history-level "own keys win" statement'],
        assumptions=[],
    ),
    'C16': dict(
        covered=['location_from_span: line = start line, column = start column + 1 (1-based), char offset/length from the marks, byte offset/length when both byte marks exist and fit, else (0,0); Span::byte_offset/byte_len; Locations::same',
                 'Ev::location, KeyNode::location; ReplayEvents::reference_location = override, else current event, else last; last_location',
                 'Error::from_scan_error: a scanner error is located at the scanner\'s own mark (line, column + 1, character offset, length 1, no byte information), whatever kind of error it becomes',
                 'merge sequences (`<<: [a, b]`), both expansion functions: the use site handed on for an element is read while that element is still in front of the cursor (the alias token for `*m`, the node itself for an inline mapping)',
                 'span-carrying values (src/de/spanned_deser.rs): deserialize_yaml_spanned records, before the node is consumed, the use site (the alias token while an alias is replayed, else the node) as `referenced` and the node as `defined`; the synthetic struct views hand out exactly the fields value / referenced / defined, line / column / span, offset / len / byte_info, each under its own name and with its own number, and the byte offset before the byte length',
                 'the Events trait contract for reference_location: after a successful peek it is the alias token while an alias is being replayed, else the location of the peeked event (ReplayEvents and LiveEvents both proved against it); SA::next_element_seed, MA::next_value_seed and VA::newtype_variant_seed hand exactly that use site, and the node\'s own location as definition site, to the seed'],
        not_covered=['that saphyr-parser marks agree with each other and with the text; serde static-error fallback location (thread-local); that the derived Deserialize of Spanned / Location / Span puts each named field into the field of that name (serde-generated)'],
        assumptions=['coordinates below 2^32 and start <= end for parser marks (preconditions of location_from_span)'],
    ),
    'C02': dict(
        covered=[
            'alias arm of next_impl: an alias is refused as recursive (or answered with the placeholder of a recursive anchor in progress) only while a recording frame of its own anchor is still open; an alias to an anchor that was finished inside a still-open anchored container is replayed',
            'LiveEvents::record: an event is appended to every open recording frame (all but a freshly seeded one), nothing else changes',
            'bump_depth_on_start / bump_depth_on_end: depth bookkeeping; exactly the frames whose depth reaches 0 (only at the top) are finalised and stored under their anchor id with their recorded buffer, every other anchor slot is untouched',
            'ensure_anchor_capacity never loses a recorded anchor; reset_document_state clears every anchor slot',
            'the REAL body of next_impl (as next_impl__body): no reachable panic, both loops terminate, every callee precondition holds, and the pump invariant live_inv is preserved on every Ok (recording frames nested, each inner buffer a suffix of the enclosing one, every delivered event appended to every open frame, replay depth and totals within AliasLimits, budget consistent)',
            'scalar arm: the delivered scalar is the parsed one (text, anchor id, location, style) - except the documented special case, which is recorded as a known finding (anchored empty quoted scalar re-styled as plain)',
        ],
        not_covered=['the functional meaning of the pump as a whole: callers of next_impl (next/peek) see an ASSUMED prophecy contract (pump_future); the lemma delivered == expand(raw) is not proved',
                     'that the deserialized value is a function of the delivered event stream only; saphyr-parser anchor id assignment'],
        assumptions=['anchor ids of open frames are pairwise distinct and small (parser contract; stated as preconditions)'],
    ),
    'C10': dict(
        covered=[
            'LiveEvents::next / peek: a stored reader error is reported as Error::IOError before any event (not even a buffered look-ahead) is handed out',
            'LiveEvents::finish: a stored reader error is reported at the end; otherwise a delayed budget breach is surfaced',
            'io_error: Ok exactly when the shared cell is empty',
            'the feature-gated copies (extracted with the cfg on): the document iterators of read_with_options_valid (garde) and read_with_options_validate (validator) carry the same obligations as ReadIter::next, the leftover checks of from_str_with_options_and_path_recorder / from_reader_with_options_valid / from_reader_with_options_validate the same as the two plain ones, the batch loops of from_multiple_with_options_valid / _validate the same as from_multiple_with_options (validation call and validation-error construction opaque: they do not touch the event source)',
            'the single-document entry points (leftover-check fragments of from_str_with_options_impl and from_reader_with_options): a value is returned only after finish() found no stored reader error (after a successful finish the cell is empty)',
            'RingReader::read / read_ahead_at_most / get_recent (the wrapper between the user\'s reader and the decoder): they fail exactly when the source failed (ghost count of errors the source returned), never swallowing one and never inventing one',
            'ReadIter::next (document iterator of read / read_with_options): no result of the event source that carries the deferred reader error is ever discarded before the iterator ends quietly or delivers a document (ghost-tracked); a finished iterator stays finished; it ends only by marking itself finished',
            'an error stored while pumping is never consumed by next/peek themselves: it stays in the cell for finish (or the next call) to report',
            'ChunkedChars::next: it signals end of input only when nothing is left, or after storing an error in the shared cell (reader error of ANY kind, EOF inside a code point, invalid lead byte / sequence, byte cap exceeded); total_bytes never exceeds the cap; at most 4 bytes are requested per character',
            'writer side (to_io_writer_with_options): the fmt::Write adapter over io::Write remembers a failed write_all, appends exactly the text on success and leaves a prefix of it on failure; the result selection returns the remembered I/O error whenever the serializer failed after a write failure',
        ],
        not_covered=['BufReader / decoder read-ahead; termination of ReadIter::next; writer side: that the serializer stops at the first failed write (every write in src/ser.rs is followed by `?`; checked by grep, not by a contract) and Adapter::write_char'],
        assumptions=['interior mutability of the shared error cell is made explicit (rule R28: io_error takes &mut self and consumes the cell); the reader may fill the cell during any pump step',
                     'io::Write::write_all (assumed, std documentation): Ok means all bytes were written, Err leaves an unspecified prefix written'],
    ),
    'C11': dict(
        covered=[
            'reset_document_state: every anchor slot None, replay and recording stacks empty, alias counters 0, seen_doc_end false',
            'next_impl body: at EVERY DocumentStart and DocumentEnd the per-document state is clear when the arm is left (in-body obligations C11:document_start/end_clears_per_document_state)',
            'skip_to_next_document: consumes raw items up to and including the first DocumentStart (true) or scan error / StreamEnd / exhaustion (false), terminates, drops look-ahead and replay state, leaves a clean per-document state and restarts the budget',
        ],
        not_covered=['equality with per-document deserialization; that a failed document is skipped exactly to the next document start is proved for skip_to_next_document, whose two environment preconditions are not re-checked at the iterator\'s call site'],
        assumptions=['parser spans are well formed (ordered marks below 4 GiB)'],
    ),
    'C17': dict(
        covered=[
            'sanitize_terminal_snippet_preserve_len: the resulting bytes contain no C0 control other than \\n/\\t, no DEL and no UTF-8 encoded C1 control, have the same length, and every byte that was not an offender (or the second byte of a C1 pair) is unchanged, for strings of any length',
            'is_terminal_snippet_clean(t) is true exactly when t is terminal-safe in that sense',
            'ring reader window (src/ring_reader.rs is_utf8_continuation, utf8_expected_len, trim_incomplete_utf8_tail, trim_to_utf8_boundaries_with_line): exactly the leading continuation bytes are dropped (offset advanced by their number, line number unchanged since a continuation byte is never a line feed), only an incomplete last code point is dropped at the end, what remains is a sub-window of the input that neither starts with a continuation byte nor stops inside a code point; total for every byte string',
            'the recent-bytes window itself (unit ring): FixedRingBuffer push / pop / iterate against "the retained bytes, oldest first"; after any sequence of reads and read-aheads the window is the last RING_BUFFER_SIZE bytes read from the source, its first line number has advanced by exactly the lines that ended in front of it - a line ends at LF or at a CR not followed by LF, as the scanner and Location::line count them -, its offset by exactly the bytes that left it, and it ends where reading stopped; get_recent returns a piece of that window whose start line is the line of its first byte and whose offsets bracket it',
            'from_reader_with_options feeds the recent-bytes window with the DECODED text that locations refer to (statement fragment from_reader_with_options#ring: the decoder is put in front of the ring; F30), against an assumed one-line contract of the encoding_rs_io builder and of SharedRingReader / SharedRingReaderHandle (what the ring holds is what its inner reader delivers: proved for RingReader in unit ring)',
            'crop_window_text as a whole against the sentence of the property (harness-only item, bounded, run in every check, NOT a proof): over 262 848 windows of one or two lines (LF and CR LF, multi-byte characters, every column, radius 0 to 3) every line is the column window [column - radius, column + radius] of the input line with an ellipsis on each clipped side, line ends are LF, and the marker starts at the character of the reported column',
            'the miette adapter (feature miette, statement fragment of to_miette_report_with_formatter): the source handed to miette is the text without a leading byte order mark, i.e. the text every Location offset refers to (F31); crop_window_text: the marker span it rebases onto the horizontally cropped text still starts at the character of the reported column (conditional in-body obligation; the premise - the span handed in starts at the reported column of that line - is what the #marker fragments prove)',
            'crop_source_window splits lines at LF only in text without a lone CR (F29): has_lone_cr / lone_cr_to_lf are assumed there and checked on their real text by a bounded-only harness in every run (all strings up to 8 characters over a five-symbol alphabet) - bounded, not proved',
            'line_col_to_byte_offset_with_starts: the offset is on a char boundary inside the reported line and is exactly (column - 1) characters after that line\'s start; next_char_boundary: the end of the one-character marker; and the part of Snippet::fmt_or_fallback and of fmt_snippet_window_with_mapping_or_fallback between the line table and the horizontal crop (statement fragments, the fall-back returns turned into None): the vertical window is the reported line +- 2, it starts at a line start, and the marker span handed on starts at the reported column of the reported line inside that window and covers no or one character',
            'col_to_byte_offset_in_line: Some(i) iff 1 <= col <= chars+1 and i is exactly the byte offset of that character (unit crop)',
            'line_starts: exactly 0 and the offset after every line feed, in order, all on char boundaries',
            'crop_line_by_cols: the result is exactly the requested column window of the line, with an ellipsis on each clipped side, and the returned LineCrop matches (start byte, prefix bytes)',
            'crop_window_text (render-time crop with span rebasing): every slice on a char boundary, no overflow (for texts below 2^59 bytes: the output is shown to grow at most 8 bytes per input byte), the loop terminates, and the rebased marker span is ordered and lies inside the cropped text',
            'crop_source_window: every string slice is in range and on a char boundary, every index in bounds, no overflow; the vertical window holds the error line and at most two lines either side; on the error line nothing left of error column + radius is removed',
        ],
        not_covered=['UTF-8 validity of the sanitised bytes (the lossy fallback is therefore not proved dead)',
                     'annotate-snippets rendering itself; the END of the rebased marker span (only ordered and inside the text); to_source_span of the miette adapter (char-to-byte conversion when a location has no byte information); reflected keys, formatter messages, miette; SharedRingReader (Rc<RefCell>) and the use of the snapshot in src/lib.rs attach_snippet'],
        assumptions=['String::into_bytes / from_utf8 shims (contracts/snippet.shim.rs)',
                     'str slicing / find / strip / char_indices / chars().count() shims (contracts/crop.shim.rs): slicing panics exactly when an end is not a char boundary or the range is inverted',
                     'a str has at most isize::MAX bytes (assumed allocation invariant); UTF-8 self-synchronisation (an ASCII byte of a valid encoding is a whole character) is PROVED from vstd\'s definition of encode_utf8 (lemma_ascii_byte_char)'],
    ),
    'C05': dict(
        covered=[
            'cursor discipline of the format side: take_scalar_event / take_scalar_cow_event (exactly one scalar, its text, tag and location), expect_seq_start / expect_map_start (exactly one event of that kind), peek_anchor_id (never consumes)',
            'VA::expect_map_end: closes exactly one mapping or fails; VA::unit_variant accepts only `Variant`, `{Variant}` closing at once, or `{Variant: <null-like>}`',
            'enforce_single_document_and_finish: succeeds only if nothing is left after the root value (or only garbage after an explicit document end)',
            'the two in-line copies of that check in src/lib.rs (from_str_with_options_impl, from_reader_with_options), lifted as statement fragments: same obligation',
            'typed integer entry points and deserialize_bytes consume exactly the events of their own node (one scalar; or SeqStart..SeqEnd) before the visitor runs',
            'deserialize_option: None exactly for nothing left / a container end / a !!null scalar / a null-like scalar (consumed: exactly that scalar) / an empty-mapping key (consumed whole); otherwise the visitor gets the deserializer with the cursor untouched. deserialize_unit: accepts only absence or a PLAIN null-like scalar',
            'deserialize_seq (also tuples / tuple structs): a null-like scalar is an empty sequence, a !!binary scalar is its strict base64 bytes, anything else must be a SeqStart, which is consumed before the visitor sees the elements; afterwards exactly a pending SeqEnd is consumed. deserialize_unit_struct: an empty mapping (consumed whole) or a unit',
            'deserialize_enum notation dispatch (real body, nested access types lifted out): a plain scalar names a variant and only that scalar is consumed (a tag that is not a variant name must equal the enum name); a tag that names a variant selects it and the same scalar, re-tagged as a string, is its payload; a mapping selects the variant by its scalar key and the payload follows in map mode; a tagged sequence is collected as exactly that node; every other node kind is an error; no_schema refuses number-like plain names',
            'VA::newtype_variant_seed / tuple_variant / struct_variant: in the `{Variant: payload}` notation the payload is followed by exactly the mapping end, which is consumed (anything else is an error); in the other notations nothing is consumed after the payload',
            'deserialize_map prologue: a null-like scalar is an empty mapping, anything else must be a MapStart (consumed), and the map access handed to the visitor starts empty with the map-access invariant established',
            'MA::next_value_seed (map access): a value is handed out only after its key (else ValueRequestedBeforeKey with nothing consumed); each key is paired with exactly one value; a buffered value (merge / reordered entry) is read from exactly its recorded events while the live cursor stays put; a live value is read at the untouched cursor with the next node as definition site',
            'SA::next_element_seed (sequence access): None exactly at the SeqEnd, which is left for the caller; otherwise the element seed runs at the untouched cursor with the element\'s own location; end of input inside a sequence is an error',
        ],
        not_covered=['arity / field-name checks of serde-generated visitors; EA::variant_seed and the TaggedEA / TaggedVA accesses (one-line delegations to serde), simple_tagged_enum_name (string surgery, uninterpreted), newtype / anchor wrappers (generic over Visitor, thread-local anchor context); the reference interpreter comparison'],
        assumptions=['scalar_is_nullish is used as an uninterpreted function of text and style'],
    ),
    'C12': dict(
        covered=[
            'write_quoted: for every string the emitted text is `"` + the YAML 1.2 escape of every character + `"` (named escapes, \\xHH for the remaining C0/C1/DEL, \\uFEFF for the BOM, \\N \\L \\P for NEL/LS/PS); no character that needs escaping is ever written raw (lemma_escape_is_safe)',
            'write_single_quoted: `\'` + the text with every single quote doubled + `\'`',
            'first_line_leading_spaces: the number of leading spaces of the first line that is not empty (blank-only lines count as content), 0 if there is none',
            'plain-safety predicates (unit plain, src/ser_quoting.rs) against YAML 1.2 rules for plain scalars written independently of the code (plain_reads_back: non-empty, no leading / trailing blank, no leading BOM, first character not an indicator, `-` `?` `:` only before a non-blank, no C0 control / DEL, no `: ` / trailing `:` / ` #`, no flow indicators in flow context): is_plain_safe(s) implies it; is_plain_value_safe(s) implies it unless an edge needs quotes (has_unsafe_plain_edge, which is exactly trailing blank or leading BOM)',
            'is_ambiguous(s) is exactly: empty, ~, null/true/false in any case, `<<`, a document marker (`---` / `...` alone or followed by a blank), [+-]?.inf/.nan in any case, or numeric-looking; nothing ambiguous is ever plain-safe',
            'write_plain_or_quoted / write_plain_or_quoted_value (the decision points): the raw text is written only when it is not ambiguous and reads back as itself in that context; otherwise exactly the double-quoted escape or (quote_all) the single-quoted form',
            'serialize_str, block-scalar half (two consecutive fragments + seam check): a block scalar is chosen only for text without carriage return / NUL (is_block_scalar_safe refuses every Cc character but LF and TAB); the header is the style character, the indentation indicator as OFFSET FROM THE PARENT NODE (when the first non-empty line starts with a space; quoted fallback when the offset is > 9 or not known), and the chomping indicator for the number of trailing line feeds; the literal body is exactly lit_lines(v) behind the body indentation, and lit_value(lit_lines(v), chomp) == v is a proved lemma over a reader-side definition written from YAML 1.2 section 8.1',
            'KeyScalarSink::serialize_str (scalar mapping keys have their own quoting): raw only if the key is not ambiguous and reads back as itself in block AND flow mappings, else `"` + escapes (\\\\ \\" \\n \\r \\t, \\uXXXX for every other Cc character) + `"`; lemma: no quote, backslash or control character is ever written raw',
            'float text (both copies of the normalisation in src/zmij_format.rs, lifted as fragments): the text written is the formatter output with only `.0` appended to a mantissa without a point and `+` inserted after an exponent marker without a sign (float_norm), and float_norm always has a point before the exponent marker and a sign after it (lemma_float_norm_grammar)',
            'write_indent / serialize_tuple_variant prologue / empty-collection fragments: see DESIGN.md section 0 "Emitter positions"',
            'write_folded_block: a long line is broken only at a run of spaces after a non-empty piece, exactly one space of the run is swallowed by the break, the next piece and the line itself start with neither space nor tab, and the pieces joined by single spaces are the original line',
        ],
        not_covered=['the numeric-looking regex (uninterpreted) and parse_yaml11_bool (std string comparisons; uninterpreted), the body of a FOLDED block scalar as a whole (only its per-line folding is specified), the digits produced by the external crate zmij (assumed ASCII shortest round-trip text; the `.nan` / `.inf` / `-.inf` branches and the normalisation to the float grammar of YAML ARE under contract: float_text), the reader side of the round trip',
                     'both C12 observations an independent reviewer made while seeding are now contract-detected and fixed: trailing blank (F12) and block-scalar indentation indicators in nested positions (F15)'],
        assumptions=['fmt::Write is an append-only sink (contracts/quoting.shim.rs); write! with {:02X}/{:04X} prints upper-case hex; char::is_control is category Cc',
                     'std str operations of the predicates behave as their shims say (contracts/plain.shim.rs); that plain_reads_back is SUFFICIENT for a YAML reader is not proved (no reader semantics) - it is the list of necessary conditions of the YAML spec',
                     'ASSUMED layout fact for block scalars (SeqSer / MapSer are outside the unit): the parent of a scalar at nesting level `base` starts at column indent_step * base whenever indent_step == 2 or base == 0; the parent column itself is a ghost parameter of the fragment',
                     'ASSUMED on entry of serialize_str: indent_step >= 1, indent_step * (base + 1) fits usize, pending_str_from_auto is false (it is cleared at the end of every block scalar and by the quoted fallback)',
                     'the reader removes exactly the body indentation from each line of a block scalar and applies chomping as YAML 1.2 8.1.1.2 says; for content of empty lines only under clip the crate reader keeps one line feed (observed, pinned by its tests)',
                     ],
    ),
    'C20': dict(
        covered=[
            'inside a flow collection a tuple struct is a flow sequence: its first field opens the bracket, later fields follow a comma, the end closes it, an empty one is `[]` (whole body of TupleSer::end and the opening statement of serialize_field as fragments; F34)',
            'inside a flow collection a tuple variant is opened as a flow mapping holding a flow sequence (`{Name: [`; prologue of serialize_tuple_variant; F33 - the newtype and struct variant counterparts are generic over the payload / not extracted and are covered by the demonstration test only)',
            'serializer set-up (unit seropts): SerializerOptions::consistent accepts options exactly when indent_step >= 1; YamlSerializer::new / with_indent / with_options copy every option into the field the emitter reads and set nothing else; a new serializer starts at a line start, outside every flow collection, with nothing pending',
            'write_end_of_scalar: a staged inline comment is written only outside flow context, as ` # ` + text + newline, and is consumed',
            'the statement that stages a Commented comment (lifted from TupleSer::serialize_field): the staged text contains neither \\n nor \\r',
            'literal / folded wrappers and the prefer_block_scalars option (serialize_str fragments, see C12): automatic literal only for multi-line text, automatic fold only for one line of text, none in flow context or under quote_all; header and literal body as under C12; write_folded_block folding rules (never before a tab, never a line starting with space or tab)',
        ],
        not_covered=['every other wrapper and option (flow sequences / mappings, space-after, option vectors other than those read by serialize_str): needs the emitter state machine and a YAML reader semantics (as C13)',
                     'KNOWN FINDINGS (known_findings.txt): F19 the explicit folded wrapper does not preserve line breaks inside its text (documented, pinned by doc-tests); F20 a block scalar drops the anchor staged for it, so with prefer_block_scalars a shared multi-line string leaves its aliases dangling (pinned by tests/test_block_str.rs::verdanta_case_fold)',
                     'observed, NOT detected by any contract here and not repaired: indent_step other than 2 mis-indents a mapping that starts inside a nested block sequence (`- - key:`), so the option changes data (findings/obs_indent_step_nested_sequences.rs)'],
        assumptions=['String::replace shim (contracts/quoting.shim.rs)'],
    ),
    'C08': dict(covered=['budget counters bound the number of observed events/nodes (BudgetEnforcer::observe accept_only_within_limits)',
                         'next_impl (real body): every replayed event bumps total_replayed_events by exactly one and is delivered only while the counter is within AliasLimits::max_total_replayed_events; an alias is pushed for replay only after its per-anchor counter was bumped by one (saturating) and is within max_alias_expansions_per_anchor and the replay stack would stay within max_replay_stack_depth; no other per-anchor counter changes'],
                not_covered=['heap bytes (no allocator model)'], assumptions=[]),
}

NOTES = ('See DESIGN.md. Genuine defects repaired in /repo by fix: commits 0126e05 (F2), 956dd0f (F1a), a6603bd (F7), 6309633 (F1b), 0bae366 (F9), 73b31ba (F3/F4), 64c447b (F5), 1f9b096 (F6), d042f27 (F11), 5afc179 (F12/F13), 150dd4b (F14), 4813e0f (F15), 2052644 (F16), deb2f0f (F17), d93acce (F18); open known findings F19, F20 (C20); '
         'recorded in known_findings.txt. Exit 2 (UNDECIDED) is used for tool limits / lost anchors and is never an alarm.')

# properties not claimed (kept current; a property moves out of here when a unit starts carrying it)
NOT_APPLICABLE = {
    'C13': 'needs a formal YAML reader semantics as oracle; no function contract in ser.rs expresses re-parse equality (DESIGN.md 5)',
    'C14': 'identity flows through thread_local HashMap<usize, Rc<dyn Any>>, Rc::ptr_eq, Drop guards: outside Verus; kani-compiler ICEs on anchor_store',
    'C15': 'thread-local state, RAII restoration and unwinding through visitors: not modelled by Verus (no Drop/thread_local) nor Kani (no unwinding)',
    'C18': 'optional features not built by the baseline; oracle is the validation crates; path_map uses HashMap iteration and closure-heavy iterator chains outside Verus',
    #'C02': 'not yet under contract in this revision (unit live planned, DESIGN.md 4)',
    #'C03': 'not yet under contract in this revision (unit events planned)',
    #'C04': 'not yet under contract in this revision (unit events planned)',
    #'C05': 'not yet under contract in this revision (unit cursor planned)',
    #'C09': 'not yet under contract in this revision (unit reader planned)',
    #'C10': 'not yet under contract in this revision (units reader/live planned)',
    #'C11': 'not yet under contract in this revision (unit live planned)',
    #'C12': 'not yet under contract in this revision (unit quoting planned)',
    #'C16': 'not yet under contract in this revision (unit location planned)',
    #'C17': 'not yet under contract in this revision (unit snippet planned)',
    #'C20': 'not yet under contract in this revision (unit quoting planned)',
}
