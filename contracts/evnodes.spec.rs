// ===== spec library for unit `events`: nodes in an event sequence =====

impl Ev<'_> {
    spec fn spec_location(&self) -> Location {
        match *self {
            Ev::Scalar { location, .. } => location,
            Ev::SeqStart { location, .. } => location,
            Ev::SeqEnd { location } => location,
            Ev::MapStart { location, .. } => location,
            Ev::MapEnd { location } => location,
            Ev::Taken { location } => location,
        }
    }
}

spec fn is_start(e: Ev<'_>) -> bool { e is SeqStart || e is MapStart }
spec fn is_end(e: Ev<'_>) -> bool { e is SeqEnd || e is MapEnd }

/// Index just after the point where `depth` open containers have been closed, scanning from `i`.
/// (Container kinds are not matched here: this is the depth-counting notion of "one node" that
/// the skipping helpers implement.)  None: a Taken marker or the end of the sequence comes first.
spec fn scan(s: Seq<Ev<'_>>, i: int, depth: int) -> Option<int>
    decreases s.len() - i
{
    if depth <= 0 { Some(i) }
    else if i < 0 || i >= s.len() { None }
    else if is_start(s[i]) { scan(s, i + 1, depth + 1) }
    else if is_end(s[i]) { scan(s, i + 1, depth - 1) }
    else if s[i] is Scalar { scan(s, i + 1, depth) }
    else { None }
}

/// Length of the complete node that starts at index `i`.
spec fn node_len_at(s: Seq<Ev<'_>>, i: int) -> Option<int> {
    if i < 0 || i >= s.len() { None }
    else if s[i] is Scalar { Some(1) }
    else if is_start(s[i]) { match scan(s, i + 1, 1) { Some(j) => Some(j - i), None => None } }
    else { None }
}

spec fn node_len(s: Seq<Ev<'_>>) -> Option<int> { node_len_at(s, 0) }

proof fn lemma_scan_bounds(s: Seq<Ev<'_>>, i: int, depth: int)
    requires 0 <= i <= s.len(), depth >= 0,
    ensures scan(s, i, depth) is Some ==> i + depth <= scan(s, i, depth).unwrap() <= s.len(),
    decreases s.len() - i,
{
    if depth > 0 && i < s.len() {
        if is_start(s[i]) { lemma_scan_bounds(s, i + 1, depth + 1); }
        else if is_end(s[i]) { lemma_scan_bounds(s, i + 1, depth - 1); }
        else if s[i] is Scalar { lemma_scan_bounds(s, i + 1, depth); }
    }
}

/// scanning a suffix is scanning the whole sequence at an offset
proof fn lemma_scan_skip(s: Seq<Ev<'_>>, k: int, i: int, depth: int)
    requires 0 <= k, 0 <= i, k + i <= s.len(),
    ensures scan(s.skip(k), i, depth) == match scan(s, k + i, depth) { Some(j) => Some(j - k), None => None },
    decreases s.len() - k - i,
{
    let t = s.skip(k);
    if depth > 0 && i < t.len() {
        assert(t[i] == s[k + i]);
        if is_start(t[i]) { lemma_scan_skip(s, k, i + 1, depth + 1); }
        else if is_end(t[i]) { lemma_scan_skip(s, k, i + 1, depth - 1); }
        else if t[i] is Scalar { lemma_scan_skip(s, k, i + 1, depth); }
    }
}

/// The merge key of the statement: an untagged plain scalar `<<` standing alone as a node.
spec fn is_merge_events(evs: Seq<Ev<'_>>) -> bool {
    evs.len() == 1 && match evs[0] {
        Ev::Scalar { value, tag, style, .. } => style is Plain && tag is None && value@ == "<<"@,
        _ => false,
    }
}

/// the end event at `j` closes a container of the kind opened at `i`
spec fn kind_ok(s: Seq<Ev<'_>>, i: int, j: int) -> bool {
    (s[i] is SeqStart && s[j] is SeqEnd) || (s[i] is MapStart && s[j] is MapEnd)
}

/// the depth-counting scan of the container starting at `i` ends on an end event of the wrong kind
spec fn closing_kind_mismatch(s: Seq<Ev<'_>>, i: int) -> bool {
    match scan(s, i + 1, 1) { Some(j) => !kind_ok(s, i, j - 1), None => false }
}

proof fn lemma_scan_step(s: Seq<Ev<'_>>, i: int, depth: int)
    requires 0 <= i < s.len(), depth >= 1,
    ensures
        is_start(s[i]) ==> scan(s, i, depth) == scan(s, i + 1, depth + 1),
        is_end(s[i]) ==> scan(s, i, depth) == scan(s, i + 1, depth - 1),
        s[i] is Scalar ==> scan(s, i, depth) == scan(s, i + 1, depth),
        s[i] is Taken ==> scan(s, i, depth) is None,
        scan(s, i + 1, 0) == Some(i + 1),
{
}

proof fn lemma_scan_end(s: Seq<Ev<'_>>, i: int, depth: int)
    requires i >= s.len(), depth >= 1,
    ensures scan(s, i, depth) is None,
{
}

// ---- structural fingerprints (C04: same structure, scalar text and tag <=> same key) ----

/// Abstract fingerprint: what "the same key node" means in the statement.
enum Fp {
    Scalar(Seq<char>, SfTag),
    Sequence(Seq<Fp>),
    Mapping(Seq<(Fp, Fp)>),
    Default,
}

/// `idx.saturating_sub(1)`
spec fn prev_idx(idx: usize) -> int { if idx == 0 { 0 } else { idx - 1 } }

// ---- kind-aware node grammar (what capture_node accepts) and the fingerprint of a node ----

/// end index (exclusive) of the well-kinded node that starts at `i`; None if there is none
spec fn knode(s: Seq<Ev<'_>>, i: int) -> Option<int>
    decreases s.len() - i, 1int
{
    if i < 0 || i >= s.len() { None }
    else if s[i] is Scalar { Some(i + 1) }
    else if s[i] is SeqStart { kseq(s, i + 1) }
    else if s[i] is MapStart { kmap(s, i + 1) }
    else { None }
}

/// items of a sequence from `i` up to and including its SeqEnd
spec fn kseq(s: Seq<Ev<'_>>, i: int) -> Option<int>
    decreases s.len() - i, 2int
{
    if i < 0 || i >= s.len() { None }
    else if s[i] is SeqEnd { Some(i + 1) }
    else { match knode(s, i) { Some(j) => if i < j <= s.len() { kseq(s, j) } else { None }, None => None } }
}

/// key/value pairs of a mapping from `i` up to and including its MapEnd
spec fn kmap(s: Seq<Ev<'_>>, i: int) -> Option<int>
    decreases s.len() - i, 2int
{
    if i < 0 || i >= s.len() { None }
    else if s[i] is MapEnd { Some(i + 1) }
    else { match knode(s, i) {
        Some(j) => if i < j <= s.len() { match knode(s, j) { Some(k) => if j < k <= s.len() { kmap(s, k) } else { None }, None => None } } else { None },
        None => None } }
}

/// Fingerprint of the node at `i`: kind, scalar text and scalar tag; blind to style, anchors,
/// locations and container tags ("the same key node" of C04).
spec fn fp_node(s: Seq<Ev<'_>>, i: int) -> Fp
    decreases s.len() - i, 1int
{
    if i < 0 || i >= s.len() { Fp::Default }
    else { match s[i] {
        Ev::Scalar { value, tag, .. } => Fp::Scalar(value@, tag),
        Ev::SeqStart { .. } => Fp::Sequence(fp_seq(s, i + 1)),
        Ev::MapStart { .. } => Fp::Mapping(fp_map(s, i + 1)),
        _ => Fp::Default,
    } }
}

spec fn fp_seq(s: Seq<Ev<'_>>, i: int) -> Seq<Fp>
    decreases s.len() - i, 2int
{
    if i < 0 || i >= s.len() || s[i] is SeqEnd { Seq::empty() }
    else { match knode(s, i) {
        Some(j) => if i < j <= s.len() { seq![fp_node(s, i)] + fp_seq(s, j) } else { Seq::empty() },
        None => Seq::empty() } }
}

spec fn fp_map(s: Seq<Ev<'_>>, i: int) -> Seq<(Fp, Fp)>
    decreases s.len() - i, 2int
{
    if i < 0 || i >= s.len() || s[i] is MapEnd { Seq::empty() }
    else { match knode(s, i) {
        Some(j) => if i < j <= s.len() { match knode(s, j) {
            Some(k) => if j < k <= s.len() { seq![(fp_node(s, i), fp_node(s, j))] + fp_map(s, k) } else { Seq::empty() },
            None => Seq::empty() } } else { Seq::empty() },
        None => Seq::empty() } }
}

proof fn lemma_knode_bounds(s: Seq<Ev<'_>>, i: int)
    ensures
        knode(s, i) is Some ==> i < knode(s, i).unwrap() <= s.len() && 0 <= i,
        kseq(s, i) is Some ==> i < kseq(s, i).unwrap() <= s.len() && 0 <= i,
        kmap(s, i) is Some ==> i < kmap(s, i).unwrap() <= s.len() && 0 <= i,
    decreases s.len() - i, 3int
{
    if 0 <= i < s.len() {
        lemma_knode_bounds(s, i + 1);
        match knode(s, i) { Some(j) => { if j > i { lemma_knode_bounds(s, j);
            match knode(s, j) { Some(k) => { if k > j { lemma_knode_bounds(s, k); } }, None => {} } } }, None => {} }
    }
}

spec fn shift(o: Option<int>, c: int) -> Option<int> { match o { Some(j) => Some(j - c), None => None } }

/// parsing a suffix is parsing the whole sequence at an offset (for the recursive calls)
proof fn lemma_knode_skip(s: Seq<Ev<'_>>, c: int, i: int)
    requires 0 <= c <= s.len(), 0 <= i,
    ensures
        knode(s.skip(c), i) == shift(knode(s, c + i), c),
        kseq(s.skip(c), i) == shift(kseq(s, c + i), c),
        kmap(s.skip(c), i) == shift(kmap(s, c + i), c),
    decreases s.len() - c - i, 3int
{
    let t = s.skip(c);
    if i < t.len() {
        assert(t[i] == s[c + i]);
        lemma_knode_skip(s, c, i + 1);
        assert(knode(t, i) == shift(knode(s, c + i), c));
        lemma_knode_bounds(s, c + i);
        match knode(s, c + i) {
            Some(j) => {
                if c + i < j <= s.len() {
                    lemma_knode_skip(s, c, j - c);
                    lemma_knode_bounds(s, j);
                    match knode(s, j) { Some(k) => { if j < k <= s.len() { lemma_knode_skip(s, c, k - c); } }, None => {} }
                }
            },
            None => {},
        }
        assert(kseq(t, i) == shift(kseq(s, c + i), c));
        assert(kmap(t, i) == shift(kmap(s, c + i), c));
    }
}

proof fn lemma_fp_skip(s: Seq<Ev<'_>>, c: int, i: int)
    requires 0 <= c <= s.len(), 0 <= i,
    ensures
        fp_node(s.skip(c), i) == fp_node(s, c + i),
        fp_seq(s.skip(c), i) == fp_seq(s, c + i),
        fp_map(s.skip(c), i) == fp_map(s, c + i),
    decreases s.len() - c - i, 3int
{
    let t = s.skip(c);
    if i < t.len() {
        assert(t[i] == s[c + i]);
        lemma_fp_skip(s, c, i + 1);
        lemma_knode_skip(s, c, i);
        assert(fp_node(t, i) == fp_node(s, c + i));
        lemma_knode_bounds(s, c + i);
        match knode(s, c + i) {
            Some(j) => {
                if c + i < j <= s.len() {
                    lemma_fp_skip(s, c, j - c);
                    lemma_knode_skip(s, c, j - c);
                    lemma_knode_bounds(s, j);
                    match knode(s, j) { Some(k) => { if j < k <= s.len() { lemma_fp_skip(s, c, k - c); } }, None => {} }
                }
            },
            None => {},
        }
        assert(fp_seq(t, i) == fp_seq(s, c + i));
        assert(fp_map(t, i) == fp_map(s, c + i));
    }
}

/// one more key/value pair parsed: how the mapping-level specs unfold (keeps the loop proof small)
proof fn lemma_kmap_step(s: Seq<Ev<'_>>, c0: int, c1: int, c: int)
    requires 0 <= c0 < c1, c1 < c, c <= s.len(), !(s[c0] is MapEnd), knode(s, c0) == Some(c1), knode(s, c1) == Some(c),
    ensures kmap(s, c0) == kmap(s, c), fp_map(s, c0) == seq![(fp_node(s, c0), fp_node(s, c1))] + fp_map(s, c),
{
}

proof fn lemma_kseq_step(s: Seq<Ev<'_>>, c0: int, c: int)
    requires 0 <= c0 < c, c <= s.len(), !(s[c0] is SeqEnd), knode(s, c0) == Some(c),
    ensures kseq(s, c0) == kseq(s, c), fp_seq(s, c0) == seq![fp_node(s, c0)] + fp_seq(s, c),
{
}

/// a captured child: the cursor facts in terms of the whole sequence
proof fn lemma_child(s: Seq<Ev<'_>>, c0: int)
    requires 0 <= c0 < s.len(), knode(s.skip(c0), 0) is Some,
    ensures ({
        let m = knode(s.skip(c0), 0).unwrap();
        &&& 0 < m && c0 + m <= s.len()
        &&& knode(s, c0) == Some(c0 + m)
        &&& fp_node(s.skip(c0), 0) == fp_node(s, c0)
        &&& s.skip(c0).take(m) =~= s.subrange(c0, c0 + m)
        &&& s.skip(c0).take(m).len() == m
        &&& s.skip(c0).skip(m) =~= s.skip(c0 + m)
        &&& s.skip(c0).skip(m).len() == s.len() - c0 - m
        &&& s.take(c0) + s.subrange(c0, c0 + m) =~= s.take(c0 + m)
        &&& s.skip(c0)[0] == s[c0]
    }),
{
    lemma_knode_bounds(s.skip(c0), 0);
    lemma_knode_skip(s, c0, 0);
    lemma_fp_skip(s, c0, 0);
}


/// the use site of the node that starts with event `e`: the alias token while an alias is being replayed, else the node
spec fn spec_use_site(use_site_override: Option<Location>, e: Ev<'_>) -> Location {
    match use_site_override { Some(l) => l, None => e.spec_location() }
}
