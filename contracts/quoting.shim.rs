// ===== assumed contracts for unit `quoting` =====

/// The output `W: fmt::Write`: an append-only character sink that may fail at any write.
#[verifier::external_body]
pub struct Sink { _p: () }

#[verifier::external_body]
pub struct FmtError { _p: () }

impl Sink {
    pub uninterp spec fn text(&self) -> Seq<char>;

    // fmt::Write::write_char
    #[verifier::external_body]
    pub fn write_char(&mut self, c: char) -> (r: Result<(), FmtError>)
        ensures r is Ok ==> final(self).text() == old(self).text().push(c),
    { unimplemented!() }

    // fmt::Write::write_str
    #[verifier::external_body]
    pub fn write_str(&mut self, s: &str) -> (r: Result<(), FmtError>)
        ensures r is Ok ==> final(self).text() == old(self).text() + s@,
    { unimplemented!() }

    // write!(out, "\\x{:02X}", v): backslash, x, two upper-case hex digits
    #[verifier::external_body]
    pub fn write_x2(&mut self, v: u32) -> (r: Result<(), FmtError>)
        requires v <= 0xFF,
        ensures r is Ok ==> final(self).text() == old(self).text() + seq!['\\', 'x', hex_digit(v / 16), hex_digit(v % 16)],
    { unimplemented!() }

    // write!(out, "\\u{:04X}", v)
    #[verifier::external_body]
    pub fn write_u4(&mut self, v: u32) -> (r: Result<(), FmtError>)
        requires v <= 0xFFFF,
        ensures r is Ok ==> final(self).text() == old(self).text()
            + seq!['\\', 'u', hex_digit(v / 4096), hex_digit((v / 256) % 16), hex_digit((v / 16) % 16), hex_digit(v % 16)],
    { unimplemented!() }
}

pub open spec fn hex_digit(v: u32) -> char {
    if v < 10 { ((0x30 + v) as u8) as char } else { ((0x41 + v - 10) as u8) as char }
}

// ser_error::Error (only `From<fmt::Error>` matters here), opaque
#[verifier::external_body]
pub struct SerError { _p: () }

impl std::convert::From<FmtError> for SerError {
    #[verifier::external_body]
    fn from(e: FmtError) -> SerError { unimplemented!() }
}

// opaque pieces of YamlSerializer that the functions under contract never touch
#[verifier::external_body]
pub struct AnchorMap { _p: () }
#[verifier::external_body]
pub struct AnchorGen { _p: () }

// `char::is_control`: Unicode general category Cc
pub assume_specification[char::is_control](c: char) -> (r: bool)
    ensures r == ((c as u32) <= 0x1F || (0x7F <= (c as u32) && (c as u32) <= 0x9F));

// `String::replace(char, &str)` / `String::replace([char; 2], &str)`: every occurrence of the given
// characters is replaced by `to`, everything else is kept in order
pub open spec fn replaced1(s: Seq<char>, a: char, to: Seq<char>) -> Seq<char>
    decreases s.len()
{
    if s.len() == 0 { Seq::empty() } else { replaced1(s.drop_last(), a, to) + (if s.last() == a { to } else { seq![s.last()] }) }
}
pub open spec fn replaced2(s: Seq<char>, a: char, b: char, to: Seq<char>) -> Seq<char>
    decreases s.len()
{
    if s.len() == 0 { Seq::empty() } else { replaced2(s.drop_last(), a, b, to) + (if s.last() == a || s.last() == b { to } else { seq![s.last()] }) }
}

#[verifier::external_body]
fn string_replace_char(s: &String, a: char, to: &str) -> (r: String)
    ensures r@ == replaced1(s@, a, to@),
{ s.replace(a, to) }

#[verifier::external_body]
fn string_replace_chars2(s: &String, a: char, b: char, to: &str) -> (r: String)
    ensures r@ == replaced2(s@, a, b, to@),
{ s.replace([a, b], to) }

// ---- std str helpers used by src/wrapping.rs::first_line_leading_spaces ----

/// `s.split('\n')` collected: the pieces between line feeds, in order (at least one piece)
pub open spec fn split_lines(s: Seq<char>) -> Seq<Seq<char>>
    decreases s.len()
{
    if s.len() == 0 { seq![Seq::<char>::empty()] }
    else {
        let p = split_lines(s.drop_last());
        if s.last() == '\n' { p.push(Seq::<char>::empty()) } else { p.update(p.len() - 1, p.last().push(s.last())) }
    }
}

#[verifier::external_body]
fn str_split_lf<'a>(s: &'a str) -> (r: Vec<&'a str>)
    ensures r@.len() == split_lines(s@).len(), forall|i: int| 0 <= i < r@.len() ==> (#[trigger] r@[i])@ == split_lines(s@)[i],
{ s.split('\n').collect() }

pub open spec fn leading_spaces(s: Seq<char>) -> nat
    decreases s.len()
{
    if s.len() == 0 || s[0] != ' ' { 0 } else { 1 + leading_spaces(s.skip(1)) }
}

// `line.trim_start_matches(' ')`
#[verifier::external_body]
fn str_trim_start_spaces<'a>(s: &'a str) -> (r: &'a str)
    ensures r@ == s@.skip(leading_spaces(s@) as int), leading_spaces(s@) <= s@.len(),
{ s.trim_start_matches(' ') }

// `str::len` (bytes) for text that is compared only through differences of lengths of a string and its suffix
#[verifier::external_body]
fn str_len_diff(a: &str, b: &str) -> (r: usize)
    requires b@.len() <= a@.len(), b@ == a@.skip(a@.len() - b@.len()),
             forall|i: int| 0 <= i < a@.len() - b@.len() ==> a@[i] == ' ',
    ensures r == a@.len() - b@.len(),
{ a.len() - b.len() }

#[verifier::external_body]
fn str_is_empty(s: &str) -> (r: bool)
    ensures r == (s@.len() == 0),
{ s.is_empty() }

/// a non-empty line that does not start with the byte ' ' does not start with the char ' '
proof fn lemma_first_char_not_space(line: &str)
    requires line@.len() > 0, !(line.spec_bytes().len() > 0 && line.spec_bytes()[0] == 0x20),
    ensures line@[0] != ' ',
{
    let cs = line@;
    if cs[0] == ' ' {
        assert(cs.take(1) =~= Seq::<char>::empty().push(' '));
        encode_utf8_push(Seq::<char>::empty(), ' ');
        reveal_with_fuel(encode_utf8, 1);
        lemma_scalar_ascii(' ' as u32);
        assert(cs =~= cs.take(1) + cs.skip(1));
        encode_utf8_concat(cs.take(1), cs.skip(1));
        assert(encode_utf8(cs)[0] == 0x20);
    }
}

/// the same for any ASCII character
proof fn lemma_first_char_not(line: &str, c: char)
    requires line@.len() > 0, (c as u32) < 128, !(line.spec_bytes().len() > 0 && line.spec_bytes()[0] == c as u8),
    ensures line@[0] != c,
{
    let cs = line@;
    if cs[0] == c {
        assert(cs.take(1) =~= Seq::<char>::empty().push(c));
        encode_utf8_push(Seq::<char>::empty(), c);
        reveal_with_fuel(encode_utf8, 1);
        lemma_scalar_ascii(c as u32);
        assert(cs =~= cs.take(1) + cs.skip(1));
        encode_utf8_concat(cs.take(1), cs.skip(1));
        assert(encode_utf8(cs)[0] == c as u8);
    }
}

// ---- serialize_str, block scalar path ----

/// the `base` serialize_str computes: nesting level at which the header line of the block scalar sits
spec fn block_base(s: &YamlSerializer) -> nat {
    if s.pending_space_after_colon {
        match s.current_map_depth { Some(d) => d as nat, None => s.depth as nat }
    } else {
        match s.after_dash_depth { Some(d) => d as nat, None => s.depth as nat }
    }
}

/// fields the helpers called on the block path leave alone
spec fn same_layout(a: &YamlSerializer, b: &YamlSerializer) -> bool {
    a.indent_step == b.indent_step && a.folded_wrap_col == b.folded_wrap_col
    && a.pending_anchor_id == b.pending_anchor_id && a.in_flow == b.in_flow && a.quote_all == b.quote_all && a.yaml_12 == b.yaml_12
    && a.depth == b.depth && a.current_map_depth == b.current_map_depth && a.after_dash_depth == b.after_dash_depth
    && a.pending_inline_comment == b.pending_inline_comment && a.pending_space_after_colon == b.pending_space_after_colon
    && a.at_line_start == b.at_line_start
}
spec fn same_pos(a: &YamlSerializer, b: &YamlSerializer) -> bool { same_layout(a, b) && same_block_cfg(a, b) && a.pending_inline_map == b.pending_inline_map }
spec fn same_block_cfg(a: &YamlSerializer, b: &YamlSerializer) -> bool {
    a.indent_step == b.indent_step && a.folded_wrap_col == b.folded_wrap_col && a.pending_str_from_auto == b.pending_str_from_auto
    && a.pending_anchor_id == b.pending_anchor_id && a.in_flow == b.in_flow && a.quote_all == b.quote_all && a.yaml_12 == b.yaml_12
    && a.depth == b.depth && a.current_map_depth == b.current_map_depth && a.after_dash_depth == b.after_dash_depth
    && a.pending_inline_comment == b.pending_inline_comment && a.pending_str_style == b.pending_str_style
}

/// `v.trim_end_matches('\n')`
#[verifier::external_body]
fn str_trim_end_lf<'a>(s: &'a str) -> (r: &'a str)
    ensures r@ == strip_lf(s@), trailing_lf(s@) <= s@.len(),
{ s.trim_end_matches('\n') }

/// `v.len() - content.len()` (bytes) where `content` is `v` without its trailing line feeds (one byte each)
#[verifier::external_body]
fn str_len_diff_trailing_lf(a: &str, b: &str) -> (r: usize)
    requires b@ == strip_lf(a@),
    ensures r == trailing_lf(a@),
{ a.len() - b.len() }

/// `v.contains('\n')`
#[verifier::external_body]
fn str_contains_lf(s: &str) -> (r: bool)
    ensures r == (exists|i: int| 0 <= i < s@.len() && s@[i] == '\n'),
{ s.contains('\n') }

/// `v.chars().count()`
#[verifier::external_body]
fn str_char_count(s: &str) -> (r: usize)
    ensures r == s@.len(),
{ s.chars().count() }

/// `str::replace(char, &str)`
#[verifier::external_body]
fn str_replace_char(s: &str, a: char, to: &str) -> (r: String)
    ensures r@ == replaced1(s@, a, to@),
{ s.replace(a, to) }

/// Seam check.  The fragments `serialize_str#select` and `serialize_str#block` are consecutive statements of
/// serialize_str (the extraction patterns make the second start where the first ends); running one after the
/// other here makes Verus discharge the `seam:` preconditions of the second from the postconditions of the first.
impl<'a> YamlSerializer<'a> {
    fn serialize_str_seam(&mut self, v: &str, Ghost(pcol): Ghost<int>) -> (r: Result<(), SerError>)
        requires
            // assumed: the automatic mark is cleared at the end of every block scalar (and by the quoted fallback),
            // so it is never set when serialize_str is entered
            !old(self).pending_str_from_auto,
            old(self).indent_step >= 1,
            old(self).indent_step * (block_base(old(self)) + 1) <= usize::MAX && block_base(old(self)) + 1 <= usize::MAX,
            (old(self).indent_step == 2 || block_base(old(self)) == 0) ==> pcol == old(self).indent_step * block_base(old(self)),
    {
        self.serialize_str_select(v);
        self.serialize_str_block(v, Ghost(pcol))
    }
}

// ---- R38 wrappers: the methods write_quoted / write_single_quoted use `self` only through `self.out`; their real bodies are
// verified as functions of the sink (`*__out`), and these two-line methods give callers the same contract plus the frame ----
impl<'a> YamlSerializer<'a> {
    fn write_quoted(&mut self, s: &str) -> (r: Result<(), SerError>)
        ensures r is Ok ==> final(self).out.text() =~= old(self).out.text().push('"') + dq_body(s@) + seq!['"'],
                same_pos(final(self), old(self)),
    { Self::write_quoted__out(self.out, s) }

    fn write_single_quoted(&mut self, s: &str) -> (r: Result<(), SerError>)
        ensures r is Ok ==> final(self).out.text() =~= old(self).out.text().push('\'') + sq_body(s@) + seq!['\''],
                same_pos(final(self), old(self)),
    { Self::write_single_quoted__out(self.out, s) }
}

/// `write!(s, "\\u{:04X}", v)` into a String (cannot fail)
#[verifier::external_body]
fn string_write_u4(out: &mut String, v: u32)
    requires v <= 0xFFFF,
    ensures final(out)@ == old(out)@ + seq!['\\', 'u', hex_digit(v / 4096), hex_digit((v / 256) % 16), hex_digit((v / 16) % 16), hex_digit(v % 16)],
{ unimplemented!() }

// ---- ASCII string helpers for src/zmij_format.rs (for ASCII text byte offsets are character offsets) ----
#[verifier::external_body]
fn ascii_len(s: &str) -> (r: usize) requires all_ascii(s@), ensures r == s@.len(), { s.len() }
/// `s.find(c)`
#[verifier::external_body]
fn ascii_find(s: &str, c: char) -> (r: Option<usize>)
    requires all_ascii(s@),
    ensures match r { Some(i) => first_index_of(s@, c) == Some(i as int), None => first_index_of(s@, c) is None },
{ s.find(c) }
/// `&s[a..b]`
#[verifier::external_body]
fn ascii_slice<'a>(s: &'a str, a: usize, b: usize) -> (r: &'a str)
    requires all_ascii(s@), a <= b <= s@.len(),
    ensures r@ == s@.subrange(a as int, b as int), all_ascii(r@),
{ &s[a..b] }
/// `s.contains(c)`
#[verifier::external_body]
fn ascii_contains(s: &str, c: char) -> (r: bool)
    ensures r == has_char(s@, c),
{ s.contains(c) }
/// `matches!(s.as_bytes().get(i), Some(<one of the listed bytes>))`
#[verifier::external_body]
fn ascii_byte_in(s: &str, i: usize, set: &[u8]) -> (r: bool)
    requires all_ascii(s@),
    ensures r == (i < s@.len() && (exists|k: int| 0 <= k < set@.len() && set@[k] == s@[i as int] as u8)),
{ match s.as_bytes().get(i) { Some(b) => set.contains(b), None => false } }

// ---- floats: classification (std / num_traits) and the external formatter zmij; all uninterpreted ----
#[verifier::external_body] fn fl_is_nan(f: f64) -> (r: bool) ensures r == fl_nan(f), { f.is_nan() }
#[verifier::external_body] fn fl_is_infinite(f: f64) -> (r: bool) ensures r == fl_inf(f), { f.is_infinite() }
#[verifier::external_body] fn fl_is_sign_positive(f: f64) -> (r: bool) ensures r == fl_pos(f), { f.is_sign_positive() }
#[verifier::external_body]
pub struct ZmijBuffer { _p: () }
impl ZmijBuffer {
    #[verifier::external_body]
    fn new() -> ZmijBuffer { unimplemented!() }
    /// `zmij::Buffer::format_finite` (assumed: ASCII text, shorter than the address space)
    #[verifier::external_body]
    fn format_finite(&mut self, f: f64) -> (r: &str)
        ensures r@ == zmij_text(f), all_ascii(r@), r@.len() < usize::MAX,
    { unimplemented!() }
}

// ---- SpaceAfter: the wrapped value is serialized by generic serde code; opaque here (it may do anything to the serializer) ----
#[verifier::external_body] pub struct SerVal { _p: () }
#[verifier::external_body]
fn ser_value<'a>(v: SerVal, ser: &mut YamlSerializer<'a>) -> (r: Result<(), SerError>) { unimplemented!() }
/// `scalar_key_to_string(variant, yaml_12)` for a variant name (F43; the text itself: KeyScalarSink::serialize_str, under contract above)
#[verifier::external_body]
fn variant_key_text(key: &str, yaml_12: bool) -> (r: Result<String, SerError>) { unimplemented!() }
