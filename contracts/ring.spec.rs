// ===== spec library for unit `ring`: the recent-bytes window of the reader entry points (src/ring_reader.rs) =====
// Written from the statement of C17 (a reader error report shows the line the error is on): the window must be the last
// bytes read, and its first line number must be 1 + the number of line feeds that have left the window.

/// Is the byte at `i` the END of a line, the way the YAML scanner (and with it `Location::line`) counts lines: a line feed,
/// or a carriage return that is not the first half of CR LF (YAML 1.2 b-break).  Taken from the property statement ("shows
/// the line the location refers to"), not from the code.
pub open spec fn is_break_at(s: Seq<u8>, i: int) -> bool {
    s[i] == 0x0Au8 || (s[i] == 0x0Du8 && !(i + 1 < s.len() && s[i + 1] == 0x0Au8))
}

/// number of lines that end inside `s[..k]`
pub open spec fn breaks_before(s: Seq<u8>, k: int) -> nat
    decreases k,
{
    if k <= 0 { 0 } else { breaks_before(s, k - 1) + (if is_break_at(s, k - 1) { 1nat } else { 0nat }) }
}

pub proof fn lemma_breaks_bound(s: Seq<u8>, k: int)
    ensures breaks_before(s, k) <= (if k <= 0 { 0 } else { k }),
    decreases k,
{
    if k > 0 { lemma_breaks_bound(s, k - 1); }
}

/// bytes appended behind position `k` do not change what ends in front of it
pub proof fn lemma_breaks_stable(s: Seq<u8>, t: Seq<u8>, k: int)
    requires k < s.len(),
    ensures breaks_before(s + t, k) == breaks_before(s, k),
    decreases k,
{
    if k > 0 {
        lemma_breaks_stable(s, t, k - 1);
        assert((s + t)[k - 1] == s[k - 1]);
        assert((s + t)[k] == s[k]);
    }
}

/// the slot of logical index `i` in a ring of `n` cells whose oldest element sits at `h`
pub proof fn lemma_wrap(h: int, i: int, n: int)
    requires 0 <= h < n, 0 <= i <= n,
    ensures (h + i) % n == (if h + i < n { h + i } else { h + i - n }),
{
    if h + i < n { vstd::arithmetic::div_mod::lemma_small_mod((h + i) as nat, n as nat); }
    else { vstd::arithmetic::div_mod::lemma_small_mod((h + i - n) as nat, n as nat); vstd::arithmetic::div_mod::lemma_mod_sub_multiples_vanish(h + i, n); }
}

pub proof fn lemma_ring_slots(h: int, n: int)
    requires 0 <= h < n,
    ensures
        0 <= (h + 1) % n < n,
        forall|i: int| 0 <= i <= n ==> #[trigger] ((h + i) % n) == (if h + i < n { h + i } else { h + i - n }),
        forall|i: int| 0 <= i <= n ==> #[trigger] ((((h + 1) % n) + i) % n) == (if ((h + 1) % n) + i < n { ((h + 1) % n) + i } else { ((h + 1) % n) + i - n }),
{
    lemma_wrap(h, 1, n);
    assert forall|i: int| 0 <= i <= n implies #[trigger] ((h + i) % n) == (if h + i < n { h + i } else { h + i - n }) by { lemma_wrap(h, i, n); }
    assert forall|i: int| 0 <= i <= n implies #[trigger] ((((h + 1) % n) + i) % n) == (if ((h + 1) % n) + i < n { ((h + 1) % n) + i } else { ((h + 1) % n) + i - n }) by { lemma_wrap((h + 1) % n, i, n); }
}

/// what a window of capacity `n` retains of everything pushed so far
pub open spec fn last_n(all: Seq<u8>, n: int) -> Seq<u8> {
    if all.len() <= n { all } else { all.skip(all.len() - n) }
}
/// ... and how many bytes have left it
pub open spec fn evicted_len(all: Seq<u8>, n: int) -> int {
    if all.len() <= n { 0 } else { all.len() - n }
}

/// the bytes in front of the first non-continuation byte end no line
proof fn lemma_lead_conts_no_break(b: Seq<u8>, k: int)
    requires 0 <= k <= lead_conts(b),
    ensures lead_conts(b) <= b.len(), breaks_before(b, k) == 0, forall|j: int| 0 <= j < k ==> is_cont(#[trigger] b[j]),
    decreases k,
{
    lemma_lead_conts_all_cont(b);
    if k > 0 { lemma_lead_conts_no_break(b, k - 1); }
}

proof fn lemma_lead_conts_all_cont(b: Seq<u8>)
    ensures lead_conts(b) <= b.len(), forall|j: int| 0 <= j < lead_conts(b) ==> is_cont(#[trigger] b[j]),
    decreases b.len(),
{
    if b.len() > 0 && is_cont(b[0]) {
        lemma_lead_conts_all_cont(b.skip(1));
        assert forall|j: int| 0 <= j < lead_conts(b) implies is_cont(#[trigger] b[j]) by {
            if j > 0 { assert(b[j] == b.skip(1)[j - 1]); }
        }
    }
}
