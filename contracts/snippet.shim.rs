// ===== assumed contracts for unit `snippet` =====
// `String::into_bytes`
#[verifier::external_body]
fn string_into_bytes(s: String) -> (r: Vec<u8>)
    ensures r@ == encode_utf8(s@), r@.len() <= isize::MAX,   // allocation limit of Vec
{ s.into_bytes() }

// `match String::from_utf8(bytes) { Ok(out) => out, Err(e) => String::from_utf8_lossy(&e.into_bytes()).into_owned() }`
#[verifier::external_body]
fn string_from_utf8_or_lossy(b: Vec<u8>) -> (r: String)
    ensures valid_utf8(b@) ==> encode_utf8(r@) == b@,
{ match String::from_utf8(b) { Ok(out) => out, Err(e) => String::from_utf8_lossy(&e.into_bytes()).into_owned() } }

// std's ASCII classification of bytes (so that a rewrite of the byte tests in terms of these methods is still decided)
pub assume_specification[ u8::is_ascii_control ](b: &u8) -> (r: bool)
    ensures r == (*b < 0x20 || *b == 0x7f);
pub assume_specification[ u8::is_ascii_whitespace ](b: &u8) -> (r: bool)
    ensures r == (*b == 0x20 || *b == 0x09 || *b == 0x0a || *b == 0x0c || *b == 0x0d);
pub assume_specification[ u8::is_ascii_graphic ](b: &u8) -> (r: bool)
    ensures r == (0x21 <= *b && *b <= 0x7e);

/// `bytes.drain(..cut);`
#[verifier::external_body]
fn vec_drain_prefix(v: &mut Vec<u8>, cut: usize)
    requires cut <= old(v)@.len(),
    ensures final(v)@ == old(v)@.skip(cut as int),
{ v.drain(..cut); }
