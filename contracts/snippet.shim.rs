// ===== assumed contracts for unit `snippet` =====
// `String::into_bytes`
#[verifier::external_body]
fn string_into_bytes(s: String) -> (r: Vec<u8>)
    ensures r@ == encode_utf8(s@), r@.len() <= isize::MAX,   // allocation limit of Vec
{ s.into_bytes() }

// `match String::from_utf8(bytes) { Ok(out) => out, Err(e) => String::from_utf8_lossy(&e.into_bytes()).into_owned() }`
#[verifier::external_body]
fn string_from_utf8_or_lossy(b: Vec<u8>) -> (r: String)
    ensures valid_utf8(b@) ==> encode_utf8(r@) == b@,
{ match String::from_utf8(b) { Ok(out) => out, Err(e) => String::from_utf8_lossy(&e.into_bytes()).into_owned() } }
