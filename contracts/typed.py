"""Unit `typed`: the typed integer entry points of the deserializer (src/de.rs deserialize_i8..u128):
which parser, which width and which option flag they use, and that they consume exactly one scalar."""
from contracts_types import *
import importlib.util as _ilu, os as _os
def _load(n):
    sp = _ilu.spec_from_file_location('contracts_%s_for_typed' % n, _os.path.join(_os.path.dirname(__file__), n + '.py'))
    m = _ilu.module_from_spec(sp); sp.loader.exec_module(m); return m
_sc = _load('scalars')
NAME = 'typed'
FEATURES = []
USES = ['use vstd::string::*;', 'use vstd::utf8::*;']
PRELUDE = ['common.shim.rs', 'error.spec.rs', 'evnodes.spec.rs', 'str.shim.rs', 'scalars.spec.rs', 'typed.shim.rs']
SUBST = SUBST_COMMON + [(r"Cow<'(a|de|_), str>", r"CowStr<'\1>")]
D = 'src/de.rs'
YD = 'impl de::Deserializer for YamlDeserializer/'

def _callee(it):
    it = dict(it); it.update(trusted=True, props=[]); it.pop('canaries', None); it.pop('proofs', None); it.pop('loops', None); it.pop('loop_rewrites', None)
    return it
PARSERS = [_callee(x) for x in _sc.ITEMS if x.get('id', '').startswith('parse_int_')]

def _entry(ty, signed):
    width = ('-' if signed else '') + ty[1:]
    parser = 'parse_int_signed' if signed else 'parse_int_unsigned'
    spec = 'int_spec' if signed else 'uint_spec'
    lo = '%s::MIN' % ty if signed else '0'
    return dict(src=D, path=YD + 'fn deserialize_%s' % ty, id='YamlDeserializer::deserialize_%s' % ty,
        impl_header="impl<'de, 'e> YamlDeserializer<'de, 'e>", props=['C06', 'C05', 'C01'],
        pre_rewrites=[(r"fn deserialize_%s<V: Visitor<'de>>\(mut self, visitor: V\) -> Result<V::Value, Self::Error>" % ty,
                   'fn deserialize_%s(mut self, visitor: Vis) -> Result<VisVal, Error>' % ty, 1, 'R9')],
        rewrites=[(r'let v: %s =\s*%s\(' % (ty, parser), 'let v: %s = %s_%s(' % (ty, parser, ty), None, 'R9')],
        ensures=[('C06:typed_integer_is_the_exact_value_of_the_next_scalar_with_the_configured_option', '''match r {
              Ok(val) => old(self.ev).rest().len() > 0 && match old(self.ev).rest()[0] {
                    Ev::Scalar { value, .. } => match %s(spec_trim(encode_utf8(value@)), self.cfg.legacy_octal_numbers) {
                        Some(x) => %s <= x <= %s::MAX && Ok::<VisVal, Error>(val) == vis_int(visitor, %s, x),
                        None => false },
                    _ => false },
              Err(_) => true }''' % (spec, lo, ty, width))],
        proofs=[dict(at='start', ghost=True, text='let ghost rest0 = self.ev.rest();'),
                dict(before='visitor.visit_%s(v)' % ty, label='C05:exactly_one_event_consumed_before_the_visitor_runs',
                     text='assert(this.ev.rest() == rest0.skip(1));')],
        canaries=['C06:typed_integer_is_the_exact_value_of_the_next_scalar_with_the_configured_option'])

ITEMS = location_types() + budget_types() + error_types() + [
    dict(src=SAPHYR + 'scanner.rs', path='enum ScalarStyle', derive=COPY),
    dict(src='src/tags.rs', path='enum SfTag', derive='#[derive(Clone, Copy, PartialEq, Eq, Hash, Structural)]'),
    dict(src='src/options.rs', path='enum DuplicateKeyPolicy', derive=COPY),
    dict(src=D, path='struct Cfg', derive='#[derive(Clone, Copy)]'),
    dict(src=D, path='enum Ev'),
    events_trait(),
    dict(src=D, path='struct YamlDeserializer'),
] + PARSERS + [
    dict(src=D, path='impl YamlDeserializer/fn take_scalar_cow_event', trusted=True, props=[],
         ensures=[('consumes_exactly_one_scalar', '''match r {
                Ok((text, tag, loc)) => old(self).ev.rest().len() > 0 && match old(self).ev.rest()[0] {
                        Ev::Scalar { value, tag: t, location, .. } => text == value && tag == t && loc == location,
                        _ => false }
                    && final(self).ev.rest() == old(self).ev.rest().skip(1) && final(self).cfg == old(self).cfg,
                Err(_) => true }''')]),
    dict(src=D, path='impl YamlDeserializer/fn take_scalar_cow_with_location', props=['C05'],
         ensures=[('consumes_exactly_one_scalar', '''match r {
                Ok((text, tag, loc)) => old(self).ev.rest().len() > 0 && match old(self).ev.rest()[0] {
                        Ev::Scalar { value, tag: t, location, .. } => text == value && tag == t && loc == location,
                        _ => false }
                    && final(self).ev.rest() == old(self).ev.rest().skip(1) && final(self).cfg == old(self).cfg,
                Err(_) => true }''')]),
] + [_entry(t, True) for t in ('i8', 'i16', 'i32', 'i64', 'i128')] + [_entry(t, False) for t in ('u8', 'u16', 'u32', 'u64', 'u128')]
