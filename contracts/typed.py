"""Unit `typed`: the typed integer entry points of the deserializer (src/de.rs deserialize_i8..u128):
which parser, which width and which option flag they use, and that they consume exactly one scalar."""
from contracts_types import *
import importlib.util as _ilu, os as _os
def _load(n):
    sp = _ilu.spec_from_file_location('contracts_%s_for_typed' % n, _os.path.join(_os.path.dirname(__file__), n + '.py'))
    m = _ilu.module_from_spec(sp); sp.loader.exec_module(m); return m
_sc = _load('scalars')
_b64 = _load('base64')
_evu = _load('events')
NAME = 'typed'
FEATURES = []
USES = ['use vstd::string::*;', 'use vstd::utf8::*;']
PRELUDE = ['common.shim.rs', 'error.spec.rs', 'evnodes.spec.rs', 'str.shim.rs', 'scalars.spec.rs', 'base64.spec.rs', 'crop.spec.rs', 'crop.shim.rs', 'plain.spec.rs', 'plain.shim.rs', 'typed.shim.rs']
SUBST = SUBST_COMMON + [(r"Cow<'(a|de|_), str>", r"CowStr<'\1>")]
D = 'src/de.rs'
YD = 'impl de::Deserializer for YamlDeserializer/'

def _callee(it):
    it = dict(it); it.update(trusted=True, props=[]); it.pop('canaries', None); it.pop('proofs', None); it.pop('loops', None); it.pop('loop_rewrites', None)
    return it
PARSERS = [_callee(x) for x in _sc.ITEMS if x.get('id', '').startswith('parse_int_')]

def _entry(ty, signed):
    width = ('-' if signed else '') + ty[1:]
    parser = 'parse_int_signed' if signed else 'parse_int_unsigned'
    spec = 'int_spec' if signed else 'uint_spec'
    lo = '%s::MIN' % ty if signed else '0'
    return dict(src=D, path=YD + 'fn deserialize_%s' % ty, id='YamlDeserializer::deserialize_%s' % ty,
        impl_header="impl<'de, 'e> YamlDeserializer<'de, 'e>", props=['C06', 'C05', 'C01'],
        pre_rewrites=[(r"fn deserialize_%s<V: Visitor<'de>>\(mut self, visitor: V\) -> Result<V::Value, Self::Error>" % ty,
                   'fn deserialize_%s(mut self, visitor: Vis) -> Result<VisVal, Error>' % ty, 1, 'R9')],
        rewrites=[(r'let v: %s =\s*%s\(' % (ty, parser), 'let v: %s = %s_%s(' % (ty, parser, ty), None, 'R9')],
        ensures=[('C06:typed_integer_is_the_exact_value_of_the_next_scalar_with_the_configured_option', '''match r {
              Ok(val) => old(self.ev).rest().len() > 0 && match old(self.ev).rest()[0] {
                    Ev::Scalar { value, .. } => match %s(spec_trim(encode_utf8(value@)), self.cfg.legacy_octal_numbers) {
                        Some(x) => %s <= x <= %s::MAX && Ok::<VisVal, Error>(val) == vis_int(visitor, %s, x),
                        None => false },
                    _ => false },
              Err(_) => true }''' % (spec, lo, ty, width))],
        proofs=[dict(at='start', ghost=True, text='let ghost rest0 = self.ev.rest();'),
                dict(before='visitor.visit_%s(v)' % ty, label='C05:exactly_one_event_consumed_before_the_visitor_runs',
                     text='assert(this.ev.rest() == rest0.skip(1));')],
        canaries=['C06:typed_integer_is_the_exact_value_of_the_next_scalar_with_the_configured_option'])

ITEMS = location_types() + budget_types() + error_types() + [
    dict(src=SAPHYR + 'scanner.rs', path='enum ScalarStyle', derive=COPY),
    dict(src='src/tags.rs', path='enum SfTag', derive='#[derive(Clone, Copy, PartialEq, Eq, Hash, Structural)]'),
    dict(src='src/options.rs', path='enum DuplicateKeyPolicy', derive=COPY),
    dict(src=D, path='struct Cfg', derive='#[derive(Clone, Copy)]'),
    dict(src=D, path='enum Ev'),
    _callee([x for x in _evu.ITEMS if x.get('path') == 'impl Ev/fn location'][0]),
    events_trait(),
    dict(src=D, path='struct YamlDeserializer'),
] + PARSERS + [
    dict(src=D, path='impl YamlDeserializer/fn take_scalar_cow_event', trusted=True, props=[],
         ensures=[('consumes_exactly_one_scalar', '''match r {
                Ok((text, tag, loc)) => old(self).ev.rest().len() > 0 && match old(self).ev.rest()[0] {
                        Ev::Scalar { value, tag: t, location, .. } => text == value && tag == t && loc == location,
                        _ => false }
                    && final(self).ev.rest() == old(self).ev.rest().skip(1) && final(self).cfg == old(self).cfg,
                Err(_) => true }''')]),
    dict(src=D, path='impl YamlDeserializer/fn take_scalar_cow_with_location', props=['C05'],
         ensures=[('consumes_exactly_one_scalar', '''match r {
                Ok((text, tag, loc)) => old(self).ev.rest().len() > 0 && match old(self).ev.rest()[0] {
                        Ev::Scalar { value, tag: t, location, .. } => text == value && tag == t && loc == location,
                        _ => false }
                    && final(self).ev.rest() == old(self).ev.rest().skip(1) && final(self).cfg == old(self).cfg,
                Err(_) => true }''')]),
] + [_entry(t, True) for t in ('i8', 'i16', 'i32', 'i64', 'i128')] + [_entry(t, False) for t in ('u8', 'u16', 'u32', 'u64', 'u128')] + [
    _callee([x for x in _b64.ITEMS if x.get('path') == 'fn decode_base64_yaml'][0]),
    _callee([x for x in _evu.ITEMS if x.get('path') == 'impl YamlDeserializer/fn expect_seq_start'][0]),
    dict(src=D, path=YD + 'fn deserialize_bytes', id='YamlDeserializer::deserialize_bytes',
        impl_header="impl<'de, 'e> YamlDeserializer<'de, 'e>", props=['C06', 'C05', 'C01'],
        pre_rewrites=[(r"fn deserialize_bytes<V: Visitor<'de>>\(mut self, visitor: V\) -> Result<V::Value, Self::Error>",
                       'fn deserialize_bytes(mut self, visitor: Vis) -> Result<VisVal, Error>', 1, 'R9')],
        rewrites=[(r'if tag == &SfTag::Binary', 'if *tag == SfTag::Binary', 1, 'R15'),
                  (r'decode_base64_yaml\(&value\)\.map_err\(\|err\| err\.with_location\(data_location\)\)\?',
                   '(match decode_base64_yaml(value.as_ref()) { Ok(__v) => __v, Err(err) => { return Err(err.with_location(data_location)); } })', 1, 'R18'),
                  (r'<u8 as serde::Deserialize>::deserialize\(\s*YamlDeserializer::new\(this\.ev, this\.cfg\),\s*\)',
                   'serde_u8_via_yaml_deserializer(this.ev, this.cfg)', None, 'R8'),
                  (r'let (\w+): u8 =\s*parse_int_unsigned\(', r'let \1: u8 = parse_int_unsigned_u8(', None, 'R9'),
                  (r'let mut out = Vec::new\(\);', 'let mut out = Vec::<u8>::new();', None, 'R8')],
        ensures=[('C06:bytes_are_the_strict_base64_payload_or_the_exact_integer_elements_with_the_configured_option', '''match r {
              Ok(val) => old(self.ev).rest().len() > 0 && match old(self.ev).rest()[0] {
                    Ev::Scalar { value, tag, .. } => tag == SfTag::Binary && match b64_decode(b64_strip_ws(encode_utf8(value@))) {
                        Some(bytes) => Ok::<VisVal, Error>(val) == vis_bytes(visitor, bytes),
                        None => false },
                    Ev::SeqStart { .. } => match seq_bytes(old(self.ev).rest(), 1, self.cfg.legacy_octal_numbers) {
                        Some(bytes) => Ok::<VisVal, Error>(val) == vis_bytes(visitor, bytes),
                        None => false },
                    _ => false },
              Err(_) => true }''')],
        canaries=['C06:bytes_are_the_strict_base64_payload_or_the_exact_integer_elements_with_the_configured_option'],
        proofs=[dict(at='start', ghost=True, text='let ghost rest0 = self.ev.rest(); let ghost legacy = self.cfg.legacy_octal_numbers;'),
                dict(before='out.push(b);', ghost=True, text='proof { lemma_seq_bytes_step(rest0, out@, b, legacy); }'),
                dict(after_loop=1, label='C05:the_sequence_is_consumed_up_to_and_including_its_end',
                     text='assert(this.ev.rest() == rest0.skip((out@.len() as int + 2)));')],
        loops={1: dict(header=r'^loop$', invariant_except_break=[
                    ('cursor', 'this.ev.rest() == rest0.skip((1 + out@.len() as int)) && (1 + out@.len() as int) <= rest0.len()')],
                 invariant=[
                    ('C06:bytes_so_far_are_the_exact_elements_so_far', 'seq_bytes_from(rest0, out@, legacy) == seq_bytes(rest0, 1, legacy)'),
                    ('config', 'this.cfg.legacy_octal_numbers == legacy')],
                 ensures=[('at_end', 'rest0.len() > (1 + out@.len() as int) && rest0[(1 + out@.len() as int)] is SeqEnd && this.ev.rest() == rest0.skip((out@.len() as int + 2))')],
                 decreases='rest0.len() - out@.len()')}),
    # ---- the null tables (C06: "quoted scalars are never taken for null") ----
    dict(src='src/parse_scalars.rs', path='fn scalar_is_nullish', props=['C06', 'C05'],
         bounded=dict(harness='bounded/scalar_tables.rs', items=[('src/parse_scalars.rs', 'fn scalar_is_nullish')], cfgs=['has_nullish']),
         rewrites=[(r'value\.is_empty\(\)', 'pl_str_is_empty(value)', None, 'R8'), (r'value == "~"', 'pl_str_eq(value, "~")', None, 'R8'),
                   (r'value\.eq_ignore_ascii_case\("null"\)', 'pl_str_eq_ci(value, "null")', None, 'R8')],
         proofs=[dict(at='start', text='lemma_plain_literals();')],
         ensures=[('C06:null_like_is_exactly_plain_empty_tilde_or_null', 'r == (*style is Plain && sp_null_text(value.spec_bytes()))'),
                  ('C06:quoted_scalars_are_never_null_like', '(*style is SingleQuoted || *style is DoubleQuoted) ==> !r')],
         canaries=['C06:null_like_is_exactly_plain_empty_tilde_or_null']),
    dict(src='src/parse_scalars.rs', path='fn scalar_is_nullish_for_option', props=['C06', 'C05'],
         bounded=dict(harness='bounded/scalar_tables.rs', items=[('src/parse_scalars.rs', 'fn scalar_is_nullish_for_option')], cfgs=['has_nullish_opt']),
         rewrites=[(r'value\.is_empty\(\)', 'pl_str_is_empty(value)', None, 'R8'), (r'value == "~"', 'pl_str_eq(value, "~")', None, 'R8'),
                   (r'value\.eq_ignore_ascii_case\("null"\)', 'pl_str_eq_ci(value, "null")', None, 'R8')],
         proofs=[dict(at='start', text='lemma_plain_literals();')],
         ensures=[('C06:none_is_exactly_unquoted_empty_or_plain_tilde_or_null', '''r == ((value.spec_bytes().len() == 0 && !(*style is SingleQuoted || *style is DoubleQuoted))
                        || (*style is Plain && sp_null_text(value.spec_bytes())))'''),
                  ('C06:quoted_scalars_are_never_none', '(*style is SingleQuoted || *style is DoubleQuoted) ==> !r')],
         canaries=['C06:none_is_exactly_unquoted_empty_or_plain_tilde_or_null']),
    _callee([x for x in _evu.ITEMS if x.get('path') == 'impl YamlDeserializer/fn expect_map_start'][0]),
    dict(src=D, path=YD + 'fn deserialize_option', id='YamlDeserializer::deserialize_option',
        impl_header="impl<'de, 'e> YamlDeserializer<'de, 'e>", props=['C05', 'C06', 'C01'],
        pre_rewrites=[(r"fn deserialize_option<V: Visitor<'de>>\(self, visitor: V\) -> Result<V::Value, Self::Error>",
                       'fn deserialize_option(mut self, visitor: Vis) -> Result<VisVal, Error>', 1, 'R9')],
        rewrites=[(r'if tag == &SfTag::Null', 'if *tag == SfTag::Null', 1, 'R15'),
                  (r'scalar_is_nullish_for_option\(s, style\)', 'scalar_is_nullish_for_option(s.as_ref(), style)', 1, 'R15')],
        ensures=[('C05:option_is_none_exactly_for_an_absent_or_null_like_node_else_the_node_is_handed_on_untouched', '''r is Ok ==> ({
                let rest0 = old(self.ev).rest();
                if self.in_key && self.key_empty_map_node { r == vis_none(visitor) && rest0.len() >= 2 && rest0[0] is MapStart && rest0[1] is MapEnd }
                else if rest0.len() == 0 || rest0[0] is MapEnd || rest0[0] is SeqEnd || opt_none_scalar(rest0[0]) { r == vis_none(visitor) }
                else { r == vis_some(visitor, rest0, self.cfg, self.in_key, self.key_empty_map_node) } })''')],
        proofs=[dict(at='start', ghost=True, text='let ghost rest0 = self.ev.rest();'),
                dict(before='return visitor.visit_none();', label='C05:an_empty_mapping_key_is_consumed_whole', text='assert(this.ev.rest() == rest0.skip(2));'),
                dict(before_re=r'visitor\.visit_none\(\)\s*\}\s*Some\(Ev::Scalar \{\s*value: s', label='C05:a_null_tag_scalar_is_consumed', text='assert(this.ev.rest() == rest0.skip(1));'),
                dict(before_re=r'visitor\.visit_none\(\)\s*\}\s*Some\(Ev::MapEnd', label='C05:a_null_like_scalar_is_consumed', text='assert(this.ev.rest() == rest0.skip(1));'),
                ],
        canaries=['C05:option_is_none_exactly_for_an_absent_or_null_like_node_else_the_node_is_handed_on_untouched']),
    dict(src=D, path=YD + 'fn deserialize_unit', id='YamlDeserializer::deserialize_unit',
        impl_header="impl<'de, 'e> YamlDeserializer<'de, 'e>", props=['C05', 'C06', 'C01'],
        pre_rewrites=[(r"fn deserialize_unit<V: Visitor<'de>>\(self, visitor: V\) -> Result<V::Value, Self::Error>",
                       'fn deserialize_unit(mut self, visitor: Vis) -> Result<VisVal, Error>', 1, 'R9')],
        rewrites=[(r'scalar_is_nullish\(s, style\)', 'scalar_is_nullish(s.as_ref(), style)', 1, 'R15')],
        ensures=[('C05:unit_accepts_only_absence_or_a_plain_null_like_scalar', '''({ let rest0 = old(self.ev).rest();
                match r { Ok(_) => r == vis_unit(visitor) && (rest0.len() == 0 || rest0[0] is MapEnd || rest0[0] is SeqEnd || unit_scalar(rest0[0])),
                          Err(_) => true } })''')],
        proofs=[dict(at='start', ghost=True, text='let ghost rest0 = self.ev.rest();'),
                dict(after_re=r'let _ = this\.ev\.next\(\)\?;', label='C05:a_null_like_scalar_is_consumed', text='assert(this.ev.rest() == rest0.skip(1));')],
        canaries=['C05:unit_accepts_only_absence_or_a_plain_null_like_scalar']),
    # ---- streaming sequence access (C05: a sequence ends exactly at its SeqEnd; elements are handed on in place) ----
    dict(src=D, path='impl de::Deserializer for YamlDeserializer/fn deserialize_seq/' + 'struct SA'),
    dict(src=D, path='impl de::Deserializer for YamlDeserializer/fn deserialize_seq/' + 'impl de::SeqAccess for SA/fn next_element_seed', id='SA::next_element_seed', impl_header="impl<'de, 'e> SA<'de, 'e>",
         props=['C05', 'C16', 'C01'],
         rewrites=[(r"fn next_element_seed<T>\(&mut self, seed: T\) -> Result<Option<T::Value>, Error>\s*where\s*T: de::DeserializeSeed<'de>,",
                    'fn next_element_seed(&mut self, seed: ElemSeed) -> Result<Option<ElemVal>, Error>', 1, 'R9'),
                   (r'let de = YamlDeserializer::new\(self\.ev, self\.cfg\);\s*seed\.deserialize\(de\)\.map\(Some\)\.map_err\(\|e\| \{\s*attach_alias_locations_if_missing\(e, (\w+), (\w+)\)\s*\}\)',
                    r'{ let __use_site = \1; let __def_site = \2; seed_deserialize_element(seed, self.ev, self.cfg, __use_site, __def_site) }', 1, 'R8+R18')],
         ensures=[('C05:a_sequence_ends_exactly_at_its_end_event_which_is_left_for_the_caller', '''({ let rest0 = old(self).ev.rest();
                match r {
                    Ok(None) => rest0.len() > 0 && rest0[0] is SeqEnd && final(self).ev.rest() == rest0,
                    Ok(Some(_)) => rest0.len() > 0 && !(rest0[0] is SeqEnd),
                    Err(_) => true } })'''),
                  ('C05:an_element_is_handed_to_the_seed_at_the_untouched_cursor', '''({ let rest0 = old(self).ev.rest();
                rest0.len() > 0 && !(rest0[0] is SeqEnd) && r is Ok ==>
                    exists|rl: Location| r == #[trigger] elem_seed_result(seed, rest0, old(self).cfg, rl, rest0[0].spec_location()) })'''),
                  ('config_unchanged', 'final(self).cfg == old(self).cfg')],
         proofs=[dict(before='seed_deserialize_element(seed, self.ev, self.cfg, __use_site, __def_site)', label='C16:an_element_error_site_is_the_element_or_the_alias_token_that_stands_for_it',
                      text='assert(self.ev.rest().len() > 0 && __use_site == spec_use_site(self.ev.use_site_override(), self.ev.rest()[0]) && __def_site == self.ev.rest()[0].spec_location());')],
         canaries=['C05:a_sequence_ends_exactly_at_its_end_event_which_is_left_for_the_caller']),
    # ---- booleans (C06) ----
    dict(src='src/parse_scalars.rs', path='fn parse_yaml11_bool', props=['C06', 'C01'],
         bounded=dict(harness='bounded/scalar_tables.rs', items=[('src/parse_scalars.rs', 'fn parse_yaml11_bool')], cfgs=['has_bool']),
         rewrites=[(r's\.trim\(\)', 'str_trim(s)', 1, 'R8'), (r't\.eq_ignore_ascii_case\(("\w+")\)', r'pl_str_eq_ci(t, \1)', None, 'R8'),
                   (r'Err\(format!\("invalid YAML 1\.1 bool: `\{\}`", s\)\)', 'Err(fmt_invalid_bool(s))', 1, 'R8')],
         proofs=[dict(at='start', text='lemma_bool_literals();')],
         ensures=[('C06:yaml11_boolean_table', 'match r { Ok(v) => sp_yaml11(spec_trim(s.spec_bytes())) == Some(v), Err(_) => sp_yaml11(spec_trim(s.spec_bytes())) is None }')],
         canaries=['C06:yaml11_boolean_table']),
    dict(src=D, path=YD + 'fn deserialize_bool', id='YamlDeserializer::deserialize_bool',
        impl_header="impl<'de, 'e> YamlDeserializer<'de, 'e>", props=['C06', 'C05', 'C01'],
        pre_rewrites=[(r"fn deserialize_bool<V: Visitor<'de>>\(mut self, visitor: V\) -> Result<V::Value, Self::Error>",
                       'fn deserialize_bool(mut self, visitor: Vis) -> Result<VisVal, Error>', 1, 'R9')],
        rewrites=[(r's\.trim\(\)', 'str_trim(s)', 1, 'R8'), (r't\.eq_ignore_ascii_case\(("\w+")\)', r'pl_str_eq_ci(t, \1)', None, 'R8'),
                  (r'parse_yaml11_bool\(s\)\.map_err\(\|_e\| Error::InvalidScalar \{\s*ty: "boolean",\s*location,\s*\}\)\?',
                   '(match parse_yaml11_bool(s) { Ok(__v) => __v, Err(_e) => { return Err(Error::InvalidScalar { ty: "boolean", location }); } })', 1, 'R18')],
        proofs=[dict(at='start', ghost=True, text='let ghost rest0 = self.ev.rest();'),
                dict(at='start', text='lemma_bool_literals();'),
                dict(before='visitor.visit_bool(b)', label='C05:exactly_one_event_consumed_before_the_visitor_runs', text='assert(this.ev.rest() == rest0.skip(1));')],
        ensures=[('C06:boolean_is_read_from_the_strict_or_the_yaml11_table_as_configured', '''match r {
              Ok(val) => old(self.ev).rest().len() > 0 && match old(self.ev).rest()[0] {
                    Ev::Scalar { value, .. } => ({ let t = spec_trim(encode_utf8(value@));
                        match (if self.cfg.strict_booleans { sp_strict_bool(t) } else { sp_yaml11(t) }) {
                            Some(b) => Ok::<VisVal, Error>(val) == vis_bool(visitor, b), None => false } }),
                    _ => false },
              Err(_) => true }''')],
        canaries=['C06:boolean_is_read_from_the_strict_or_the_yaml11_table_as_configured']),
    dict(src='src/parse_scalars.rs', path='fn leading_zero_decimal', props=['C06', 'C01'],
         bounded=dict(harness='bounded/scalar_tables.rs', items=[('src/parse_scalars.rs', 'fn leading_zero_decimal')], cfgs=['has_lzd']),
         rewrites=[(r't\.trim\(\)', 'str_trim(t)', 1, 'R8'),
                   (r"s\.strip_prefix\(\['\+', '-'\]\)\.unwrap_or\(s\)", '(match ty_str_strip_sign(s) { Some(__v) => __v, None => s })', 1, 'R8+R18'),
                   (r"digits\.strip_prefix\('0'\)", "str_strip_prefix_char(digits, '0')", 1, 'R8'),
                   (r'rest\.chars\(\)\.next\(\)', 'ty_str_first_char(rest)', 1, 'R8')],
         ensures=[('C06:redundant_leading_zero_is_a_zero_followed_by_anything_but_a_radix_letter', 'r == sp_leading_zero_decimal(spec_trim(t.spec_bytes()))')],
         canaries=['C06:redundant_leading_zero_is_a_zero_followed_by_anything_but_a_radix_letter']),
    _callee([x for x in _evu.ITEMS if x.get('path') == 'impl YamlDeserializer/fn take_scalar_event'][0]),
    _callee([x for x in _sc.ITEMS if x.get('path') == 'impl SfTag/fn can_parse_into_string'][0]),
    dict(src=D, path='impl YamlDeserializer/fn take_string_scalar', props=['C06', 'C05', 'C01'],
         rewrites=[(r'decode_base64_yaml\(&value\)\.map_err\(\|err\| err\.with_location\(location\)\)\?',
                    '(match decode_base64_yaml(value.as_str()) { Ok(__v) => __v, Err(err) => { return Err(err.with_location(location)); } })', 1, 'R18'),
                   (r'String::from_utf8\(data\)\.map_err\(\|_e\| Error::BinaryNotUtf8 \{ location \}\)\?',
                    '(match ty_string_from_utf8(data) { Ok(__v) => __v, Err(_e) => { return Err(Error::BinaryNotUtf8 { location }); } })', 1, 'R18')],
         ensures=[('C06:string_is_the_scalar_text_or_the_strict_base64_payload_and_other_tags_are_refused', '''match r {
                Ok(text) => old(self).ev.rest().len() > 0 && final(self).ev.rest() == old(self).ev.rest().skip(1) && match old(self).ev.rest()[0] {
                    Ev::Scalar { value, tag, .. } =>
                        if tag == SfTag::Binary && !old(self).cfg.ignore_binary_tag_for_string {
                            b64_decode(b64_strip_ws(encode_utf8(value@))) == Some(encode_utf8(text@))
                        } else { sp_string_tag_ok(tag, old(self).cfg.ignore_binary_tag_for_string) && text@ == value@ },
                    _ => false },
                Err(_) => true }'''),
                  ('config_kept', 'final(self).cfg == old(self).cfg && final(self).in_key == old(self).in_key')],
         canaries=['C06:string_is_the_scalar_text_or_the_strict_base64_payload_and_other_tags_are_refused']),
    dict(src=D, path=YD + 'fn deserialize_any', id='YamlDeserializer::deserialize_any',
        impl_header="impl<'de, 'e> YamlDeserializer<'de, 'e>", props=['C06', 'C05', 'C01'],
        pre_rewrites=[(r"fn deserialize_any<V: Visitor<'de>>\(mut self, visitor: V\) -> Result<V::Value, Self::Error>",
                       'fn deserialize_any(mut self, visitor: Vis) -> Result<VisVal, Error>', 1, 'R9')],
        rewrites=[(r'tag == &SfTag::(\w+)', r'*tag == SfTag::\1', None, 'R15'),
                  (r'scalar_is_nullish\(value, style\)', 'scalar_is_nullish(value.as_ref(), style)', 1, 'R15'),
                  (r'match cow \{\s*Cow::Borrowed\(b\) => visitor\.visit_borrowed_str\(b\),\s*Cow::Owned\(s\) => visitor\.visit_string\(s\),\s*\}', 'ty_visit_cowstr(visitor, cow)', 1, 'R8'),
                  (r'let tt = s\.trim\(\);', 'let tt = str_trim(s.as_str());', 1, 'R8+R15'),
                  (r'let t = s\.trim\(\);', 'let t = str_trim(s.as_str());', 1, 'R8+R15'),
                  (r'tt\.eq_ignore_ascii_case\(("\w+")\)', r'pl_str_eq_ci(tt, \1)', None, 'R8'),
                  (r'parse_yaml11_bool\(&s\)', 'parse_yaml11_bool(s.as_str())', 1, 'R15'),
                  (r"t\.starts_with\('-'\)", "pl_str_starts_with_char(t, '-')", 1, 'R8'),
                  (r'parse_int_signed::<i64>\(', 'parse_int_signed_i64(', None, 'R9'),
                  (r'parse_int_unsigned::<u64>\(', 'parse_int_unsigned_u64(', None, 'R9'),
                  (r'parse_yaml12_float::<f64>\(&s, location, tag, this\.cfg\.angle_conversions\)', 'ty_parse_float_f64(s.as_str(), location, tag, this.cfg.angle_conversions)', 1, 'R8'),
                  (r'v\.is_finite\(\)', 'ty_f64_is_finite(v)', 1, 'R8'), (r'v\.is_nan\(\)', 'ty_f64_is_nan(v)', 1, 'R8'), (r'v\.is_sign_negative\(\)', 'ty_f64_is_sign_negative(v)', 1, 'R8'),
                  (r'("-?\.(?:nan|inf)")\.to_string\(\)', r'str_to_owned(\1)', None, 'R8')],
        proofs=[dict(at='start', ghost=True, text='let ghost rest0 = self.ev.rest();'),
                dict(at='start', text='lemma_bool_literals();')],
        ensures=[
            ('C06:untyped_null_forms_become_unit', '''({ let rest0 = old(self.ev).rest();
                r is Ok && rest0.len() > 0 && rest0[0] is Scalar && (rest0[0]->Scalar_tag == SfTag::Null || unit_scalar(rest0[0])) ==> r == vis_unit(visitor) })'''),
            ('C06:untyped_quoted_block_or_string_tagged_scalars_stay_strings', '''({ let rest0 = old(self.ev).rest();
                r is Ok && rest0.len() > 0 && rest0[0] is Scalar ==> ({
                    let tag = rest0[0]->Scalar_tag; let style = rest0[0]->Scalar_style; let value = rest0[0]->Scalar_value;
                    tag != SfTag::Null && !unit_scalar(rest0[0]) && !(tag is Binary && !self.cfg.ignore_binary_tag_for_string) && (!(style is Plain) || tag is String || tag is NonSpecific || tag is Binary)
                        ==> r == vis_str(visitor, value@) }) })'''),
            ('C06:untyped_plain_scalars_are_inferred_as_bool_then_integer_then_float_then_string', '''({ let rest0 = old(self.ev).rest();
                r is Ok && rest0.len() > 0 && rest0[0] is Scalar ==> ({
                    let tag = rest0[0]->Scalar_tag; let style = rest0[0]->Scalar_style; let value = rest0[0]->Scalar_value;
                    style is Plain && (tag is None || tag is Other) && !unit_scalar(rest0[0]) ==> r == sp_infer_plain(visitor, value@, tag, self.cfg) }) })'''),
            ('C05:a_dangling_container_end_or_a_consumed_slot_is_an_error', '''({ let rest0 = old(self.ev).rest();
                rest0.len() > 0 && (rest0[0] is SeqEnd || rest0[0] is MapEnd || rest0[0] is Taken) ==> r is Err })'''),
            ('C06:nothing_left_is_unit', 'r is Ok && old(self.ev).rest().len() == 0 ==> r == vis_unit(visitor)'),
        ],
        canaries=['C06:untyped_plain_scalars_are_inferred_as_bool_then_integer_then_float_then_string', 'C06:untyped_quoted_block_or_string_tagged_scalars_stay_strings']),
    dict(src='src/de_error.rs', path='impl Error/fn quoting_required', trusted=True, props=[], ensures=[('kind', 'r is QuotingRequired')]),
    dict(src='src/parse_scalars.rs', path='fn maybe_not_string', props=['C06', 'C01'],
         rewrites=[(r'style == &ScalarStyle::Plain', '*style == ScalarStyle::Plain', 1, 'R15'),
                   (r'parse_yaml12_float::<f64>\(s, location, SfTag::None, false\)', 'ty_parse_float_f64(s, location, SfTag::None, false)', 1, 'R8'),
                   (r'parse_int_signed::<i128>\(s, "i128", location, false\)', 'parse_int_signed_i128(s, "i128", location, false)', 1, 'R9')],
         ensures=[('C06:only_plain_scalars_can_look_like_numbers_booleans_or_null', 'r == (*style is Plain && sp_looks_non_string(s.spec_bytes()))')],
         canaries=['C06:only_plain_scalars_can_look_like_numbers_booleans_or_null']),
    dict(src=D, path=YD + 'fn deserialize_string', id='YamlDeserializer::deserialize_string',
        impl_header="impl<'de, 'e> YamlDeserializer<'de, 'e>", props=['C06', 'C05', 'C01'],
        pre_rewrites=[(r"fn deserialize_string<V: Visitor<'de>>\(mut self, visitor: V\) -> Result<V::Value, Self::Error>",
                       'fn deserialize_string(mut self, visitor: Vis) -> Result<VisVal, Error>', 1, 'R9')],
        rewrites=[(r'tag == &SfTag::(\w+)', r'*tag == SfTag::\1', None, 'R15'), (r'tag != &SfTag::(\w+)', r'*tag != SfTag::\1', None, 'R15'),
                  (r'scalar_is_nullish\(value, style\)', 'scalar_is_nullish(value.as_ref(), style)', None, 'R15'),
                  (r'maybe_not_string\(value, style\)', 'maybe_not_string(value.as_ref(), style)', None, 'R15'),
                  (r'Error::quoting_required\(&value\)', 'Error::quoting_required(value.as_str())', None, 'R15'),
                  (r'let location = this\.ev\.peek\(\)\?\.unwrap\(\)\.location\(\);', 'let location = (match this.ev.peek()? { Some(__e) => __e.location(), None => Location::UNKNOWN });', None, 'R18'),
                  (r'match cow \{\s*Cow::Borrowed\(b\) => visitor\.visit_borrowed_str\(b\),\s*Cow::Owned\(s\) => visitor\.visit_string\(s\),\s*\}', 'ty_visit_cowstr(visitor, cow)', 1, 'R8')],
        ensures=[
            ('C06:a_string_target_gets_the_scalar_text_or_the_base64_payload', '''({ let rest0 = old(self.ev).rest();
                r is Ok && rest0.len() > 0 && rest0[0] is Scalar ==> ({
                    let tag = rest0[0]->Scalar_tag; let value = rest0[0]->Scalar_value;
                    if tag is Binary && !self.cfg.ignore_binary_tag_for_string {
                        exists|t: Seq<char>| b64_decode(b64_strip_ws(encode_utf8(value@))) == Some(encode_utf8(t)) && r == #[trigger] vis_str(visitor, t)
                    } else { sp_string_tag_ok(tag, self.cfg.ignore_binary_tag_for_string) && r == vis_str(visitor, value@) } }) })'''),
            ('C06:null_forms_and_in_no_schema_mode_number_like_plain_text_are_refused_unless_tagged_str', '''({ let rest0 = old(self.ev).rest();
                r is Ok && rest0.len() > 0 && rest0[0] is Scalar && !(rest0[0]->Scalar_tag is String) ==>
                    !(rest0[0]->Scalar_tag is Null) && !unit_scalar(rest0[0])
                    && !(self.cfg.no_schema && rest0[0]->Scalar_style is Plain && sp_looks_non_string(encode_utf8(rest0[0]->Scalar_value@))) })'''),
        ],
        proofs=[dict(at='start', ghost=True, text='let ghost rest0 = self.ev.rest();'),
                dict(before='return Err(Error::NullIntoString { location });', label='C06:only_a_null_tag_or_a_plain_null_like_scalar_is_refused_as_null',
                     text='assert(rest0.len() > 0 && rest0[0] is Scalar && (rest0[0]->Scalar_tag is Null || unit_scalar(rest0[0])));'),
                dict(before='return Err(Error::quoting_required(value.as_str()).with_location(location));', label='C06:only_plain_number_like_text_is_asked_to_be_quoted',
                     text='assert(rest0.len() > 0 && rest0[0] is Scalar && rest0[0]->Scalar_style is Plain && this.cfg.no_schema);')],
        canaries=['C06:a_string_target_gets_the_scalar_text_or_the_base64_payload', 'C06:null_forms_and_in_no_schema_mode_number_like_plain_text_are_refused_unless_tagged_str']),
    dict(src=D, path=YD + 'fn deserialize_char', id='YamlDeserializer::deserialize_char',
        impl_header="impl<'de, 'e> YamlDeserializer<'de, 'e>", props=['C06', 'C05', 'C01'],
        pre_rewrites=[(r"fn deserialize_char<V: Visitor<'de>>\(mut self, visitor: V\) -> Result<V::Value, Self::Error>",
                       'fn deserialize_char(mut self, visitor: Vis) -> Result<VisVal, Error>', 1, 'R9'),
                      (r'let mut it = s\.as_ref\(\)\.chars\(\);\s*match \(it\.next\(\), it\.next\(\)\) \{', 'match cow_first_two_chars(&s) {', 1, 'R8')],
        rewrites=[(r'tag == &SfTag::(\w+)', r'*tag == SfTag::\1', None, 'R15'), (r'tag != &SfTag::(\w+)', r'*tag != SfTag::\1', None, 'R15'),
                  (r'scalar_is_nullish\(value, style\)', 'scalar_is_nullish(value.as_ref(), style)', None, 'R15'),
                  (r'maybe_not_string\(value, style\)', 'maybe_not_string(value.as_ref(), style)', None, 'R15'),
                  (r'Error::quoting_required\(&value\)', 'Error::quoting_required(value.as_str())', None, 'R15')],
        ensures=[
            ('C06:a_char_target_gets_the_single_character_of_the_scalar_and_nothing_else_is_a_char', '''({ let rest0 = old(self.ev).rest();
                r is Ok ==> rest0.len() > 0 && rest0[0] is Scalar && rest0[0]->Scalar_value@.len() == 1 && r == vis_char(visitor, rest0[0]->Scalar_value@[0]) })'''),
            ('C06:null_forms_and_in_no_schema_mode_number_like_plain_text_are_refused_unless_tagged_str', '''({ let rest0 = old(self.ev).rest();
                r is Ok && rest0.len() > 0 && rest0[0] is Scalar && !(rest0[0]->Scalar_tag is String) ==>
                    !(rest0[0]->Scalar_tag is Null) && !unit_scalar(rest0[0])
                    && !(self.cfg.no_schema && rest0[0]->Scalar_style is Plain && sp_looks_non_string(encode_utf8(rest0[0]->Scalar_value@))) })'''),
        ],
        canaries=['C06:a_char_target_gets_the_single_character_of_the_scalar_and_nothing_else_is_a_char']),
    # deserialize_str (borrowed targets, C09 / C06): up to the point where the text is lent; the owned fallback that follows
    # (visit_string and the error-message conversion) is replaced by a shim
    dict(src=D, path=YD + 'fn deserialize_str', id='YamlDeserializer::deserialize_str#until_lent',
        impl_header="impl<'de, 'e> YamlDeserializer<'de, 'e>", props=['C09', 'C06', 'C05', 'C01'],
        fragment=r'let location = match self\.ev\.peek\(\)\? \{.*?if let Cow::Borrowed\(b\) = cow \{\s*return visitor\.visit_borrowed_str\(b\);\s*\}', fragment_flags='S',
        wrapper='fn deserialize_str_until_lent(mut self, visitor: Vis) -> Result<VisVal, Error> { {FRAG} ty_owned_fallback(visitor, cow, location) }',
        pre_rewrites=[(r'if let Cow::Borrowed\(b\) = cow \{\s*return visitor\.visit_borrowed_str\(b\);\s*\}', 'if cowstr_is_borrowed(&cow) { return ty_visit_borrowed_str(visitor, cow.as_ref()); }', 1, 'R8')],
        rewrites=[(r'tag == &SfTag::(\w+)', r'*tag == SfTag::\1', None, 'R15'), (r'tag != &SfTag::(\w+)', r'*tag != SfTag::\1', None, 'R15'),
                  (r'scalar_is_nullish\(value, style\)', 'scalar_is_nullish(value.as_ref(), style)', None, 'R15'),
                  (r'maybe_not_string\(value, style\)', 'maybe_not_string(value.as_ref(), style)', None, 'R15'),
                  (r'Error::quoting_required\(&value\)', 'Error::quoting_required(value.as_str())', None, 'R15'),
                  (r'return this\.deserialize_string\(visitor\);', 'return this.deserialize_string(visitor);', None, 'R9')],
        ensures=[
            ('C09:a_borrowed_string_target_is_handed_exactly_what_an_owned_string_target_is_handed', '''({ let rest0 = old(self.ev).rest();
                r is Ok && rest0.len() > 0 && rest0[0] is Scalar ==> ({
                    let tag = rest0[0]->Scalar_tag; let value = rest0[0]->Scalar_value;
                    if tag is Binary && !self.cfg.ignore_binary_tag_for_string {
                        exists|t: Seq<char>| b64_decode(b64_strip_ws(encode_utf8(value@))) == Some(encode_utf8(t)) && r == #[trigger] vis_str(visitor, t)
                    } else { sp_string_tag_ok(tag, self.cfg.ignore_binary_tag_for_string) && r == vis_str(visitor, value@) } }) })'''),
            ('C06:null_forms_and_in_no_schema_mode_number_like_plain_text_are_refused_unless_tagged_str', '''({ let rest0 = old(self.ev).rest();
                r is Ok && rest0.len() > 0 && rest0[0] is Scalar && !(rest0[0]->Scalar_tag is String) ==>
                    !(rest0[0]->Scalar_tag is Null) && !unit_scalar(rest0[0])
                    && !(self.cfg.no_schema && rest0[0]->Scalar_style is Plain && sp_looks_non_string(encode_utf8(rest0[0]->Scalar_value@))) })'''),
            ('C05:only_a_scalar_is_a_string', 'r is Ok ==> old(self.ev).rest().len() > 0 && old(self.ev).rest()[0] is Scalar'),
        ],
        proofs=[dict(at='start', ghost=True, text='let ghost rest0 = self.ev.rest();'),
                dict(before_re=r'return Err\(Error::NullIntoString \{ location: loc \}\);', label='C06:only_a_null_tag_or_a_plain_null_like_scalar_not_tagged_str_is_refused_as_null',
                     text='assert(rest0.len() > 0 && rest0[0] is Scalar && !(rest0[0]->Scalar_tag is String) && (rest0[0]->Scalar_tag is Null || unit_scalar(rest0[0])));')],
        canaries=['C09:a_borrowed_string_target_is_handed_exactly_what_an_owned_string_target_is_handed']),
    # ---- one-line delegations of the Deserializer impl: the target kind decides nothing beyond the delegate (C05) ----
    dict(src=D, path=YD + 'fn deserialize_f32', id='YamlDeserializer::deserialize_f32',
        impl_header="impl<'de, 'e> YamlDeserializer<'de, 'e>", props=['C06', 'C19', 'C05', 'C01'],
        pre_rewrites=[(r"fn deserialize_f32<V: Visitor<'de>>\(mut self, visitor: V\) -> Result<V::Value, Self::Error>",
                       'fn deserialize_f32(mut self, visitor: Vis) -> Result<VisVal, Error>', 1, 'R9')],
        rewrites=[(r'let v: f32 = parse_yaml12_float\(', 'let v: f32 = ty_parse_float_f32(', 1, 'R9')],
        proofs=[dict(at='start', ghost=True, text='let ghost rest0 = self.ev.rest();'),
                dict(before='visitor.visit_f32(v)', label='C05:exactly_one_event_consumed_before_the_visitor_runs', text='assert(this.ev.rest() == rest0.skip(1));')],
        ensures=[('C06:float_is_parsed_from_exactly_the_scalar_text_with_its_tag_and_the_angle_option_as_configured', '''match r {
              Ok(val) => old(self.ev).rest().len() > 0 && match old(self.ev).rest()[0] {
                    Ev::Scalar { value, tag, .. } => match sp_float32(encode_utf8(value@), tag, self.cfg.angle_conversions) {
                        Some(x) => Ok::<VisVal, Error>(val) == vis_f32(visitor, x), None => false },
                    _ => false },
              Err(_) => true }''')],
        canaries=['C06:float_is_parsed_from_exactly_the_scalar_text_with_its_tag_and_the_angle_option_as_configured']),
    dict(src=D, path=YD + 'fn deserialize_tuple', id='YamlDeserializer::deserialize_tuple',
        impl_header="impl<'de, 'e> YamlDeserializer<'de, 'e>", props=['C05', 'C01'],
        pre_rewrites=[(r"fn deserialize_tuple<V: Visitor<'de>>\(\s*self,\s*_len: usize,\s*visitor: V,\s*\) -> Result<V::Value, Self::Error>",
                       'fn deserialize_tuple(self, _len: usize, visitor: Vis) -> Result<VisVal, Error>', 1, 'R9')],
        ensures=[('C05:a_tuple_is_read_exactly_like_a_sequence_arity_is_left_to_the_visitor', 'r == vis_seq(visitor, old(self.ev).rest(), self.cfg)')],
        canaries=['C05:a_tuple_is_read_exactly_like_a_sequence_arity_is_left_to_the_visitor']),
    dict(src=D, path=YD + 'fn deserialize_tuple_struct', id='YamlDeserializer::deserialize_tuple_struct',
        impl_header="impl<'de, 'e> YamlDeserializer<'de, 'e>", props=['C05', 'C01'],
        pre_rewrites=[(r"fn deserialize_tuple_struct<V: Visitor<'de>>\(\s*self,\s*_name: &'static str,\s*_len: usize,\s*visitor: V,\s*\) -> Result<V::Value, Self::Error>",
                       "fn deserialize_tuple_struct(self, _name: &'static str, _len: usize, visitor: Vis) -> Result<VisVal, Error>", 1, 'R9')],
        ensures=[('C05:a_tuple_struct_is_read_exactly_like_a_sequence', 'r == vis_seq(visitor, old(self.ev).rest(), self.cfg)')],
        canaries=['C05:a_tuple_struct_is_read_exactly_like_a_sequence']),
    dict(src=D, path=YD + 'fn deserialize_f64', id='YamlDeserializer::deserialize_f64',
        impl_header="impl<'de, 'e> YamlDeserializer<'de, 'e>", props=['C06', 'C19', 'C05', 'C01'],
        pre_rewrites=[(r"fn deserialize_f64<V: Visitor<'de>>\(mut self, visitor: V\) -> Result<V::Value, Self::Error>",
                       'fn deserialize_f64(mut self, visitor: Vis) -> Result<VisVal, Error>', 1, 'R9')],
        rewrites=[(r'let v: f64 = parse_yaml12_float\(', 'let v: f64 = ty_parse_float_f64(', 1, 'R9')],
        proofs=[dict(at='start', ghost=True, text='let ghost rest0 = self.ev.rest();'),
                dict(before='visitor.visit_f64(v)', label='C05:exactly_one_event_consumed_before_the_visitor_runs', text='assert(this.ev.rest() == rest0.skip(1));')],
        ensures=[('C06:float_is_parsed_from_exactly_the_scalar_text_with_its_tag_and_the_angle_option_as_configured', '''match r {
              Ok(val) => old(self.ev).rest().len() > 0 && match old(self.ev).rest()[0] {
                    Ev::Scalar { value, tag, .. } => match sp_float(encode_utf8(value@), tag, self.cfg.angle_conversions) {
                        Some(x) => Ok::<VisVal, Error>(val) == vis_f64(visitor, x), None => false },
                    _ => false },
              Err(_) => true }''')],
        canaries=['C06:float_is_parsed_from_exactly_the_scalar_text_with_its_tag_and_the_angle_option_as_configured']),
    # ---- byte-slice entry points are the string entry points on valid UTF-8 and an error otherwise (C09) ----
    dict(src='src/lib.rs', path='fn from_slice_with_options', props=['C09', 'C01'],
         pre_rewrites=[(r"pub fn from_slice_with_options<'de, T>\(bytes: &'de \[u8\], options: Options\) -> Result<T, Error>\s*where\s*T: serde::Deserialize<'de>,",
                        'fn from_slice_with_options(bytes: &[u8], options: Options) -> Result<TargetVal, Error>', 1, 'R9')],
         rewrites=[(r'std::str::from_utf8\(bytes\)\.map_err\(\|_e\| Error::InvalidUtf8Input\)\?', '(match ty_str_from_utf8(bytes) { Ok(__v) => __v, Err(_e) => { return Err(Error::InvalidUtf8Input); } })', 1, 'R18')],
         ensures=[('C09:a_byte_slice_is_read_exactly_like_the_string_it_encodes_and_invalid_utf8_is_an_error',
                   'r == (if valid_utf8(bytes@) { sp_from_str(bytes@, options) } else { Err::<TargetVal, Error>(Error::InvalidUtf8Input) })')],
         canaries=['C09:a_byte_slice_is_read_exactly_like_the_string_it_encodes_and_invalid_utf8_is_an_error']),
    dict(src='src/lib.rs', path='fn from_slice_multiple_with_options', props=['C09', 'C01'],
         pre_rewrites=[(r"pub fn from_slice_multiple_with_options<T: DeserializeOwned>\(\s*bytes: &\[u8\],\s*options: Options,\s*\) -> Result<Vec<T>, Error>",
                        'fn from_slice_multiple_with_options(bytes: &[u8], options: Options) -> Result<TargetVec, Error>', 1, 'R9')],
         rewrites=[(r'std::str::from_utf8\(bytes\)\.map_err\(\|_e\| Error::InvalidUtf8Input\)\?', '(match ty_str_from_utf8(bytes) { Ok(__v) => __v, Err(_e) => { return Err(Error::InvalidUtf8Input); } })', 1, 'R18')],
         ensures=[('C09:a_byte_slice_is_read_exactly_like_the_string_it_encodes_and_invalid_utf8_is_an_error',
                   'r == (if valid_utf8(bytes@) { sp_from_multiple(bytes@, options) } else { Err::<TargetVec, Error>(Error::InvalidUtf8Input) })')],
         canaries=['C09:a_byte_slice_is_read_exactly_like_the_string_it_encodes_and_invalid_utf8_is_an_error']),
    dict(src=D, path=YD + 'fn deserialize_ignored_any', id='YamlDeserializer::deserialize_ignored_any',
        impl_header="impl<'de, 'e> YamlDeserializer<'de, 'e>", props=['C05', 'C01'],
        attrs='#[verifier::exec_allows_no_decreases_clause]',
        pre_rewrites=[(r"fn deserialize_ignored_any<V: Visitor<'de>>\((mut )?self, visitor: V\) -> Result<V::Value, Self::Error>",
                       r'fn deserialize_ignored_any(\1self, visitor: Vis) -> Result<VisVal, Error>', 1, 'R9')],
        ensures=[('C05:an_ignored_position_still_needs_a_node_a_dangling_container_end_is_an_error', '''({ let rest0 = old(self.ev).rest();
                rest0.len() > 0 && (rest0[0] is SeqEnd || rest0[0] is MapEnd || rest0[0] is Taken) ==> r is Err })'''),
                 ('C05:an_ignored_scalar_is_interpreted_like_an_untyped_one', '''({ let rest0 = old(self.ev).rest();
                r is Ok && rest0.len() > 0 && rest0[0] is Scalar && rest0[0]->Scalar_style is Plain && (rest0[0]->Scalar_tag is None || rest0[0]->Scalar_tag is Other) && !unit_scalar(rest0[0])
                    ==> r == sp_infer_plain(visitor, rest0[0]->Scalar_value@, rest0[0]->Scalar_tag, self.cfg) })''')],
        canaries=['C05:an_ignored_position_still_needs_a_node_a_dangling_container_end_is_an_error']),
    dict(src=D, path=YD + 'fn deserialize_seq', id='YamlDeserializer::deserialize_seq',
        impl_header="impl<'de, 'e> YamlDeserializer<'de, 'e>", props=['C05', 'C06', 'C01'], lift_nested_fns=True,
        pre_rewrites=[(r"fn deserialize_seq<V: Visitor<'de>>\(mut self, visitor: V\) -> Result<V::Value, Self::Error>",
                       'fn deserialize_seq_body(mut self, visitor: Vis) -> Result<VisVal, Error>', 1, 'R9')],
        rewrites=[(r'tag == &SfTag::(\w+)', r'*tag == SfTag::\1', None, 'R15'),
                  (r'scalar_is_nullish\(s, style\)', 'scalar_is_nullish(s.as_ref(), style)', None, 'R15'),
                  (r'return visitor\.visit_seq\(EmptySeq\);', 'return visitor.visit_seq_empty();', 1, 'R8'),
                  (r'decode_base64_yaml\(&scalar\)\.map_err\(\|err\| err\.with_location\(data_location\)\)\?',
                   '(match decode_base64_yaml(scalar.as_ref()) { Ok(__v) => __v, Err(err) => { return Err(err.with_location(data_location)); } })', 1, 'R18'),
                  (r'return visitor\.visit_seq\(ByteSeq \{ data, idx: 0 \}\);', 'return visitor.visit_seq_bytes(data);', 1, 'R8'),
                  (r'let result = visitor\.visit_seq\(SA \{\s*ev: this\.ev,\s*cfg: this\.cfg,\s*\}\)\?;', 'let result = visitor.visit_seq_live(this.ev, this.cfg)?;', 1, 'R8')],
        proofs=[dict(at='start', ghost=True, text='let ghost rest0 = self.ev.rest();'),
                dict(before='let result = visitor.visit_seq_live(this.ev, this.cfg)?;', label='C05:a_sequence_target_requires_a_sequence_start_which_is_consumed_before_the_elements',
                     text='assert(rest0.len() > 0 && rest0[0] is SeqStart && this.ev.rest() == rest0.skip(1));'),
                dict(after='let result = visitor.visit_seq_live(this.ev, this.cfg)?;', ghost=True, text='let ghost rest_v = this.ev.rest();'),
                dict(before='Ok(result)', label='C05:the_closing_sequence_end_is_consumed_here_and_nothing_else',
                     text='assert(this.ev.rest() == (if rest_v.len() > 0 && rest_v[0] is SeqEnd { rest_v.skip(1) } else { rest_v }));')],
        ensures=[('C05:a_null_like_scalar_is_an_empty_sequence_and_a_binary_scalar_is_its_bytes', '''({ let rest0 = old(self.ev).rest();
                r is Ok && rest0.len() > 0 && rest0[0] is Scalar ==> ({
                    let tag = rest0[0]->Scalar_tag; let value = rest0[0]->Scalar_value;
                    if tag is Null || unit_scalar(rest0[0]) { r == vis_seq_empty(visitor) }
                    else { tag is Binary && match b64_decode(b64_strip_ws(encode_utf8(value@))) { Some(bytes) => r == vis_seq_bytes(visitor, bytes), None => false } } }) })'''),
                 ('C05:any_other_node_must_be_a_sequence', '''({ let rest0 = old(self.ev).rest();
                r is Ok && !(rest0.len() > 0 && rest0[0] is Scalar) ==> rest0.len() > 0 && rest0[0] is SeqStart && r == vis_seq_live(visitor, rest0.skip(1), self.cfg) })''')],
        canaries=['C05:a_null_like_scalar_is_an_empty_sequence_and_a_binary_scalar_is_its_bytes', 'C05:any_other_node_must_be_a_sequence']),
    dict(src=D, path=YD + 'fn deserialize_unit_struct', id='YamlDeserializer::deserialize_unit_struct',
        impl_header="impl<'de, 'e> YamlDeserializer<'de, 'e>", props=['C05', 'C01'],
        pre_rewrites=[(r"fn deserialize_unit_struct<V: Visitor<'de>>\(\s*self,\s*_name: &'static str,\s*visitor: V,\s*\) -> Result<V::Value, Self::Error>",
                       "fn deserialize_unit_struct(mut self, _name: &'static str, visitor: Vis) -> Result<VisVal, Error>", 1, 'R9')],
        proofs=[dict(at='start', ghost=True, text='let ghost rest0 = self.ev.rest();'),
                dict(before_re=r'visitor\.visit_unit\(\)\s*\}\s*Some\(other\)', label='C05:an_empty_mapping_is_consumed_whole', text='assert(this.ev.rest() == rest0.skip(2));')],
        ensures=[('C05:a_unit_struct_is_an_empty_mapping_or_a_unit', '''({ let rest0 = old(self.ev).rest();
                r is Ok ==> r == vis_unit(visitor) && (
                    if rest0.len() > 0 && rest0[0] is MapStart { rest0.len() > 1 && rest0[1] is MapEnd }
                    else { rest0.len() == 0 || rest0[0] is MapEnd || rest0[0] is SeqEnd || unit_scalar(rest0[0]) }) })''')],
        canaries=['C05:a_unit_struct_is_an_empty_mapping_or_a_unit']),
]
# ---- one-line delegations of the format side (C05: a struct is read as a mapping and as nothing else, and so on) ----
_BYTES = [x for x in ITEMS if x and x.get('id') == 'YamlDeserializer::deserialize_bytes'][0]
ITEMS += [
    dict(src=D, path=YD + 'fn deserialize_struct', id='YamlDeserializer::deserialize_struct',
        impl_header="impl<'de, 'e> YamlDeserializer<'de, 'e>", props=['C05', 'C01'],
        pre_rewrites=[(r"fn deserialize_struct<V: Visitor<'de>>\(\s*(mut )?self,\s*_name: &'static str,\s*_fields: &'static \[&'static str\],\s*visitor: V,\s*\) -> Result<V::Value, Self::Error>",
                       r"fn deserialize_struct(\1self, _name: &'static str, _fields: &'static [&'static str], visitor: Vis) -> Result<VisVal, Error>", 1, 'R9')],
        ensures=[('C05:a_struct_is_read_exactly_like_a_mapping_and_from_nothing_else', 'r == vis_map(visitor, old(self.ev).rest(), self.cfg)')],
        canaries=['C05:a_struct_is_read_exactly_like_a_mapping_and_from_nothing_else']),
    dict(src=D, path=YD + 'fn deserialize_byte_buf', id='YamlDeserializer::deserialize_byte_buf',
        impl_header="impl<'de, 'e> YamlDeserializer<'de, 'e>", props=['C06', 'C05', 'C01'],
        pre_rewrites=[(r"fn deserialize_byte_buf<V: Visitor<'de>>\((mut )?self, visitor: V\) -> Result<V::Value, Self::Error>",
                       r'fn deserialize_byte_buf(\1self, visitor: Vis) -> Result<VisVal, Error>', 1, 'R9')],
        ensures=[(('C06:an_owned_byte_buffer_is_read_exactly_like_borrowed_bytes:' + lbl.split(':', 1)[-1]) if i == 0 else lbl, txt) for i, (lbl, txt) in enumerate(_BYTES['ensures'])]),
    dict(src=D, path=YD + 'fn deserialize_identifier', id='YamlDeserializer::deserialize_identifier',
        impl_header="impl<'de, 'e> YamlDeserializer<'de, 'e>", props=['C05', 'C01'],
        pre_rewrites=[(r"fn deserialize_identifier<V: Visitor<'de>>\((mut )?self, visitor: V\) -> Result<V::Value, Self::Error>",
                       r'fn deserialize_identifier(\1self, visitor: Vis) -> Result<VisVal, Error>', 1, 'R9')],
        ensures=[('C05:a_field_or_variant_name_is_read_exactly_like_a_borrowed_string', 'r == vis_as_str(visitor, old(self.ev).rest(), self.cfg)')]),
]
# ---- span-carrying values (C16): which two locations a Spanned<T> gets ----
ITEMS += [
    dict(src='src/de/spanned_deser.rs', path='fn deserialize_yaml_spanned', props=['C16', 'C05', 'C01'],
         pre_rewrites=[(r"fn deserialize_yaml_spanned<'de, V>\(\s*de: Deserializer<'de, '_>,\s*visitor: V,\s*\) -> Result<V::Value, Error>\s*where\s*V: Visitor<'de>,",
                        "fn deserialize_yaml_spanned<'de, 'e>(de: YamlDeserializer<'de, 'e>, visitor: Vis) -> Result<VisVal, Error>", 1, 'R9')],
         rewrites=[(r'visitor\.visit_newtype_struct\(SpannedDeser \{\s*de,\s*referenced,\s*defined,\s*state: 0,\s*\}\)',
                    'visit_spanned(visitor, de, referenced, defined)', 1, 'R8')],
         proofs=[dict(at='start', ghost=True, text='let ghost rest0 = de.ev.rest();'),
                 dict(before='visit_spanned(visitor, de, referenced, defined)', label='C16:a_span_carrying_value_records_the_use_site_and_the_definition_site_of_the_node_it_is_about_to_read',
                      text='''assert(de.ev.rest() == rest0);
                              assert(rest0.len() > 0 ==> defined == rest0[0].spec_location() && referenced == spec_use_site(de.ev.use_site_override(), rest0[0]));''')],
         ensures=[('C05:the_node_is_left_for_the_wrapped_value', 'true')]),
]
SPD = 'src/de/spanned_deser.rs'
ITEMS += [
    dict(src=SPD, path='struct SpannedMapAccess',
         rewrites=[(r"de: Deserializer<'de, 'e>,", "de: YamlDeserializer<'de, 'e>,", 1, 'R9')]),
    dict(src=SPD, path='impl de::MapAccess for SpannedMapAccess/fn next_key_seed', id='SpannedMapAccess::next_key_seed', impl_header="impl<'de, 'e> SpannedMapAccess<'de, 'e>",
         props=['C16', 'C01'],
         rewrites=[(r"fn next_key_seed<K>\(&mut self, seed: K\) -> Result<Option<K::Value>, Error>\s*where\s*K: de::DeserializeSeed<'de>,",
                    'fn next_key_seed(&mut self, seed: ElemSeed) -> Result<Option<ElemVal>, Error>', 1, 'R9'),
                   (r'seed\.deserialize\(key\.into_deserializer\(\)\)\.map\(Some\)', 'seed_on_field_name(seed, key)', 1, 'R8+R18')],
         ensures=[('C16:a_span_carrying_value_has_exactly_the_fields_value_referenced_defined_in_this_order', '''match old(self).state {
                0u8 => r == field_name_seed_result(seed, "value"@) && final(self).state == 1,
                1u8 => r == field_name_seed_result(seed, "referenced"@) && final(self).state == 2,
                2u8 => r == field_name_seed_result(seed, "defined"@) && final(self).state == 3,
                _ => r == Ok::<Option<ElemVal>, Error>(None) && final(self).state == old(self).state }'''),
                  ('frame', 'final(self).referenced == old(self).referenced && final(self).defined == old(self).defined && final(self).de.ev.rest() == old(self).de.ev.rest()')],
         canaries=['C16:a_span_carrying_value_has_exactly_the_fields_value_referenced_defined_in_this_order']),
    dict(src=SPD, path='impl de::MapAccess for SpannedMapAccess/fn next_value_seed', id='SpannedMapAccess::next_value_seed', impl_header="impl<'de, 'e> SpannedMapAccess<'de, 'e>",
         props=['C16', 'C05', 'C01'],
         rewrites=[(r"fn next_value_seed<Vv>\(&mut self, seed: Vv\) -> Result<Vv::Value, Error>\s*where\s*Vv: de::DeserializeSeed<'de>,",
                    'fn next_value_seed(&mut self, seed: ElemSeed) -> Result<ElemVal, Error>', 1, 'R9'),
                   (r'seed\.deserialize\(Deserializer::new\(&mut \*self\.de\.ev, self\.de\.cfg\)\)', 'seed_on_wrapped_value(seed, self.de.ev, self.de.cfg)', 1, 'R8'),
                   (r'seed\.deserialize\(LocationDeser \{\s*location: (self\.\w+),\s*\}\)', r'seed_on_location(seed, \1)', None, 'R8'),
                   (r'Err\(Error::msg\("invalid Spanned<T> internal state"\)\)', 'Err(error_msg("invalid Spanned<T> internal state"))', 1, 'R8')],
         ensures=[('C16:the_field_referenced_gets_the_use_site_and_the_field_defined_the_definition_site', '''match old(self).state {
                2u8 => r == location_seed_result(seed, old(self).referenced),
                3u8 => r == location_seed_result(seed, old(self).defined),
                _ => true }'''),
                  ('C05:the_field_value_is_read_from_the_untouched_cursor', 'old(self).state == 1 ==> r == wrapped_value_seed_result(seed, old(self).de.ev.rest(), old(self).de.cfg)'),
                  ('frame', 'final(self).state == old(self).state && final(self).referenced == old(self).referenced && final(self).defined == old(self).defined')],
         canaries=['C16:the_field_referenced_gets_the_use_site_and_the_field_defined_the_definition_site']),
]
# the synthetic views of Location { line, column, span } and Span { offset, len, byte_info }: which number is handed out under which name
def _field_machine(struct, fields, body_field):
    return dict(src=SPD, path='impl de::MapAccess for %s/fn next_key_seed' % struct, id='%s::next_key_seed' % struct, impl_header='impl %s' % struct,
         props=['C16', 'C01'],
         rewrites=[(r"fn next_key_seed<K>\(&mut self, seed: K\) -> Result<Option<K::Value>, Error>\s*where\s*K: de::DeserializeSeed<'de>,",
                    'fn next_key_seed(&mut self, seed: ElemSeed) -> Result<Option<ElemVal>, Error>', 1, 'R9'),
                   (r'seed\.deserialize\(key\.into_deserializer\(\)\)\.map\(Some\)', 'seed_on_field_name(seed, key)', 1, 'R8+R18')],
         ensures=[('C16:the_fields_are_handed_out_under_their_own_names_in_order', '''match old(self).state {
                0u8 => r == field_name_seed_result(seed, "%s"@) && final(self).state == 1,
                1u8 => r == field_name_seed_result(seed, "%s"@) && final(self).state == 2,
                2u8 => r == field_name_seed_result(seed, "%s"@) && final(self).state == 3,
                _ => r == Ok::<Option<ElemVal>, Error>(None) && final(self).state == old(self).state }''' % fields),
                  ('frame', 'final(self).%s == old(self).%s' % (body_field, body_field))],
         canaries=['C16:the_fields_are_handed_out_under_their_own_names_in_order'])
ITEMS += [
    dict(src='src/location.rs', path='impl Span/fn raw_offset', props=['C16'], ensures=[('value', 'r == self.offset')]),
    dict(src='src/location.rs', path='impl Span/fn raw_len', props=['C16'], ensures=[('value', 'r == self.len')]),
    dict(src='src/location.rs', path='impl Span/fn raw_byte_info', props=['C16'], ensures=[('value', 'r == self.byte_info')]),
    dict(src=SPD, path='fn span_index_to_u64#1', props=['C16'], rewrites=[(r'crate::location::SpanIndex', 'SpanIndex', 1, 'R6')], ensures=[('value', 'r == v as u64')]),
    dict(src=SPD, path='struct LocationMapAccess'),
    _field_machine('LocationMapAccess', ('line', 'column', 'span'), 'location'),
    dict(src=SPD, path='impl de::MapAccess for LocationMapAccess/fn next_value_seed', id='LocationMapAccess::next_value_seed', impl_header='impl LocationMapAccess',
         props=['C16', 'C01'],
         rewrites=[(r"fn next_value_seed<Vv>\(&mut self, seed: Vv\) -> Result<Vv::Value, Error>\s*where\s*Vv: de::DeserializeSeed<'de>,",
                    'fn next_value_seed(&mut self, seed: ElemSeed) -> Result<ElemVal, Error>', 1, 'R9'),
                   (r'seed\.deserialize\(self\.location\.(line|column)\.into_deserializer\(\)\)', r'seed_on_u32(seed, self.location.\1)', None, 'R8'),
                   (r'seed\.deserialize\(SpanDeser \{\s*span: self\.location\.span,\s*\}\)', 'seed_on_span(seed, self.location.span)', 1, 'R8'),
                   (r'Err\(Error::msg\("invalid Location internal state"\)\)', 'Err(error_msg("invalid Location internal state"))', 1, 'R8')],
         ensures=[('C16:line_column_and_span_are_each_handed_out_as_themselves', '''match old(self).state {
                1u8 => r == u32_seed_result(seed, old(self).location.line),
                2u8 => r == u32_seed_result(seed, old(self).location.column),
                3u8 => r == span_seed_result(seed, old(self).location.span),
                _ => true }''')],
         canaries=['C16:line_column_and_span_are_each_handed_out_as_themselves']),
    dict(src=SPD, path='struct SpanMapAccess', rewrites=[(r'span: crate::Span,', 'span: Span,', 1, 'R6')]),
    _field_machine('SpanMapAccess', ('offset', 'len', 'byte_info'), 'span'),
    dict(src=SPD, path='impl de::MapAccess for SpanMapAccess/fn next_value_seed', id='SpanMapAccess::next_value_seed', impl_header='impl SpanMapAccess',
         props=['C16', 'C01'],
         rewrites=[(r"fn next_value_seed<Vv>\(&mut self, seed: Vv\) -> Result<Vv::Value, Error>\s*where\s*Vv: de::DeserializeSeed<'de>,",
                    'fn next_value_seed(&mut self, seed: ElemSeed) -> Result<ElemVal, Error>', 1, 'R9'),
                   (r'seed\.deserialize\(v\.into_deserializer\(\)\)', 'seed_on_u64(seed, v)', None, 'R8'),
                   (r'seed\.deserialize\(ByteInfoTupleDeser\(self\.span\.raw_byte_info\(\)\)\)', 'seed_on_byte_info(seed, self.span.raw_byte_info())', 1, 'R8'),
                   (r'Err\(Error::msg\("invalid Span internal state"\)\)', 'Err(error_msg("invalid Span internal state"))', 1, 'R8')],
         ensures=[('C16:offset_length_and_byte_information_are_each_handed_out_as_themselves', '''match old(self).state {
                1u8 => r == u64_seed_result(seed, old(self).span.offset as u64),
                2u8 => r == u64_seed_result(seed, old(self).span.len as u64),
                3u8 => r == byte_info_seed_result(seed, old(self).span.byte_info),
                _ => true }''')],
         canaries=['C16:offset_length_and_byte_information_are_each_handed_out_as_themselves']),
    dict(src=SPD, path='struct ByteInfoSeqAccess', rewrites=[(r'crate::location::SpanIndex', 'SpanIndex', None, 'R6')]),
    dict(src=SPD, path='impl de::SeqAccess for ByteInfoSeqAccess/fn next_element_seed', id='ByteInfoSeqAccess::next_element_seed', impl_header='impl ByteInfoSeqAccess',
         props=['C16', 'C01'],
         rewrites=[(r"fn next_element_seed<T>\(&mut self, seed: T\) -> Result<Option<T::Value>, Self::Error>\s*where\s*T: de::DeserializeSeed<'de>,",
                    'fn next_element_seed(&mut self, seed: ElemSeed) -> Result<Option<ElemVal>, Error>', 1, 'R9'),
                   (r'seed\.deserialize\(v\.into_deserializer\(\)\)\.map\(Some\)', 'seed_on_u64_some(seed, v)', None, 'R8+R18')],
         ensures=[('C16:the_byte_offset_comes_first_then_the_byte_length', '''match old(self).index {
                0u8 => r == u64_some_seed_result(seed, old(self).byte_info.0 as u64) && final(self).index == 1,
                1u8 => r == u64_some_seed_result(seed, old(self).byte_info.1 as u64) && final(self).index == 2,
                _ => r == Ok::<Option<ElemVal>, Error>(None) && final(self).index == old(self).index }''')],
         canaries=['C16:the_byte_offset_comes_first_then_the_byte_length']),
]
ITEMS += [
    dict(src=D, path='impl YamlDeserializer/fn new', props=['C05', 'C09'],
         ensures=[('C05:a_new_deserializer_reads_from_the_given_cursor_with_the_given_configuration_outside_key_position',
                   'r.ev.rest() == old(ev).rest() && r.cfg == cfg && !r.in_key && !r.key_empty_map_node')]),
]
