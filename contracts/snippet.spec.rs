// ===== spec library for unit `snippet`: terminal-safe text (C17) =====

/// byte that must not reach a terminal: C0 control other than \n and \t, or DEL
spec fn bad_ascii(x: u8) -> bool { (x < 0x20 && x != 0x0a && x != 0x09) || x == 0x7f }

/// UTF-8 encoded C1 control (U+0080..U+009F): 0xC2 followed by 0x80..=0x9F
spec fn c1_at(b: Seq<u8>, i: int) -> bool { 0 <= i && i + 1 < b.len() && b[i] == 0xC2 && 0x80 <= b[i + 1] <= 0x9F }

/// the statement's "contains no C0 (other than newline and tab), DEL or C1 control characters"
spec fn term_clean(b: Seq<u8>) -> bool {
    (forall|i: int| 0 <= i < b.len() ==> !bad_ascii(#[trigger] b[i]))
    && (forall|i: int| 0 <= i && i + 1 < b.len() ==> !#[trigger] c1_at(b, i))
}

/// first pass of the sanitiser: offending ASCII bytes become a space
spec fn san1(x: u8) -> u8 { if bad_ascii(x) { 0x20u8 } else { x } }

// ---- ring reader: trimming a window of recent bytes to UTF-8 boundaries (src/ring_reader.rs) ----
spec fn is_cont(b: u8) -> bool { 0x80 <= b <= 0xBF }
/// number of leading continuation bytes
spec fn lead_conts(b: Seq<u8>) -> nat
    decreases b.len(),
{
    if b.len() > 0 && is_cont(b[0]) { 1 + lead_conts(b.skip(1)) } else { 0 }
}
spec fn expected_len(lead: u8) -> Option<nat> {
    if lead <= 0x7F { Some(1nat) } else if 0xC2 <= lead <= 0xDF { Some(2nat) } else if 0xE0 <= lead <= 0xEF { Some(3nat) } else if 0xF0 <= lead <= 0xF4 { Some(4nat) } else { None }
}
/// the window does not stop in the middle of a code point: looking back over at most 3 continuation bytes there is a
/// lead byte whose sequence is complete (or a byte that is no valid lead at all, which is left for lossy decoding)
spec fn tail_settled(b: Seq<u8>) -> bool {
    b.len() == 0 || exists|i: int| 0 <= i < b.len() && b.len() - i <= 4 && #[trigger] settled_at(b, i)
        && (forall|j: int| i < j < b.len() ==> is_cont(#[trigger] b[j]))
}
spec fn settled_at(b: Seq<u8>, i: int) -> bool { match expected_len(b[i]) { Some(n) => b.len() - i >= n, None => true } }
proof fn lemma_cont_bits(b: u8)
    ensures ((b & 0b1100_0000) == 0b1000_0000) == is_cont(b), is_cont(b) ==> b != 0x0a,
{
    assert(((b & 0b1100_0000) == 0b1000_0000) == (0x80 <= b && b <= 0xBF)) by(bit_vector);
}
