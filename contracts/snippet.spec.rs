// ===== spec library for unit `snippet`: terminal-safe text (C17) =====

/// byte that must not reach a terminal: C0 control other than \n and \t, or DEL
spec fn bad_ascii(x: u8) -> bool { (x < 0x20 && x != 0x0a && x != 0x09) || x == 0x7f }

/// UTF-8 encoded C1 control (U+0080..U+009F): 0xC2 followed by 0x80..=0x9F
spec fn c1_at(b: Seq<u8>, i: int) -> bool { 0 <= i && i + 1 < b.len() && b[i] == 0xC2 && 0x80 <= b[i + 1] <= 0x9F }

/// the statement's "contains no C0 (other than newline and tab), DEL or C1 control characters"
spec fn term_clean(b: Seq<u8>) -> bool {
    (forall|i: int| 0 <= i < b.len() ==> !bad_ascii(#[trigger] b[i]))
    && (forall|i: int| 0 <= i && i + 1 < b.len() ==> !#[trigger] c1_at(b, i))
}

/// first pass of the sanitiser: offending ASCII bytes become a space
spec fn san1(x: u8) -> u8 { if bad_ascii(x) { 0x20u8 } else { x } }
