// ===== assumed contracts for unit `reader`: std::io as a nondeterministic byte source =====
// `IoErr` / `IoErrorKind` stand in for std::io::Error / ErrorKind (rewrite rule R6).
// mirror of the std::IoErrKind variants the code looks at; everything else is `Other`
#[derive(Clone, Copy, PartialEq, Eq, Structural)]
pub enum IoErrorKind { UnexpectedEof, InvalidData, FileTooLarge, Interrupted, Other }

#[verifier::external_body]
pub struct IoErr { inner: std::io::Error }

impl IoErr {
    pub uninterp spec fn spec_kind(&self) -> IoErrorKind;

    #[verifier::external_body]
    pub fn kind(&self) -> (k: IoErrorKind)
        ensures k == self.spec_kind(),
    { unimplemented!() }

    // IoErr::new(kind, payload): only the kind is modelled
    #[verifier::external_body]
    pub fn new<E>(kind: IoErrorKind, e: E) -> (r: IoErr)
        ensures r.spec_kind() == kind,
    { unimplemented!() }
}

/// The reader `R: Read` (BufReader over the decoder over the user's reader): an adversarial byte
/// source.  `remaining()` is what it would still deliver; each `read` hands out ANY non-empty prefix
/// that fits (so every chunking is covered), or fails, at its own discretion.
#[verifier::external_body]
pub struct ByteSrc { _p: () }

impl ByteSrc {
    pub uninterp spec fn remaining(&self) -> Seq<u8>;
    /// how often the source may still answer `Interrupted` (assumption: not forever)
    pub uninterp spec fn interrupts_left(&self) -> nat;
    /// how many of its calls have answered with an error so far (ghost bookkeeping, so that "no error of the source is
    /// swallowed" can be stated by the callers)
    pub uninterp spec fn errors_returned(&self) -> nat;

    #[verifier::external_body]
    pub fn read(&mut self, buf: &mut [u8]) -> (r: Result<usize, IoErr>)
        ensures
            final(buf)@.len() == old(buf)@.len(),
            final(self).errors_returned() == old(self).errors_returned() + (if r is Err { 1nat } else { 0nat }),
            r is Err && r->Err_0.spec_kind() is Interrupted ==> final(self).interrupts_left() < old(self).interrupts_left()
                && final(self).remaining() == old(self).remaining(),
            match r {
                Ok(n) => n <= old(buf)@.len() && n <= old(self).remaining().len()
                    && (n == 0 ==> old(buf)@.len() == 0 || old(self).remaining().len() == 0)
                    && final(buf)@ =~= old(self).remaining().take(n as int) + old(buf)@.skip(n as int)
                    && final(self).remaining() == old(self).remaining().skip(n as int),
                Err(e) => true,
            },
    { unimplemented!() }
}

/// The cell `Rc<RefCell<Option<IoErr>>>` shared with LiveEvents.  ChunkedChars is its only
/// writer, so it is modelled as owned here (`replace` needs `&mut self`, which `next` has).
#[verifier::external_body]
pub struct ErrSlot { _p: () }

impl ErrSlot {
    pub uninterp spec fn content(&self) -> Option<IoErr>;

    #[verifier::external_body]
    pub fn replace(&mut self, v: Option<IoErr>) -> (prev: Option<IoErr>)
        ensures final(self).content() == v, prev == old(self).content(),
    { unimplemented!() }
}

// `format!("input size limit of {limit} bytes exceeded")`
#[verifier::external_body]
fn fmt_limit_msg(limit: usize) -> String { unimplemented!() }

// `std::str::from_utf8`
#[verifier::external_body]
pub struct Utf8Error { _p: () }

#[verifier::external_body]
fn str_from_utf8<'a>(b: &'a [u8]) -> (r: Result<&'a str, Utf8Error>)
    ensures match r {
        Ok(s) => valid_utf8(b@) && s.spec_bytes() == b@,
        Err(_) => !valid_utf8(b@) },
{ unimplemented!() }

// `s.chars().next()`
#[verifier::external_body]
fn str_first_char(s: &str) -> (r: Option<char>)
    ensures r == (if s@.len() > 0 { Some(s@[0]) } else { None::<char> }),
{ unimplemented!() }

impl ByteSrc {
    // std's `Read::read_exact` (default method): fills the whole buffer or fails; an error may be
    // the source's own (any kind) or UnexpectedEof because the data ran out - nothing more is known
    #[verifier::external_body]
    pub fn read_exact(&mut self, buf: &mut [u8]) -> (r: Result<(), IoErr>)
        ensures
            final(buf)@.len() == old(buf)@.len(),
            match r {
                Ok(()) => old(buf)@.len() <= old(self).remaining().len()
                    && final(buf)@ =~= old(self).remaining().take(old(buf)@.len() as int)
                    && final(self).remaining() == old(self).remaining().skip(old(buf)@.len() as int),
                Err(e) => true,
            },
    { unimplemented!() }
}

// ---- encoding_rs_io::DecodeReaderBytesBuilder (external dependency; assumed contract taken from its documentation) ----
// The builder's switches are ghost state; `build` yields a decoder that removes a leading UTF-8 byte order mark
// exactly when the documentation says so: BOM sniffing on (default) and either transcoding (utf8_passthru off, the
// default: the UTF-8 decoder is created "with BOM removal") or strip_bom requested explicitly.
#[verifier::external_body]
pub struct RawReader { _p: () }
#[verifier::external_body]
pub struct EncodingRef { _p: () }
#[verifier::external_body]
pub struct DecodeReaderBytesBuilder { _p: () }
#[verifier::external_body]
pub struct DecodeReaderBytes { _p: () }

impl DecodeReaderBytes {
    pub uninterp spec fn strips_utf8_bom(&self) -> bool;
    pub uninterp spec fn sniffs_encoding(&self) -> bool;
}

impl DecodeReaderBytesBuilder {
    pub uninterp spec fn forced_encoding(&self) -> bool;
    pub uninterp spec fn passthru(&self) -> bool;
    pub uninterp spec fn strip(&self) -> bool;
    pub uninterp spec fn sniffing(&self) -> bool;

    #[verifier::external_body]
    pub fn new() -> (r: DecodeReaderBytesBuilder)
        ensures !r.forced_encoding() && !r.passthru() && !r.strip() && r.sniffing(),
    { unimplemented!() }

    #[verifier::external_body]
    pub fn encoding(self, e: Option<EncodingRef>) -> (r: DecodeReaderBytesBuilder)
        ensures r.forced_encoding() == (e is Some) && r.passthru() == self.passthru() && r.strip() == self.strip() && r.sniffing() == self.sniffing(),
    { unimplemented!() }

    #[verifier::external_body]
    pub fn utf8_passthru(self, yes: bool) -> (r: DecodeReaderBytesBuilder)
        ensures r.forced_encoding() == self.forced_encoding() && r.passthru() == yes && r.strip() == self.strip() && r.sniffing() == self.sniffing(),
    { unimplemented!() }

    #[verifier::external_body]
    pub fn strip_bom(self, yes: bool) -> (r: DecodeReaderBytesBuilder)
        ensures r.forced_encoding() == self.forced_encoding() && r.passthru() == self.passthru() && r.strip() == yes && r.sniffing() == self.sniffing(),
    { unimplemented!() }

    #[verifier::external_body]
    pub fn bom_sniffing(self, yes: bool) -> (r: DecodeReaderBytesBuilder)
        ensures r.forced_encoding() == self.forced_encoding() && r.passthru() == self.passthru() && r.strip() == self.strip() && r.sniffing() == yes,
    { unimplemented!() }

    #[verifier::external_body]
    pub fn build(self, rdr: RawReader) -> (r: DecodeReaderBytes)
        ensures r.strips_utf8_bom() == (self.sniffing() && (!self.passthru() || self.strip())),
                r.sniffs_encoding() == (self.sniffing() && !self.forced_encoding()),
    { unimplemented!() }
}

// ---- writer side (to_io_writer_with_options): std::io::Write as a byte sink that may fail at any write ----
#[verifier::external_body]
pub struct ByteSink { _p: () }
impl ByteSink {
    pub uninterp spec fn written(&self) -> Seq<u8>;
    /// `io::Write::write_all`: Ok means every byte was written; on Err an unspecified prefix may have been (std documentation)
    #[verifier::external_body]
    pub fn write_all(&mut self, b: &[u8]) -> (r: Result<(), IoErr>)
        ensures match r {
            Ok(_) => final(self).written() == old(self).written() + b@,
            Err(_) => exists|k: int| 0 <= k <= b@.len() && final(self).written() == old(self).written() + #[trigger] b@.take(k) },
    { unimplemented!() }
}
/// `std::fmt::Error` (unit-like)
pub struct FmtErr;
/// crate::ser::Error, opaque except for "is the I/O error e"
#[verifier::external_body]
pub struct SerErr { _p: () }
pub uninterp spec fn ser_err_io(e: SerErr) -> Option<IoErr>;
/// `crate::ser::Error::from(io::Error)`
#[verifier::external_body]
fn ser_error_from_io(e: IoErr) -> (r: SerErr) ensures ser_err_io(r) == Some(e), { unimplemented!() }
/// `c.encode_utf8(&mut buf)`
#[verifier::external_body]
fn char_encode_utf8<'a>(c: char, buf: &'a mut [u8; 4]) -> (r: &'a str) ensures r@ == seq![c], { unimplemented!() }
/// `s.as_bytes()`
#[verifier::external_body]
fn str_as_bytes<'a>(s: &'a str) -> (r: &'a [u8]) ensures r@ == s.spec_bytes(), { s.as_bytes() }

/// `char::is_ascii`
pub assume_specification[char::is_ascii](c: &char) -> (r: bool)
    ensures r == ((*c as u32) < 128);

// ---- saphyr-parser's BufferedInput as the scanner sees it over ChunkedChars (for the default methods of `trait Input`) ----
/// `rest()` is what the character iterator will still deliver; once it is exhausted `lookahead` pads with `'\0'` for ever
/// (saphyr-parser src/input/buffered.rs: `self.input.next().unwrap_or('\0')`).
#[verifier::external_body]
pub struct PaddedChars { _p: () }
impl PaddedChars {
    pub uninterp spec fn rest(&self) -> Seq<char>;
    /// `Input::look_ch`: lookahead(1) + peek
    #[verifier::external_body]
    pub fn look_ch(&mut self) -> (r: char)
        ensures final(self).rest() == old(self).rest(), r == (if old(self).rest().len() > 0 { old(self).rest()[0] } else { '\0' }),
    { unimplemented!() }
    /// `Input::peek` (after a lookahead)
    #[verifier::external_body]
    pub fn peek(&self) -> (r: char)
        ensures r == (if self.rest().len() > 0 { self.rest()[0] } else { '\0' }),
    { unimplemented!() }
    /// `Input::skip`: drops the buffered character (a padding `'\0'` when the iterator is exhausted)
    #[verifier::external_body]
    pub fn skip(&mut self)
        ensures final(self).rest() == (if old(self).rest().len() > 0 { old(self).rest().skip(1) } else { old(self).rest() }),
    { unimplemented!() }
}
/// saphyr-parser src/char_traits.rs `is_yaml_non_space`: not a line break, not the BOM, not blank (the end-of-input padding `'\0'` is NOT excluded)
pub open spec fn sp_yaml_non_space(c: char) -> bool { c != '\n' && c != '\r' && c != '\u{FEFF}' && c != ' ' && c != '\t' }
#[verifier::external_body]
fn is_yaml_non_space(c: char) -> (r: bool) ensures r == sp_yaml_non_space(c), { unimplemented!() }
/// `char::len_utf8`
#[verifier::external_body]
fn char_len_utf8(c: char) -> (r: usize) ensures 1 <= r <= 4, { c.len_utf8() }
/// `String::push`
#[verifier::external_body]
fn string_push_char(out: &mut String, c: char) ensures final(out)@ == old(out)@.push(c), { out.push(c) }
