// ===== spec library for unit `live`: recording of anchored subtrees =====

/// what `record` does to one open recording frame
spec fn frame_pushed<'a>(f: RecFrame<'a>, g: RecFrame<'a>, ev: Ev<'a>) -> bool {
    g.id == f.id && g.depth == f.depth && g.buf@ == f.buf@.push(ev)
}

impl<'a> LiveEvents<'a> {
    /// everything except the recording stack is the same
    spec fn same_but_rec_stack(&self, o: &LiveEvents<'a>) -> bool {
        &&& self.parser == o.parser && self.input == o.input
        &&& self.produced_any_in_doc == o.produced_any_in_doc && self.synthesized_null_emitted == o.synthesized_null_emitted
        &&& self.look == o.look && self.inject == o.inject && self.anchors == o.anchors
        &&& self.budget == o.budget && self.budget_report == o.budget_report && self.budget_report_cb == o.budget_report_cb
        &&& self.last_location == o.last_location && self.alias_limits == o.alias_limits
        &&& self.total_replayed_events == o.total_replayed_events && self.per_anchor_expansions == o.per_anchor_expansions
        &&& self.stop_at_doc_end == o.stop_at_doc_end && self.seen_doc_end == o.seen_doc_end && self.error == o.error
    }
}

/// `record`: which frames receive the event
spec fn recorded_into(i: int, n: int, is_start: bool, seeded_new_frame: bool) -> bool {
    !(is_start && seeded_new_frame && i == n - 1)
}

impl<'a> LiveEvents<'a> {
    spec fn same_but_anchors(&self, o: &LiveEvents<'a>) -> bool {
        &&& self.parser == o.parser && self.input == o.input
        &&& self.produced_any_in_doc == o.produced_any_in_doc && self.synthesized_null_emitted == o.synthesized_null_emitted
        &&& self.look == o.look && self.inject == o.inject && self.rec_stack == o.rec_stack
        &&& self.budget == o.budget && self.budget_report == o.budget_report && self.budget_report_cb == o.budget_report_cb
        &&& self.last_location == o.last_location && self.alias_limits == o.alias_limits
        &&& self.total_replayed_events == o.total_replayed_events && self.per_anchor_expansions == o.per_anchor_expansions
        &&& self.stop_at_doc_end == o.stop_at_doc_end && self.seen_doc_end == o.seen_doc_end && self.error == o.error
    }
    spec fn same_but_rec_and_anchors(&self, o: &LiveEvents<'a>) -> bool {
        &&& self.parser == o.parser && self.input == o.input
        &&& self.produced_any_in_doc == o.produced_any_in_doc && self.synthesized_null_emitted == o.synthesized_null_emitted
        &&& self.look == o.look && self.inject == o.inject
        &&& self.budget == o.budget && self.budget_report == o.budget_report && self.budget_report_cb == o.budget_report_cb
        &&& self.last_location == o.last_location && self.alias_limits == o.alias_limits
        &&& self.total_replayed_events == o.total_replayed_events && self.per_anchor_expansions == o.per_anchor_expansions
        &&& self.stop_at_doc_end == o.stop_at_doc_end && self.seen_doc_end == o.seen_doc_end && self.error == o.error
    }
}

/// anchors table grown (never shrunk), old slots kept, new slots empty
spec fn anchors_grown<'a>(old_a: Seq<Option<Box<[Ev<'a>]>>>, new_a: Seq<Option<Box<[Ev<'a>]>>>) -> bool {
    &&& new_a.len() >= old_a.len()
    &&& forall|j: int| 0 <= j < old_a.len() ==> new_a[j] == old_a[j]
    &&& forall|j: int| old_a.len() <= j < new_a.len() ==> new_a[j] is None
}

/// number of frames that stay open when a container closes: frames at the top whose depth is
/// exactly 1 are finished by this end event
spec fn open_after_end(fs: Seq<RecFrame<'_>>) -> int
    decreases fs.len()
{
    if fs.len() == 0 { 0 } else if fs.last().depth == 1 { open_after_end(fs.drop_last()) } else { fs.len() as int }
}

proof fn lemma_open_after_end(fs: Seq<RecFrame<'_>>)
    ensures
        0 <= open_after_end(fs) <= fs.len(),
        forall|j: int| open_after_end(fs) <= j < fs.len() ==> fs[j].depth == 1,
        open_after_end(fs) > 0 ==> fs[open_after_end(fs) - 1].depth != 1,
    decreases fs.len(),
{
    if fs.len() > 0 && fs.last().depth == 1 {
        lemma_open_after_end(fs.drop_last());
        assert forall|j: int| open_after_end(fs) <= j < fs.len() implies fs[j].depth == 1 by {
            if j < fs.len() - 1 { assert(fs.drop_last()[j] == fs[j]); }
        }
        if open_after_end(fs) > 0 { assert(fs.drop_last()[open_after_end(fs) - 1] == fs[open_after_end(fs) - 1]); }
    }
}

/// recording frames are nested: an outer (lower) frame is at least as deep as an inner one
spec fn frames_nested(fs: Seq<RecFrame<'_>>) -> bool {
    forall|a: int, b: int| 0 <= a <= b < fs.len() ==> (#[trigger] fs[a]).depth >= (#[trigger] fs[b]).depth
}

impl<'a> LiveEvents<'a> {
    /// Prophecy view of the event pump: the events `next_impl` will still deliver from this state
    /// (the pump is deterministic in the state; only `next_impl`'s contract constrains this function).
    uninterp spec fn pump_future(&self) -> Seq<Ev<'a>>;

    spec fn same_but_look_and_last(&self, o: &LiveEvents<'a>) -> bool {
        &&& self.parser == o.parser && self.input == o.input
        &&& self.produced_any_in_doc == o.produced_any_in_doc && self.synthesized_null_emitted == o.synthesized_null_emitted
        &&& self.inject == o.inject && self.anchors == o.anchors && self.rec_stack == o.rec_stack
        &&& self.budget == o.budget && self.budget_report == o.budget_report && self.budget_report_cb == o.budget_report_cb
        &&& self.alias_limits == o.alias_limits
        &&& self.total_replayed_events == o.total_replayed_events && self.per_anchor_expansions == o.per_anchor_expansions
        &&& self.stop_at_doc_end == o.stop_at_doc_end && self.seen_doc_end == o.seen_doc_end && self.error == o.error
    }
}
