// ===== spec library for unit `live`: recording of anchored subtrees =====

/// what `record` does to one open recording frame
spec fn frame_pushed<'a>(f: RecFrame<'a>, g: RecFrame<'a>, ev: Ev<'a>) -> bool {
    g.id == f.id && g.depth == f.depth && g.buf@ == f.buf@.push(ev)
}

impl<'a> LiveEvents<'a> {
    /// everything except the recording stack is the same
    spec fn same_but_rec_stack(&self, o: &LiveEvents<'a>) -> bool {
        &&& self.parser == o.parser && self.input == o.input
        &&& self.produced_any_in_doc == o.produced_any_in_doc && self.synthesized_null_emitted == o.synthesized_null_emitted
        &&& self.look == o.look && self.inject == o.inject && self.anchors == o.anchors
        &&& self.budget == o.budget && self.budget_report == o.budget_report && self.budget_report_cb == o.budget_report_cb
        &&& self.last_location == o.last_location && self.alias_limits == o.alias_limits
        &&& self.total_replayed_events == o.total_replayed_events && self.per_anchor_expansions == o.per_anchor_expansions
        &&& self.stop_at_doc_end == o.stop_at_doc_end && self.seen_doc_end == o.seen_doc_end && self.error == o.error
    }
}

/// `record`: which frames receive the event
spec fn recorded_into(i: int, n: int, is_start: bool, seeded_new_frame: bool) -> bool {
    !(is_start && seeded_new_frame && i == n - 1)
}

impl<'a> LiveEvents<'a> {
    spec fn same_but_anchors(&self, o: &LiveEvents<'a>) -> bool {
        &&& self.parser == o.parser && self.input == o.input
        &&& self.produced_any_in_doc == o.produced_any_in_doc && self.synthesized_null_emitted == o.synthesized_null_emitted
        &&& self.look == o.look && self.inject == o.inject && self.rec_stack == o.rec_stack
        &&& self.budget == o.budget && self.budget_report == o.budget_report && self.budget_report_cb == o.budget_report_cb
        &&& self.last_location == o.last_location && self.alias_limits == o.alias_limits
        &&& self.total_replayed_events == o.total_replayed_events && self.per_anchor_expansions == o.per_anchor_expansions
        &&& self.stop_at_doc_end == o.stop_at_doc_end && self.seen_doc_end == o.seen_doc_end && self.error == o.error
    }
    spec fn same_but_rec_and_anchors(&self, o: &LiveEvents<'a>) -> bool {
        &&& self.parser == o.parser && self.input == o.input
        &&& self.produced_any_in_doc == o.produced_any_in_doc && self.synthesized_null_emitted == o.synthesized_null_emitted
        &&& self.look == o.look && self.inject == o.inject
        &&& self.budget == o.budget && self.budget_report == o.budget_report && self.budget_report_cb == o.budget_report_cb
        &&& self.last_location == o.last_location && self.alias_limits == o.alias_limits
        &&& self.total_replayed_events == o.total_replayed_events && self.per_anchor_expansions == o.per_anchor_expansions
        &&& self.stop_at_doc_end == o.stop_at_doc_end && self.seen_doc_end == o.seen_doc_end && self.error == o.error
    }
}

/// anchors table grown (never shrunk), old slots kept, new slots empty
spec fn anchors_grown<'a>(old_a: Seq<Option<Box<[Ev<'a>]>>>, new_a: Seq<Option<Box<[Ev<'a>]>>>) -> bool {
    &&& new_a.len() >= old_a.len()
    &&& forall|j: int| 0 <= j < old_a.len() ==> new_a[j] == old_a[j]
    &&& forall|j: int| old_a.len() <= j < new_a.len() ==> new_a[j] is None
}

/// number of frames that stay open when a container closes: frames at the top whose depth is
/// exactly 1 are finished by this end event
spec fn open_after_end(fs: Seq<RecFrame<'_>>) -> int
    decreases fs.len()
{
    if fs.len() == 0 { 0 } else if fs.last().depth == 1 { open_after_end(fs.drop_last()) } else { fs.len() as int }
}

proof fn lemma_open_after_end(fs: Seq<RecFrame<'_>>)
    ensures
        0 <= open_after_end(fs) <= fs.len(),
        forall|j: int| open_after_end(fs) <= j < fs.len() ==> fs[j].depth == 1,
        open_after_end(fs) > 0 ==> fs[open_after_end(fs) - 1].depth != 1,
    decreases fs.len(),
{
    if fs.len() > 0 && fs.last().depth == 1 {
        lemma_open_after_end(fs.drop_last());
        assert forall|j: int| open_after_end(fs) <= j < fs.len() implies fs[j].depth == 1 by {
            if j < fs.len() - 1 { assert(fs.drop_last()[j] == fs[j]); }
        }
        if open_after_end(fs) > 0 { assert(fs.drop_last()[open_after_end(fs) - 1] == fs[open_after_end(fs) - 1]); }
    }
}

/// recording frames are nested: an outer (lower) frame is at least as deep as an inner one
spec fn frames_nested(fs: Seq<RecFrame<'_>>) -> bool {
    forall|a: int, b: int| 0 <= a <= b < fs.len() ==> (#[trigger] fs[a]).depth >= (#[trigger] fs[b]).depth
}

impl<'a> LiveEvents<'a> {
    /// Prophecy view of the event pump: the events `next_impl` will still deliver from this state.
    /// The pump is deterministic in its state; only `next_impl`'s (assumed) contract constrains this
    /// function.  It deliberately ignores `look` and `last_location` (assumption: the pump reads
    /// `last_location` only for error locations and for the location of the end-of-input null).
    spec fn pump_future(&self) -> Seq<Ev<'a>> {
        pump_of(self.parser, self.inject@, self.anchors@, self.rec_stack@, self.budget, self.alias_limits,
                self.total_replayed_events, self.per_anchor_expansions@, self.stop_at_doc_end, self.seen_doc_end,
                self.produced_any_in_doc, self.synthesized_null_emitted)
    }

    spec fn same_but_look_and_last(&self, o: &LiveEvents<'a>) -> bool {
        &&& self.parser == o.parser && self.input == o.input
        &&& self.produced_any_in_doc == o.produced_any_in_doc && self.synthesized_null_emitted == o.synthesized_null_emitted
        &&& self.inject == o.inject && self.anchors == o.anchors && self.rec_stack == o.rec_stack
        &&& self.budget == o.budget && self.budget_report == o.budget_report && self.budget_report_cb == o.budget_report_cb
        &&& self.alias_limits == o.alias_limits
        &&& self.total_replayed_events == o.total_replayed_events && self.per_anchor_expansions == o.per_anchor_expansions
        &&& self.stop_at_doc_end == o.stop_at_doc_end && self.seen_doc_end == o.seen_doc_end && self.error == o.error
    }
}

// ---- skipping to the next document (C11) ----

/// How many raw items `skip_to_next_document` consumes, and whether it found a document start:
/// it stops after the first scan error, StreamEnd or DocumentStart, or when the parser is exhausted.
spec fn skip_scan(p: Seq<Result<(Event<'_>, ParserSpan), ScanError>>) -> (int, bool)
    decreases p.len()
{
    if p.len() == 0 { (0, false) }
    else { match p[0] {
        Err(_) => (1, false),
        Ok((ev, _)) => if ev is DocumentStart { (1, true) } else if ev is StreamEnd { (1, false) }
                       else { let (n, f) = skip_scan(p.skip(1)); (n + 1, f) },
    } }
}

uninterp spec fn pump_of<'a>(parser: SaphyrParser<'a>, inject: Seq<InjectFrame>, anchors: Seq<Option<Box<[Ev<'a>]>>>,
    rec_stack: Seq<RecFrame<'a>>, budget: Option<BudgetEnforcer>, alias_limits: AliasLimits, total: usize,
    per_anchor: Seq<usize>, stop_at_doc_end: bool, seen_doc_end: bool, produced_any: bool, synthesized: bool) -> Seq<Ev<'a>>;

/// the raw event under which a replayed event is charged to the budget (no anchor, no tag)
spec fn replay_charge_matches(ev: Ev<'_>, raw: Event<'_>) -> bool {
    match ev {
        Ev::Scalar { value, style, .. } => match raw {
            Event::Scalar(v, s, a, t) => v@ == value@ && v.byte_len() == value.byte_len() && s == style && a == 0 && t is None,
            _ => false },
        Ev::SeqStart { .. } => raw == Event::SequenceStart(0, None),
        Ev::SeqEnd { .. } => raw == Event::SequenceEnd,
        Ev::MapStart { .. } => raw == Event::MappingStart(0, None),
        Ev::MapEnd { .. } => raw == Event::MappingEnd,
        Ev::Taken { .. } => false,
    }
}

/// parser contract: every item carries ordered marks below 4 GiB (precondition of location_from_span)
spec fn span_ok(sp: ParserSpan) -> bool {
    sp.start.offsets.chars <= sp.end.offsets.chars && sp.end.offsets.chars <= u32::MAX
        && sp.start.line <= u32::MAX && sp.start.col < u32::MAX
}
spec fn spans_ok(p: Seq<Result<(Event<'_>, ParserSpan), ScanError>>) -> bool {
    forall|i: int| 0 <= i < p.len() ==> match #[trigger] p[i] { Ok((_, sp)) => span_ok(sp), Err(_) => true }
}

proof fn lemma_skip_scan_step(p: Seq<Result<(Event<'_>, ParserSpan), ScanError>>)
    requires p.len() > 0,
    ensures match p[0] {
        Err(_) => skip_scan(p) == (1int, false),
        Ok((ev, _)) => if ev is DocumentStart { skip_scan(p) == (1int, true) } else if ev is StreamEnd { skip_scan(p) == (1int, false) }
                       else { skip_scan(p) == (skip_scan(p.skip(1)).0 + 1, skip_scan(p.skip(1)).1) } },
{
}
