// ===== spec library for unit `live`: recording of anchored subtrees =====

/// what `record` does to one open recording frame
spec fn frame_pushed<'a>(f: RecFrame<'a>, g: RecFrame<'a>, ev: Ev<'a>) -> bool {
    g.id == f.id && g.depth == f.depth && g.buf@ == f.buf@.push(ev)
}

impl<'a> LiveEvents<'a> {
    /// everything except the recording stack is the same
    spec fn same_but_rec_stack(&self, o: &LiveEvents<'a>) -> bool {
        &&& self.parser == o.parser && self.input == o.input
        &&& self.produced_any_in_doc == o.produced_any_in_doc && self.synthesized_null_emitted == o.synthesized_null_emitted
        &&& self.look == o.look && self.inject == o.inject && self.anchors == o.anchors
        &&& self.budget == o.budget && self.budget_report == o.budget_report && self.budget_report_cb == o.budget_report_cb
        &&& self.last_location == o.last_location && self.alias_limits == o.alias_limits
        &&& self.total_replayed_events == o.total_replayed_events && self.per_anchor_expansions == o.per_anchor_expansions
        &&& self.stop_at_doc_end == o.stop_at_doc_end && self.seen_doc_end == o.seen_doc_end && self.error == o.error
    }
}

/// `record`: which frames receive the event
spec fn recorded_into(i: int, n: int, is_start: bool, seeded_new_frame: bool) -> bool {
    !(is_start && seeded_new_frame && i == n - 1)
}

impl<'a> LiveEvents<'a> {
    spec fn same_but_anchors(&self, o: &LiveEvents<'a>) -> bool {
        &&& self.parser == o.parser && self.input == o.input
        &&& self.produced_any_in_doc == o.produced_any_in_doc && self.synthesized_null_emitted == o.synthesized_null_emitted
        &&& self.look == o.look && self.inject == o.inject && self.rec_stack == o.rec_stack
        &&& self.budget == o.budget && self.budget_report == o.budget_report && self.budget_report_cb == o.budget_report_cb
        &&& self.last_location == o.last_location && self.alias_limits == o.alias_limits
        &&& self.total_replayed_events == o.total_replayed_events && self.per_anchor_expansions == o.per_anchor_expansions
        &&& self.stop_at_doc_end == o.stop_at_doc_end && self.seen_doc_end == o.seen_doc_end && self.error == o.error
    }
    spec fn same_but_rec_and_anchors(&self, o: &LiveEvents<'a>) -> bool {
        &&& self.parser == o.parser && self.input == o.input
        &&& self.produced_any_in_doc == o.produced_any_in_doc && self.synthesized_null_emitted == o.synthesized_null_emitted
        &&& self.look == o.look && self.inject == o.inject
        &&& self.budget == o.budget && self.budget_report == o.budget_report && self.budget_report_cb == o.budget_report_cb
        &&& self.last_location == o.last_location && self.alias_limits == o.alias_limits
        &&& self.total_replayed_events == o.total_replayed_events && self.per_anchor_expansions == o.per_anchor_expansions
        &&& self.stop_at_doc_end == o.stop_at_doc_end && self.seen_doc_end == o.seen_doc_end && self.error == o.error
    }
}

/// anchors table grown (never shrunk), old slots kept, new slots empty
spec fn anchors_grown<'a>(old_a: Seq<Option<Box<[Ev<'a>]>>>, new_a: Seq<Option<Box<[Ev<'a>]>>>) -> bool {
    &&& new_a.len() >= old_a.len()
    &&& forall|j: int| 0 <= j < old_a.len() ==> new_a[j] == old_a[j]
    &&& forall|j: int| old_a.len() <= j < new_a.len() ==> new_a[j] is None
}

/// number of frames that stay open when a container closes: frames at the top whose depth is
/// exactly 1 are finished by this end event
spec fn open_after_end(fs: Seq<RecFrame<'_>>) -> int
    decreases fs.len()
{
    if fs.len() == 0 { 0 } else if fs.last().depth == 1 { open_after_end(fs.drop_last()) } else { fs.len() as int }
}

proof fn lemma_open_after_end(fs: Seq<RecFrame<'_>>)
    ensures
        0 <= open_after_end(fs) <= fs.len(),
        forall|j: int| open_after_end(fs) <= j < fs.len() ==> fs[j].depth == 1,
        open_after_end(fs) > 0 ==> fs[open_after_end(fs) - 1].depth != 1,
    decreases fs.len(),
{
    if fs.len() > 0 && fs.last().depth == 1 {
        lemma_open_after_end(fs.drop_last());
        assert forall|j: int| open_after_end(fs) <= j < fs.len() implies fs[j].depth == 1 by {
            if j < fs.len() - 1 { assert(fs.drop_last()[j] == fs[j]); }
        }
        if open_after_end(fs) > 0 { assert(fs.drop_last()[open_after_end(fs) - 1] == fs[open_after_end(fs) - 1]); }
    }
}

/// recording frames are nested: an outer (lower) frame is at least as deep as an inner one
spec fn frames_nested(fs: Seq<RecFrame<'_>>) -> bool {
    forall|a: int, b: int| 0 <= a <= b < fs.len() ==> (#[trigger] fs[a]).depth >= (#[trigger] fs[b]).depth
}

impl<'a> LiveEvents<'a> {
    /// Prophecy view of the event pump: the events `next_impl` will still deliver from this state.
    /// The pump is deterministic in its state; only `next_impl`'s (assumed) contract constrains this
    /// function.  It deliberately ignores `look` and `last_location` (assumption: the pump reads
    /// `last_location` only for error locations and for the location of the end-of-input null).
    spec fn pump_future(&self) -> Seq<Ev<'a>> {
        pump_of(self.parser, self.inject@, self.anchors@, self.rec_stack@, self.budget, self.alias_limits,
                self.total_replayed_events, self.per_anchor_expansions@, self.stop_at_doc_end, self.seen_doc_end,
                self.produced_any_in_doc, self.synthesized_null_emitted)
    }

    spec fn same_but_look_and_last(&self, o: &LiveEvents<'a>) -> bool {
        &&& self.parser == o.parser && self.input == o.input
        &&& self.produced_any_in_doc == o.produced_any_in_doc && self.synthesized_null_emitted == o.synthesized_null_emitted
        &&& self.inject == o.inject && self.anchors == o.anchors && self.rec_stack == o.rec_stack
        &&& self.budget == o.budget && self.budget_report == o.budget_report && self.budget_report_cb == o.budget_report_cb
        &&& self.alias_limits == o.alias_limits
        &&& self.total_replayed_events == o.total_replayed_events && self.per_anchor_expansions == o.per_anchor_expansions
        &&& self.stop_at_doc_end == o.stop_at_doc_end && self.seen_doc_end == o.seen_doc_end && self.error == o.error
    }
}

// ---- skipping to the next document (C11) ----

/// How many raw items `skip_to_next_document` consumes, and whether it found a document start:
/// it stops after the first scan error, StreamEnd or DocumentStart, or when the parser is exhausted.
spec fn skip_scan(p: Seq<Result<(Event<'_>, ParserSpan), ScanError>>) -> (int, bool)
    decreases p.len()
{
    if p.len() == 0 { (0, false) }
    else { match p[0] {
        Err(_) => (1, false),
        Ok((ev, _)) => if ev is DocumentStart { (1, true) } else if ev is StreamEnd { (1, false) }
                       else { let (n, f) = skip_scan(p.skip(1)); (n + 1, f) },
    } }
}

uninterp spec fn pump_of<'a>(parser: SaphyrParser<'a>, inject: Seq<InjectFrame>, anchors: Seq<Option<Box<[Ev<'a>]>>>,
    rec_stack: Seq<RecFrame<'a>>, budget: Option<BudgetEnforcer>, alias_limits: AliasLimits, total: usize,
    per_anchor: Seq<usize>, stop_at_doc_end: bool, seen_doc_end: bool, produced_any: bool, synthesized: bool) -> Seq<Ev<'a>>;

/// the raw event under which a replayed event is charged to the budget: no anchor (it was counted at its definition), and tagged exactly if
/// the recorded scalar was tagged (F47: a tagged `<<` is not a merge key, replayed or not)
spec fn replay_charge_matches(ev: Ev<'_>, raw: Event<'_>) -> bool {
    match ev {
        Ev::Scalar { value, style, raw_tag, .. } => match raw {
            Event::Scalar(v, s, a, t) => v@ == value@ && v.byte_len() == value.byte_len() && s == style && a == 0 && (t is None) == (raw_tag is None),
            _ => false },
        Ev::SeqStart { .. } => raw == Event::SequenceStart(0, None),
        Ev::SeqEnd { .. } => raw == Event::SequenceEnd,
        Ev::MapStart { .. } => raw == Event::MappingStart(0, None),
        Ev::MapEnd { .. } => raw == Event::MappingEnd,
        Ev::Taken { .. } => false,
    }
}

/// parser contract: every item carries ordered marks below 4 GiB (precondition of location_from_span)
spec fn span_ok(sp: ParserSpan) -> bool {
    sp.start.offsets.chars <= sp.end.offsets.chars && sp.end.offsets.chars <= u32::MAX
        && sp.start.line <= u32::MAX && sp.start.col < u32::MAX
}
spec fn spans_ok(p: Seq<Result<(Event<'_>, ParserSpan), ScanError>>) -> bool {
    forall|i: int| 0 <= i < p.len() ==> match #[trigger] p[i] { Ok((_, sp)) => span_ok(sp), Err(_) => true }
}

proof fn lemma_skip_scan_step(p: Seq<Result<(Event<'_>, ParserSpan), ScanError>>)
    requires p.len() > 0,
    ensures match p[0] {
        Err(_) => skip_scan(p) == (1int, false),
        Ok((ev, _)) => if ev is DocumentStart { skip_scan(p) == (1int, true) } else if ev is StreamEnd { skip_scan(p) == (1int, false) }
                       else { skip_scan(p) == (skip_scan(p.skip(1)).0 + 1, skip_scan(p.skip(1)).1) } },
{
}

// ---- representation invariant of the event pump (what next_impl relies on and re-establishes) ----

spec fn is_suffix<A>(small: Seq<A>, big: Seq<A>) -> bool {
    small.len() <= big.len() && big.skip(big.len() - small.len()) == small
}

/// open recording frames: small anchor ids, still open, and every inner frame's buffer is a
/// suffix of the enclosing frame's buffer (whatever was recorded since the inner anchor started was
/// also recorded for every enclosing anchor) -- the C02 recording invariant
#[verifier::opaque]
spec fn frames_ok(fs: Seq<RecFrame<'_>>) -> bool {
    &&& forall|a: int| 0 <= a < fs.len() ==> (#[trigger] fs[a]).id <= usize::MAX - 8
    &&& forall|j: int| 0 <= j < fs.len() ==> (#[trigger] fs[j]).depth >= 1 && fs[j].buf@.len() >= 1
    &&& forall|j: int| 0 <= j < fs.len() - 1 ==> is_suffix((#[trigger] fs[j + 1]).buf@, fs[j].buf@)
    &&& frames_nested(fs)
}

spec fn limits_lt_max(b: Budget) -> bool {
    b.max_events < usize::MAX && b.max_aliases < usize::MAX && b.max_nodes < usize::MAX
        && b.max_merge_keys < usize::MAX && b.max_documents < usize::MAX && b.max_depth < usize::MAX
}

#[verifier::opaque]
spec fn budget_ok(b: BudgetEnforcer) -> bool {
    b.inv() && within(b.abs(), b.budget, b.per_doc()) && limits_lt_max(b.budget)
        && (b.per_doc() || b.report.documents < usize::MAX)
}

/// parser contract: anchor ids are small (they are sequential counters)
spec fn anchor_ids_small(p: Seq<Result<(Event<'_>, ParserSpan), ScanError>>) -> bool {
    forall|i: int| 0 <= i < p.len() ==> match #[trigger] p[i] {
        Ok((Event::Scalar(_, _, id, _), _)) => id <= usize::MAX - 8,
        Ok((Event::SequenceStart(id, _), _)) => id <= usize::MAX - 8,
        Ok((Event::MappingStart(id, _), _)) => id <= usize::MAX - 8,
        Ok((Event::Alias(id), _)) => id <= usize::MAX - 8,
        _ => true }
}

impl<'a> LiveEvents<'a> {
    spec fn live_inv(&self) -> bool {
        &&& frames_ok(self.rec_stack@)
        &&& (self.budget is Some ==> budget_ok(self.budget.unwrap()))
        &&& spans_ok(self.parser.pending()) && anchor_ids_small(self.parser.pending())
        &&& self.inject@.len() <= self.alias_limits.max_replay_stack_depth
        &&& self.total_replayed_events <= self.alias_limits.max_total_replayed_events
    }

    /// "history shorter than 2^64": recording depth counters have room (assumed per call, not proved)
    spec fn live_room(&self) -> bool {
        forall|j: int| 0 <= j < self.rec_stack@.len() ==> (#[trigger] self.rec_stack@[j]).depth < usize::MAX
    }
}

proof fn lemma_budget_room(b: BudgetEnforcer)
    requires budget_ok(b),
    ensures b.room(), b.inv(), within(b.abs(), b.budget, b.per_doc()), limits_lt_max(b.budget),
{
    reveal(budget_ok);
}

proof fn lemma_budget_ok_intro(b: BudgetEnforcer)
    requires b.inv(), within(b.abs(), b.budget, b.per_doc()), limits_lt_max(b.budget),
    ensures budget_ok(b),
{
    reveal(budget_ok);
}

proof fn lemma_frames_facts(fs: Seq<RecFrame<'_>>)
    requires frames_ok(fs),
    ensures
        forall|a: int| 0 <= a < fs.len() ==> (#[trigger] fs[a]).id <= usize::MAX - 8 && fs[a].depth >= 1,
        frames_nested(fs),
{
    reveal(frames_ok);
}

proof fn lemma_frames_empty(fs: Seq<RecFrame<'_>>)
    requires fs.len() == 0,
    ensures frames_ok(fs),
{
    reveal(frames_ok);
}

spec fn ids_distinct(fs: Seq<RecFrame<'_>>) -> bool {
    forall|a: int, b: int| 0 <= a < fs.len() && 0 <= b < fs.len() && a != b ==> (#[trigger] fs[a]).id != (#[trigger] fs[b]).id
}

proof fn lemma_pending_tail(p: Seq<Result<(Event<'_>, ParserSpan), ScanError>>)
    requires p.len() > 0, spans_ok(p), anchor_ids_small(p),
    ensures spans_ok(p.skip(1)), anchor_ids_small(p.skip(1)),
{
    assert forall|i: int| 0 <= i < p.skip(1).len() implies p.skip(1)[i] == p[i + 1] by {}
    assert forall|i: int| 0 <= i < p.skip(1).len() implies match #[trigger] p.skip(1)[i] { Ok((_, sp)) => span_ok(sp), Err(_) => true } by {
        assert(p.skip(1)[i] == p[i + 1]);
    }
    assert forall|i: int| 0 <= i < p.skip(1).len() implies match #[trigger] p.skip(1)[i] {
        Ok((Event::Scalar(_, _, id, _), _)) => id <= usize::MAX - 8,
        Ok((Event::SequenceStart(id, _), _)) => id <= usize::MAX - 8,
        Ok((Event::MappingStart(id, _), _)) => id <= usize::MAX - 8,
        Ok((Event::Alias(id), _)) => id <= usize::MAX - 8,
        _ => true } by {
        assert(p.skip(1)[i] == p[i + 1]);
    }
}

proof fn lemma_suffix_push<A>(a: Seq<A>, b: Seq<A>, e: A)
    requires is_suffix(a, b),
    ensures is_suffix(a.push(e), b.push(e)),
{
    assert(b.push(e).skip(b.push(e).len() - a.push(e).len()) =~= b.skip(b.len() - a.len()).push(e));
}

/// frames after an event was recorded into every frame (depths may have moved together, staying >= 1 and nested)
proof fn lemma_frames_all_pushed(fs: Seq<RecFrame<'_>>, gs: Seq<RecFrame<'_>>, e: Ev<'_>)
    requires
        frames_ok(fs), gs.len() == fs.len(), frames_nested(gs),
        forall|j: int| 0 <= j < fs.len() ==> (#[trigger] gs[j]).id == fs[j].id && gs[j].buf@ == fs[j].buf@.push(e) && gs[j].depth >= 1,
    ensures frames_ok(gs),
{
    reveal(frames_ok);
    assert forall|j: int| 0 <= j < gs.len() - 1 implies is_suffix((#[trigger] gs[j + 1]).buf@, gs[j].buf@) by {
        assert(is_suffix(fs[j + 1].buf@, fs[j].buf@));
        lemma_suffix_push(fs[j + 1].buf@, fs[j].buf@, e);
    }
}

/// ... and a freshly seeded frame [e] on top
proof fn lemma_frames_with_new(fs: Seq<RecFrame<'_>>, gs: Seq<RecFrame<'_>>, e: Ev<'_>)
    requires
        frames_ok(fs), gs.len() == fs.len() + 1,
        forall|j: int| 0 <= j < fs.len() ==> (#[trigger] gs[j]).id == fs[j].id && gs[j].buf@ == fs[j].buf@.push(e) && gs[j].depth == fs[j].depth + 1,
        gs[gs.len() - 1].id <= usize::MAX - 8, gs[gs.len() - 1].depth == 1, gs[gs.len() - 1].buf@ == seq![e],
    ensures frames_ok(gs),
{
    reveal(frames_ok);
    let n = fs.len() as int;
    assert forall|j: int| 0 <= j < gs.len() - 1 implies is_suffix((#[trigger] gs[j + 1]).buf@, gs[j].buf@) by {
        if j + 1 < n {
            assert(is_suffix(fs[j + 1].buf@, fs[j].buf@));
            lemma_suffix_push(fs[j + 1].buf@, fs[j].buf@, e);
        } else {
            assert(gs[j].buf@.skip(gs[j].buf@.len() - 1) =~= seq![e]);
        }
    }
    assert forall|a: int, b: int| 0 <= a <= b < gs.len() implies (#[trigger] gs[a]).depth >= (#[trigger] gs[b]).depth by {
        if b < n { assert(fs[a].depth >= fs[b].depth); }
    }
}

/// frames that remain after a container end (bump_depth_on_end's postcondition)
proof fn lemma_frames_remaining(fs: Seq<RecFrame<'_>>, gs: Seq<RecFrame<'_>>)
    requires
        frames_ok(fs), gs.len() <= fs.len(), frames_nested(gs),
        forall|j: int| 0 <= j < gs.len() ==> (#[trigger] gs[j]).id == fs[j].id && gs[j].buf == fs[j].buf && gs[j].depth >= 1,
    ensures frames_ok(gs),
{
    reveal(frames_ok);
    assert forall|j: int| 0 <= j < gs.len() - 1 implies is_suffix((#[trigger] gs[j + 1]).buf@, gs[j].buf@) by {
        assert(is_suffix(fs[j + 1].buf@, fs[j].buf@));
    }
}
