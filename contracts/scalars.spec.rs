// ===== spec library for unit `scalars`: the integer notations of C06 as mathematics =====
// Written from the property statement: sign, decimal, 0x/0o/0b, `_` separators, optional legacy octal;
// the value is the mathematically exact one (nat / int), never a machine integer.

spec fn digit_val(b: u8) -> Option<nat> {
    if 0x30 <= b <= 0x39 { Some((b - 0x30) as nat) }
    else if 0x61 <= b <= 0x66 { Some((b - 0x61 + 10) as nat) }
    else if 0x41 <= b <= 0x46 { Some((b - 0x41 + 10) as nat) }
    else { None }
}

/// (value, saw at least one digit) of a digit string with `_` separators in the given radix;
/// None if some character is neither `_` nor a digit of that radix.
spec fn digits_spec(s: Seq<u8>, radix: nat) -> Option<(nat, bool)>
    decreases s.len()
{
    if s.len() == 0 { Some((0nat, false)) } else {
        match digits_spec(s.drop_last(), radix) {
            None => None,
            Some((v, saw)) => {
                let b = s.last();
                if b == 0x5f { Some((v, saw)) } else {
                    match digit_val(b) {
                        Some(d) => if d < radix { Some((v * radix + d, true)) } else { None },
                        None => None,
                    }
                }
            }
        }
    }
}

/// The number a digit string denotes (at least one digit required).
spec fn digits_value(s: Seq<u8>, radix: nat) -> Option<nat> {
    match digits_spec(s, radix) { Some((v, saw)) => if saw { Some(v) } else { None }, None => None }
}

proof fn lemma_digits_prefix(s: Seq<u8>, i: int, radix: nat)
    requires 0 <= i <= s.len(), radix >= 1,
    ensures
        digits_spec(s.take(i), radix) is None ==> digits_spec(s, radix) is None,
        (digits_spec(s.take(i), radix) is Some && digits_spec(s, radix) is Some) ==>
            digits_spec(s, radix).unwrap().0 >= digits_spec(s.take(i), radix).unwrap().0,
    decreases s.len() - i,
{
    if i == s.len() {
        assert(s.take(i) =~= s);
    } else {
        let t = s.drop_last();
        lemma_digits_prefix(t, i, radix);
        assert(t.take(i) =~= s.take(i));
        match digits_spec(t, radix) {
            None => {},
            Some((v, saw)) => {
                if s.last() != 0x5f {
                    match digit_val(s.last()) {
                        Some(d) => { if d < radix { assert(v * radix + d >= v) by(nonlinear_arith) requires radix >= 1, d >= 0, v >= 0; } },
                        None => {},
                    }
                }
            }
        }
    }
}

proof fn lemma_digits_step(s: Seq<u8>, i: int, radix: nat)
    requires 0 < i <= s.len(),
    ensures
        s.take(i).drop_last() =~= s.take(i - 1),
        s.take(i).last() == s[i - 1],
{
}

spec fn fits_u128(v: nat) -> bool { v <= u128::MAX }
spec fn fits_i128(v: int) -> bool { i128::MIN <= v <= i128::MAX }

spec fn has_prefix2(s: Seq<u8>, a: u8, b: u8) -> bool { s.len() >= 2 && s[0] == a && s[1] == b }

/// radix prefix table of the statement: 0x/0X, 0o/0O, 0b/0B; with legacy octal a leading "00".
spec fn radix_digits_spec(legacy_octal: bool, rest: Seq<u8>) -> (nat, Seq<u8>) {
    if has_prefix2(rest, 0x30, 0x78) || has_prefix2(rest, 0x30, 0x58) { (16, rest.skip(2)) }
    else if has_prefix2(rest, 0x30, 0x6f) || has_prefix2(rest, 0x30, 0x4f) { (8, rest.skip(2)) }
    else if has_prefix2(rest, 0x30, 0x62) || has_prefix2(rest, 0x30, 0x42) { (2, rest.skip(2)) }
    else if legacy_octal && has_prefix2(rest, 0x30, 0x30) {
        if rest.len() == 2 { (8, seq![0x30u8]) } else { (8, rest.skip(2)) }
    } else { (10, rest) }
}

/// sign handling: optional single `+` or `-`
spec fn sign_split(t: Seq<u8>) -> (bool, Seq<u8>) {
    if t.len() > 0 && t[0] == 0x2b { (false, t.skip(1)) }
    else if t.len() > 0 && t[0] == 0x2d { (true, t.skip(1)) }
    else { (false, t) }
}

/// The integer a (trimmed) token denotes, as a mathematical integer; None if it is not an integer token.
spec fn int_spec(t: Seq<u8>, legacy_octal: bool) -> Option<int> {
    let (neg, rest) = sign_split(t);
    let (radix, digits) = radix_digits_spec(legacy_octal, rest);
    match digits_value(digits, radix) {
        Some(v) => Some(if neg { -(v as int) } else { v as int }),
        None => None,
    }
}

/// Same for unsigned targets: a leading `-` is never accepted (not even "-0").
spec fn uint_spec(t: Seq<u8>, legacy_octal: bool) -> Option<int> {
    if t.len() > 0 && t[0] == 0x2d { None } else { int_spec(t, legacy_octal) }
}

proof fn lemma_lit2(p: &str, a: char, b: char)
    requires p@.len() == 2, p@[0] == a, p@[1] == b, (a as u32) < 128, (b as u32) < 128,
    ensures p.spec_bytes() == seq![a as u8, b as u8],
{
    is_ascii_chars_encode_utf8(p@);
    assert(p.spec_bytes() =~= seq![a as u8, b as u8]);
}

proof fn lemma_prefix2(s: Seq<u8>, a: u8, b: u8)
    ensures seq![a, b].is_prefix_of(s) == has_prefix2(s, a, b),
{
    if has_prefix2(s, a, b) { assert(s.subrange(0, 2) =~= seq![a, b]); }
    if seq![a, b].is_prefix_of(s) { assert(s.subrange(0, 2)[0] == a); assert(s.subrange(0, 2)[1] == b); }
}

proof fn lemma_boundary2(s: &str)
    requires has_prefix2(s.spec_bytes(), 0x30, 0x30),
    ensures is_char_boundary(s.spec_bytes(), 2),
{
    lemma_str_valid_utf8(s);
    reveal_with_fuel(is_char_boundary, 4);
    reveal_with_fuel(valid_utf8, 4);
}


/// RFC 4648 base64 alphabet (the statement's "strict canonical base64").
spec fn b64_sextet(b: u8) -> Option<u8> {
    if 0x41 <= b <= 0x5a { Some((b - 0x41) as u8) }
    else if 0x61 <= b <= 0x7a { Some((b - 0x61 + 26) as u8) }
    else if 0x30 <= b <= 0x39 { Some((b - 0x30 + 52) as u8) }
    else if b == 0x2b { Some(62u8) }
    else if b == 0x2f { Some(63u8) }
    else { None }
}
